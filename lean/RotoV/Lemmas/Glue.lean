/-
  Lemmas about the drop / clone glue model, over the loops the translator
  extracted from the current source (`Generated/GlueLoops.lean`).
-/
import RotoV.Model.Glue
import RotoV.Generated.GlueLoops

namespace RotoV.Glue
open RotoV.Gen.GlueLoops

def mkDrop (p : Nat × Nat) : Ev := .drop p.1 p.2
def mkClone (p : Nat × Nat × Nat) : Ev := .clone p.1 p.2.1 p.2.2

/-! ## One iteration of each extracted loop, in closed form -/

theorem run_dropRecord (lay : Layout) (nd : Bool) (root ret : Nat)
    (dropOf : Nat → List Ev) (cloneOf : Nat → Nat → List Ev) (b : Builder) :
    runSteps lay nd root ret dropOf cloneOf prog.dropRecord (Iter.start b lay false) =
      if nd then ⟨b.add lay, some lay, some (b.addOff lay), some (root + b.addOff lay), none, none,
                  dropOf (root + b.addOff lay)⟩
      else ⟨b.add lay, some lay, some (b.addOff lay), none, none, none, []⟩ := by
  cases nd <;> rfl

theorem run_dropEnum (lay : Layout) (nd : Bool) (root ret : Nat)
    (dropOf : Nat → List Ev) (cloneOf : Nat → Nat → List Ev) (b : Builder) :
    runSteps lay nd root ret dropOf cloneOf prog.dropEnum (Iter.start b lay true) =
      ⟨b.add lay, some lay, some (b.addOff lay), some (root + b.addOff lay), none, none,
       dropOf (root + b.addOff lay)⟩ := by
  rfl

theorem run_cloneRecord (lay : Layout) (nd : Bool) (root ret : Nat)
    (dropOf : Nat → List Ev) (cloneOf : Nat → Nat → List Ev) (b : Builder) :
    runSteps lay nd root ret dropOf cloneOf prog.cloneRecord (Iter.start b lay false) =
      ⟨b.add lay, some lay, some (b.addOff lay), none, some (ret + b.addOff lay),
       some (root + b.addOff lay), cloneOf (root + b.addOff lay) (ret + b.addOff lay)⟩ := by
  rfl

theorem run_cloneEnum (lay : Layout) (nd : Bool) (root ret : Nat)
    (dropOf : Nat → List Ev) (cloneOf : Nat → Nat → List Ev) (b : Builder) :
    runSteps lay nd root ret dropOf cloneOf prog.cloneEnum (Iter.start b lay true) =
      ⟨b.add lay, some lay, some (b.addOff lay), none, some (root + b.addOff lay),
       some (ret + b.addOff lay), cloneOf (root + b.addOff lay) (ret + b.addOff lay)⟩ := by
  rfl

theorem pre_dropEnum : runPre prog.dropEnumPre Builder.new = Builder.new.add tagLayout := rfl
theorem pre_cloneEnum : runPre prog.cloneEnumPre Builder.new = Builder.new.add tagLayout := rfl

/-! ## The extracted call decisions, in closed form -/

/-- `call_drop_of` as the source has it today: nothing unless `needs_drop`; the runtime function
    if there is one; the generated function (and its generation is requested) otherwise — whatever
    the size of the type -/
theorem callActs_dropCall (size : Nat) (needs rt : Bool) :
    callActs prog.dropCall ⟨size, needs, rt⟩ =
      if needs then (if rt then [.runtime] else [.callGen, .enqueue]) else [] := by
  cases needs <;> cases rt <;> rfl

/-- `call_clone_function` as the source has it today: the same decision, whatever the size; the
    size is looked at only for a type that needs no clone (`memcpy` of a positive size) -/
theorem callActs_cloneCall (size : Nat) (needs rt : Bool) :
    callActs prog.cloneCall ⟨size, needs, rt⟩ =
      if needs then (if rt then [.runtime] else [.callGen, .enqueue])
      else if size == 0 then [] else [.memcpy size] := by
  cases needs <;> cases rt <;> cases size <;> rfl

/-- the `memcpy` of a field that needs no clone -/
def copyEv (p q n : Nat) : List Ev := if n == 0 then [] else [.copy p q n]

theorem callDropOf_eq (ρ : Nat → Nat) (t : GTy) (p : Nat) :
    callDropOf prog t p (dropTy prog ρ t p) = if needsDrop t then dropTy prog ρ t p else [] := by
  unfold callDropOf callEnv
  rw [callActs_dropCall]
  cases t with
  | leaf id s a dr => cases dr <;> simp [needsDrop, isDrLeaf, dropTy]
  | record fs => cases h : anyDrop fs <;> simp [needsDrop, isDrLeaf, h]
  | enum vs => cases h : anyDropV vs <;> simp [needsDrop, isDrLeaf, h]

theorem callCloneOf_eq (ρ : Nat → Nat) (t : GTy) (p q : Nat) :
    callCloneOf prog t p q (cloneTy prog ρ t p q) =
      if needsDrop t then cloneTy prog ρ t p q else copyEv p q (layoutOf t).size := by
  unfold callCloneOf callEnv
  rw [callActs_cloneCall]
  cases t with
  | leaf id s a dr =>
    cases dr <;> simp [needsDrop, isDrLeaf, cloneTy, copyEv]
    split <;> simp
  | record fs =>
    cases h : anyDrop fs <;> simp [needsDrop, isDrLeaf, h, copyEv]
    split <;> simp
  | enum vs =>
    cases h : anyDropV vs <;> simp [needsDrop, isDrLeaf, h, copyEv]
    split <;> simp

/-! ## `needs_drop` = `needs_clone` = the closed form, from the extracted arms -/

/-- the two predicates have, kind by kind, the same arm -/
theorem armOf_drop_eq_clone (k : Kind) : armOf (arms .drop) k = armOf (arms .clone) k := by
  cases k <;> rfl

theorem needsBy_drop_eq_clone (κ : Nat → Kind) (cd : Nat → Bool) (t : GTy) :
    needsBy arms κ cd .drop t = needsBy arms κ cd .clone t := by
  cases t <;> simp only [needsBy, armOf_drop_eq_clone]

mutual
  theorem needsBy_eq (κ : Nat → Kind) (cd : Nat → Bool) :
      ∀ (f : Fn) (t : GTy), Kinded κ cd t = true → needsBy arms κ cd f t = needsDrop t
    | f, .leaf id s a dr, h => by
      simp only [Kinded, Bool.and_eq_true, beq_iff_eq] at h
      obtain ⟨hl, hd⟩ := h
      subst hd
      cases f <;> cases hk : κ id <;> simp only [hk, Kind.isLeaf] at hl <;>
        first
        | exact absurd hl (by decide)
        | (simp only [needsBy, needsDrop, hk]; rfl)
    | f, .record fs, h => by
      obtain ⟨g, hg⟩ : ∃ g, armOf (arms f) .record = some (.anyField g) := by
        cases f <;> exact ⟨_, rfl⟩
      simp only [needsBy, hg, needsDrop]
      exact anyBy_eq κ cd g fs (by simpa only [Kinded] using h)
    | f, .enum vs, h => by
      obtain ⟨g, hg⟩ : ∃ g, armOf (arms f) .enum = some (.anyVariantField g) := by
        cases f <;> exact ⟨_, rfl⟩
      simp only [needsBy, hg, needsDrop]
      exact anyVBy_eq κ cd g vs (by simpa only [Kinded] using h)
  theorem anyBy_eq (κ : Nat → Kind) (cd : Nat → Bool) :
      ∀ (g : Fn) (fs : GTys), KindedFs κ cd fs = true → anyBy arms κ cd g fs = anyDrop fs
    | _, .nil, _ => by simp only [anyBy, anyDrop]
    | g, .cons t ts, h => by
      simp only [KindedFs, Bool.and_eq_true] at h
      simp only [anyBy, anyDrop, needsBy_eq κ cd g t h.1, anyBy_eq κ cd g ts h.2]
  theorem anyVBy_eq (κ : Nat → Kind) (cd : Nat → Bool) :
      ∀ (g : Fn) (vs : GVars), KindedVs κ cd vs = true → anyVBy arms κ cd g vs = anyDropV vs
    | _, .nil, _ => by simp only [anyVBy, anyDropV]
    | g, .cons fs vs, h => by
      simp only [KindedVs, Bool.and_eq_true] at h
      simp only [anyVBy, anyDropV, anyBy_eq κ cd g fs h.1, anyVBy_eq κ cd g vs h.2]
end

/-- `get_runtime_drop` and `get_runtime_clone` find a function exactly for a `CloneDrop` leaf -/
theorem hasRuntimeBy_eq (κ : Nat → Kind) (cd : Nat → Bool) (t : GTy) (h : Kinded κ cd t = true) :
    hasRuntimeBy runtimeDropKinds κ cd t = isDrLeaf t
    ∧ hasRuntimeBy runtimeCloneKinds κ cd t = isDrLeaf t := by
  cases t with
  | leaf id s a dr =>
    simp only [Kinded, Bool.and_eq_true, beq_iff_eq] at h
    obtain ⟨hl, hd⟩ := h
    subst hd
    cases hk : κ id <;> simp only [hk, Kind.isLeaf] at hl <;>
      first
      | exact absurd hl (by decide)
      | (simp only [hasRuntimeBy, isDrLeaf, hk]; exact ⟨by cases cd id <;> rfl, by cases cd id <;> rfl⟩)
  | record fs => exact ⟨rfl, rfl⟩
  | enum vs => exact ⟨rfl, rfl⟩

/-- does the runtime lookup (`get_runtime_drop` / `get_runtime_clone`, extracted kinds `pats`) find a
    function for a type of kind `k` whose movability bit is `cd`? -/
def rtFound (pats : List KPat) (k : Kind) (cd : Bool) : Bool :=
  pats.any (·.matches k) && cloneDropOf k cd

/-- `generate_drop_body`, kind by kind: the runtime drop function for String, List and
    `CloneDrop` registered types; the field loop for records, the switch for enums; nothing for
    the rest. The `ice!` arm (a List without a runtime drop function) is never reached. -/
theorem dropBody_decided (k : Kind) (cd : Bool) :
    dropBody.body (rtFound runtimeDropKinds k cd) k =
      match k with
      | .string | .list => .runtime
      | .runtime => if cd then .runtime else .arm .ret
      | .record => .arm .recordLoop
      | .enum => .arm .enumSwitch
      | .unit | .never | .prim => .arm .ret := by
  cases k <;> cases cd <;> rfl

/-- `generate_clone_body`: the same, with a `memcpy` for a registered `Copy` type. -/
theorem cloneBody_decided (k : Kind) (cd : Bool) :
    cloneBody.body (rtFound runtimeCloneKinds k cd) k =
      match k with
      | .string | .list => .runtime
      | .runtime => if cd then .runtime else .arm .memcpyRet
      | .record => .arm .recordLoop
      | .enum => .arm .enumSwitch
      | .unit | .never | .prim => .arm .ret := by
  cases k <;> cases cd <;> rfl

/-! ## Types without droppable leaves -/

mutual
  theorem leaves_nil (ρ : Nat → Nat) : ∀ (t : GTy) (a : Nat), needsDrop t = false → leaves ρ t a = []
    | .leaf _ _ _ dr, a, h => by simp only [needsDrop] at h; simp [leaves, h]
    | .record fs, a, h => by
      simp only [needsDrop] at h; simp only [leaves]; exact leavesFields_nil ρ fs a _ h
    | .enum vs, a, h => by
      simp only [needsDrop] at h; simp only [leaves]; exact leavesVariants_nil ρ vs a _ h
  theorem leavesFields_nil (ρ : Nat → Nat) :
      ∀ (fs : GTys) (a : Nat) (b : Builder), anyDrop fs = false → leavesFields ρ fs a b = []
    | .nil, _, _, _ => by simp [leavesFields]
    | .cons t ts, a, b, h => by
      simp only [anyDrop, Bool.or_eq_false_iff] at h
      simp only [leavesFields, leaves_nil ρ t _ h.1, leavesFields_nil ρ ts a _ h.2, List.append_nil]
  theorem leavesVariants_nil (ρ : Nat → Nat) :
      ∀ (vs : GVars) (a k : Nat), anyDropV vs = false → leavesVariants ρ vs a k = []
    | .nil, _, _, _ => by simp [leavesVariants]
    | .cons fs .nil, a, k, h => by
      simp only [anyDropV, Bool.or_eq_false_iff] at h
      simp only [leavesVariants]; exact leavesFields_nil ρ fs a _ h.1
    | .cons fs (.cons fs' vs'), a, 0, h => by
      simp only [anyDropV, Bool.or_eq_false_iff] at h
      simp only [leavesVariants]; exact leavesFields_nil ρ fs a _ h.1
    | .cons fs (.cons fs' vs'), a, k + 1, h => by
      have h' : anyDropV (.cons fs' vs') = false := by
        simp only [anyDropV, Bool.or_eq_false_iff] at h ⊢; exact h.2
      simp only [leavesVariants]; exact leavesVariants_nil ρ (.cons fs' vs') a k h'
end

mutual
  theorem leaves2_nil (ρ : Nat → Nat) :
      ∀ (t : GTy) (s d : Nat), needsDrop t = false → leaves2 ρ t s d = []
    | .leaf _ _ _ dr, s, d, h => by simp only [needsDrop] at h; simp [leaves2, h]
    | .record fs, s, d, h => by
      simp only [needsDrop] at h; simp only [leaves2]; exact leaves2Fields_nil ρ fs s d _ h
    | .enum vs, s, d, h => by
      simp only [needsDrop] at h; simp only [leaves2]; exact leaves2Variants_nil ρ vs s d _ h
  theorem leaves2Fields_nil (ρ : Nat → Nat) :
      ∀ (fs : GTys) (s d : Nat) (b : Builder), anyDrop fs = false → leaves2Fields ρ fs s d b = []
    | .nil, _, _, _, _ => by simp [leaves2Fields]
    | .cons t ts, s, d, b, h => by
      simp only [anyDrop, Bool.or_eq_false_iff] at h
      simp only [leaves2Fields, leaves2_nil ρ t _ _ h.1, leaves2Fields_nil ρ ts s d _ h.2,
        List.append_nil]
  theorem leaves2Variants_nil (ρ : Nat → Nat) :
      ∀ (vs : GVars) (s d k : Nat), anyDropV vs = false → leaves2Variants ρ vs s d k = []
    | .nil, _, _, _, _ => by simp [leaves2Variants]
    | .cons fs .nil, s, d, k, h => by
      simp only [anyDropV, Bool.or_eq_false_iff] at h
      simp only [leaves2Variants]; exact leaves2Fields_nil ρ fs s d _ h.1
    | .cons fs (.cons fs' vs'), s, d, 0, h => by
      simp only [anyDropV, Bool.or_eq_false_iff] at h
      simp only [leaves2Variants]; exact leaves2Fields_nil ρ fs s d _ h.1
    | .cons fs (.cons fs' vs'), s, d, k + 1, h => by
      have h' : anyDropV (.cons fs' vs') = false := by
        simp only [anyDropV, Bool.or_eq_false_iff] at h ⊢; exact h.2
      simp only [leaves2Variants]; exact leaves2Variants_nil ρ (.cons fs' vs') s d k h'
end

/-! ## Drop = the leaves -/

mutual
  theorem dropTy_eq (ρ : Nat → Nat) :
      ∀ (t : GTy) (a : Nat), dropTy prog ρ t a = (leaves ρ t a).map mkDrop
    | .leaf _ _ _ dr, a => by cases dr <;> simp [dropTy, leaves, mkDrop]
    | .record fs, a => by simp only [dropTy, leaves]; exact dropFields_eq ρ fs a _
    | .enum vs, a => by simp only [dropTy, leaves]; exact dropVariants_eq ρ vs a _
  theorem dropFields_eq (ρ : Nat → Nat) :
      ∀ (fs : GTys) (a : Nat) (b : Builder),
        dropFields prog ρ fs a b = (leavesFields ρ fs a b).map mkDrop
    | .nil, _, _ => by simp [dropFields, leavesFields]
    | .cons t ts, a, b => by
      simp only [dropFields, leavesFields, List.map_append, run_dropRecord, callDropOf_eq ρ t]
      cases hnd : needsDrop t with
      | true =>
        simp only [if_true, dropTy_eq ρ t, dropFields_eq ρ ts]
      | false =>
        simp only [leaves_nil ρ t _ hnd, dropFields_eq ρ ts, List.map_nil, List.nil_append]
        simp
  theorem dropVariants_eq (ρ : Nat → Nat) :
      ∀ (vs : GVars) (a k : Nat),
        dropVariants prog ρ vs a k = (leavesVariants ρ vs a k).map mkDrop
    | .nil, _, _ => by simp [dropVariants, leavesVariants]
    | .cons fs .nil, a, k => by
      simp only [dropVariants, leavesVariants, pre_dropEnum]; exact dropVFields_eq ρ fs a _
    | .cons fs (.cons fs' vs'), a, 0 => by
      simp only [dropVariants, leavesVariants, pre_dropEnum]; exact dropVFields_eq ρ fs a _
    | .cons fs (.cons fs' vs'), a, k + 1 => by
      simp only [dropVariants, leavesVariants]; exact dropVariants_eq ρ (.cons fs' vs') a k
  theorem dropVFields_eq (ρ : Nat → Nat) :
      ∀ (fs : GTys) (a : Nat) (b : Builder),
        dropVFields prog ρ fs a b = (leavesFields ρ fs a b).map mkDrop
    | .nil, _, _ => by simp [dropVFields, leavesFields]
    | .cons t ts, a, b => by
      simp only [dropVFields, leavesFields, List.map_append, run_dropEnum, callDropOf_eq ρ t]
      cases hnd : needsDrop t with
      | true =>
        simp only [if_true, dropTy_eq ρ t, dropVFields_eq ρ ts]
      | false =>
        simp only [leaves_nil ρ t _ hnd, dropVFields_eq ρ ts, List.map_nil, List.nil_append]
        simp
end

/-! ## Clone creates the leaves -/

theorem cloned_append (xs ys : List Ev) : cloned (xs ++ ys) = cloned xs ++ cloned ys := by
  induction xs with
  | nil => rfl
  | cons e es ih => cases e <;> simp [cloned, ih]

def noStuck (es : List Ev) : Bool := es.all (fun e => !e.isStuck)

@[simp] theorem cloned_copyEv (p q n : Nat) : cloned (copyEv p q n) = [] := by
  unfold copyEv; split <;> rfl

@[simp] theorem noStuck_copyEv (p q n : Nat) : noStuck (copyEv p q n) = true := by
  unfold copyEv; split <;> rfl

theorem noStuck_append (xs ys : List Ev) : noStuck (xs ++ ys) = (noStuck xs && noStuck ys) := by
  simp [noStuck, List.all_append]

mutual
  theorem cloneTy_cloned (ρ : Nat → Nat) :
      ∀ (t : GTy) (s d : Nat), cloned (cloneTy prog ρ t s d) = leaves2 ρ t s d
    | .leaf _ _ _ dr, s, d => by cases dr <;> simp [cloneTy, leaves2, cloned]
    | .record fs, s, d => by simp only [cloneTy, leaves2]; exact cloneFields_cloned ρ fs s d _
    | .enum vs, s, d => by
      simp only [cloneTy, leaves2, cloned]; exact cloneVariants_cloned ρ vs s d _
  theorem cloneFields_cloned (ρ : Nat → Nat) :
      ∀ (fs : GTys) (s d : Nat) (b : Builder),
        cloned (cloneFields prog ρ fs s d b) = leaves2Fields ρ fs s d b
    | .nil, _, _, _ => by simp [cloneFields, leaves2Fields, cloned]
    | .cons t ts, s, d, b => by
      simp only [cloneFields, leaves2Fields, run_cloneRecord, cloned_append, callCloneOf_eq ρ t]
      cases hnd : needsDrop t with
      | true => simp only [if_true, cloneTy_cloned ρ t, cloneFields_cloned ρ ts]
      | false =>
        simp only [leaves2_nil ρ t _ _ hnd, cloneFields_cloned ρ ts]
        simp
  theorem cloneVariants_cloned (ρ : Nat → Nat) :
      ∀ (vs : GVars) (s d k : Nat),
        cloned (cloneVariants prog ρ vs s d k) = leaves2Variants ρ vs s d k
    | .nil, _, _, _ => by simp [cloneVariants, leaves2Variants, cloned]
    | .cons fs .nil, s, d, k => by
      simp only [cloneVariants, leaves2Variants, pre_cloneEnum]; exact cloneVFields_cloned ρ fs s d _
    | .cons fs (.cons fs' vs'), s, d, 0 => by
      simp only [cloneVariants, leaves2Variants, pre_cloneEnum]; exact cloneVFields_cloned ρ fs s d _
    | .cons fs (.cons fs' vs'), s, d, k + 1 => by
      simp only [cloneVariants, leaves2Variants]; exact cloneVariants_cloned ρ (.cons fs' vs') s d k
  theorem cloneVFields_cloned (ρ : Nat → Nat) :
      ∀ (fs : GTys) (s d : Nat) (b : Builder),
        cloned (cloneVFields prog ρ fs s d b) = leaves2Fields ρ fs s d b
    | .nil, _, _, _ => by simp [cloneVFields, leaves2Fields, cloned]
    | .cons t ts, s, d, b => by
      simp only [cloneVFields, leaves2Fields, run_cloneEnum, cloned_append, callCloneOf_eq ρ t]
      cases hnd : needsDrop t with
      | true => simp only [if_true, cloneTy_cloned ρ t, cloneVFields_cloned ρ ts]
      | false =>
        simp only [leaves2_nil ρ t _ _ hnd, cloneVFields_cloned ρ ts]
        simp
end

mutual
  theorem cloneTy_noStuck (ρ : Nat → Nat) :
      ∀ (t : GTy) (s d : Nat), noStuck (cloneTy prog ρ t s d) = true
    | .leaf _ _ _ dr, s, d => by cases dr <;> simp [cloneTy, noStuck, Ev.isStuck]
    | .record fs, s, d => by simp only [cloneTy]; exact cloneFields_noStuck ρ fs s d _
    | .enum vs, s, d => by
      simp only [cloneTy]
      have := cloneVariants_noStuck ρ vs s d (ρ s)
      simpa [noStuck, Ev.isStuck] using this
  theorem cloneFields_noStuck (ρ : Nat → Nat) :
      ∀ (fs : GTys) (s d : Nat) (b : Builder), noStuck (cloneFields prog ρ fs s d b) = true
    | .nil, _, _, _ => by simp [cloneFields, noStuck]
    | .cons t ts, s, d, b => by
      simp only [cloneFields, run_cloneRecord, noStuck_append, cloneFields_noStuck ρ ts,
        Bool.and_true, callCloneOf_eq ρ t]
      cases hnd : needsDrop t with
      | true => simp only [if_true, cloneTy_noStuck ρ t]
      | false => simp
  theorem cloneVariants_noStuck (ρ : Nat → Nat) :
      ∀ (vs : GVars) (s d k : Nat), noStuck (cloneVariants prog ρ vs s d k) = true
    | .nil, _, _, _ => by simp [cloneVariants, noStuck]
    | .cons fs .nil, s, d, k => by
      simp only [cloneVariants]; exact cloneVFields_noStuck ρ fs s d _
    | .cons fs (.cons fs' vs'), s, d, 0 => by
      simp only [cloneVariants]; exact cloneVFields_noStuck ρ fs s d _
    | .cons fs (.cons fs' vs'), s, d, k + 1 => by
      simp only [cloneVariants]; exact cloneVariants_noStuck ρ (.cons fs' vs') s d k
  theorem cloneVFields_noStuck (ρ : Nat → Nat) :
      ∀ (fs : GTys) (s d : Nat) (b : Builder), noStuck (cloneVFields prog ρ fs s d b) = true
    | .nil, _, _, _ => by simp [cloneVFields, noStuck]
    | .cons t ts, s, d, b => by
      simp only [cloneVFields, run_cloneEnum, noStuck_append, cloneVFields_noStuck ρ ts,
        Bool.and_true, callCloneOf_eq ρ t]
      cases hnd : needsDrop t with
      | true => simp only [if_true, cloneTy_noStuck ρ t]
      | false => simp
end

/-! ## The parallel walk projects onto the leaves of the source and of the copy -/

def srcOf (x : Nat × Nat × Nat) : Nat × Nat := (x.1, x.2.2)
def dstOf (x : Nat × Nat × Nat) : Nat × Nat := (x.2.1, x.2.2)

mutual
  theorem leaves2_src (ρ : Nat → Nat) :
      ∀ (t : GTy) (s d : Nat), (leaves2 ρ t s d).map srcOf = leaves ρ t s
    | .leaf _ _ _ dr, s, d => by cases dr <;> simp [leaves2, leaves, srcOf]
    | .record fs, s, d => by simp only [leaves2, leaves]; exact leaves2Fields_src ρ fs s d _
    | .enum vs, s, d => by simp only [leaves2, leaves]; exact leaves2Variants_src ρ vs s d _
  theorem leaves2Fields_src (ρ : Nat → Nat) :
      ∀ (fs : GTys) (s d : Nat) (b : Builder),
        (leaves2Fields ρ fs s d b).map srcOf = leavesFields ρ fs s b
    | .nil, _, _, _ => by simp [leaves2Fields, leavesFields]
    | .cons t ts, s, d, b => by
      simp only [leaves2Fields, leavesFields, List.map_append, leaves2_src ρ t,
        leaves2Fields_src ρ ts]
  theorem leaves2Variants_src (ρ : Nat → Nat) :
      ∀ (vs : GVars) (s d k : Nat),
        (leaves2Variants ρ vs s d k).map srcOf = leavesVariants ρ vs s k
    | .nil, _, _, _ => by simp [leaves2Variants, leavesVariants]
    | .cons fs .nil, s, d, k => by
      simp only [leaves2Variants, leavesVariants]; exact leaves2Fields_src ρ fs s d _
    | .cons fs (.cons fs' vs'), s, d, 0 => by
      simp only [leaves2Variants, leavesVariants]; exact leaves2Fields_src ρ fs s d _
    | .cons fs (.cons fs' vs'), s, d, k + 1 => by
      simp only [leaves2Variants, leavesVariants]; exact leaves2Variants_src ρ (.cons fs' vs') s d k
end

mutual
  theorem leaves2_dst (ρ ρ' : Nat → Nat) :
      ∀ (t : GTy) (s d : Nat), (∀ o, ρ' (d + o) = ρ (s + o)) →
        (leaves2 ρ t s d).map dstOf = leaves ρ' t d
    | .leaf _ _ _ dr, s, d, _ => by cases dr <;> simp [leaves2, leaves, dstOf]
    | .record fs, s, d, H => by
      simp only [leaves2, leaves]; exact leaves2Fields_dst ρ ρ' fs s d _ H
    | .enum vs, s, d, H => by
      have h0 : ρ' d = ρ s := by simpa using H 0
      simp only [leaves2, leaves, h0]; exact leaves2Variants_dst ρ ρ' vs s d _ H
  theorem leaves2Fields_dst (ρ ρ' : Nat → Nat) :
      ∀ (fs : GTys) (s d : Nat) (b : Builder), (∀ o, ρ' (d + o) = ρ (s + o)) →
        (leaves2Fields ρ fs s d b).map dstOf = leavesFields ρ' fs d b
    | .nil, _, _, _, _ => by simp [leaves2Fields, leavesFields]
    | .cons t ts, s, d, b, H => by
      have H' : ∀ o, ρ' (d + b.addOff (layoutOf t) + o) = ρ (s + b.addOff (layoutOf t) + o) := by
        intro o; rw [Nat.add_assoc, Nat.add_assoc]; exact H _
      simp only [leaves2Fields, leavesFields, List.map_append, leaves2_dst ρ ρ' t _ _ H',
        leaves2Fields_dst ρ ρ' ts s d _ H]
  theorem leaves2Variants_dst (ρ ρ' : Nat → Nat) :
      ∀ (vs : GVars) (s d k : Nat), (∀ o, ρ' (d + o) = ρ (s + o)) →
        (leaves2Variants ρ vs s d k).map dstOf = leavesVariants ρ' vs d k
    | .nil, _, _, _, _ => by simp [leaves2Variants, leavesVariants]
    | .cons fs .nil, s, d, k, H => by
      simp only [leaves2Variants, leavesVariants]; exact leaves2Fields_dst ρ ρ' fs s d _ H
    | .cons fs (.cons fs' vs'), s, d, 0, H => by
      simp only [leaves2Variants, leavesVariants]; exact leaves2Fields_dst ρ ρ' fs s d _ H
    | .cons fs (.cons fs' vs'), s, d, k + 1, H => by
      simp only [leaves2Variants, leavesVariants]
      exact leaves2Variants_dst ρ ρ' (.cons fs' vs') s d k H
end

/-! ## The discriminants the clone writes are the ones the walk over the copy reads -/

theorem tags_append (xs ys : List Ev) : tags (xs ++ ys) = tags xs ++ tags ys := by
  induction xs with
  | nil => rfl
  | cons e es ih => cases e <;> simp [tags, ih]

@[simp] theorem tags_copyEv (p q n : Nat) : tags (copyEv p q n) = [] := by
  unfold copyEv; split <;> rfl

mutual
  theorem cloneTy_tags (ρ : Nat → Nat) :
      ∀ (t : GTy) (s d : Nat), tags (cloneTy prog ρ t s d) = discs2 ρ t s d
    | .leaf _ _ _ dr, s, d => by cases dr <;> simp [cloneTy, discs2, tags]
    | .record fs, s, d => by simp only [cloneTy, discs2]; exact cloneFields_tags ρ fs s d _
    | .enum vs, s, d => by
      simp only [cloneTy, discs2, tags, List.cons.injEq, true_and]
      exact cloneVariants_tags ρ vs s d _
  theorem cloneFields_tags (ρ : Nat → Nat) :
      ∀ (fs : GTys) (s d : Nat) (b : Builder),
        tags (cloneFields prog ρ fs s d b) = discs2Fields ρ fs s d b
    | .nil, _, _, _ => by simp [cloneFields, discs2Fields, tags]
    | .cons t ts, s, d, b => by
      simp only [cloneFields, discs2Fields, run_cloneRecord, tags_append, cloneFields_tags ρ ts,
        callCloneOf_eq ρ t]
      cases hnd : needsDrop t with
      | true => simp only [if_true, cloneTy_tags ρ t]
      | false => simp
  theorem cloneVariants_tags (ρ : Nat → Nat) :
      ∀ (vs : GVars) (s d k : Nat),
        tags (cloneVariants prog ρ vs s d k) = discs2Variants ρ vs s d k
    | .nil, _, _, _ => by simp [cloneVariants, discs2Variants, tags]
    | .cons fs .nil, s, d, k => by
      simp only [cloneVariants, discs2Variants, pre_cloneEnum]; exact cloneVFields_tags ρ fs s d _
    | .cons fs (.cons fs' vs'), s, d, 0 => by
      simp only [cloneVariants, discs2Variants, pre_cloneEnum]; exact cloneVFields_tags ρ fs s d _
    | .cons fs (.cons fs' vs'), s, d, k + 1 => by
      simp only [cloneVariants, discs2Variants]; exact cloneVariants_tags ρ (.cons fs' vs') s d k
  theorem cloneVFields_tags (ρ : Nat → Nat) :
      ∀ (fs : GTys) (s d : Nat) (b : Builder),
        tags (cloneVFields prog ρ fs s d b) = discs2Fields ρ fs s d b
    | .nil, _, _, _ => by simp [cloneVFields, discs2Fields, tags]
    | .cons t ts, s, d, b => by
      simp only [cloneVFields, discs2Fields, run_cloneEnum, tags_append, cloneVFields_tags ρ ts,
        callCloneOf_eq ρ t]
      cases hnd : needsDrop t with
      | true => simp only [if_true, cloneTy_tags ρ t]
      | false => simp
end

/-- `ρ'` holds at every destination what `ρ` holds at the source -/
def Agree (ρ ρ' : Nat → Nat) (ps : List (Nat × Nat)) : Prop := ∀ p ∈ ps, ρ' p.2 = ρ p.1

theorem Agree.left {ρ ρ' : Nat → Nat} {xs ys : List (Nat × Nat)} (h : Agree ρ ρ' (xs ++ ys)) :
    Agree ρ ρ' xs := fun p hp => h p (List.mem_append_left _ hp)

theorem Agree.right {ρ ρ' : Nat → Nat} {xs ys : List (Nat × Nat)} (h : Agree ρ ρ' (xs ++ ys)) :
    Agree ρ ρ' ys := fun p hp => h p (List.mem_append_right _ hp)

mutual
  theorem leaves2_dst' (ρ ρ' : Nat → Nat) :
      ∀ (t : GTy) (s d : Nat), Agree ρ ρ' (discs2 ρ t s d) →
        (leaves2 ρ t s d).map dstOf = leaves ρ' t d
    | .leaf _ _ _ dr, s, d, _ => by cases dr <;> simp [leaves2, leaves, dstOf]
    | .record fs, s, d, H => by
      simp only [discs2] at H
      simp only [leaves2, leaves]; exact leaves2Fields_dst' ρ ρ' fs s d _ H
    | .enum vs, s, d, H => by
      simp only [discs2] at H
      have h0 : ρ' d = ρ s := H (s, d) (List.mem_cons_self ..)
      have H' : Agree ρ ρ' (discs2Variants ρ vs s d (ρ s)) :=
        fun p hp => H p (List.mem_cons_of_mem _ hp)
      simp only [leaves2, leaves, h0]; exact leaves2Variants_dst' ρ ρ' vs s d _ H'
  theorem leaves2Fields_dst' (ρ ρ' : Nat → Nat) :
      ∀ (fs : GTys) (s d : Nat) (b : Builder), Agree ρ ρ' (discs2Fields ρ fs s d b) →
        (leaves2Fields ρ fs s d b).map dstOf = leavesFields ρ' fs d b
    | .nil, _, _, _, _ => by simp [leaves2Fields, leavesFields]
    | .cons t ts, s, d, b, H => by
      simp only [discs2Fields] at H
      simp only [leaves2Fields, leavesFields, List.map_append,
        leaves2Fields_dst' ρ ρ' ts s d _ H.right]
      cases hnd : needsDrop t with
      | true =>
        have Hl := H.left
        simp only [hnd, if_true] at Hl
        rw [leaves2_dst' ρ ρ' t _ _ Hl]
      | false =>
        rw [leaves2_nil ρ t _ _ hnd, leaves_nil ρ' t _ hnd]; rfl
  theorem leaves2Variants_dst' (ρ ρ' : Nat → Nat) :
      ∀ (vs : GVars) (s d k : Nat), Agree ρ ρ' (discs2Variants ρ vs s d k) →
        (leaves2Variants ρ vs s d k).map dstOf = leavesVariants ρ' vs d k
    | .nil, _, _, _, _ => by simp [leaves2Variants, leavesVariants]
    | .cons fs .nil, s, d, k, H => by
      simp only [discs2Variants] at H
      simp only [leaves2Variants, leavesVariants]; exact leaves2Fields_dst' ρ ρ' fs s d _ H
    | .cons fs (.cons fs' vs'), s, d, 0, H => by
      simp only [discs2Variants] at H
      simp only [leaves2Variants, leavesVariants]; exact leaves2Fields_dst' ρ ρ' fs s d _ H
    | .cons fs (.cons fs' vs'), s, d, k + 1, H => by
      simp only [discs2Variants] at H
      simp only [leaves2Variants, leavesVariants]
      exact leaves2Variants_dst' ρ ρ' (.cons fs' vs') s d k H
end

theorem dropped_map_mkDrop (l : List (Nat × Nat)) : dropped (l.map mkDrop) = l := by
  induction l with
  | nil => rfl
  | cons p ps ih => simp [mkDrop, dropped, ih]

/-! ## Example types used by the non-vacuity examples of `Props/C03Glue.lean` -/
namespace Ex
def tk : GTy := .leaf 1 16 8 true
def str : GTy := .leaf 2 16 8 true
def u64 : GTy := .leaf 0 8 8 false
def u8 : GTy := .leaf 0 1 1 false

/-- `enum F { P(u64, Tk), S(u8, String, u64, Tk), T(Tk, u64), Z }` -/
def exF : GTy := .enum
  (.cons (.cons u64 (.cons tk .nil))
  (.cons (.cons u8 (.cons str (.cons u64 (.cons tk .nil))))
  (.cons (.cons tk (.cons u64 .nil))
  (.cons .nil .nil))))

/-- a registered `#[clone]` type of size 0 -/
def tz : GTy := .leaf 3 0 1 true

/-- `enum Z { P(u64, Tz), Q(Tz, Tk), R(Tz), N }` -/
def exZ : GTy := .enum
  (.cons (.cons u64 (.cons tz .nil))
  (.cons (.cons tz (.cons tk .nil))
  (.cons (.cons tz .nil)
  (.cons .nil .nil))))
end Ex

end RotoV.Glue
