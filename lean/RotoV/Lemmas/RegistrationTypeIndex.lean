/-
  Registration (C18): the two indexes of `Vec<RuntimeType>` stay in step.

  The model keeps `Rt::types` as `St.types` (by Rust type) and `St.typeNames`
  (by resolved name).  `NamesOfTypes` (`Model/RegistrationDeclType.lean`) says
  that the second answers for exactly the names in the first; the theorems
  that read the regenerated guards of `Rt::declare_type` as the early exits of
  the model's `declareType` need it.  Here it is established for the initial
  runtime and carried through `register` (closed form `S5`: only pass 2 writes
  the two indexes, one `TOp.apply` per `type` item, each for a Rust type that
  is not registered yet) and through histories of adds, so that it is a fact
  about every runtime a host can reach, not a hypothesis.
-/
import RotoV.Lemmas.RegistrationExact
import RotoV.Lemmas.RegistrationSession
import RotoV.Model.RegistrationDeclType

namespace RotoV.Reg
open RotoV.Reg.Src

/-- `NamesOfTypes` reads the two indexes only -/
theorem namesOfTypes_congr {a b : St} (ht : b.types = a.types) (hn : b.typeNames = a.typeNames)
    (h : NamesOfTypes a) : NamesOfTypes b := by
  intro nm; rw [hn, ht]; exact h nm

/-- one entry pushed for a Rust type that has none keeps the indexes in step -/
theorem namesOfTypes_push {st st' : St} {id : TyId} {nm : RName}
    (ht : st'.types = fun i => if i = id then some nm else st.types i)
    (hn : st'.typeNames = fun n => if n = nm then true else st.typeNames n)
    (h : NamesOfTypes st) (hfree : st.types id = none) : NamesOfTypes st' := by
  intro k
  rw [hn, ht]
  by_cases hk : k = nm
  · subst hk; simp only [if_true]
    exact ⟨fun _ => ⟨id, by simp⟩, fun _ => trivial⟩
  · simp only [hk, if_false]
    rw [h k]
    constructor
    · rintro ⟨i, hi⟩
      refine ⟨i, ?_⟩
      have : i ≠ id := by rintro rfl; rw [hfree] at hi; cases hi
      simp [this, hi]
    · rintro ⟨i, hi⟩
      by_cases hid : i = id
      · subst hid; simp at hi; exact absurd hi.symm hk
      · simp [hid] at hi; exact ⟨i, hi⟩

theorem namesOfTypes_insertType (st : St) (h : NamesOfTypes st) (id : TyId) (nm : RName)
    (hfree : st.types id = none) : NamesOfTypes (st.insertType id nm) :=
  namesOfTypes_push rfl rfl h hfree

theorem namesOfTypes_apply (st : St) (t : TOp) (h : NamesOfTypes st) (hfree : st.types t.id = none) :
    NamesOfTypes (TOp.apply st t) := by
  rw [TOp.apply_eq]
  exact namesOfTypes_push (id := t.id) (nm := t.nm) rfl rfl h hfree

/-- pass 2 in closed form: the entries of a list of type items, each for another Rust type that
    the runtime does not have -/
theorem namesOfTypes_foldl : ∀ (l : List TOp) (st : St), NamesOfTypes st → (l.map (·.id)).Nodup →
    (∀ t ∈ l, st.types t.id = none) → NamesOfTypes (l.foldl TOp.apply st)
  | [], _, h, _, _ => h
  | t :: l, st, h, hnd, hfree => by
    simp only [List.map_cons, List.nodup_cons] at hnd
    have htypes : ∀ j, (TOp.apply st t).types j = if j = t.id then some t.nm else st.types j := by
      intro j; rw [TOp.apply_eq]; rfl
    have hfree1 : ∀ t' ∈ l, (TOp.apply st t).types t'.id = none := by
      intro t' ht'
      have hne : t'.id ≠ t.id := fun h => hnd.1 (List.mem_map.mpr ⟨t', ht', h⟩)
      rw [htypes]; simp only [hne, if_false]
      exact hfree t' (List.mem_cons_of_mem _ ht')
    simp only [List.foldl_cons]
    exact namesOfTypes_foldl l _ (namesOfTypes_apply st t h (hfree t (List.mem_cons_self ..))) hnd.2 hfree1

theorem setAll_insertImport_types (es : List (Name × RName)) (st : St) :
    (setAll (fun st k v => st.insertImport [] k v) es st).types = st.types ∧
    (setAll (fun st k v => st.insertImport [] k v) es st).typeNames = st.typeNames := by
  induction es generalizing st with
  | nil => exact ⟨rfl, rfl⟩
  | cons e es ih =>
    simp only [setAll, List.foldl_cons]
    exact ih (st.insertImport [] e.1 e.2)

/-- the two indexes after a successful registration are those after pass 2 -/
theorem S5_types (lex : Name → Lex) (st : St) (items : Items) :
    (S5 lex st items).types = (S2 lex st items).types ∧
    (S5 lex st items).typeNames = (S2 lex st items).typeNames := by
  have e5 := setAll_insertImport_types (entsL impEnt (S4 lex st items) (ops5 items)) (S4 lex st items)
  have e4 := setAll_insertDecl_types (entsL (DOp.ent lex) (S3 lex st items) (ops4 items)) (S3 lex st items)
  have e3 := setAll_insertDecl_types (entsL (DOp.ent lex) (S2 lex st items) (ops3 items)) (S2 lex st items)
  exact ⟨e5.1.trans (e4.1.trans e3.1), e5.2.trans (e4.2.1.trans e3.2.1)⟩

/-- **The invariant is kept by every successful registration** (any library). -/
theorem namesOfTypes_register (lex : Name → Lex) (st st' : St) (hw : WF st) (hn : NamesOfTypes st)
    (items : Items) (h : register Cfg.fixed lex st items = .ok st') : NamesOfTypes st' := by
  obtain ⟨_, hc, rfl⟩ := (register_ok_iff lex hw items st').mp h
  have e1 := setAll_insertDecl_types (entsL (DOp.ent lex) st (ops1 items)) st
  have h1 : NamesOfTypes (S1 lex st items) := namesOfTypes_congr e1.1 e1.2.1 hn
  obtain ⟨hnd, _, hfree⟩ := hc.types
  have h2 : NamesOfTypes (S2 lex st items) :=
    namesOfTypes_foldl (ops2 items) _ h1 hnd (fun t ht => (hfree t ht).1)
  exact namesOfTypes_congr (S5_types lex st items).1 (S5_types lex st items).2 h2

/-- … and so by every history of adds, rejected ones included -/
theorem namesOfTypes_session (lex : Name → Lex) : ∀ (libs : List Items) (st : St), WF st → NamesOfTypes st →
    WF (session Cfg.fixed lex st libs).1 ∧ NamesOfTypes (session Cfg.fixed lex st libs).1
  | [], _, hw, hn => ⟨hw, hn⟩
  | l :: ls, st, hw, hn => by
    simp only [session]
    cases hr : register Cfg.fixed lex st l with
    | ok st' =>
      have hs : step Cfg.fixed lex st l = (st', .ok) := by unfold step; rw [hr]
      have hg := register_good lex hw l
      rw [hr] at hg
      rw [hs]
      exact namesOfTypes_session lex ls st' hg.2 (namesOfTypes_register lex st st' hw hn l hr)
    | err e =>
      have hs : step Cfg.fixed lex st l = (st, .err e) := by unfold step; rw [hr]
      rw [hs]; exact namesOfTypes_session lex ls st hw hn
    | panic s =>
      have hs : step Cfg.fixed lex st l = (st, .panic s) := by unfold step; rw [hr]
      rw [hs]; exact namesOfTypes_session lex ls st hw hn

/-- **The initial runtime**: the built-in primitives are registered under the root names they are
    declared with, provided no Rust type is listed under two names. -/
theorem namesOfTypes_init (prims : List (Name × TyId)) (others : List Name)
    (hone : ∀ p ∈ prims, ∀ q ∈ prims, p.2 = q.2 → p.1 = q.1) : NamesOfTypes (St.init prims others) := by
  intro nm
  simp only [St.init, Bool.and_eq_true, decide_eq_true_eq]
  constructor
  · rintro ⟨hs, hf⟩
    obtain ⟨p, hp⟩ := Option.isSome_iff_exists.1 hf
    have hp1 : p.1 = nm.ident := by simpa using List.find?_some hp
    have hpm : p ∈ prims := List.mem_of_find?_eq_some hp
    cases hq : prims.find? (fun q => q.2 = p.2) with
    | none =>
      have := List.find?_eq_none.1 hq p hpm
      simp at this
    | some q =>
      have hq2 : q.2 = p.2 := by simpa using List.find?_some hq
      have hqm : q ∈ prims := List.mem_of_find?_eq_some hq
      refine ⟨p.2, ?_⟩
      rw [hq]
      have := hone q hqm p hpm hq2
      cases nm; simp_all
  · rintro ⟨id, hid⟩
    cases hq : prims.find? (fun q => q.2 = id) with
    | none => rw [hq] at hid; cases hid
    | some q =>
      rw [hq] at hid
      have hqm : q ∈ prims := List.mem_of_find?_eq_some hq
      simp only [Option.some.injEq] at hid
      subst hid
      refine ⟨rfl, ?_⟩
      cases hf : prims.find? (fun p => p.1 = q.1) with
      | some _ => rfl
      | none =>
        have := List.find?_eq_none.1 hf q hqm
        simp at this

end RotoV.Reg
