/-
  Lemmas/TestRunner — helper lemmas for C19 (over Model/TestRunner and the
  generated `Gen.TestRunner`): the string order used by `sort`, `rsplit_once`,
  identifiers never contain `#`/`.`, `i32` counter arithmetic, the step and
  fold lemmas of `run_tests`' loop.
-/
import RotoV.Generated.TestRunner
open RotoV RotoV.TR RotoV.Gen.TestRunner

namespace RotoV.TRL


/-! ### the string order -/
theorem le_refl' : ∀ a : Name, RStr.le a a = true
  | [] => rfl
  | a :: as => by simp [RStr.le, le_refl' as]

theorem le_total : ∀ a b : Name, (RStr.le a b || RStr.le b a) = true
  | [], _ => by simp [RStr.le]
  | _ :: _, [] => by simp [RStr.le]
  | a :: as, b :: bs => by
    have := le_total as bs
    simp only [RStr.le]
    by_cases h1 : a.toNat < b.toNat
    · simp [h1]
    · by_cases h2 : b.toNat < a.toNat
      · simp [h2]
      · simp [h1, h2, this]

theorem le_antisymm : ∀ a b : Name, RStr.le a b = true → RStr.le b a = true → a = b
  | [], [], _, _ => rfl
  | [], _ :: _, _, h => by simp [RStr.le] at h
  | _ :: _, [], h, _ => by simp [RStr.le] at h
  | a :: as, b :: bs, h1, h2 => by
    simp only [RStr.le] at h1 h2
    by_cases l1 : a.toNat < b.toNat
    · have : ¬ b.toNat < a.toNat := by omega
      simp [l1, this] at h2
    · by_cases l2 : b.toNat < a.toNat
      · simp [l1, l2] at h1
      · simp [l1, l2] at h1 h2
        have hab : a = b := Char.toNat_inj.mp (by omega)
        rw [hab, le_antisymm as bs h1 h2]

theorem le_trans : ∀ a b c : Name, RStr.le a b = true → RStr.le b c = true → RStr.le a c = true
  | [], _, _, _, _ => by simp [RStr.le]
  | _ :: _, [], _, h, _ => by simp [RStr.le] at h
  | _ :: _, _ :: _, [], _, h => by simp [RStr.le] at h
  | a :: as, b :: bs, c :: cs, h1, h2 => by
    simp only [RStr.le] at h1 h2 ⊢
    by_cases ab : a.toNat < b.toNat
    · by_cases bc : b.toNat < c.toNat
      · have : a.toNat < c.toNat := by omega
        simp [this]
      · by_cases cb : c.toNat < b.toNat
        · simp [bc, cb] at h2
        · have : a.toNat < c.toNat := by omega
          simp [this]
    · by_cases ba : b.toNat < a.toNat
      · simp [ab, ba] at h1
      · simp [ab, ba] at h1
        by_cases bc : b.toNat < c.toNat
        · have : a.toNat < c.toNat := by omega
          simp [this]
        · by_cases cb : c.toNat < b.toNat
          · simp [bc, cb] at h2
          · simp [bc, cb] at h2
            have e1 : ¬ a.toNat < c.toNat := by omega
            have e2 : ¬ c.toNat < a.toNat := by omega
            simp [e1, e2, le_trans as bs cs h1 h2]

theorem insertSorted_perm (a : Name) : ∀ l : List Name, (RStr.insertSorted a l).Perm (a :: l)
  | [] => List.Perm.refl _
  | b :: bs => by
    unfold RStr.insertSorted
    by_cases h : RStr.le a b = true
    · simp [h]
    · simp only [h]
      exact ((insertSorted_perm a bs).cons b).trans (List.Perm.swap a b bs)

theorem sort_perm : ∀ l : List Name, (RStr.sort l).Perm l
  | [] => List.Perm.refl _
  | a :: l => by
    show (RStr.insertSorted a (RStr.sort l)).Perm (a :: l)
    exact (insertSorted_perm a _).trans ((sort_perm l).cons a)

theorem insertSorted_sorted (a : Name) : ∀ l : List Name, l.Pairwise (fun a b => RStr.le a b = true) →
    (RStr.insertSorted a l).Pairwise (fun a b => RStr.le a b = true)
  | [], _ => by simp [RStr.insertSorted]
  | b :: bs, h => by
    unfold RStr.insertSorted
    have hb := List.pairwise_cons.mp h
    by_cases hab : RStr.le a b = true
    · simp only [hab, if_true]
      refine List.pairwise_cons.mpr ⟨?_, h⟩
      intro c hc
      rcases List.mem_cons.mp hc with rfl | hc
      · exact hab
      · exact le_trans a b c hab (hb.1 c hc)
    · simp only [hab]
      have hba : RStr.le b a = true := by
        have := le_total a b
        simp only [Bool.or_eq_true] at this
        rcases this with h1 | h1
        · exact absurd h1 hab
        · exact h1
      refine List.pairwise_cons.mpr ⟨?_, insertSorted_sorted a bs hb.2⟩
      intro c hc
      have := (insertSorted_perm a bs).subset hc
      rcases List.mem_cons.mp this with rfl | hc'
      · exact hba
      · exact hb.1 c hc'

theorem sort_sorted : ∀ l : List Name, (RStr.sort l).Pairwise (fun a b => RStr.le a b = true)
  | [] => List.Pairwise.nil
  | a :: l => by
    show (RStr.insertSorted a (RStr.sort l)).Pairwise _
    exact insertSorted_sorted a _ (sort_sorted l)

/-- the result of `sort` depends only on the multiset of names -/
theorem sort_eq_of_perm {l₁ l₂ : List Name} (h : l₁.Perm l₂) : RStr.sort l₁ = RStr.sort l₂ :=
  List.Perm.eq_of_pairwise (le := fun a b => RStr.le a b = true)
    (fun a b _ _ h1 h2 => le_antisymm a b h1 h2) (sort_sorted l₁) (sort_sorted l₂)
    ((sort_perm l₁).trans (h.trans (sort_perm l₂).symm))



theorem rsplitGo_none (d : Char) : ∀ (rest acc : Name) (best : Option (Name × Name)),
    d ∉ rest → RStr.rsplitGo d rest acc best = best
  | [], _, _, _ => rfl
  | c :: cs, acc, best, h => by
    have hc : c ≠ d := fun e => h (by simp [e])
    have hcs : d ∉ cs := fun e => h (by simp [e])
    simp [RStr.rsplitGo, hc, rsplitGo_none d cs _ _ hcs]

theorem rsplitGo_split (d : Char) (last : Name) (hl : d ∉ last) : ∀ (pre acc : Name) (best : Option (Name × Name)),
    RStr.rsplitGo d (pre ++ d :: last) acc best = some (acc.reverse ++ pre, last)
  | [], acc, best => by
    simp [RStr.rsplitGo, rsplitGo_none d last _ _ hl]
  | c :: pre, acc, best => by
    by_cases hc : c = d
    · simp [RStr.rsplitGo, hc, rsplitGo_split d last hl pre]
    · simp [RStr.rsplitGo, hc, rsplitGo_split d last hl pre]

theorem rsplit_once_char_split (pre last : Name) (d : Char) (hl : d ∉ last) :
    RStr.rsplit_once_char (pre ++ d :: last) d = some (pre, last) := by
  simp [RStr.rsplit_once_char, rsplitGo_split d last hl]

theorem dotJoin_snoc : ∀ (xs : List Name) (item : Name), xs ≠ [] →
    dotJoin (xs ++ [item]) = dotJoin xs ++ '.' :: item
  | [], _, h => absurd rfl h
  | [a], item, _ => by simp [dotJoin]
  | a :: b :: rest, item, _ => by
    have := dotJoin_snoc (b :: rest) item (by simp)
    simp only [List.cons_append] at this ⊢
    simp [dotJoin, this]

theorem fullName_eq (path : List Name) (item : Name) :
    fullName path item = dotJoin (pkgName :: path) ++ '.' :: item := by
  unfold fullName
  exact dotJoin_snoc (pkgName :: path) item (by simp)

/-- the last `.`-separated segment of a key (the whole key when it has no `.`) -/
def lastSeg (x : Name) : Name :=
  match RStr.rsplit_once_char x '.' with
  | some p => p.2
  | none => x

/-- The GENERATED filter of `get_tests`, however the source spells it (`rsplit_once(".").map_or(x, |p| p.1)`,
    a `match` on the `Option`, a private helper function — helpers are generated `@[simp]`
    definitions): a key is kept iff its LAST segment starts with `test#`. -/
theorem get_tests_filter_spec (x : Name) :
    get_tests_filter x = RStr.starts_with (lastSeg x) ['t', 'e', 's', 't', '#'] := by
  unfold lastSeg
  rcases h : RStr.rsplit_once_char x '.' with _ | ⟨a, b⟩ <;>
    (simp [get_tests_filter, h, ROpt_map_or, Id.run] <;> rfl)

/-- the filter of `get_tests` looks at the last segment only -/
theorem filter_fullName (path : List Name) (item : Name) (hdot : '.' ∉ item) :
    get_tests_filter (fullName path item) = RStr.starts_with item ['t', 'e', 's', 't', '#'] := by
  rw [get_tests_filter_spec, fullName_eq]
  unfold lastSeg
  rw [rsplit_once_char_split _ _ _ hdot]

/-- `rsplitGo` only ever answers with a split of the text it scans (or with `best`) -/
theorem rsplitGo_some (d : Char) : ∀ (rest acc : Name) (best : Option (Name × Name)) (a b : Name),
    RStr.rsplitGo d rest acc best = some (a, b) → best = some (a, b) ∨ ∃ pre, rest = pre ++ d :: b
  | [], _, best, a, b, h => Or.inl (by simpa [RStr.rsplitGo] using h)
  | c :: cs, acc, best, a, b, h => by
    by_cases hc : c = d
    · subst hc
      simp only [RStr.rsplitGo, if_true] at h
      rcases rsplitGo_some c cs _ _ a b h with h1 | ⟨pre, hp⟩
      · right
        refine ⟨[], ?_⟩
        simp only [Option.some.injEq, Prod.mk.injEq] at h1
        simp [h1.2]
      · right; exact ⟨c :: pre, by simp [hp]⟩
    · simp only [RStr.rsplitGo, hc, if_false] at h
      rcases rsplitGo_some d cs _ _ a b h with h1 | ⟨pre, hp⟩
      · exact Or.inl h1
      · right; exact ⟨c :: pre, by simp [hp]⟩

/-- the last segment of a key is a piece of the key -/
theorem lastSeg_subset (x : Name) (c : Char) (h : c ∈ lastSeg x) : c ∈ x := by
  unfold lastSeg at h
  rcases hs : RStr.rsplit_once_char x '.' with _ | ⟨a, b⟩
  · simpa [hs] using h
  · rw [hs] at h
    simp only at h
    rcases rsplitGo_some '.' x [] none a b hs with h1 | ⟨pre, hp⟩
    · cases h1
    · rw [hp]; simp [h]

/-! ### identifiers -/

structure XIDFacts (X : XID) : Prop where
  start_sub : ∀ c, X.start c = true → X.cont c = true
  hash : X.cont '#' = false
  dot : X.cont '.' = false

theorem ident_no (X : XID) (bad : Char) (hb : X.cont bad = false) (hu : bad ≠ '_')
    (hs : ∀ c, X.start c = true → X.cont c = true) :
    ∀ n : Name, isIdent X n = true → bad ∉ n
  | [], h => by simp [isIdent] at h
  | c :: cs, h => by
    simp only [isIdent, Bool.and_eq_true, Bool.or_eq_true, beq_iff_eq, List.all_eq_true] at h
    intro hm
    rcases List.mem_cons.mp hm with e | e
    · rcases h.1 with h1 | h1
      · have := hs c h1; rw [← e, hb] at this; cases this
      · exact hu (e.trans h1)
    · have := h.2 bad e; rw [hb] at this; cases this

theorem ident_no_hash {X : XID} (F : XIDFacts X) (n : Name) (h : isIdent X n = true) : '#' ∉ n :=
  ident_no X '#' F.hash (by decide) F.start_sub n h
theorem ident_no_dot {X : XID} (F : XIDFacts X) (n : Name) (h : isIdent X n = true) : '.' ∉ n :=
  ident_no X '.' F.dot (by decide) F.start_sub n h

theorem prefix_mem {p s : Name} (h : p.isPrefixOf s = true) (c : Char) (hc : c ∈ p) : c ∈ s := by
  obtain ⟨t, rfl⟩ := List.isPrefixOf_iff_prefix.mp h
  exact List.mem_append_left _ hc

/-- an identifier never looks like a test key -/
theorem ident_not_test {X : XID} (F : XIDFacts X) (n : Name) (h : isIdent X n = true) :
    RStr.starts_with n ['t', 'e', 's', 't', '#'] = false := by
  cases hp : RStr.starts_with n ['t', 'e', 's', 't', '#'] with
  | false => rfl
  | true => exact absurd (prefix_mem hp '#' (by simp)) (ident_no_hash F n h)


/-- A key without `#` is never taken for a test by the GENERATED filter.  The function table
    also holds compiler-generated glue (`::generated::eq_7`, `…clone_…`, `…drop_…`); none of
    their keys contains a `#`. -/
theorem filter_no_hash (k : Name) (h : '#' ∉ k) : get_tests_filter k = false := by
  rw [get_tests_filter_spec]
  cases hp : RStr.starts_with (lastSeg k) ['t', 'e', 's', 't', '#'] with
  | false => rfl
  | true => exact absurd (lastSeg_subset k '#' (prefix_mem hp '#' (by simp))) h

/-! ### counters and the loop -/

theorem i32lit_val (a : Nat) (h : a < 2^31) : (i32lit a).val = a := by
  simp only [i32lit, RInt.val, RInt.ofInt, if_true, BitVec.toInt_ofInt, Int.bmod_def]
  omega

theorem i32lit_inj (a b : Nat) (ha : a < 2^31) (hb : b < 2^31) (h : i32lit a = i32lit b) : a = b := by
  have := congrArg RInt.val h
  rw [i32lit_val a ha, i32lit_val b hb] at this
  omega

theorem i32_add_one (dbg : Bool) (a : Nat) (h : a + 1 < 2^31) :
    RArith.add dbg (i32lit a) (i32lit 1) = Res.ok (i32lit (a + 1)) := by
  show RInt.add dbg (i32lit a) (i32lit 1) = _
  unfold RInt.add RInt.arith
  rw [i32lit_val a (by omega), i32lit_val 1 (by omega)]
  have hr : RInt.inRange true 32 ((a : Int) + 1) = true := by
    simp [RInt.inRange, RInt.minVal, RInt.maxVal]
    omega
  simp [hr, i32lit]

def accepts (t : TestCase) : Bool := decide (t.func.info.verdict = .Accept ())
def evOf (t : TestCase) : Event := .ranTest t.func.key

theorem testcase_run_spec {ε} (dbg : Bool) (t : TestCase) (log : List Event) :
    (TestCase_run (ε := ε) dbg t ()) log
      = (.ok (if accepts t then .Ok () else .Err ()), log ++ [evOf t]) := by
  unfold TestCase_run TypedFunc.call_tuple accepts evOf
  simp only [Run.bind_apply, Run.emit_apply, Run.pure_apply, bind_pure_comp]
  rcases h : t.func.info.verdict with ⟨⟨⟩⟩ | ⟨⟨⟩⟩ <;> simp [h]

theorem step_spec {ε} (dbg : Bool) (s f n : Nat) (t : TestCase) (log : List Event)
    (hs : s + 1 < 2^31) (hf : f + 1 < 2^31) :
    (run_tests_step (ε := ε) dbg () ⟨i32lit s, i32lit f⟩ (n, t)) log
      = (.ok (if accepts t then ⟨i32lit (s + 1), i32lit f⟩ else ⟨i32lit s, i32lit (f + 1)⟩), log ++ [evOf t]) := by
  unfold run_tests_step
  simp only [Run.bind_apply, testcase_run_spec]
  cases h : accepts t <;>
    simp [REq.eq, RResult_is_ok, RResult_is_err, i32_add_one dbg s hs, i32_add_one dbg f hf]

def nAcc (l : List (Nat × TestCase)) : Nat := (l.filter (fun p => accepts p.2)).length
def nRej (l : List (Nat × TestCase)) : Nat := (l.filter (fun p => !accepts p.2)).length

theorem nAcc_nRej (l : List (Nat × TestCase)) : nAcc l + nRej l = l.length := by
  induction l with
  | nil => rfl
  | cons a l ih =>
    unfold nAcc nRej at *
    cases h : accepts a.2 <;> simp [List.filter_cons, h] <;> omega

theorem fold_spec {ε} (dbg : Bool) (l : List (Nat × TestCase)) :
    ∀ (s f : Nat) (log : List Event), s + f + l.length < 2^31 →
    (List.foldlM (run_tests_step (ε := ε) dbg ()) ⟨i32lit s, i32lit f⟩ l) log
      = (.ok ⟨i32lit (s + nAcc l), i32lit (f + nRej l)⟩, log ++ l.map (fun p => evOf p.2)) := by
  induction l with
  | nil => intro s f log _; simp [nAcc, nRej]
  | cons a l ih =>
    intro s f log h
    obtain ⟨n, t⟩ := a
    simp only [List.foldlM_cons, Run.bind_apply, List.length_cons] at h ⊢
    rw [step_spec dbg s f n t log (by omega) (by omega)]
    cases ht : accepts t
    · simp only [Bool.false_eq_true, if_false]
      rw [ih s (f + 1) _ (by omega)]
      simp [nAcc, nRej, ht]; congr 1; omega
    · simp only [if_true]
      rw [ih (s + 1) f _ (by omega)]
      simp [nAcc, nRej, ht]; congr 1; omega

theorem iter_len (tests : List TestCase) : (run_tests_iter tests).length = tests.length := by
  simp [run_tests_iter, RIter.enumerate, RIter.into_iter]

theorem iter_snd (tests : List TestCase) : (run_tests_iter tests).map (·.2) = tests := by
  simp [run_tests_iter, RIter.enumerate, RIter.into_iter, List.map_map, Function.comp_def, List.zipIdx_map_fst]

theorem finish_spec (dbg : Bool) (s f : Nat) (hf : f < 2^31) :
    run_tests_finish dbg ⟨i32lit s, i32lit f⟩ = .ok (if f = 0 then .Ok () else .Err ()) := by
  unfold run_tests_finish
  by_cases h : f = 0
  · subst h; simp [REq.eq]
  · have : i32lit f ≠ i32lit 0 := fun e => h (i32lit_inj f 0 hf (by omega) e)
    simp [REq.eq, this, h]


/-! ### the filter of get_tests on a package table -/


theorem testkey_filter {X : XID} (F : XIDFacts X) (path : List Name) (d : Decl)
    (hid : isIdent X d.name = true) :
    get_tests_filter (fullName path (d.key test_fn_name_mir)) = d.isTest := by
  cases d with
  | fn n i =>
    simp only [Decl.key, Decl.isTest, Decl.name] at hid ⊢
    rw [filter_fullName path n (ident_no_dot F n hid)]
    exact ident_not_test F n hid
  | test n v =>
    simp only [Decl.key, Decl.isTest, Decl.name] at hid ⊢
    have hd : '.' ∉ test_fn_name_mir n := by
      have := ident_no_dot F n hid
      simp [test_fn_name_mir, this]
    rw [filter_fullName path _ hd]
    simp [RStr.starts_with, test_fn_name_mir]

theorem module_filter {X : XID} (F : XIDFacts X) (path : List Name) (sig : Sig) :
    ∀ (ds : List Decl), (∀ d ∈ ds, isIdent X d.name = true) →
    (ds.map (fun d => fullName path (d.key test_fn_name_mir))).filter get_tests_filter
      = (ds.filter Decl.isTest).map (fun d => fullName path (d.key test_fn_name_mir))
  | [], _ => rfl
  | d :: ds, h => by
    have hd := testkey_filter F path d (h d (by simp))
    have ih := module_filter F path sig ds (fun d hd => h d (by simp [hd]))
    simp only [List.map_cons, List.filter_cons, hd]
    cases d.isTest <;> simp [ih]

theorem package_filter {X : XID} (F : XIDFacts X) (sig : Sig) :
    ∀ (mods : List Mod), (∀ m ∈ mods, ∀ d ∈ m.decls, isIdent X d.name = true) →
    (Table.keys (packageTable test_fn_name_mir sig mods)).filter get_tests_filter
      = testKeys test_fn_name_mir mods
  | [], _ => rfl
  | m :: ms, h => by
    have ih := package_filter F sig ms (fun m hm => h m (by simp [hm]))
    have hm := module_filter F m.path sig m.decls (h m (by simp))
    simp only [Table.keys, packageTable, testKeys, List.flatMap_cons, List.map_append, List.filter_append] at ih ⊢
    rw [ih]
    simp only [moduleTable, List.map_map, Function.comp_def]
    rw [hm]


/-! ### `get_tests` end to end: every discovered key is looked up and found -/

instance : LawfulMonad Res := LawfulMonad.mk'
  (id_map := by intro α x; cases x <;> rfl)
  (pure_bind := by intros; rfl)
  (bind_assoc := by intro α β γ x f g; cases x <;> rfl)

/-- element-wise relation of two lists (core Lean has no `Forall₂`) -/
inductive All2 {α β} (P : α → β → Prop) : List α → List β → Prop where
  | nil : All2 P [] []
  | cons {a b l bs} : P a b → All2 P l bs → All2 P (a :: l) (b :: bs)

theorem mapM_ok_forall₂ {α β} (f : α → Res β) (P : α → β → Prop) : ∀ l : List α,
    (∀ a ∈ l, ∃ b, f a = .ok b ∧ P a b) → ∃ bs, List.mapM f l = .ok bs ∧ All2 P l bs
  | [], _ => ⟨[], by simp, All2.nil⟩
  | a :: l, h => by
    obtain ⟨b, hb, hp⟩ := h a (by simp)
    obtain ⟨bs, hbs, hf⟩ := mapM_ok_forall₂ f P l (fun x hx => h x (by simp [hx]))
    refine ⟨b :: bs, ?_, All2.cons hp hf⟩
    rw [List.mapM_cons, hb, hbs]
    rfl

theorem All2.keys {α β} {key : β → α} {Q : β → Prop} {l : List α} {bs : List β}
    (h : All2 (fun a b => key b = a ∧ Q b) l bs) : bs.map key = l ∧ ∀ b ∈ bs, Q b := by
  induction h with
  | nil => exact ⟨rfl, fun b hb => by cases hb⟩
  | cons h _ ih =>
    refine ⟨by simp [h.1, ih.1], ?_⟩
    intro c hc
    rcases List.mem_cons.mp hc with rfl | hc
    · exact h.2
    · exact ih.2 c hc

theorem find_of_mem_nodup : ∀ (t : Table) (k : Name) (i : FnInfo),
    (Table.keys t).Nodup → (k, i) ∈ t → Table.find t k = some i
  | [], _, _, _, h => by simp at h
  | (k', i') :: t, k, i, hn, hm => by
    simp only [Table.keys, List.map_cons, List.nodup_cons] at hn
    rcases List.mem_cons.mp hm with e | hm'
    · cases e
      simp [Table.find]
    · have hne : k' ≠ k := by
        intro e
        subst e
        exact hn.1 (List.mem_map.mpr ⟨(k', i), hm', rfl⟩)
      have ih := find_of_mem_nodup t k i hn.2 hm'
      simp only [Table.find] at ih ⊢
      simp [hne, ih]

theorem strip_prefix_append (p rest : Name) : RStr.strip_prefix (p ++ rest) p = some rest := by
  unfold RStr.strip_prefix
  have : p.isPrefixOf (p ++ rest) = true := List.isPrefixOf_iff_prefix.mpr (List.prefix_append p rest)
  simp [this]

/-- every full name starts with `pkg.` -/
theorem fullName_pkgDot (path : List Name) (item : Name) : ∃ rest, fullName path item = pkgDot ++ rest := by
  cases path with
  | nil => exact ⟨item, by simp [fullName, dotJoin, pkgName, pkgDot]⟩
  | cons p ps => exact ⟨dotJoin (p :: ps ++ [item]), by simp [fullName, dotJoin, pkgName, pkgDot]⟩

/-- The GENERATED key of `Module::get_function`: every name — whatever it looks like, also one
    that itself starts with `pkg.` — is looked up under `"pkg." ++ name`. -/
theorem get_function_key_spec (name : Name) : get_function_key name = pkgDot ++ name := by
  simp only [get_function_key, RStr.concat, pkgDot, Id.run, List.flatten_cons, List.flatten_nil, List.append_nil]
  rfl

/-- … so distinct names are distinct keys: no two spellings reach one function. -/
theorem get_function_key_injective (a b : Name) (h : get_function_key a = get_function_key b) : a = b := by
  rw [get_function_key_spec, get_function_key_spec] at h
  exact List.append_cancel_left h

/-- The GENERATED `Module::get_function` (key, look-up, the error of every exit, the order of the
    parameter and return-type checks — all from source) is the specification `TR.get_function`:
    the entry under `"pkg." ++ name` and nothing else, `DoesNotExist` when there is none,
    `TypeMismatch` when its signature is not the requested one. -/
theorem Module_get_function_spec (m : Module) (want : Sig) (name : Name) :
    Module_get_function m want name = TR.get_function m.functions want name := by
  unfold Module_get_function TR.get_function
  rw [get_function_key_spec]
  cases h : Table.find m.functions (pkgDot ++ name) with
  | none => rfl
  | some info =>
    obtain ⟨⟨ps, rt⟩, v⟩ := info
    obtain ⟨wps, wrt⟩ := want
    by_cases h1 : ps = wps <;> by_cases h2 : rt = wrt <;> simp [h1, h2]

/-- The GENERATED `Package::get_function` adds nothing of its own. -/
theorem Package_get_function_spec (p : Package) (want : Sig) (name : Name) :
    Package_get_function p want name = TR.get_function p.module.functions want name := by
  simp only [Package_get_function, Id.run, Module_get_function_spec]
  rfl

/-- a full name is `pkg.` followed by the path of the item from the root -/
theorem fullName_path (path : List Name) (item : Name) :
    fullName path item = pkgDot ++ dotJoin (path ++ [item]) := by
  cases path with
  | nil => simp [fullName, dotJoin, pkgName, pkgDot]
  | cons p ps => simp [fullName, dotJoin, pkgName, pkgDot]

theorem find_none_of_not_mem : ∀ (t : Table) (k : Name), k ∉ Table.keys t → Table.find t k = none
  | [], _, _ => rfl
  | (k', i') :: t, k, h => by
    simp only [Table.keys, List.map_cons, List.mem_cons, not_or] at h
    have ih := find_none_of_not_mem t k h.2
    have hne : k' ≠ k := fun e => h.1 e.symm
    simp only [Table.find, List.find?_cons, hne, decide_false] at ih ⊢
    exact ih

/-- the look-up step of `get_tests` (GENERATED `get_tests_case`): a key `pkg.<rest>` that is in
    the table with the signature of a test yields the handle of exactly that entry, no panic. -/
theorem get_tests_case_spec (dbg : Bool) (module : Module) (rest : Name) (info : FnInfo)
    (hn : (Table.keys module.functions).Nodup) (hm : (pkgDot ++ rest, info) ∈ module.functions)
    (hs : info.sig = testSig) :
    ∃ c, get_tests_case dbg module (pkgDot ++ rest) = .ok c ∧ c.func = ⟨pkgDot ++ rest, info⟩ := by
  have hfind := find_of_mem_nodup module.functions (pkgDot ++ rest) info hn hm
  have hstrip := strip_prefix_append pkgDot rest
  simp only [pkgDot, List.cons_append, List.nil_append] at hstrip hfind
  unfold get_tests_case
  simp [hstrip, RUnwrap.unwrap, Module_get_function_spec, get_function, pkgDot, hfind, hs, TestCase.new]

/-- a test key of a package is in its table, with the signature given to tests -/
theorem testKeys_mem_table (mirName : Name → Name) (sig : Sig) (mods : List Mod) (k : Name)
    (hk : k ∈ testKeys mirName mods) :
    ∃ v rest, (k, ⟨sig, v⟩) ∈ packageTable mirName sig mods ∧ k = pkgDot ++ rest := by
  simp only [testKeys, List.mem_flatMap, List.mem_map, List.mem_filter] at hk
  obtain ⟨m, hm, d, ⟨hd, ht⟩, rfl⟩ := hk
  cases d with
  | fn n i => simp [Decl.isTest] at ht
  | test n v =>
    obtain ⟨rest, hr⟩ := fullName_pkgDot m.path (Decl.key mirName (.test n v))
    refine ⟨v, rest, ?_, hr⟩
    simp only [packageTable, List.mem_flatMap, moduleTable, List.mem_map]
    exact ⟨m, hm, .test n v, hd, rfl⟩

/-- a declared test block is a test key -/
theorem decl_mem_testKeys (mirName : Name → Name) (mods : List Mod) (m : Mod) (hm : m ∈ mods)
    (n : Name) (v : Verdict Unit Unit) (hd : Decl.test n v ∈ m.decls) :
    fullName m.path (mirName n) ∈ testKeys mirName mods := by
  simp only [testKeys, List.mem_flatMap, List.mem_map, List.mem_filter]
  exact ⟨m, hm, .test n v, ⟨hd, rfl⟩, rfl⟩

theorem mem_nodup_unique : ∀ (t : Table) (k : Name) (i j : FnInfo),
    (Table.keys t).Nodup → (k, i) ∈ t → (k, j) ∈ t → i = j := by
  intro t k i j hn hi hj
  have h1 := find_of_mem_nodup t k i hn hi
  have h2 := find_of_mem_nodup t k j hn hj
  rw [h1] at h2
  exact Option.some.inj h2


/-! ### counting rejecting blocks; the exit status -/

/-- the number of rejecting blocks among the tests that are run -/
def failureCount (tests : List TestCase) : Nat := (tests.filter (fun t => !accepts t)).length

theorem failureCount_pos (tests : List TestCase) :
    0 < failureCount tests ↔ ∃ t ∈ tests, t.func.info.verdict ≠ .Accept () := by
  unfold failureCount
  rw [List.length_pos_iff_exists_mem]
  constructor
  · rintro ⟨t, ht⟩
    obtain ⟨hm, hp⟩ := List.mem_filter.mp ht
    exact ⟨t, hm, by simpa [accepts] using hp⟩
  · rintro ⟨t, hm, hp⟩
    exact ⟨t, List.mem_filter.mpr ⟨hm, by simpa [accepts] using hp⟩⟩

theorem failureCount_replicate (acc rej : TestCase)
    (hacc : acc.func.info.verdict = .Accept ()) (hrej : rej.func.info.verdict = .Reject ()) (a n : Nat) :
    failureCount (List.replicate a acc ++ List.replicate n rej) = n := by
  simp [failureCount, List.filter_append, accepts, hacc, hrej]

/-- "some element fails `p`" is "not all satisfy `p`" (classically) -/
theorem exists_not_iff_not_forall {α} (l : List α) (p : α → Prop) :
    (∃ t ∈ l, ¬ p t) ↔ ¬ ∀ t ∈ l, p t := by
  constructor
  · rintro ⟨t, ht, hn⟩ h
    exact hn (h t ht)
  · intro h
    exact Classical.byContradiction fun hc =>
      h (fun t ht => Classical.byContradiction fun hp => hc ⟨t, ht, hp⟩)

@[simp] theorem failed_SUCCESS : ExitCode.SUCCESS.failed = false := rfl
@[simp] theorem failed_FAILURE : ExitCode.FAILURE.failed = true := rfl
/-- a literal status (`ExitCode::from(k)`): the proofs below do not depend on WHICH non-zero
    status a failure exits with -/
@[simp] theorem failed_ofStatus (n : Nat) : (ExitCode.ofStatus n).failed = (n % 256 != 0) := rfl


end RotoV.TRL
