/-
  C13 — the transliterated `resolve_module_part_of_path`
  (`Generated/ScopePathLoop.lean`, language and meaning in
  `Model/ScopePathLoop.lean`) against the hand model `Scope.resolveModulePart`.
-/
import RotoV.Model.ScopePathLoop
import RotoV.Generated.ScopePathLoop

namespace RotoV.Scope.PLoop
open RotoV.Scope

/-- one iteration of the `while` loop of the model's `supers` (entered with `ident = super`) -/
def specWhile (g : Graph) (st : St) : Out Flow :=
  match g.parentModule st.scope with
  | .panic p => .panic p
  | .err e => .err e
  | .ok none => .err .tooManySuper
  | .ok (some dec) =>
    match dec.scope with
    | none => .panic .superNoScope
    | some s' =>
      match st.idents with
      | [] => .ok (.ret ⟨st.ident, dec, []⟩)
      | i :: r => .ok (.fall ⟨s', i, false, r⟩)

/-- the statement between the loops: the `pkg` rule -/
def specBetween (st : St) : Out Flow :=
  .ok (.fall { st with scope := if st.recurse && st.ident = PKG then 0 else st.scope })

/-- one iteration of the model's `segments` -/
def specLoop (g : Graph) (st : St) : Out Flow :=
  if st.ident = SUPER then .err .tooManySuper else
  match g.resolve st.scope st.ident st.recurse with
  | .panic p => .panic p
  | .err e => .err e
  | .ok none => .err .notDefined
  | .ok (some stub) =>
    match stub.scope with
    | none => .ok (.ret ⟨st.ident, stub, st.idents⟩)
    | some s' =>
      match st.idents with
      | [] => .ok (.ret ⟨st.ident, stub, []⟩)
      | i :: r => .ok (.fall ⟨s', i, false, r⟩)

/-- the result of `segments` as the outcome of the `loop` -/
def flowOfRes : Res PathRes → Out Flow
  | .ok r => .ok (.ret r)
  | .err e => .err e
  | .panic p => .panic p

theorem loop_eq_segments (g : Graph) (L : PBlock)
    (hL : ∀ st, exec g L st [] = specLoop g st)
    (rest : List Name) : ∀ (s : Nat) (id : Name) (r : Bool) (n : Nat), rest.length + 1 ≤ n →
      loopSegments g L n ⟨s, id, r, rest⟩ = flowOfRes (segments g s id rest r) := by
  induction rest with
  | nil =>
    intro s id r n hn
    obtain ⟨m, rfl⟩ : ∃ m, n = m + 1 := ⟨n - 1, by omega⟩
    unfold loopSegments segments
    rw [hL]; unfold specLoop
    by_cases hid : id = SUPER
    · simp [hid, flowOfRes]
    · simp only [hid, if_false]
      cases hr : g.resolve s id r with
      | panic p => simp [flowOfRes]
      | err e => simp [flowOfRes]
      | ok od =>
        cases od with
        | none => simp [flowOfRes]
        | some stub => cases hs : stub.scope <;> simp [hs, flowOfRes]
  | cons i rest' ih =>
    intro s id r n hn
    obtain ⟨m, rfl⟩ : ∃ m, n = m + 1 := ⟨n - 1, by simp at hn; omega⟩
    unfold loopSegments segments
    rw [hL]; unfold specLoop
    by_cases hid : id = SUPER
    · simp [hid, flowOfRes]
    · simp only [hid, if_false]
      cases hr : g.resolve s id r with
      | panic p => simp [flowOfRes]
      | err e => simp [flowOfRes]
      | ok od =>
        cases od with
        | none => simp [flowOfRes]
        | some stub =>
          cases hs : stub.scope with
          | none => simp [hs, flowOfRes]
          | some s' =>
            simp only [hs]
            exact ih s' i false m (by simp at hn; omega)

theorem outOfFlow_flowOfRes (r : Res PathRes) : outOfFlow (flowOfRes r) = Out.ofRes r := by
  cases r <;> rfl

theorem tail_eq_supers (g : Graph) (W S L : PBlock)
    (hW : ∀ st, st.ident = SUPER → exec g W st [] = specWhile g st)
    (hS : ∀ st, exec g S st [] = specBetween st)
    (hL : ∀ st, exec g L st [] = specLoop g st)
    (rest : List Name) : ∀ (s : Nat) (id : Name) (after : Bool) (n : Nat), rest.length + 1 ≤ n →
      tail g W S L n ⟨s, id, !after, rest⟩ = Out.ofRes (supers g s id rest after) := by
  induction rest with
  | nil =>
    intro s id after n hn
    obtain ⟨m, rfl⟩ : ∃ m, n = m + 1 := ⟨n - 1, by omega⟩
    unfold tail whileSuper supers
    by_cases hid : id = SUPER
    · simp only [hid, if_true]
      rw [hW _ rfl]; unfold specWhile
      cases hp : g.parentModule s with
      | panic p => simp [Out.ofRes]
      | err e => simp [Out.ofRes]
      | ok od =>
        cases od with
        | none => simp [Out.ofRes]
        | some dec => cases hs : dec.scope <;> simp [hs, Out.ofRes]
    · simp only [hid, if_false]
      rw [hS]; unfold specBetween
      simp only
      rw [loop_eq_segments g L hL [] _ _ _ _ (by simp), outOfFlow_flowOfRes]
  | cons i rest' ih =>
    intro s id after n hn
    obtain ⟨m, rfl⟩ : ∃ m, n = m + 1 := ⟨n - 1, by simp at hn; omega⟩
    unfold tail whileSuper supers
    by_cases hid : id = SUPER
    · simp only [hid, if_true]
      rw [hW _ rfl]; unfold specWhile
      cases hp : g.parentModule s with
      | panic p => simp [Out.ofRes]
      | err e => simp [Out.ofRes]
      | ok od =>
        cases od with
        | none => simp [Out.ofRes]
        | some dec =>
          cases hs : dec.scope with
          | none => simp [hs, Out.ofRes]
          | some s' =>
            simp only [hs]
            have := ih s' i true m (by simp at hn; omega)
            simpa [tail] using this
    · simp only [hid, if_false]
      rw [hS]; unfold specBetween
      simp only
      rw [loop_eq_segments g L hL _ _ _ _ _ (by simp), outOfFlow_flowOfRes]

/-- bodies whose single passes are the three specs mean `resolveModulePart` -/
theorem runPath_eq_resolveModulePart (W S L : PBlock)
    (hW : ∀ g st, st.ident = SUPER → exec g W st [] = specWhile g st)
    (hS : ∀ g st, exec g S st [] = specBetween st)
    (hL : ∀ g st, exec g L st [] = specLoop g st)
    (g : Graph) (s : Nat) (p : Path) :
    runPath true W S L g s p = Out.ofRes (resolveModulePart g s p) := by
  cases p with
  | nil => rfl
  | cons id rest =>
    have := tail_eq_supers g W S L (hW g) (hS g) (hL g) rest s id false (rest.length + 1) (Nat.le_refl _)
    simp only [Bool.not_false] at this
    rw [resolveModulePart, ← this, runPath]

/-! ### the generated bodies -/

theorem exec_generated_while (g : Graph) (st : St) (h : st.ident = SUPER) :
    exec g Gen.ScopePathLoop.whileBody st [] = specWhile g st := by
  obtain ⟨s, id, r, ids⟩ := st
  unfold Gen.ScopePathLoop.whileBody specWhile
  cases hp : g.parentModule s with
  | panic p => simp [exec, evalOpt, hp]
  | err e => simp [exec, evalOpt, hp]
  | ok od =>
    cases od with
    | none => simp [exec, evalOpt, hp]
    | some dec =>
      cases hs : dec.scope with
      | none => simp [exec, evalOpt, hp, hs]
      | some s' => cases ids <;> simp [exec, evalOpt, hp, hs]

theorem exec_generated_between (g : Graph) (st : St) :
    exec g Gen.ScopePathLoop.betweenBody st [] = specBetween st := by
  obtain ⟨s, id, r, ids⟩ := st
  unfold Gen.ScopePathLoop.betweenBody specBetween
  by_cases h : (r && decide (id = PKG)) = true <;> simp [exec, h]

theorem exec_generated_loop (g : Graph) (st : St) :
    exec g Gen.ScopePathLoop.loopBody st [] = specLoop g st := by
  obtain ⟨s, id, r, ids⟩ := st
  unfold Gen.ScopePathLoop.loopBody specLoop
  by_cases hid : id = SUPER
  · simp [exec, hid]
  · cases hr : g.resolve s id r with
    | panic p => simp [exec, evalOpt, hid, hr]
    | err e => simp [exec, evalOpt, hid, hr]
    | ok od =>
      cases od with
      | none => simp [exec, evalOpt, hid, hr]
      | some stub =>
        cases hs : stub.scope with
        | none => simp [exec, evalOpt, hid, hr, hs]
        | some s' => cases ids <;> simp [exec, evalOpt, hid, hr, hs]

end RotoV.Scope.PLoop
