/-
  ListSelfEq: when no value that is not equal to itself (a NaN) is ever put
  into a list, no vector ever holds one — so the reflexive shortcut of `==`
  never differs from the vectors and the hypothesis `NoReflShortcut` of the
  refinement theorem holds by itself (C15, T1).
-/
import RotoV.Lemmas.ListRefine

namespace RotoV.ListM
open RotoV

/-- the element values an operation brings into a list -/
def opVals : Op → List Nat
  | .fromVec _ xs => xs
  | .push _ v => [v]
  | _ => []

/-- every element of every vector is equal to itself -/
def SelfEq (t : Spec) : Prop := ∀ xs ∈ t.lists, ∀ e ∈ xs, elemEq e e = true

theorem mem_swapElems {xs : List Nat} {i j e : Nat} (h : e ∈ swapElems xs i j) : e ∈ xs := by
  unfold swapElems at h
  split at h
  · rename_i a b ha hb
    rcases List.mem_or_eq_of_mem_set h with h1 | h1
    · rcases List.mem_or_eq_of_mem_set h1 with h2 | h2
      · exact h2
      · subst h2; exact List.mem_of_getElem? hb
    · subst h1; exact List.mem_of_getElem? ha
  · exact h

theorem vec_mem {t : Spec} {h a : Nat} {xs : List Nat} (hv : t.vec h = some (a, xs)) : xs ∈ t.lists := by
  unfold Spec.vec at hv
  split at hv
  · split at hv
    · rename_i ys hys
      injection hv with hv
      injection hv with _ hv
      subst hv
      exact List.mem_of_getElem? hys
    · cases hv
  · cases hv

theorem SelfEq_bind {t : Spec} (hs : SelfEq t) (d : Nat) {xs : List Nat} (hx : ∀ e ∈ xs, elemEq e e = true) :
    SelfEq (t.bind d xs).2 := by
  unfold Spec.bind
  split
  · intro ys hys e he
    simp only [List.mem_append, List.mem_singleton] at hys
    rcases hys with hys | hys
    · exact hs ys hys e he
    · subst hys; exact hx e he
  · exact hs

theorem SelfEq_set {t : Spec} (hs : SelfEq t) (a : Nat) {xs : List Nat} (hx : ∀ e ∈ xs, elemEq e e = true)
    (sl : List (Option Nat)) : SelfEq { lists := t.lists.set a xs, slots := sl } := by
  intro ys hys e he
  rcases List.mem_or_eq_of_mem_set hys with h1 | h1
  · exact hs ys h1 e he
  · subst h1; exact hx e he

theorem specStep_selfEq (t : Spec) (op : Op) (hs : SelfEq t) (hv : ∀ v ∈ opVals op, elemEq v v = true) :
    SelfEq (specStep t op).2 := by
  cases op with
  | new d => exact SelfEq_bind hs d (by simp)
  | fromVec d xs => exact SelfEq_bind hs d hv
  | push h v =>
    simp only [specStep]
    cases hq : t.vec h with
    | none => exact hs
    | some p =>
      obtain ⟨a, xs⟩ := p
      refine SelfEq_set hs a ?_ _
      intro e he
      simp only [List.mem_append, List.mem_singleton] at he
      rcases he with he | he
      · exact hs xs (vec_mem hq) e he
      · subst he; exact hv e (by simp [opVals])
  | swap h i j =>
    simp only [specStep]
    cases hq : t.vec h with
    | none => exact hs
    | some p =>
      obtain ⟨a, xs⟩ := p
      exact SelfEq_set hs a (fun e he => hs xs (vec_mem hq) e (mem_swapElems he)) _
  | concat d a b =>
    simp only [specStep]
    cases ha : t.vec a with
    | none => exact hs
    | some p =>
      cases hb : t.vec b with
      | none => exact hs
      | some q =>
        obtain ⟨_, xs⟩ := p
        obtain ⟨_, ys⟩ := q
        refine SelfEq_bind hs d ?_
        intro e he
        simp only [List.mem_append] at he
        rcases he with he | he
        · exact hs xs (vec_mem ha) e he
        · exact hs ys (vec_mem hb) e he
  | cloneH d src =>
    simp only [specStep]
    cases hq : t.vec src with
    | none => exact hs
    | some p =>
      simp only []
      split
      · exact hs
      · exact hs
  | dropH h =>
    simp only [specStep]
    cases hq : t.vec h with
    | none => exact hs
    | some p => exact hs
  | get h i => simp only [specStep]; split <;> exact hs
  | len h => simp only [specStep]; split <;> exact hs
  | isEmpty h => simp only [specStep]; split <;> exact hs
  | capacity h => simp only [specStep]; split <;> exact hs
  | contains h v => simp only [specStep]; split <;> exact hs
  | index h v => simp only [specStep]; split <;> exact hs
  | eq a b typed => simp only [specStep]; split <;> exact hs
  | toVec h => simp only [specStep]; split <;> exact hs
  | iter h => simp only [specStep]; split <;> exact hs
  | join h sep => simp only [specStep]; split <;> exact hs

theorem not_refl_of_selfEq {t : Spec} (hs : SelfEq t) (op : Op) : ¬ ReflShortcut t op := by
  cases op <;> simp only [ReflShortcut, not_false_eq_true]
  rename_i a b typed
  rintro ⟨x, xs, ha, _, hn⟩
  rw [listEq_self] at hn
  have : xs.all (fun e => elemEq e e) = true := by
    rw [List.all_eq_true]
    exact fun e he => hs xs (vec_mem ha) e he
  rw [this] at hn
  cases hn

/-- a history that never brings in a value that is not equal to itself never
    compares a vector holding one with itself -/
theorem noRefl_of_selfEq : ∀ (ops : List Op) {t : Spec}, SelfEq t →
    (∀ op ∈ ops, ∀ v ∈ opVals op, elemEq v v = true) → NoReflShortcut t ops
  | [], _, _, _ => trivial
  | op :: rest, t, hs, hv =>
    ⟨not_refl_of_selfEq hs op,
     noRefl_of_selfEq rest (specStep_selfEq t op hs (hv op (by simp))) (fun o ho => hv o (by simp [ho]))⟩

theorem SelfEq_init (n : Nat) : SelfEq (Spec.init n) := by
  intro xs hxs; simp [Spec.init] at hxs

end RotoV.ListM
