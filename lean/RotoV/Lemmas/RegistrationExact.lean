/-
  Registration (C18): exactly when `Rt::add` succeeds, and exactly what the
  tables hold afterwards (closed form over the five operation lists).
-/
import RotoV.Lemmas.RegistrationOrder

namespace RotoV.Reg

section
variable (lex : Name → Lex)

abbrev CheckD (st : St) (l : List DOp) : Prop :=
  CheckL (fun st k => st.decls k) (DOp.ent lex) (DOp.okp lex) st l
abbrev CheckI (st : St) (l : List (List Name)) : Prop :=
  CheckL (fun st k => st.imports [] k) impEnt impOk st l

/-- insert all the declarations a list of operations makes (evaluated in `st0`) -/
def applyD (st0 : St) (l : List DOp) (st : St) : St :=
  setAll St.insertDecl (entsL (DOp.ent lex) st0 l) st

/-- the tables after passes 1 … 5, in closed form -/
def S1 (st : St) (items : Items) : St := applyD lex st (ops1 items) st
def S2 (st : St) (items : Items) : St := (ops2 items).foldl TOp.apply (S1 lex st items)
def S3 (st : St) (items : Items) : St := applyD lex (S2 lex st items) (ops3 items) (S2 lex st items)
def S4 (st : St) (items : Items) : St := applyD lex (S3 lex st items) (ops4 items) (S3 lex st items)
def S5 (st : St) (items : Items) : St :=
  setAll (fun st k v => st.insertImport [] k v) (entsL impEnt (S4 lex st items) (ops5 items)) (S4 lex st items)

/-- what the five passes demand, each of the table it starts from -/
structure Checks (st : St) (items : Items) : Prop where
  modules : CheckD lex st (ops1 items)
  types : CheckT (S1 lex st items) (ops2 items)
  functions : CheckD lex (S2 lex st items) (ops3 items)
  constants : CheckD lex (S3 lex st items) (ops4 items)
  uses : CheckI (S4 lex st items) (ops5 items)

theorem runL_wf {α : Type} {run : α → St → Res St} (hg : ∀ o st, WF st → Good st (run o st))
    {l : List α} {st st' : St} (hw : WF st) (h : runL run l st = .ok st') : WF st' := by
  have := runL_good run hg l st hw
  rw [h] at this
  exact this.2

theorem addOps_ok_iff {st : St} (hw : WF st) (items : Items) (st' : St) :
    addOps lex st items = .ok st' ↔ Checks lex st items ∧ st' = S5 lex st items := by
  have g := guardedD lex
  constructor
  · intro hr
    unfold addOps at hr
    cases h1 : runL (DOp.run lex) (ops1 items) st with
    | err e => simp [h1] at hr
    | panic s => simp [h1] at hr
    | ok st1 =>
      simp only [h1] at hr
      have w1 := runL_wf (DOp.run_good lex) hw h1
      obtain ⟨c1, e1⟩ := (runL_ok_iff g _ st hw st1).mp h1
      have e1' : st1 = S1 lex st items := e1
      subst e1'
      cases h2 : runL TOp.run (ops2 items) (S1 lex st items) with
      | err e => simp [h2] at hr
      | panic s => simp [h2] at hr
      | ok st2 =>
        simp only [h2] at hr
        have w2 := runL_wf TOp.run_good w1 h2
        obtain ⟨c2, e2⟩ := (runT_ok_iff _ _ st2).mp h2
        have e2' : st2 = S2 lex st items := e2
        subst e2'
        cases h3 : runL (DOp.run lex) (ops3 items) (S2 lex st items) with
        | err e => simp [h3] at hr
        | panic s => simp [h3] at hr
        | ok st3 =>
          simp only [h3] at hr
          have w3 := runL_wf (DOp.run_good lex) w2 h3
          obtain ⟨c3, e3⟩ := (runL_ok_iff g _ _ w2 st3).mp h3
          have e3' : st3 = S3 lex st items := e3
          subst e3'
          cases h4 : runL (DOp.run lex) (ops4 items) (S3 lex st items) with
          | err e => simp [h4] at hr
          | panic s => simp [h4] at hr
          | ok st4 =>
            simp only [h4] at hr
            obtain ⟨c4, e4⟩ := (runL_ok_iff g _ _ w3 st4).mp h4
            have e4' : st4 = S4 lex st items := e4
            subst e4'
            obtain ⟨c5, e5⟩ := (runL_ok_iff guardedI _ _ trivial st').mp hr
            exact ⟨⟨c1, c2, c3, c4, c5⟩, e5⟩
  · rintro ⟨⟨c1, c2, c3, c4, c5⟩, rfl⟩
    unfold addOps
    have h1 : runL (DOp.run lex) (ops1 items) st = .ok (S1 lex st items) :=
      (runL_ok_iff g _ st hw _).mpr ⟨c1, rfl⟩
    have w1 := runL_wf (DOp.run_good lex) hw h1
    have h2 : runL TOp.run (ops2 items) (S1 lex st items) = .ok (S2 lex st items) :=
      (runT_ok_iff _ _ _).mpr ⟨c2, rfl⟩
    have w2 := runL_wf TOp.run_good w1 h2
    have h3 : runL (DOp.run lex) (ops3 items) (S2 lex st items) = .ok (S3 lex st items) :=
      (runL_ok_iff g _ _ w2 _).mpr ⟨c3, rfl⟩
    have w3 := runL_wf (DOp.run_good lex) w2 h3
    have h4 : runL (DOp.run lex) (ops4 items) (S3 lex st items) = .ok (S4 lex st items) :=
      (runL_ok_iff g _ _ w3 _).mpr ⟨c4, rfl⟩
    simp only [h1, h2, h3, h4]
    exact (runL_ok_iff guardedI _ _ trivial _).mpr ⟨c5, rfl⟩

/-- **closed form of a registration**: it succeeds exactly when every name is
    valid and every pass finds what it demands, and the resulting runtime is
    the fifth table -/
theorem register_ok_iff {st : St} (hw : WF st) (items : Items) (st' : St) :
    register Cfg.fixed lex st items = .ok st' ↔
      NamesValid lex items ∧ Checks lex st items ∧ st' = S5 lex st items := by
  unfold register
  by_cases hn : namesOk Cfg.fixed lex items = true
  · rw [if_pos hn, add_eq lex hw, addOps_ok_iff lex hw]
    simp [(namesOk_iff lex items).mp hn]
  · rw [if_neg hn]
    have : ¬ NamesValid lex items := fun h => hn ((namesOk_iff lex items).mpr h)
    simp [this]

theorem register_err_iff {st : St} (hw : WF st) (items : Items) :
    (∃ e, register Cfg.fixed lex st items = .err e) ↔ ¬ (NamesValid lex items ∧ Checks lex st items) := by
  have hg := register_good lex hw items
  constructor
  · rintro ⟨e, he⟩ ⟨hn, hc⟩
    have := (register_ok_iff lex hw items _).mpr ⟨hn, hc, rfl⟩
    rw [he] at this
    cases this
  · intro h
    cases hr : register Cfg.fixed lex st items with
    | ok st' =>
      have := (register_ok_iff lex hw items st').mp hr
      exact absurd ⟨this.1, this.2.1⟩ h
    | err e => exact ⟨e, rfl⟩
    | panic s => rw [hr] at hg; exact hg.elim

/-- the tables between the passes are well-formed and only grow -/
theorem checks_stages {st : St} (hw : WF st) (items : Items) (c : Checks lex st items) :
    (Ext st (S1 lex st items) ∧ WF (S1 lex st items)) ∧
    (Ext (S1 lex st items) (S2 lex st items) ∧ WF (S2 lex st items)) ∧
    (Ext (S2 lex st items) (S3 lex st items) ∧ WF (S3 lex st items)) ∧
    (Ext (S3 lex st items) (S4 lex st items) ∧ WF (S4 lex st items)) ∧
    (Ext (S4 lex st items) (S5 lex st items) ∧ WF (S5 lex st items)) := by
  have g := guardedD lex
  obtain ⟨c1, c2, c3, c4, c5⟩ := c
  have h1 : runL (DOp.run lex) (ops1 items) st = .ok (S1 lex st items) :=
    (runL_ok_iff g _ st hw _).mpr ⟨c1, rfl⟩
  have g1 := runL_good (DOp.run lex) (DOp.run_good lex) (ops1 items) st hw
  rw [h1] at g1
  have h2 : runL TOp.run (ops2 items) (S1 lex st items) = .ok (S2 lex st items) :=
    (runT_ok_iff _ _ _).mpr ⟨c2, rfl⟩
  have g2 := runL_good TOp.run TOp.run_good (ops2 items) _ g1.2
  rw [h2] at g2
  have h3 : runL (DOp.run lex) (ops3 items) (S2 lex st items) = .ok (S3 lex st items) :=
    (runL_ok_iff g _ _ g2.2 _).mpr ⟨c3, rfl⟩
  have g3 := runL_good (DOp.run lex) (DOp.run_good lex) (ops3 items) _ g2.2
  rw [h3] at g3
  have h4 : runL (DOp.run lex) (ops4 items) (S3 lex st items) = .ok (S4 lex st items) :=
    (runL_ok_iff g _ _ g3.2 _).mpr ⟨c4, rfl⟩
  have g4 := runL_good (DOp.run lex) (DOp.run_good lex) (ops4 items) _ g3.2
  rw [h4] at g4
  have h5 : runL runImport (ops5 items) (S4 lex st items) = .ok (S5 lex st items) :=
    (runL_ok_iff guardedI _ _ trivial _).mpr ⟨c5, rfl⟩
  have g5 := runL_good runImport runImport_good (ops5 items) _ g4.2
  rw [h5] at g5
  exact ⟨g1, g2, g3, g4, g5⟩

end

/-! ## what the tables hold afterwards -/

theorem insertAll_decls : ∀ (es : List (RName × Decl)) (st : St), (es.map (·.1)).Nodup →
    (∀ e ∈ es, st.decls e.1 = none) → ∀ k d,
      ((setAll St.insertDecl es st).decls k = some d ↔ st.decls k = some d ∨ (k, d) ∈ es)
  | [], st, _, _, k, d => by simp [setAll]
  | e :: es, st, hnd, hfree, k, d => by
    simp only [List.map_cons, List.nodup_cons] at hnd
    have hfree1 : ∀ e' ∈ es, (st.insertDecl e.1 e.2).decls e'.1 = none := by
      intro e' he'
      have hne : e'.1 ≠ e.1 := fun h => hnd.1 (List.mem_map.mpr ⟨e', he', h⟩)
      simp only [St.insertDecl, hne, if_false]
      exact hfree e' (List.mem_cons_of_mem _ he')
    have ih := insertAll_decls es (st.insertDecl e.1 e.2) hnd.2 hfree1 k d
    have he := hfree e (List.mem_cons_self ..)
    simp only [setAll, List.foldl_cons] at ih ⊢
    rw [ih]
    simp only [St.insertDecl, List.mem_cons]
    by_cases hk : k = e.1
    · subst hk
      simp only [if_true, he, Option.some.injEq]
      constructor
      · rintro (h | h)
        · exact Or.inr (Or.inl (by rw [← h]))
        · exact Or.inr (Or.inr h)
      · rintro (h | h | h)
        · cases h
        · exact Or.inl (congrArg Prod.snd h).symm
        · exact Or.inr h
    · simp only [hk, if_false]
      constructor
      · rintro (h | h)
        · exact Or.inl h
        · exact Or.inr (Or.inr h)
      · rintro (h | h | h)
        · exact Or.inl h
        · exact absurd (congrArg Prod.fst h) hk
        · exact Or.inr h

theorem insertAll_imports : ∀ (es : List (Name × RName)) (st : St), (es.map (·.1)).Nodup →
    (∀ e ∈ es, st.imports [] e.1 = none) → ∀ s n t,
      ((setAll (fun st k v => st.insertImport [] k v) es st).imports s n = some t ↔
        st.imports s n = some t ∨ (s = [] ∧ (n, t) ∈ es))
  | [], st, _, _, s, n, t => by simp [setAll]
  | e :: es, st, hnd, hfree, s, n, t => by
    simp only [List.map_cons, List.nodup_cons] at hnd
    have hfree1 : ∀ e' ∈ es, (st.insertImport [] e.1 e.2).imports [] e'.1 = none := by
      intro e' he'
      have hne : e'.1 ≠ e.1 := fun h => hnd.1 (List.mem_map.mpr ⟨e', he', h⟩)
      simp only [St.insertImport, hne, and_false, if_false]
      exact hfree e' (List.mem_cons_of_mem _ he')
    have ih := insertAll_imports es (st.insertImport [] e.1 e.2) hnd.2 hfree1 s n t
    have he := hfree e (List.mem_cons_self ..)
    simp only [setAll, List.foldl_cons] at ih ⊢
    rw [ih]
    simp only [St.insertImport, List.mem_cons]
    by_cases hk : s = [] ∧ n = e.1
    · obtain ⟨rfl, rfl⟩ := hk
      simp only [and_self, if_true, he, Option.some.injEq, true_and]
      constructor
      · rintro (h | h)
        · exact Or.inr (Or.inl (by rw [← h]))
        · exact Or.inr (Or.inr h)
      · rintro (h | h | h)
        · cases h
        · exact Or.inl (congrArg Prod.snd h).symm
        · exact Or.inr h
    · simp only [hk, if_false]
      constructor
      · rintro (h | h)
        · exact Or.inl h
        · exact Or.inr ⟨h.1, Or.inr h.2⟩
      · rintro (h | ⟨h1, h | h⟩)
        · exact Or.inl h
        · exact absurd ⟨h1, congrArg Prod.fst h⟩ hk
        · exact Or.inr ⟨h1, h⟩

theorem setAll_insertDecl_types (es : List (RName × Decl)) (st : St) :
    (setAll St.insertDecl es st).types = st.types ∧
    (setAll St.insertDecl es st).typeNames = st.typeNames ∧
    (setAll St.insertDecl es st).imports = st.imports := by
  induction es generalizing st with
  | nil => exact ⟨rfl, rfl, rfl⟩
  | cons e es ih =>
    simp only [setAll, List.foldl_cons]
    exact ih (st.insertDecl e.1 e.2)

/-- the types registered after pass 2: those of `st` and the library's `type` items -/
theorem foldl_apply_types : ∀ (l : List TOp) (st : St), (l.map (·.id)).Nodup →
    (∀ t ∈ l, st.types t.id = none) → ∀ i nm,
      ((l.foldl TOp.apply st).types i = some nm ↔ st.types i = some nm ∨ ∃ t ∈ l, t.id = i ∧ t.nm = nm)
  | [], st, _, _, i, nm => by simp
  | t :: l, st, hnd, hfree, i, nm => by
    simp only [List.map_cons, List.nodup_cons] at hnd
    have htypes : ∀ j, (TOp.apply st t).types j = if j = t.id then some t.nm else st.types j := by
      intro j; rw [TOp.apply_eq]; rfl
    have hfree1 : ∀ t' ∈ l, (TOp.apply st t).types t'.id = none := by
      intro t' ht'
      have hne : t'.id ≠ t.id := fun h => hnd.1 (List.mem_map.mpr ⟨t', ht', h⟩)
      rw [htypes]; simp only [hne, if_false]
      exact hfree t' (List.mem_cons_of_mem _ ht')
    have ih := foldl_apply_types l (TOp.apply st t) hnd.2 hfree1 i nm
    have he := hfree t (List.mem_cons_self ..)
    simp only [List.foldl_cons]
    rw [ih, htypes]
    simp only [List.mem_cons, exists_eq_or_imp]
    by_cases hk : i = t.id
    · subst hk
      simp only [if_true, he, Option.some.injEq, true_and]
      constructor
      · rintro (h | h)
        · exact Or.inr (Or.inl h)
        · exact Or.inr (Or.inr h)
      · rintro (h | h | h)
        · cases h
        · exact Or.inl h
        · exact Or.inr h
    · simp only [hk, if_false]
      constructor
      · rintro (h | h)
        · exact Or.inl h
        · exact Or.inr (Or.inr h)
      · rintro (h | h | h)
        · exact Or.inl h
        · exact absurd h.1.symm hk
        · exact Or.inr h

/-! ## items and operations -/

theorem mem_flatItem_leaf {α : Type} (leaf : ScopeId → Item → List α) (scope : ScopeId) (i : Item)
    (o : α) (ho : o ∈ leaf scope i) : o ∈ flatItem leaf scope i := by
  cases i <;> simp only [flatItem, List.mem_append] <;> first | exact ho | exact Or.inl ho

/-- the operations an item contributes are in the list of the library -/
theorem mem_flat_of_itemAt {α : Type} (leaf : ScopeId → Item → List α) {items : Items}
    {p : List Name} {i : Item} (h : ItemAt items p i) :
    ∀ (scope : ScopeId) (o : α), o ∈ leaf (scope ++ p) i → o ∈ flat leaf scope items := by
  induction h with
  | here i is =>
    intro scope o ho
    simp only [flat, List.mem_append, List.append_nil] at ho ⊢
    exact Or.inl (mem_flatItem_leaf leaf scope i o ho)
  | there j _ ih =>
    intro scope o ho
    simp only [flat, List.mem_append]
    exact Or.inr (ih scope o ho)
  | inside n is _ ih =>
    intro scope o ho
    simp only [flat, flatItem, List.mem_append]
    refine Or.inl (Or.inr (ih (scope ++ [n]) o ?_))
    simpa [List.append_assoc] using ho

mutual
/-- and every operation of the list stems from an item of the library -/
theorem itemAt_of_mem_flat {α : Type} (leaf : ScopeId → Item → List α) :
    ∀ (items : Items) (scope : ScopeId) (o : α), o ∈ flat leaf scope items →
      ∃ p i, ItemAt items p i ∧ o ∈ leaf (scope ++ p) i
  | .nil, _, o, ho => by simp [flat] at ho
  | .cons i is, scope, o, ho => by
    simp only [flat, List.mem_append] at ho
    rcases ho with ho | ho
    · rcases itemAt_of_mem_flatItem leaf i scope o ho with h | ⟨n, ch, rfl, p, j, hj, hoj⟩
      · exact ⟨[], i, .here i is, by simpa using h⟩
      · exact ⟨n :: p, j, .inside n is hj, by simpa [List.append_assoc] using hoj⟩
    · obtain ⟨p, j, hj, hoj⟩ := itemAt_of_mem_flat leaf is scope o ho
      exact ⟨p, j, .there i hj, hoj⟩
theorem itemAt_of_mem_flatItem {α : Type} (leaf : ScopeId → Item → List α) :
    ∀ (i : Item) (scope : ScopeId) (o : α), o ∈ flatItem leaf scope i →
      o ∈ leaf scope i ∨ ∃ n ch, i = .module n ch ∧ ∃ p j, ItemAt ch p j ∧ o ∈ leaf ((scope ++ [n]) ++ p) j
  | .module n ch, scope, o, ho => by
    simp only [flatItem, List.mem_append] at ho
    rcases ho with ho | ho
    · exact Or.inl ho
    · exact Or.inr ⟨n, ch, rfl, itemAt_of_mem_flat leaf ch (scope ++ [n]) o ho⟩
  | .type _ _, _, o, ho => Or.inl (by simpa [flatItem] using ho)
  | .function _ _ _ _, _, o, ho => Or.inl (by simpa [flatItem] using ho)
  | .constant _ _ _, _, o, ho => Or.inl (by simpa [flatItem] using ho)
  | .impl _ _, _, o, ho => Or.inl (by simpa [flatItem] using ho)
  | .use _, _, o, ho => Or.inl (by simpa [flatItem] using ho)
end

/-! ## reading an operation's declaration -/

section
variable (lex : Name → Lex)

theorem fnPre_ok {st : St} {scope : ScopeId} {n : Name} {ps : List RustTy} {r : RustTy} {tag : Nat}
    {m : Bool} {v : Option (RName × Decl)} (h : fnPre lex st scope n ps r tag m = .ok v) :
    ValidName (lex n) ∧ ∃ ps' r', convTys st ps = .ok ps' ∧ convTy st r = .ok r' ∧
      v = some (⟨scope, n⟩, ⟨if m then .method ps' r' tag else .function ps' r' tag, none⟩) := by
  unfold fnPre at h
  split at h
  · cases h
  · rename_i hc
    have hv : ValidName (lex n) := by
      apply (checkName_fixed_iff _).mp
      cases hcn : checkName Cfg.fixed (lex n) with
      | true => rfl
      | false => simp [hcn] at hc
    cases hps : convTys st ps with
    | panic s => simp [hps] at h
    | err e => simp [hps] at h
    | ok ps' =>
      cases hr : convTy st r with
      | panic s => simp [hps, hr] at h
      | err e => simp [hps, hr] at h
      | ok r' =>
        simp only [hps, hr, Res.ok.injEq] at h
        exact ⟨hv, ps', r', rfl, rfl, h.symm⟩

theorem constPre_ok {st : St} {scope : ScopeId} {n : Name} {ty : RustTy} {tag : Nat}
    {v : Option (RName × Decl)} (h : constPre st scope n ty tag = .ok v) :
    ∃ ty', convTy st ty = .ok ty' ∧ v = some (⟨scope, n⟩, ⟨.const ty' tag, none⟩) := by
  unfold constPre at h
  cases hr : convTy st ty with
  | panic s => simp [hr] at h
  | err e => simp [hr] at h
  | ok r' =>
    simp only [hr, Res.ok.injEq] at h
    exact ⟨r', rfl, h.symm⟩

/-- the scope an impl block's items are declared in: the scope the *type* owns,
    i.e. the path at which the type was declared -/
theorem implScope_ok {st : St} (hw : WF st) {ty : TyId} {s : ScopeId} (h : implScope ty st = .ok s) :
    ∃ nm, st.types ty = some nm ∧ s = nm.scope ++ [nm.ident] := by
  unfold implScope at h
  cases ht : st.types ty with
  | none => simp [ht] at h
  | some nm =>
    simp only [ht] at h
    cases hg : st.getScopeOf nm.scope nm.ident with
    | none => simp [hg] at h
    | some s' =>
      simp only [hg, Res.ok.injEq] at h
      subst h
      exact ⟨nm, rfl, getScopeOf_path hw hg⟩

/-- an operation of a successful pass has left its declaration in the table -/
theorem declared_of_mem {st : St} {l : List DOp} (c : CheckD lex st l) {o : DOp} (ho : o ∈ l)
    {k : RName} {d : Decl} (he : DOp.ent lex st o = some (k, d)) :
    (applyD lex st l st).decls k = some d := by
  refine (insertAll_decls _ st c.2.1 c.2.2 k d).mpr (Or.inr ?_)
  exact List.mem_filterMap.mpr ⟨o, ho, he⟩

end

end RotoV.Reg
