/-
  Lemmas/ValueMir — soundness of the checker `matchIsOnCopy` of `Model/ValueMir`. Core Lean only.
-/
import RotoV.Model.ValueMir

namespace RotoV.ValueMir

theorem IsPath.tail {g : Graph} : ∀ {a : Nat} {l : List Nat}, IsPath g (a :: l) → IsPath g l
  | _, [], _ => trivial
  | _, _ :: _, h => h.2

theorem IsPath.suffix {g : Graph} : ∀ (xs : List Nat) {ys : List Nat}, IsPath g (xs ++ ys) → IsPath g ys
  | [], _, h => h
  | _ :: xs, _, h => IsPath.suffix xs (IsPath.tail h)

/-- a node with something in `binds` / `affects` is a node of the graph -/
theorem node_default {g : Graph} {i : Nat} (hi : ¬ i < g.size) : node g i = {} := by
  simp [node, Array.getD, hi]

theorem lt_of_binds {g : Graph} {i v : Nat} (h : v ∈ (node g i).binds) : i < g.size := by
  by_cases hi : i < g.size
  · exact hi
  · rw [node_default hi] at h
    simp at h

theorem lt_of_affects {g : Graph} {i v : Nat} (h : v ∈ (node g i).affects) : i < g.size := by
  by_cases hi : i < g.size
  · exact hi
  · rw [node_default hi] at h
    simp at h

theorem lt_of_succ {g : Graph} {i t : Nat} (h : t ∈ (node g i).succ) : i < g.size := by
  by_cases hi : i < g.size
  · exact hi
  · rw [node_default hi] at h
    simp at h

/-- walking inside a closed set: a path that starts in `S` and passes no discriminant read of `v`
    (except possibly at its last node) stays in `S` -/
theorem walk_closed {g : Graph} {v : Nat} {S : NSet} (hc : closed g v S = true) :
    ∀ (l : List Nat) (x : Nat), S.has x = true → IsPath g (x :: l) →
      (∀ m ∈ (x :: l).dropLast, v ∉ (node g m).discr) → ∀ y ∈ x :: l, S.has y = true := by
  intro l
  induction l with
  | nil => intro x hx _ _ y hy; simp at hy; subst hy; exact hx
  | cons z l ih =>
    intro x hx hp hd y hy
    have hxz : z ∈ (node g x).succ := hp.1
    have hnd : v ∉ (node g x).discr := hd x (by simp [List.dropLast])
    have hzS : S.has z = true := by
      have := List.all_eq_true.1 hc x (List.mem_range.2 (lt_of_succ hxz))
      simp only [Bool.or_eq_true, Bool.not_eq_true', List.contains_iff_mem, List.all_eq_true] at this
      rcases this with (h | h) | h
      · rw [hx] at h; exact absurd h (by decide)
      · exact absurd h hnd
      · exact h z hxz
    rcases List.mem_cons.1 hy with rfl | hy'
    · exact hx
    · refine ih z hzS hp.2 ?_ y hy'
      intro m hm
      exact hd m (by simp only [List.dropLast_cons_cons]; exact List.mem_cons_of_mem _ hm)

/-- the core: accepted by `okFrom` → no path from a successor of `a` reaches a binding extraction
    from `v` without passing a discriminant read of `v` -/
theorem okFrom_sound {g : Graph} {v a : Nat} (h : okFrom g v a = true)
    (mid : List Nat) (r : Nat) (hp : IsPath g (a :: (mid ++ [r]))) (hr : v ∈ (node g r).binds) :
    ∃ m ∈ mid, v ∈ (node g m).discr := by
  apply Classical.byContradiction
  intro hno
  have hno' : ∀ m ∈ mid, v ∉ (node g m).discr := fun m hm hd => hno ⟨m, hm, hd⟩
  simp only [okFrom, Bool.and_eq_true] at h
  obtain ⟨⟨hs, hc⟩, hb⟩ := h
  generalize closure g v (fuelFor g) (node g a).succ (Array.replicate g.size false) = S at hs hc hb
  have hrS : S.has r = true := by
    cases mid with
    | nil =>
      have : r ∈ (node g a).succ := hp.1
      exact List.all_eq_true.1 hs r this
    | cons x mid' =>
      have hx : x ∈ (node g a).succ := hp.1
      have hxS : S.has x = true := List.all_eq_true.1 hs x hx
      have hp' : IsPath g (x :: (mid' ++ [r])) := IsPath.tail hp
      refine walk_closed hc (mid' ++ [r]) x hxS hp' ?_ r (by simp)
      intro m hm
      have : (x :: (mid' ++ [r])).dropLast = x :: mid' := by
        rw [← List.cons_append, List.dropLast_concat]
      rw [this] at hm
      exact hno' m hm
  have := List.all_eq_true.1 hb r (List.mem_range.2 (lt_of_binds hr))
  simp only [Bool.or_eq_true, Bool.not_eq_true'] at this
  rcases this with h | h
  · rw [hrS] at h; exact absurd h (by decide)
  · simp [hr] at h

theorem boundVars_of_binds {g : Graph} {v r : Nat} (hr : v ∈ (node g r).binds) :
    (boundVars g).contains v = true := by
  simp only [boundVars, List.contains_iff_mem, List.mem_flatMap, List.mem_range]
  exact ⟨r, lt_of_binds hr, hr⟩

/-- **soundness on the graph**: between a node that affects `v` and a later binding extraction from
    `v`, on every path, the discriminant of `v` is read again -/
theorem graphOk_sound {g : Graph} (h : graphOk g = true) (v a : Nat) (mid : List Nat) (r : Nat)
    (hp : IsPath g (a :: (mid ++ [r]))) (ha : v ∈ (node g a).affects) (hr : v ∈ (node g r).binds) :
    ∃ m ∈ mid, v ∈ (node g m).discr := by
  have h1 := List.all_eq_true.1 h a (List.mem_range.2 (lt_of_affects ha))
  have h2 := List.all_eq_true.1 h1 v ha
  rw [boundVars_of_binds hr] at h2
  simp only [Bool.not_true, Bool.false_or] at h2
  exact okFrom_sound h2 mid r hp hr

/-- the same, as the statement about a `match`: on every path from a discriminant read of `v` to a
    binding extraction from `v`, with no other discriminant read of `v` in between, NO node in
    between affects `v` -/
theorem graphOk_bindings_of_switched_value {g : Graph} (h : graphOk g = true) (v d : Nat)
    (mid : List Nat) (r : Nat) (hp : IsPath g (d :: (mid ++ [r]))) (hr : v ∈ (node g r).binds)
    (hmid : ∀ m ∈ mid, v ∉ (node g m).discr) : ∀ m ∈ mid, v ∉ (node g m).affects := by
  intro m hm ha
  obtain ⟨pre, post, rfl⟩ := List.append_of_mem hm
  have hp' : IsPath g (m :: (post ++ [r])) := by
    have : d :: ((pre ++ m :: post) ++ [r]) = (d :: pre) ++ (m :: (post ++ [r])) := by simp
    rw [this] at hp
    exact IsPath.suffix (d :: pre) hp
  obtain ⟨m', hm', hd⟩ := graphOk_sound h v m post r hp' ha hr
  exact hmid m' (by simp [hm']) hd

/-! ### the second checker: a value handed to a call is consumed -/

theorem lt_of_uses {g : Graph} {i v : Nat} (h : v ∈ (node g i).uses) : i < g.size := by
  by_cases hi : i < g.size
  · exact hi
  · rw [node_default hi] at h
    simp at h

theorem lt_of_hands {g : Graph} {i v : Nat} (h : v ∈ (node g i).hands) : i < g.size := by
  by_cases hi : i < g.size
  · exact hi
  · rw [node_default hi] at h
    simp at h

/-- walking inside a closed set: a path that starts in `S` and passes no barrier node (except
    possibly at its last node) stays in `S` -/
theorem walk_closedP {g : Graph} {bar : Nat → Bool} {S : NSet} (hc : closedP g bar S = true) :
    ∀ (l : List Nat) (x : Nat), S.has x = true → IsPath g (x :: l) →
      (∀ m ∈ (x :: l).dropLast, bar m = false) → ∀ y ∈ x :: l, S.has y = true := by
  intro l
  induction l with
  | nil => intro x hx _ _ y hy; simp at hy; subst hy; exact hx
  | cons z l ih =>
    intro x hx hp hd y hy
    have hxz : z ∈ (node g x).succ := hp.1
    have hnd : bar x = false := hd x (by simp [List.dropLast])
    have hzS : S.has z = true := by
      have := List.all_eq_true.1 hc x (List.mem_range.2 (lt_of_succ hxz))
      simp only [Bool.or_eq_true, Bool.not_eq_true', List.all_eq_true] at this
      rcases this with (h | h) | h
      · rw [hx] at h; exact absurd h (by decide)
      · rw [hnd] at h; exact absurd h (by decide)
      · exact h z hxz
    rcases List.mem_cons.1 hy with rfl | hy'
    · exact hx
    · refine ih z hzS hp.2 ?_ y hy'
      intro m hm
      exact hd m (by simp only [List.dropLast_cons_cons]; exact List.mem_cons_of_mem _ hm)

/-- accepted by `okFromP` → every path from `a` to a `bad` node passes a barrier node in between -/
theorem okFromP_sound {g : Graph} {bar bad : Nat → Bool} {a : Nat} (h : okFromP g bar bad a = true)
    (mid : List Nat) (r : Nat) (hp : IsPath g (a :: (mid ++ [r]))) (hr : bad r = true)
    (hlt : r < g.size) : ∃ m ∈ mid, bar m = true := by
  apply Classical.byContradiction
  intro hno
  have hno' : ∀ m ∈ mid, bar m = false := fun m hm => by
    cases hb : bar m with
    | false => rfl
    | true => exact absurd ⟨m, hm, hb⟩ hno
  simp only [okFromP, Bool.and_eq_true] at h
  obtain ⟨⟨hs, hc⟩, hb⟩ := h
  generalize closureP g bar (fuelFor g) (node g a).succ (Array.replicate g.size false) = S at hs hc hb
  have hrS : S.has r = true := by
    cases mid with
    | nil =>
      have : r ∈ (node g a).succ := hp.1
      exact List.all_eq_true.1 hs r this
    | cons x mid' =>
      have hx : x ∈ (node g a).succ := hp.1
      have hxS : S.has x = true := List.all_eq_true.1 hs x hx
      have hp' : IsPath g (x :: (mid' ++ [r])) := IsPath.tail hp
      refine walk_closedP hc (mid' ++ [r]) x hxS hp' ?_ r (by simp)
      intro m hm
      have : (x :: (mid' ++ [r])).dropLast = x :: mid' := by
        rw [← List.cons_append, List.dropLast_concat]
      rw [this] at hm
      exact hno' m hm
  have := List.all_eq_true.1 hb r (List.mem_range.2 hlt)
  simp only [Bool.or_eq_true, Bool.not_eq_true'] at this
  rcases this with h | h
  · rw [hrS] at h; exact absurd h (by decide)
  · rw [hr] at h; exact absurd h (by decide)

/-- **soundness on the graph**: after a node hands `v` to a call, on every path, `v` is assigned as
    a whole before any node reads, drops, moves, passes or returns it -/
theorem argsOk_sound {g : Graph} (h : argsOk g = true) (v a : Nat) (mid : List Nat) (r : Nat)
    (hp : IsPath g (a :: (mid ++ [r]))) (ha : v ∈ (node g a).hands) (hr : v ∈ (node g r).uses) :
    ∃ m ∈ mid, v ∈ (node g m).defs := by
  have h1 := List.all_eq_true.1 h a (List.mem_range.2 (lt_of_hands ha))
  have h2 : argOk g v a = true := List.all_eq_true.1 h1 v ha
  obtain ⟨m, hm, hb⟩ := okFromP_sound h2 mid r hp
    (by simpa only [List.contains_iff_mem] using hr) (lt_of_uses hr)
  exact ⟨m, hm, by simpa only [List.contains_iff_mem] using hb⟩


instance decIsPath (g : Graph) : (l : List Nat) → Decidable (IsPath g l)
  | [] => isTrue trivial
  | [_] => isTrue trivial
  | a :: b :: rest =>
    match decIsPath g (b :: rest) with
    | isTrue h =>
      if hm : b ∈ (node g a).succ then isTrue ⟨hm, h⟩ else isFalse fun hp => hm hp.1
    | isFalse h => isFalse fun hp => h hp.2

/-! ### witnesses -/

/-- `$1 = clone(x); $2 = discriminant($1); switch $2 …; y = clone($1.0); x = …` (a guard writes the
    matched variable) `; z = clone($1.0)` — nodes 0 … 7 -/
def wOnCopy : Item := ⟨[
  ⟨0, [.assign ⟨1, []⟩ (.clone ⟨0, []⟩), .assign ⟨2, []⟩ (.discr 1)], .switch 2 [(0, 1)] none⟩,
  ⟨1, [.assign ⟨3, []⟩ (.clone ⟨1, [.vfield 0 0]⟩), .assign ⟨0, []⟩ .lit], .jump 2⟩,
  ⟨2, [.assign ⟨4, []⟩ (.clone ⟨1, [.vfield 0 0]⟩)], .ret 4⟩]⟩

/-- the same with discriminant and bindings read from `x` itself (seeded change C02-8) -/
def wOnVariable : Item := ⟨[
  ⟨0, [.assign ⟨2, []⟩ (.discr 0)], .switch 2 [(0, 1)] none⟩,
  ⟨1, [.assign ⟨3, []⟩ (.clone ⟨0, [.vfield 0 0]⟩), .assign ⟨0, []⟩ .lit], .jump 2⟩,
  ⟨2, [.assign ⟨4, []⟩ (.clone ⟨0, [.vfield 0 0]⟩)], .ret 4⟩]⟩

/-- a loop that calls `f` with a copy of `x`: `$1 = clone(x); $2 = f($1); $3 = discriminant($2);
    switch $3 [0 → again] else out; out: $4 = clone(x); return $4` — nodes 0 … 5 -/
def wArgCopy : Item := ⟨[
  ⟨0, [.assign ⟨1, []⟩ (.clone ⟨0, []⟩), .assign ⟨2, []⟩ (.call [1] [1]), .assign ⟨3, []⟩ (.discr 2)],
    .switch 3 [(0, 0)] (some 1)⟩,
  ⟨1, [.assign ⟨4, []⟩ (.clone ⟨0, []⟩)], .ret 4⟩]⟩

/-- `x` itself handed to the callee, then read: `$2 = f(x); $3 = clone(x.0); return $3` -/
def wArgItself : Item := ⟨[
  ⟨0, [.assign ⟨2, []⟩ (.call [0] [0]), .assign ⟨3, []⟩ (.clone ⟨0, [.field 0]⟩)], .ret 3⟩]⟩

end RotoV.ValueMir
