/-
  Frame lemmas (C13): what a new declaration / a new import can and cannot
  change about lookups.
-/
import RotoV.Model.Scope
import RotoV.Lemmas.Scope
import RotoV.Lemmas.ScopePath

namespace RotoV.Scope

/-- every import points at an existing declaration (what `import` guarantees:
    it inserts the name of a declaration it has just found) -/
def ImportsOk (g : Graph) : Prop :=
  ∀ (s : Nat) (sc : Scope), g.scopes[s]? = some sc →
    ∀ a t, (a, t) ∈ sc.imports → (g.decl t).isSome = true

theorem decl_name {g : Graph} {n : RName} {d : Decl} (h : g.decl n = some d) : d.name = n := by
  have := List.find?_some h
  simpa using this

theorem lookup_mem {α β} [BEq α] [LawfulBEq α] {l : List (α × β)} {a : α} {b : β}
    (h : l.lookup a = some b) : (a, b) ∈ l := by
  induction l with
  | nil => simp at h
  | cons hd tl ih =>
    obtain ⟨k, v⟩ := hd
    simp only [List.lookup] at h
    by_cases hk : a == k
    · simp only [hk] at h
      have : a = k := by simpa using hk
      subst this
      cases h
      exact List.mem_cons_self
    · simp only [hk] at h
      exact List.mem_cons_of_mem _ (ih h)

/-- what `insert_declaration` does to the table on success -/
theorem insertDecl_ok {g g' : Graph} {n : RName} {k : DKind} {sc : Option Nat}
    (h : g.insertDecl n k sc = .ok g') :
    g.decl n = none ∧ g'.scopes = g.scopes ∧
      ∀ m, g'.decl m = if m = n then some ⟨n, k, sc⟩ else g.decl m := by
  unfold Graph.insertDecl at h
  cases hd : g.decl n with
  | some d => rw [hd] at h; cases h
  | none =>
    rw [hd] at h
    simp only [Res.ok.injEq] at h
    subst h
    refine ⟨rfl, rfl, ?_⟩
    intro m
    simp only [Graph.decl, List.find?_append]
    by_cases hm : m = n
    · subst hm
      have : g.decls.find? (fun d => d.name = m) = none := hd
      simp [this]
    · simp only [hm, ↓reduceIte]
      cases hf : g.decls.find? (fun d => decide (d.name = m)) with
      | some d => simp
      | none =>
        have : ¬ n = m := fun h => hm h.symm
        simp [this]

theorem ancestors_congr {g g' : Graph} (h : g'.scopes = g.scopes) {s : Nat} {l : List Nat}
    (a : Ancestors g s l) : Ancestors g' s l := by
  induction a with
  | root hs hp => exact .root (by rw [h]; exact hs) hp
  | step hs hp _ ih => exact .step (by rw [h]; exact hs) hp ih

theorem wf_congr {g g' : Graph} (h : g'.scopes = g.scopes) (wf : WF g) : WF g' := by
  intro s sc hs p hp
  rw [h] at hs
  exact wf s sc hs p hp

/-- a new declaration named `n` changes what scope `a` offers for `x` only if
    it *is* `(a, x)` -/
theorem hitAt_insert {g g' : Graph} (iok : ImportsOk g) {n : RName} {k : DKind} {sc : Option Nat}
    (h : g.insertDecl n k sc = .ok g') (a : Nat) (x : Name) (hne : (⟨a, x⟩ : RName) ≠ n) :
    hitAt g' a x = hitAt g a x := by
  obtain ⟨hfresh, hsc, hdecl⟩ := insertDecl_ok h
  unfold hitAt
  rw [hdecl ⟨a, x⟩, hsc]
  simp only [hne, ↓reduceIte]
  cases hd : g.decl ⟨a, x⟩ with
  | some d => rfl
  | none =>
    simp only
    cases hs : g.scopes[a]? with
    | none => rfl
    | some s =>
      simp only
      cases hl : s.imports.lookup x with
      | none => rfl
      | some t =>
        simp only
        have hmem := lookup_mem hl
        have hsome := iok a s hs x t hmem
        have htn : t ≠ n := by
          intro htn
          rw [htn, hfresh] at hsome
          cases hsome
        rw [hdecl t]
        simp [htn]

theorem firstHit_insert {g g' : Graph} (iok : ImportsOk g) {n : RName} {k : DKind} {sc : Option Nat}
    (h : g.insertDecl n k sc = .ok g') (x : Name) :
    ∀ (chain : List Nat), (n.ident ≠ x ∨ n.scope ∉ chain) →
      firstHit g' x chain = firstHit g x chain := by
  intro chain
  induction chain with
  | nil => intro _; rfl
  | cons a l ih =>
    intro hoff
    have hne : (⟨a, x⟩ : RName) ≠ n := by
      intro heq
      rcases hoff with h1 | h2
      · exact h1 (by rw [← heq])
      · exact h2 (by rw [← heq]; exact List.mem_cons_self)
    have hl : n.ident ≠ x ∨ n.scope ∉ l := by
      rcases hoff with h1 | h2
      · exact Or.inl h1
      · exact Or.inr (fun hm => h2 (List.mem_cons_of_mem _ hm))
    simp only [firstHit, hitAt_insert iok h a x hne, ih hl]

/-- a hit on a prefix of the chain is the answer for the whole chain -/
theorem firstHit_prefix (g : Graph) (x : Name) (pre post : List Nat) (d : Decl)
    (h : firstHit g x pre = .ok (some d)) : firstHit g x (pre ++ post) = .ok (some d) := by
  induction pre with
  | nil => simp [firstHit] at h
  | cons a l ih =>
    simp only [List.cons_append, firstHit] at h ⊢
    cases hh : hitAt g a x with
    | some r => rw [hh] at h; exact h
    | none => rw [hh] at h; exact ih h

theorem ancestors_valid {g : Graph} {s : Nat} {l : List Nat} (h : Ancestors g s l) :
    ∀ a ∈ l, ∃ sc, g.scopes[a]? = some sc := by
  induction h with
  | root hs _ =>
    intro a ha
    simp only [List.mem_singleton] at ha
    subst ha; exact ⟨_, hs⟩
  | step hs _ _ ih =>
    intro a ha
    simp only [List.mem_cons] at ha
    rcases ha with rfl | ha
    · exact ⟨_, hs⟩
    · exact ih a ha

/-- on a graph whose imports point at declarations the lookup never panics -/
theorem firstHit_no_panic {g : Graph} (iok : ImportsOk g) (x : Name) :
    ∀ (chain : List Nat), (∀ a ∈ chain, ∃ sc, g.scopes[a]? = some sc) →
      ∀ p, firstHit g x chain ≠ .panic p := by
  intro chain
  induction chain with
  | nil => intro _ p h; cases h
  | cons a l ih =>
    intro hv p
    obtain ⟨sc, hs⟩ := hv a List.mem_cons_self
    have ihl := ih (fun b hb => hv b (List.mem_cons_of_mem _ hb)) p
    simp only [firstHit, hitAt]
    cases hd : g.decl ⟨a, x⟩ with
    | some d => intro h; cases h
    | none =>
      simp only [hs]
      cases hl : sc.imports.lookup x with
      | none => exact ihl
      | some t =>
        simp only
        have := iok a sc hs x t (lookup_mem hl)
        cases ht : g.decl t with
        | none => rw [ht] at this; cases this
        | some d => intro h; cases h

/-! ## later segments -/

/-- the scopes `walkMembers` reads declarations from -/
def memberScopes (g : Graph) : Decl → List Name → List Nat
  | d, rest =>
    match d.scope with
    | none => []
    | some s' =>
      match rest with
      | [] => []
      | i :: rest' =>
        s' :: (match g.decl ⟨s', i⟩ with
          | none => []
          | some d' => memberScopes g d' rest')

theorem walkMembers_insert {g g' : Graph} {n : RName} {k : DKind} {sc : Option Nat}
    (h : g.insertDecl n k sc = .ok g') :
    ∀ (rest : List Name) (d : Decl) (id : Name), n.scope ∉ memberScopes g d rest →
      walkMembers g' d id rest = walkMembers g d id rest := by
  obtain ⟨_, _, hdecl⟩ := insertDecl_ok h
  intro rest
  induction rest with
  | nil =>
    intro d id _
    unfold walkMembers
    cases d.scope <;> rfl
  | cons i rest' ih =>
    intro d id hoff
    unfold walkMembers
    cases hs : d.scope with
    | none => rfl
    | some s' =>
      simp only
      by_cases hi : i = SUPER
      · simp [hi]
      · simp only [hi, ↓reduceIte]
        unfold memberScopes at hoff
        simp only [hs, List.mem_cons, not_or] at hoff
        have hne : (⟨s', i⟩ : RName) ≠ n := by
          intro heq
          exact hoff.1 (by rw [← heq])
        rw [hdecl ⟨s', i⟩]
        simp only [hne, ↓reduceIte]
        cases hd : g.decl ⟨s', i⟩ with
        | none => rfl
        | some d' =>
          simp only
          rw [hd] at hoff
          exact ih d' i hoff.2

end RotoV.Scope
