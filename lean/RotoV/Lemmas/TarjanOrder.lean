/-
  The invariant proof of `tarjan` / `strongly_connect` as written: for every
  graph whose keys are distinct (a `BTreeMap`), the components are a complete,
  duplicate-free partition of the graph's names in which an edge never leads
  into a later component (`TopoOrder`).

  Shape: a state invariant `TjInv` (visited = stack ∪ components, stack indices
  strictly increasing towards the top and below `next_index`, the components so
  far accepted by the checker `compsOk`), a postcondition `ScPostOf` of
  `strongly_connect` (the vertices it leaves on the stack only refer to visited
  vertices, and never to a stack vertex below the call's base whose index is
  smaller than the call's lowlink; the lowlink is the call's own index or the
  index of a base vertex), and a loop invariant `ScLoopInv` of the `for w in …` loop.
-/
import RotoV.Lemmas.TarjanNoPanic

namespace RotoV.Tarjan

def vIdx (st : State) (x : Nat) : Nat :=
  match st.vertices.lookup x with
  | some vs => vs.index
  | none => 0

def vLow (st : State) (x : Nat) : Nat :=
  match st.vertices.lookup x with
  | some vs => vs.lowlink
  | none => 0

theorem lookup_congr {st st' : State} {x : Nat} (h : st'.vertices.lookup x = st.vertices.lookup x) :
    vIdx st' x = vIdx st x ∧ vLow st' x = vLow st x ∧ (Has st' x ↔ Has st x) := by
  simp only [vIdx, vLow, Has, h, and_self, iff_self]

theorem compsOk_snoc (g : Graph) : ∀ (comps : List (List Nat)) (seen c : List Nat),
    compsOk g seen (comps ++ [c]) = (compsOk g seen comps && compOk g (seen ++ comps.flatten) c) := by
  intro comps
  induction comps with
  | nil => intro seen c; simp [compsOk]
  | cons p comps ih =>
    intro seen c
    simp only [List.cons_append, compsOk, ih, List.flatten_cons, List.append_assoc, Bool.and_assoc]

structure TjInv (g : Graph) (st : State) : Prop where
  nodup : (st.stack ++ st.components.flatten).Nodup
  vis : ∀ x, Has st x ↔ (x ∈ st.stack ∨ x ∈ st.components.flatten)
  nodes : ∀ x, Has st x → x ∈ g.nodes
  sorted : st.stack.Pairwise (fun a b => vIdx st b < vIdx st a)
  bound : ∀ x, x ∈ st.stack → vIdx st x < st.nextIndex
  back : compsOk g [] st.components = true
  /-- a stack vertex reaches every stack vertex above it -/
  reach : st.stack.Pairwise (fun a b => Reach g b a)
  /-- the members of an emitted component reach each other -/
  scc : ∀ c, c ∈ st.components → ∀ x y, x ∈ c → y ∈ c → Reach g x y

theorem TjInv.congr {g : Graph} {st st' : State} (h : TjInv g st) (hs : st'.stack = st.stack)
    (hc : st'.components = st.components) (hn : st'.nextIndex = st.nextIndex)
    (hh : ∀ x, Has st' x ↔ Has st x) (hi : ∀ x, vIdx st' x = vIdx st x) : TjInv g st' := by
  refine ⟨by rw [hs, hc]; exact h.nodup, fun x => by rw [hh, hs, hc]; exact h.vis x,
    fun x hx => h.nodes x ((hh x).1 hx), ?_, fun x hx => by rw [hi, hn]; exact h.bound x (hs ▸ hx),
    by rw [hc]; exact h.back, by rw [hs]; exact h.reach, by rw [hc]; exact h.scc⟩
  rw [hs]
  exact h.sorted.imp (fun {a b} hab => by rw [hi, hi]; exact hab)

theorem TjInv.split {g : Graph} {st : State} (h : TjInv g st) {new base : List Nat} {v : Nat}
    (hs : st.stack = new ++ v :: base) :
    (∀ a, a ∈ new → vIdx st v < vIdx st a) ∧ (∀ b, b ∈ base → vIdx st b < vIdx st v) ∧
    (∀ a, a ∈ new → ∀ b, b ∈ base → vIdx st b < vIdx st a) := by
  have := h.sorted
  rw [hs, List.pairwise_append] at this
  obtain ⟨_, h2, h3⟩ := this
  rw [List.pairwise_cons] at h2
  exact ⟨fun a ha => h3 a ha v (by simp), fun b hb => h2.1 b hb,
    fun a ha b hb => h3 a ha b (by simp [hb])⟩

theorem TjInv.rsplit {g : Graph} {st : State} (h : TjInv g st) {new base : List Nat} {v : Nat}
    (hs : st.stack = new ++ v :: base) :
    (∀ a, a ∈ new → Reach g v a) ∧ (∀ b, b ∈ base → Reach g b v) := by
  have := h.reach
  rw [hs, List.pairwise_append] at this
  obtain ⟨_, h2, h3⟩ := this
  rw [List.pairwise_cons] at h2
  exact ⟨fun a ha => h3 a ha v (by simp), fun b hb => h2.1 b hb⟩

theorem updateLowlink_spec (st : State) (v new : Nat) (st' : State)
    (h : st.updateLowlink v new = .ok st') :
    st'.stack = st.stack ∧ st'.components = st.components ∧ st'.nextIndex = st.nextIndex ∧
    (∀ x, Has st' x ↔ Has st x) ∧ (∀ x, vIdx st' x = vIdx st x) ∧
    (vLow st' v ≤ vLow st v ∧ vLow st' v ≤ new ∧ (vLow st' v = vLow st v ∨ vLow st' v = new)) ∧
    (∀ x, x ≠ v → st'.vertices.lookup x = st.vertices.lookup x) := by
  unfold State.updateLowlink at h
  cases hl : st.vertices.lookup v with
  | none => rw [hl] at h; cases h
  | some vs =>
    rw [hl] at h
    simp only [Except.ok.injEq] at h
    subst h
    refine ⟨rfl, rfl, rfl, fun x => ?_, fun x => ?_, ?_, fun x hx => ?_⟩
    · simp only [Has, amInsert_lookup]
      by_cases e : x = v
      · subst e; simp [hl]
      · simp [e]
    · simp only [vIdx, amInsert_lookup]
      by_cases e : x = v
      · subst e; simp [hl]
      · simp [e]
    · have e : vLow { st with vertices := amInsert v { vs with lowlink := min vs.lowlink new } st.vertices } v
          = min vs.lowlink new := by simp [vLow, amInsert_lookup]
      have e0 : vLow st v = vs.lowlink := by simp [vLow, hl]
      rw [e, e0]
      omega
    · simp [amInsert_lookup, hx]

theorem vertex_low {st : State} {w : Nat} {vs : VertexState} (h : st.vertex w = .ok vs) :
    vLow st w = vs.lowlink ∧ vIdx st w = vs.index := by
  unfold State.vertex at h
  cases hl : st.vertices.lookup w with
  | none => rw [hl] at h; cases h
  | some vs' =>
    rw [hl] at h
    simp only [Except.ok.injEq] at h
    subst h
    simp [vLow, vIdx, hl]

/-- what a returned call `strongly_connect(v)` guarantees -/
structure ScPostOf (g : Graph) (st : State) (v : Nat) (st' : State) : Prop where
  inv : TjInv g st'
  frame : ∀ x, Has st x → st'.vertices.lookup x = st.vertices.lookup x
  has : Has st' v
  idxv : vIdx st' v = st.nextIndex
  lowdom : vLow st' v = vIdx st' v ∨ ∃ b, b ∈ st.stack ∧ vLow st' v = vIdx st' b ∧ Reach g v b
  stack : ∃ new, st'.stack = new ++ st.stack ∧ (new = [] ∨ vLow st' v ≠ vIdx st' v) ∧
    (∀ x, x ∈ new → ∀ w, Edge g x w → Has st' w ∧ (w ∈ st.stack → vLow st' v ≤ vIdx st' w)) ∧
    ∀ x, x ∈ new → Reach g x v

def ScPost (g : Graph) (sc : State → Nat → M State) : Prop :=
  ∀ st v st', TjInv g st → ¬ Has st v → v ∈ g.nodes → (∀ y, y ∈ st.stack → Reach g y v) →
    sc st v = .ok st' → ScPostOf g st v st'

/-- invariant of the `for w in references.get(&v)` loop of the call on `v`
whose stack base is `base` -/
structure ScLoopInv (g : Graph) (v : Nat) (base : List Nat) (st : State) : Prop where
  inv : TjInv g st
  has : Has st v
  lowle : vLow st v ≤ vIdx st v
  lowdom : vLow st v = vIdx st v ∨ ∃ b, b ∈ base ∧ vLow st v = vIdx st b ∧ Reach g v b
  stack : ∃ new, st.stack = new ++ v :: base ∧
    (∀ x, x ∈ new → ∀ w, Edge g x w → Has st w ∧ (w ∈ v :: base → vLow st v ≤ vIdx st w)) ∧
    ∀ x, x ∈ new → Reach g x v

/-- how the loop moves the state -/
structure ScLoopRel (v : Nat) (st st' : State) : Prop where
  frame : ∀ x, x ≠ v → Has st x → st'.vertices.lookup x = st.vertices.lookup x
  lowmono : vLow st' v ≤ vLow st v
  idxv : vIdx st' v = vIdx st v
  hasv : Has st v → Has st' v

theorem ScLoopRel.has {v : Nat} {st st' : State} (r : ScLoopRel v st st') (x : Nat) (h : Has st x) : Has st' x := by
  by_cases e : x = v
  · subst e; exact r.hasv h
  · exact (lookup_congr (r.frame x e h)).2.2.2 h

theorem ScLoopRel.vIdx {v : Nat} {st st' : State} (r : ScLoopRel v st st') (x : Nat) (h : Has st x) :
    vIdx st' x = vIdx st x := by
  by_cases e : x = v
  · subst e; exact r.idxv
  · exact (lookup_congr (r.frame x e h)).1

theorem ScLoopRel.trans {v : Nat} {a b c : State} (r1 : ScLoopRel v a b) (r2 : ScLoopRel v b c) : ScLoopRel v a c :=
  ⟨fun x e h => by rw [r2.frame x e (r1.has x h), r1.frame x e h],
   Nat.le_trans r2.lowmono r1.lowmono, by rw [r2.idxv, r1.idxv], fun h => r2.hasv (r1.hasv h)⟩

theorem ScLoopRel.refl (v : Nat) (st : State) : ScLoopRel v st st :=
  ⟨fun _ _ _ => rfl, Nat.le_refl _, rfl, fun h => h⟩

theorem visitRefs_post (g : Graph) (sc : State → Nat → M State) (hsc : ScPost g sc)
    (v : Nat) (base : List Nat) :
    ∀ (ws : List Nat) (st st' : State), (∀ w, w ∈ ws → Edge g v w) → ScLoopInv g v base st →
      visitRefs sc v ws st = .ok st' →
      ScLoopInv g v base st' ∧ ScLoopRel v st st' ∧
        ∀ w, w ∈ ws → Has st' w ∧ (w ∈ v :: base → vLow st' v ≤ vIdx st' w) := by
  intro ws
  induction ws with
  | nil =>
    intro st st' _ hI h
    simp only [visitRefs, Except.ok.injEq] at h
    subst h
    exact ⟨hI, ScLoopRel.refl v st, fun w hw => by simp at hw⟩
  | cons w ws ih =>
    intro st st' hn hI h
    have hn' : ∀ x, x ∈ ws → Edge g v x := fun x hx => hn x (List.mem_cons_of_mem _ hx)
    have hvw : Edge g v w := hn w (by simp)
    have step : ∃ st2, visitRefs sc v ws st2 = .ok st' ∧ ScLoopInv g v base st2 ∧ ScLoopRel v st st2 ∧
        (Has st2 w ∧ (w ∈ v :: base → vLow st2 v ≤ vIdx st2 w)) := by
      obtain ⟨new, hstk, hcl, hrv⟩ := hI.stack
      have hvstk : v ∈ st.stack := by rw [hstk]; simp
      obtain ⟨hnewgt, hbaselt, _⟩ := hI.inv.split hstk
      obtain ⟨_, hbasereach⟩ := hI.inv.rsplit hstk
      -- every stack vertex reaches `v`
      have hallv : ∀ y, y ∈ st.stack → Reach g y v := by
        intro y hy
        rw [hstk] at hy
        rcases List.mem_append.1 hy with hy | hy
        · exact hrv y hy
        · rcases List.mem_cons.1 hy with e | hy
          · subst e; exact Reach.refl _
          · exact hbasereach y hy
      have hbasestk : ∀ b, b ∈ v :: base → b ∈ st.stack := fun b hb => by
        rw [hstk]; exact List.mem_append_right _ hb
      have hbasehas : ∀ b, b ∈ v :: base → Has st b := fun b hb =>
        (hI.inv.vis b).2 (Or.inl (hbasestk b hb))
      simp only [visitRefs] at h
      split at h
      · next hvis =>
        have hw0 : ¬ Has st w := by unfold Has; intro hh; simp [hh] at hvis
        cases h1 : sc st w with
        | error e => simp [h1, bind, Except.bind] at h
        | ok st1 =>
          have P := hsc st w st1 hI.inv hw0 (refs_mem_nodes hvw)
            (fun y hy => (hallv y hy).trans (Reach.single hvw)) h1
          obtain ⟨vs, hvs⟩ := vertex_ok st1 w P.has
          obtain ⟨hlw, _⟩ := vertex_low hvs
          cases hu : st1.updateLowlink v vs.lowlink with
          | error e => simp [h1, hvs, hu, bind, Except.bind] at h
          | ok st2 =>
            simp only [h1, hvs, hu, bind, Except.bind] at h
            obtain ⟨us, uc, un, uh, ui, ul, uf⟩ := updateLowlink_spec st1 v _ st2 hu
            obtain ⟨fvi, fvl, fvh⟩ := lookup_congr (P.frame v hI.has)
            obtain ⟨cnew, cstk, cpop, ccl, crv⟩ := P.stack
            have hidxw : vIdx st v < vIdx st1 w := by rw [P.idxv]; exact hI.inv.bound v hvstk
            have hidx1 : ∀ x, Has st x → vIdx st1 x = vIdx st x := fun x hx =>
              (lookup_congr (P.frame x hx)).1
            have hidx : ∀ x, Has st x → vIdx st2 x = vIdx st x := fun x hx => by
              rw [ui]; exact hidx1 x hx
            have hhas : ∀ x, Has st x → Has st2 x := fun x hx =>
              (uh x).2 ((lookup_congr (P.frame x hx)).2.2.2 hx)
            rw [fvl, ← hlw] at ul
            have hiv := hidx v hI.has
            have hle := hI.lowle
            refine ⟨st2, h, ⟨P.inv.congr us uc un uh ui, hhas v hI.has, ?_, ?_, ?_⟩,
              ⟨?_, ?_, ?_, fun _ => hhas v hI.has⟩, ?_⟩
            · omega
            · have keep : vLow st2 v = vLow st v →
                  (vLow st2 v = vIdx st2 v ∨ ∃ b, b ∈ base ∧ vLow st2 v = vIdx st2 b ∧ Reach g v b) := by
                intro hmin
                rcases hI.lowdom with h0 | ⟨b, hb, h0, hr0⟩
                · left; omega
                · right
                  exact ⟨b, hb, by have := hidx b (hbasehas b (List.mem_cons_of_mem _ hb)); omega, hr0⟩
              rcases P.lowdom with hd | ⟨b, hb, hd, hrb⟩
              · exact keep (by omega)
              · have hbi : vIdx st1 b = vIdx st b := hidx1 b ((hI.inv.vis b).2 (Or.inl hb))
                rw [hstk] at hb
                rcases List.mem_append.1 hb with hb | hb
                · have := hnewgt b hb
                  exact keep (by omega)
                · rcases List.mem_cons.1 hb with e | hb
                  · subst e; exact keep (by omega)
                  · by_cases hc : vLow st v ≤ vIdx st b
                    · exact keep (by omega)
                    · right
                      exact ⟨b, hb, by
                        have := hidx b (hbasehas b (List.mem_cons_of_mem _ hb)); omega,
                        .step hvw hrb⟩
            · refine ⟨cnew ++ new, by rw [us, cstk, hstk, List.append_assoc], ?_, ?_⟩
              rotate_left
              · intro x hx
                rcases List.mem_append.1 hx with hx | hx
                · -- the child stayed on the stack: it reaches a stack vertex, which reaches `v`
                  have hne : vLow st1 w ≠ vIdx st1 w := by
                    rcases cpop with e | e
                    · rw [e] at hx; simp at hx
                    · exact e
                  rcases P.lowdom with hd | ⟨b, hb, _, hrb⟩
                  · exact absurd hd hne
                  · exact (crv x hx).trans (hrb.trans (hallv b hb))
                · exact hrv x hx
              intro x hx w' e
              rcases List.mem_append.1 hx with hx | hx
              · obtain ⟨a, b⟩ := ccl x hx w' e
                refine ⟨(uh w').2 a, fun hb => ?_⟩
                have := b (hbasestk w' hb)
                have := ui w'
                omega
              · obtain ⟨a, b⟩ := hcl x hx w' e
                refine ⟨hhas w' a, fun hb => ?_⟩
                have := b hb
                have := hidx w' a
                omega
            · intro x e hx
              rw [uf x e, P.frame x hx]
            · omega
            · exact hiv
            · exact ⟨(uh w).2 P.has, fun hb => absurd (hbasehas w hb) hw0⟩
      · next hvis =>
        have hw : Has st w := by
          unfold Has
          cases hh : (st.vertices.lookup w).isSome with
          | true => rfl
          | false => simp [hh] at hvis
        split at h
        · next hon =>
          have hwstk : w ∈ st.stack := by simpa using hon
          obtain ⟨vs, hvs⟩ := vertex_ok st w hw
          obtain ⟨_, hiw⟩ := vertex_low hvs
          cases hu : st.updateLowlink v vs.index with
          | error e => simp [hvs, hu, bind, Except.bind] at h
          | ok st2 =>
            simp only [hvs, hu, bind, Except.bind] at h
            obtain ⟨us, uc, un, uh, ui, ul, uf⟩ := updateLowlink_spec st v _ st2 hu
            rw [← hiw] at ul
            have hle := hI.lowle
            have hiv := ui v
            refine ⟨st2, h, ⟨hI.inv.congr us uc un uh ui, (uh v).2 hI.has, ?_, ?_, ?_⟩,
              ⟨fun x e _ => uf x e, by omega, ui v, fun _ => (uh v).2 hI.has⟩, ?_⟩
            · omega
            · have keep : vLow st2 v = vLow st v →
                  (vLow st2 v = vIdx st2 v ∨ ∃ b, b ∈ base ∧ vLow st2 v = vIdx st2 b ∧ Reach g v b) := by
                intro hmin
                rcases hI.lowdom with h0 | ⟨b, hb, h0, hr0⟩
                · left; omega
                · right
                  exact ⟨b, hb, by have := ui b; omega, hr0⟩
              rw [hstk] at hwstk
              rcases List.mem_append.1 hwstk with hb | hb
              · have := hnewgt w hb
                exact keep (by omega)
              · rcases List.mem_cons.1 hb with e | hb
                · subst e; exact keep (by omega)
                · by_cases hc : vLow st v ≤ vIdx st w
                  · exact keep (by omega)
                  · right
                    exact ⟨w, hb, by have := ui w; omega, Reach.single hvw⟩
            · refine ⟨new, by rw [us, hstk], ?_, hrv⟩
              intro x hx w' e
              obtain ⟨a, b⟩ := hcl x hx w' e
              refine ⟨(uh w').2 a, fun hb => ?_⟩
              have := b hb
              have := ui w'
              omega
            · refine ⟨(uh w).2 hw, fun _ => ?_⟩
              have := ui w
              omega
        · next hoff =>
          refine ⟨st, h, hI, ScLoopRel.refl v st, hw, fun hb => ?_⟩
          exfalso
          apply hoff
          simpa using hbasestk w hb
    obtain ⟨st2, h2, hI2, r2, hw2⟩ := step
    obtain ⟨hI', r', hws⟩ := ih st2 st' hn' hI2 h2
    refine ⟨hI', r2.trans r', fun x hx => ?_⟩
    rcases List.mem_cons.1 hx with e | hx
    · subst e
      refine ⟨r'.has _ hw2.1, fun hb => ?_⟩
      have := hw2.2 hb
      have := r'.lowmono
      have := r'.vIdx x hw2.1
      omega
    · exact hws x hx

theorem popUntil_split (v : Nat) : ∀ (new base acc : List Nat), v ∉ new →
    popUntil v (new ++ v :: base) acc = (acc.reverse ++ new ++ [v], base) := by
  intro new
  induction new with
  | nil => intro base acc _; simp [popUntil]
  | cons a new ih =>
    intro base acc hn
    have hne : (a == v) = false := by
      have : a ≠ v := fun e => hn (by simp [e])
      simpa using this
    simp only [List.cons_append, popUntil, hne, Bool.false_eq_true, ↓reduceIte]
    rw [ih base (a :: acc) (fun h => hn (List.mem_cons_of_mem _ h))]
    simp

theorem strongConnect_post (g : Graph) : ∀ fuel, ScPost g (strongConnect g fuel) := by
  intro fuel
  induction fuel with
  | zero => intro st v st' _ _ _ _ h; simp [strongConnect] at h
  | succ fuel ih =>
    intro st v st' hT h0 hvn hreach h
    let st0 : State :=
      { st with nextIndex := st.nextIndex + 1,
                vertices := amInsert v ⟨st.nextIndex, st.nextIndex⟩ st.vertices,
                stack := v :: st.stack }
    have hl0 : ∀ x, st0.vertices.lookup x =
        if x = v then some ⟨st.nextIndex, st.nextIndex⟩ else st.vertices.lookup x :=
      fun x => amInsert_lookup v _ st.vertices x
    have hne : ∀ x, Has st x → x ≠ v := fun x hx e => h0 (e ▸ hx)
    have hfr0 : ∀ x, Has st x → st0.vertices.lookup x = st.vertices.lookup x := fun x hx => by
      rw [hl0, if_neg (hne x hx)]
    have hi0v : vIdx st0 v = st.nextIndex := by simp [vIdx, hl0]
    have hlo0v : vLow st0 v = st.nextIndex := by simp [vLow, hl0]
    have hh0v : Has st0 v := by simp [Has, hl0]
    have hvstk : v ∉ st.stack := fun hm => h0 ((hT.vis v).2 (Or.inl hm))
    have hvc : v ∉ st.components.flatten := fun hm => h0 ((hT.vis v).2 (Or.inr hm))
    have hT0 : TjInv g st0 := by
      refine ⟨?_, ?_, ?_, ?_, ?_, hT.back, ?_, hT.scc⟩
      rotate_right
      · show (v :: st.stack).Pairwise _
        rw [List.pairwise_cons]
        exact ⟨fun b hb => hreach b hb, hT.reach⟩
      · show (v :: st.stack ++ st.components.flatten).Nodup
        rw [List.cons_append, List.nodup_cons]
        exact ⟨by simp [hvstk, hvc], hT.nodup⟩
      · intro x
        show Has st0 x ↔ (x ∈ v :: st.stack ∨ x ∈ st.components.flatten)
        by_cases e : x = v
        · subst e; simp [hh0v]
        · have : Has st0 x ↔ Has st x := by simp only [Has, hl0, if_neg e]
          rw [this, hT.vis x]; simp [e]
      · intro x hx
        by_cases e : x = v
        · subst e; exact hvn
        · exact hT.nodes x (by simpa only [Has, hl0, if_neg e] using hx)
      · show (v :: st.stack).Pairwise _
        rw [List.pairwise_cons]
        refine ⟨fun b hb => ?_, hT.sorted.imp_of_mem ?_⟩
        · have hb' : Has st b := (hT.vis b).2 (Or.inl hb)
          rw [hi0v, (lookup_congr (hfr0 b hb')).1]
          exact hT.bound b hb
        · intro a b ha hb hab
          rw [(lookup_congr (hfr0 a ((hT.vis a).2 (Or.inl ha)))).1,
            (lookup_congr (hfr0 b ((hT.vis b).2 (Or.inl hb)))).1]
          exact hab
      · intro x hx
        show vIdx st0 x < st.nextIndex + 1
        rcases List.mem_cons.1 hx with e | hx
        · subst e; omega
        · have hb' : Has st x := (hT.vis x).2 (Or.inl hx)
          rw [(lookup_congr (hfr0 x hb')).1]
          exact Nat.lt_succ_of_lt (hT.bound x hx)
    have hL0 : ScLoopInv g v st.stack st0 :=
      ⟨hT0, hh0v, by omega, Or.inl (by omega), ⟨[], rfl, by simp, by simp⟩⟩
    cases h1 : visitRefs (strongConnect g fuel) v (g.refs v) st0 with
    | error e =>
      have h1' : visitRefs (strongConnect g fuel) v (g.refs v)
          { stack := v :: st.stack, vertices := amInsert v ⟨st.nextIndex, st.nextIndex⟩ st.vertices,
            nextIndex := st.nextIndex + 1, components := st.components } = .error e := h1
      simp [strongConnect, bind, Except.bind, h1'] at h
    | ok st1 =>
      have h1' : visitRefs (strongConnect g fuel) v (g.refs v)
          { stack := v :: st.stack, vertices := amInsert v ⟨st.nextIndex, st.nextIndex⟩ st.vertices,
            nextIndex := st.nextIndex + 1, components := st.components } = .ok st1 := h1
      obtain ⟨hI, r, hws⟩ := visitRefs_post g _ ih v st.stack (g.refs v) st0 st1
        (fun w hw => hw) hL0 h1
      obtain ⟨vs, hvs⟩ := vertex_ok st1 v hI.has
      obtain ⟨hlv, hiv⟩ := vertex_low hvs
      obtain ⟨new, hstk, hcl, hrv⟩ := hI.stack
      obtain ⟨hnewgt, hbaselt, _⟩ := hI.inv.split hstk
      obtain ⟨hvreach, _⟩ := hI.inv.rsplit hstk
      have hrv' : ∀ x, x ∈ new ++ [v] → Reach g x v := by
        intro x hx
        rcases List.mem_append.1 hx with hx | hx
        · exact hrv x hx
        · have : x = v := by simpa using hx
          subst this; exact Reach.refl _
      have hvr' : ∀ x, x ∈ new ++ [v] → Reach g v x := by
        intro x hx
        rcases List.mem_append.1 hx with hx | hx
        · exact hvreach x hx
        · have : x = v := by simpa using hx
          subst this; exact Reach.refl _
      have hframe : ∀ x, Has st x → st1.vertices.lookup x = st.vertices.lookup x := fun x hx => by
        rw [r.frame x (hne x hx) ((lookup_congr (hfr0 x hx)).2.2.2 hx), hfr0 x hx]
      have hidxv : vIdx st1 v = st.nextIndex := by rw [r.idxv, hi0v]
      -- what every member of the component-to-be refers to
      have hall : ∀ x, x ∈ new ++ [v] → ∀ w, Edge g x w →
          Has st1 w ∧ (w ∈ v :: st.stack → vLow st1 v ≤ vIdx st1 w) := by
        intro x hx w e
        rcases List.mem_append.1 hx with hx | hx
        · exact hcl x hx w e
        · have : x = v := by simpa using hx
          subst this
          exact hws w e
      simp only [strongConnect, bind, Except.bind, h1', hvs] at h
      split at h
      · next heq =>
        have heq' : vLow st1 v = vIdx st1 v := by
          have : vs.index = vs.lowlink := by simpa using heq
          omega
        have hnd := hI.inv.nodup
        rw [hstk] at hnd
        have hvnew : v ∉ new := by
          intro hm
          have := (List.nodup_append.1 (List.nodup_append.1 hnd).1).2.2 v hm v (by simp)
          exact this rfl
        rw [hstk, popUntil_split v new st.stack [] hvnew] at h
        simp only [List.reverse_nil, List.nil_append, Except.ok.injEq] at h
        subst h
        refine ⟨⟨?_, ?_, hI.inv.nodes, ?_, ?_, ?_, ?_, ?_⟩, hframe, hI.has, hidxv, Or.inl heq',
          ⟨[], rfl, Or.inl rfl, by simp, by simp⟩⟩
        rotate_right 2
        · show st.stack.Pairwise _
          have := hI.inv.reach
          rw [hstk, List.pairwise_append, List.pairwise_cons] at this
          exact this.2.1.2
        · show ∀ c, c ∈ st1.components ++ [new ++ [v]] → _
          intro c hc x y hx hy
          rcases List.mem_append.1 hc with hc | hc
          · exact hI.inv.scc c hc x y hx hy
          · have : c = new ++ [v] := by simpa using hc
            subst this
            exact (hrv' x hx).trans (hvr' y hy)
        · show (st.stack ++ (st1.components ++ [new ++ [v]]).flatten).Nodup
          refine (List.Perm.nodup_iff ?_).1 hnd
          refine List.perm_iff_count.2 (fun a => ?_)
          simp only [List.flatten_append, List.flatten_cons, List.flatten_nil, List.append_nil,
            List.count_append, List.count_cons, List.count_nil]
          omega
        · intro x
          show Has st1 x ↔ (x ∈ st.stack ∨ x ∈ (st1.components ++ [new ++ [v]]).flatten)
          rw [hI.inv.vis x, hstk]
          simp only [List.flatten_append, List.flatten_cons, List.flatten_nil, List.append_nil,
            List.mem_append, List.mem_cons, List.not_mem_nil, or_false]
          grind
        · show st.stack.Pairwise _
          have := hI.inv.sorted
          rw [hstk, List.pairwise_append, List.pairwise_cons] at this
          exact this.2.1.2
        · intro x hx
          exact hI.inv.bound x (by rw [hstk]; simp [hx])
        · show compsOk g [] (st1.components ++ [new ++ [v]]) = true
          rw [compsOk_snoc, hI.inv.back, Bool.true_and]
          simp only [compOk, List.nil_append, List.all_eq_true, Bool.or_eq_true,
            List.contains_eq_mem, decide_eq_true_eq]
          intro u hu w hw
          obtain ⟨a, b⟩ := hall u hu w hw
          rcases (hI.inv.vis w).1 a with hs | hc
          · rw [hstk] at hs
            rcases List.mem_append.1 hs with hs | hs
            · right; exact List.mem_append_left _ hs
            · rcases List.mem_cons.1 hs with e | hs
              · right; simp [e]
              · exfalso
                have := b (List.mem_cons_of_mem _ hs)
                have := hbaselt w hs
                omega
          · left; exact hc
      · next hneq =>
        have hneq' : vLow st1 v ≠ vIdx st1 v := by
          intro e
          apply hneq
          have : vs.index = vs.lowlink := by omega
          simpa using this
        simp only [Except.ok.injEq] at h
        subst h
        refine ⟨hI.inv, hframe, hI.has, hidxv, hI.lowdom,
          ⟨new ++ [v], by rw [hstk]; simp, Or.inr hneq', ?_, hrv'⟩⟩
        intro x hx w e
        obtain ⟨a, b⟩ := hall x hx w e
        exact ⟨a, fun hs => b (List.mem_cons_of_mem _ hs)⟩

theorem tarjanLoop_post (g : Graph) (fuel : Nat) : ∀ (vs : List Nat) (st st' : State),
    (∀ v, v ∈ vs → v ∈ g.nodes) → TjInv g st → st.stack = [] → tarjanLoop g fuel vs st = .ok st' →
    TjInv g st' ∧ st'.stack = [] ∧ (∀ x, Has st x → Has st' x) ∧ ∀ v, v ∈ vs → Has st' v := by
  intro vs
  induction vs with
  | nil =>
    intro st st' _ hT hs h
    simp only [tarjanLoop, Except.ok.injEq] at h
    subst h
    exact ⟨hT, hs, fun _ h => h, by simp⟩
  | cons v vs ih =>
    intro st st' hn hT hs h
    have hn' : ∀ x, x ∈ vs → x ∈ g.nodes := fun x hx => hn x (List.mem_cons_of_mem _ hx)
    simp only [tarjanLoop] at h
    split at h
    · next hvis =>
      have h0 : ¬ Has st v := by unfold Has; intro hh; simp [hh] at hvis
      cases h1 : strongConnect g fuel st v with
      | error e => simp [h1, bind, Except.bind] at h
      | ok st1 =>
        simp only [h1, bind, Except.bind] at h
        have P := strongConnect_post g fuel st v st1 hT h0 (hn v (by simp))
          (fun y hy => by rw [hs] at hy; simp at hy) h1
        have hs1 : st1.stack = [] := by
          obtain ⟨new, hstk, hpop, _⟩ := P.stack
          rcases hpop with e | hne
          · rw [hstk, e, hs]; rfl
          · exfalso
            rcases P.lowdom with hd | ⟨b, hb, _, _⟩
            · exact hne hd
            · rw [hs] at hb; simp at hb
        obtain ⟨a, b, c, d⟩ := ih st1 st' hn' P.inv hs1 h
        have m1 : ∀ x, Has st x → Has st1 x := fun x hx => (lookup_congr (P.frame x hx)).2.2.2 hx
        refine ⟨a, b, fun x hx => c x (m1 x hx), fun x hx => ?_⟩
        rcases List.mem_cons.1 hx with e | hx
        · subst e; exact c _ P.has
        · exact d x hx
    · next hvis =>
      have hv : Has st v := by
        unfold Has
        cases hh : (st.vertices.lookup v).isSome with
        | true => rfl
        | false => simp [hh] at hvis
      obtain ⟨a, b, c, d⟩ := ih st st' hn' hT hs h
      refine ⟨a, b, c, fun x hx => ?_⟩
      rcases List.mem_cons.1 hx with e | hx
      · subst e; exact c _ hv
      · exact d x hx

/-- `order_topological`: the components `tarjan` returns are every name of the
graph exactly once, and an edge never leads into a later component.  `hkeys`
is what being a `BTreeMap` means for the association list. -/
theorem tarjan_topo (g : Graph) (hkeys : g.keys.Nodup) (comps : List (List Nat))
    (h : tarjan g = .ok comps) : TopoOrder g comps := by
  unfold tarjan tarjanFuel at h
  cases h1 : tarjanLoop g g.nodeCount g.keys State.new with
  | error e => simp [h1, bind, Except.bind] at h
  | ok st =>
    simp only [h1, bind, Except.bind, Except.ok.injEq] at h
    subst h
    have hT0 : TjInv g State.new :=
      ⟨by simp [State.new], fun x => by simp [State.new, Has], fun x hx => by simp [State.new, Has] at hx,
        by simp [State.new], by simp [State.new], by simp [State.new, compsOk],
        by simp [State.new], by simp [State.new]⟩
    obtain ⟨hT, hs, _, hk⟩ := tarjanLoop_post g _ g.keys State.new st
      (fun k hk => by simp [Graph.nodes, hk]) hT0 rfl h1
    have hmem : ∀ x, Has st x ↔ x ∈ st.components.flatten := fun x => by rw [hT.vis x, hs]; simp
    have hnd : st.components.flatten.Nodup := by have := hT.nodup; rw [hs] at this; simpa using this
    have hback : ∀ pre c post, st.components = pre ++ c :: post →
        ∀ u, u ∈ c → ∀ v, Edge g u v → v ∈ pre.flatten ∨ v ∈ c := by
      intro pre c post hc u hu v e
      have := compsOk_back g pre [] c post (hc ▸ hT.back) u hu v e
      simpa using this
    refine ⟨hnd, fun n => ⟨fun hn => ?_, fun hn => hT.nodes n ((hmem n).2 hn)⟩, hback⟩
    simp only [Graph.nodes, List.mem_append, List.mem_flatMap] at hn
    rcases hn with hk' | ⟨⟨k, rs⟩, hm, hr⟩
    · exact (hmem n).1 (hk n hk')
    · have hkk : k ∈ g.keys := List.mem_map.2 ⟨(k, rs), hm, rfl⟩
      have hlk : g.edges.lookup k = some rs := lookup_of_mem_nodup g.edges k rs hkeys hm
      have e : Edge g k n := by simp only [Edge, Graph.refs, hlk]; exact hr
      have hkc := (hmem k).1 (hk k hkk)
      obtain ⟨c, hc, hkc'⟩ := List.mem_flatten.1 hkc
      obtain ⟨pre, post, hsplit⟩ := List.append_of_mem hc
      rcases hback pre c post hsplit k hkc' n e with h | h
      · rw [hsplit]; simp [h]
      · rw [hsplit]; simp [h]

/-- the other half of Tarjan's theorem: the members of every returned component
reach each other (so a component of more than one name is a genuine cycle) -/
theorem tarjan_scc (g : Graph) (comps : List (List Nat)) (h : tarjan g = .ok comps) :
    ∀ c, c ∈ comps → ∀ x y, x ∈ c → y ∈ c → Reach g x y := by
  unfold tarjan tarjanFuel at h
  cases h1 : tarjanLoop g g.nodeCount g.keys State.new with
  | error e => simp [h1, bind, Except.bind] at h
  | ok st =>
    simp only [h1, bind, Except.bind, Except.ok.injEq] at h
    subst h
    have hT0 : TjInv g State.new :=
      ⟨by simp [State.new], fun x => by simp [State.new, Has], fun x hx => by simp [State.new, Has] at hx,
        by simp [State.new], by simp [State.new], by simp [State.new, compsOk],
        by simp [State.new], by simp [State.new]⟩
    obtain ⟨hT, _⟩ := tarjanLoop_post g _ g.keys State.new st
      (fun k hk => by simp [Graph.nodes, hk]) hT0 rfl h1
    exact hT.scc

/-- with components in reverse topological order whose members reach each
other, a graph in which no constant reaches itself passes both cycle tests of
`find_compilation_order` -/
theorem cycle_tests_pass (g : Graph) (hkeys : g.keys.Nodup) (comps : List (List Nat))
    (topo : TopoOrder g comps)
    (hscc : ∀ c, c ∈ comps → ∀ x y, x ∈ c → y ∈ c → Reach g x y)
    (hacyc : ∀ c d, g.kind c = .const → Edge g c d → ¬ Reach g d c) :
    selfEdge g g.edges = none ∧ mixedComponent g comps = none := by
  constructor
  · cases h : selfEdge g g.edges with
    | none => rfl
    | some c =>
      obtain ⟨hk, rs, hm, hr⟩ := selfEdge_inv g g.edges c h
      have hl : g.edges.lookup c = some rs := lookup_of_mem_nodup g.edges c rs hkeys hm
      have e : Edge g c c := by simp [Edge, Graph.refs, hl, hr]
      exact absurd (Reach.refl c) (hacyc c c hk e)
  · cases h : mixedComponent g comps with
    | none => rfl
    | some c =>
      obtain ⟨comp, hcomp, hl, hcc, hk⟩ := mixedComponent_inv g comps c h
      have hnd : comp.Nodup := by
        obtain ⟨pre, post, hsplit⟩ := List.append_of_mem hcomp
        have := topo.nodup
        rw [hsplit] at this
        simp only [List.flatten_append, List.flatten_cons] at this
        exact (List.nodup_append.1 (List.nodup_append.1 this).2.1).1
      obtain ⟨y, hy, hyc⟩ := exists_ne_of_length hnd hl c
      have sc := hscc comp hcomp
      obtain ⟨m, e, r⟩ := (sc c y hcc hy).head_of_ne (Ne.symm hyc)
      exact absurd (r.trans (sc y c hy hcc)) (hacyc c m hk e)

/-- what `find_compilation_order` returning an order means: it is `tarjan`'s
components flattened, and both cycle tests have passed -/
theorem order_inv (g : Graph) (o : List Nat) (ho : findCompilationOrder g = .ok (.order o)) :
    ∃ comps, tarjan g = .ok comps ∧ o = comps.flatten ∧ NoConstCycle g comps := by
  have hs : selfEdge g g.edges = none := by
    cases h : selfEdge g g.edges with
    | none => rfl
    | some c => simp [findCompilationOrder, h] at ho
  obtain ⟨comps, ht⟩ := tarjan_total' g
  have hm : mixedComponent g comps = none := by
    cases h : mixedComponent g comps with
    | none => rfl
    | some c => simp [findCompilationOrder, hs, ht, h, bind, Except.bind] at ho
  have hoc : o = comps.flatten := by
    simp only [findCompilationOrder, hs, ht, hm, bind, Except.bind] at ho
    cases hcc : contextCheck g with
    | error e => simp [hcc] at ho
    | ok r =>
      cases r with
      | some c => simp [hcc] at ho
      | none => simp [hcc] at ho; exact ho.symm
  refine ⟨comps, ht, hoc, ?_, ?_⟩
  · intro c hk e
    obtain ⟨rs, hmem, hrs⟩ := edge_mem_edges e
    obtain ⟨c', _, h'⟩ := selfEdge_some g g.edges c rs hmem hk hrs
    rw [hs] at h'; cases h'
  · intro comp hcomp c hcc hk
    by_cases hl : comp.length > 1
    · obtain ⟨c', _, h'⟩ := mixedComponent_some g comps comp hcomp hl c hcc hk
      rw [hm] at h'; cases h'
    · match comp, hcc, hl with
      | [x], hcc, _ => simp at hcc; rw [hcc]
      | _ :: _ :: _, _, hl => simp at hl

/-- no false "recursively defined": the constant `find_compilation_order` names
really reaches itself through at least one reference -/
theorem recursive_sound (g : Graph) (hkeys : g.keys.Nodup) (c : Nat)
    (h : findCompilationOrder g = .ok (.recursive c)) :
    g.kind c = .const ∧ ∃ d, Edge g c d ∧ Reach g d c := by
  unfold findCompilationOrder at h
  cases hs : selfEdge g g.edges with
  | some c' =>
    simp only [hs, Except.ok.injEq, Outcome.recursive.injEq] at h
    subst h
    obtain ⟨hk, rs, hm, hr⟩ := selfEdge_inv g g.edges c' hs
    have hl : g.edges.lookup c' = some rs := lookup_of_mem_nodup g.edges c' rs hkeys hm
    have e : Edge g c' c' := by simp [Edge, Graph.refs, hl, hr]
    exact ⟨hk, c', e, Reach.refl _⟩
  | none =>
    obtain ⟨comps, ht⟩ := tarjan_total' g
    simp only [hs, ht, bind, Except.bind] at h
    cases hm : mixedComponent g comps with
    | some c' =>
      simp only [hm, Except.ok.injEq, Outcome.recursive.injEq] at h
      subst h
      obtain ⟨comp, hcomp, hl, hcc, hk⟩ := mixedComponent_inv g comps c' hm
      have topo := tarjan_topo g hkeys comps ht
      have hnd : comp.Nodup := by
        obtain ⟨pre, post, hsplit⟩ := List.append_of_mem hcomp
        have := topo.nodup
        rw [hsplit] at this
        simp only [List.flatten_append, List.flatten_cons] at this
        exact (List.nodup_append.1 (List.nodup_append.1 this).2.1).1
      obtain ⟨y, hy, hyc⟩ := exists_ne_of_length hnd hl c'
      have sc := tarjan_scc g comps ht comp hcomp
      obtain ⟨m, e, r⟩ := (sc c' y hcc hy).head_of_ne (Ne.symm hyc)
      exact ⟨hk, m, e, r.trans (sc y c' hy hcc)⟩
    | none =>
      simp only [hm] at h
      cases hcc : contextCheck g with
      | error e => simp [hcc] at h
      | ok r =>
        cases r with
        | some c' => simp [hcc] at h
        | none => simp [hcc] at h

end RotoV.Tarjan
