/-
  Lemmas for C07: the deferred obligations (`TypeChecker::obligations`) are not
  touched by the constructs of the core fragment (`Keeps`, compositional: every
  primitive step keeps them, `bind` / `if` / `match` preserve that), so for a
  body of the fragment `resolve_obligations` has nothing to do and the store
  `TypeChecker::function` ends with is the store the body check leaves behind.
-/
import RotoV.Lemmas.TcInferSoundMain


namespace RotoV.TcInfer
open RotoV.Typing RotoV.Unify RotoV.Gen

/-- the action does not touch the deferred obligations -/
def Keeps {α : Type} (x : M α) : Prop := ∀ st a st', x st = .ok a st' → st'.obls = st.obls

theorem keeps_pure {α : Type} (a : α) : Keeps (pure a : M α) := by
  intro st b st' h; obtain ⟨_, rfl⟩ := pure_ok.mp h; rfl
theorem keeps_throw {α : Type} (e : Err) : Keeps (throw e : M α) := by
  intro st b st' h; exact (throw_ok.mp h).elim
theorem keeps_bind {α β : Type} {x : M α} {f : α → M β} (hx : Keeps x) (hf : ∀ a, Keeps (f a)) :
    Keeps (x >>= f) := by
  intro st b st'' h
  obtain ⟨a, st', h1, h2⟩ := bind_ok.mp h
  rw [hf a st' b st'' h2, hx st a st' h1]
theorem keeps_unifyM (env : Env) (a b : MTy) : Keeps (unifyM env a b) := by
  intro st u st' h
  unfold unifyM at h
  split at h <;> first | (cases h; rfl) | cases h
theorem keeps_freshVar : Keeps freshVar := by
  intro st t st' h; unfold freshVar at h; cases h; rfl
theorem keeps_freshInt : Keeps freshInt := by
  intro st t st' h; unfold freshInt at h; cases h; rfl
theorem keeps_freshFloat : Keeps freshFloat := by
  intro st t st' h; unfold freshFloat at h; cases h; rfl
theorem keeps_resolveM (t : MTy) : Keeps (resolveM t) := by
  intro st r st' h; obtain ⟨rfl, _⟩ := resolveM_ok h; rfl
theorem keeps_markSignedM (t : MTy) : Keeps (markSignedM t) := by
  intro st r st' h; unfold markSignedM at h; cases h; rfl
theorem keeps_declareM (g : MGamma) (x : Nat) (t : MTy) : Keeps (declareM g x t) := by
  intro st r st' h; obtain ⟨rfl, _⟩ := declareM_ok h; rfl
theorem keeps_rootTy (env : Env) (g : MGamma) (c : Bool) (x : Nat) : Keeps (rootTy env g c x) := by
  unfold rootTy
  split
  · split <;> first | exact keeps_pure _ | exact keeps_throw _
  · split <;> first | exact keeps_pure _ | exact keeps_throw _
theorem keeps_evalTy (env : Env) (t : Ty) : Keeps (evalTy env t) := by
  unfold evalTy; split <;> first | exact keeps_pure _ | exact keeps_throw _
theorem keeps_arityThen {a b : Nat} {k : M Bool} (hk : Keeps k) : Keeps (arityThen a b k) := by
  unfold arityThen; split <;> first | exact keeps_throw _ | exact hk

attribute [irreducible] Keeps

theorem keeps_accessField (env : Env) (t : MTy) (f : Nat) : Keeps (accessField env t f) := by
  unfold Keeps
  intro st ft st' h
  unfold accessField at h
  obtain ⟨t', s1, h1, h2⟩ := bind_ok.mp h
  obtain ⟨rfl, _⟩ := resolveM_ok h1
  have key : ∀ (fields : Option (List (Nat × MTy))) (s : St),
      (match fields with
        | some fs => (match fs.lookup f with
          | some ft => pure ft
          | none => throw .noField)
        | none => throw .noField : M MTy) s = .ok ft st' → st'.obls = s.obls := by
    intro fields s hh
    cases fields with
    | none => exact (throw_ok.mp hh).elim
    | some fs =>
      simp only at hh
      cases hl : fs.lookup f with
      | none => simp only [hl] at hh; exact (throw_ok.mp hh).elim
      | some ft' => simp only [hl] at hh; obtain ⟨_, rfl⟩ := pure_ok.mp hh; rfl
  exact key _ _ h2

theorem keeps_accessPath (env : Env) : ∀ (p : List Nat) (t : MTy), Keeps (accessPath env t p)
  | [], t => by simp only [accessPath]; exact keeps_pure _
  | f :: rest, t => by
    simp only [accessPath]
    apply keeps_bind (keeps_accessField _ _ _)
    intro t'
    exact keeps_accessPath env rest t'

theorem keeps_inferCtorHead (env : Env) (e : Expr) : Keeps (inferCtorHead env e) := by
  cases e with
  | field e' f => simp only [inferCtorHead]; exact keeps_inferCtorHead env e'
  | ctor ty k args =>
    simp only [inferCtorHead]
    split
    · split <;> first | exact keeps_pure _ | exact keeps_throw _
    · exact keeps_throw _
  | _ => simp only [inferCtorHead]; exact keeps_pure _
termination_by sizeOf e

/-- close a `Keeps` goal about a `do` block built from the primitive steps -/
macro "keeps_step" : tactic => `(tactic| first
  | exact keeps_pure _ | exact keeps_throw _ | exact keeps_unifyM _ _ _ | exact keeps_freshVar
  | exact keeps_freshInt | exact keeps_freshFloat | exact keeps_resolveM _ | exact keeps_markSignedM _
  | exact keeps_declareM _ _ _ | exact keeps_rootTy _ _ _ _ | exact keeps_evalTy _ _ | exact keeps_accessField _ _ _
  | exact keeps_accessPath _ _ _ | exact keeps_inferCtorHead _ _ | assumption
  | (apply keeps_bind) | (apply keeps_arityThen) | split | (intro _))

theorem keeps_binopWith (env : Env) (expected : MTy) (op : BinOp) {left right : MTy → M Bool}
    (hl : ∀ τ, Keeps (left τ)) (hr : ∀ τ, Keeps (right τ)) : Keeps (binopWith env expected op left right) := by
  unfold binopWith
  have hl' := hl
  have hr' := hr
  cases op <;> (simp only; repeat' (first | exact hl _ | exact hr _ | keeps_step))

end RotoV.TcInfer

namespace RotoV.TcInfer
open RotoV.Typing RotoV.Unify RotoV.Gen

theorem keeps_declareAllM : ∀ (ps : List (Nat × MTy)) (g : MGamma), Keeps (declareAllM g ps)
  | [], g => by simp only [declareAllM]; exact keeps_pure _
  | (x, t) :: rest, g => by
    simp only [declareAllM]
    apply keeps_bind (keeps_declareM _ _ _)
    intro g'
    exact keeps_declareAllM rest g'


theorem keeps_getMethod (t : MTy) (m : Nat) : Keeps (getMethod t m) := by
  unfold getMethod
  repeat' keeps_step

mutual
theorem keepsE (env : Env) (e : Expr) (hc : coreE e = true) : ∀ cx g, Keeps (infer env cx g e) := by
  intro cx g
  cases e with
  | intLit s => cases s <;> (simp only [infer]; repeat' keeps_step)
  | floatLit s =>
    cases s with
    | none => simp only [infer]; repeat' keeps_step
    | some b => cases b <;> (simp only [infer]; repeat' keeps_step)
  | boolLit | strLit | unitLit | var _ | const _ | none => simp only [infer]; repeat' keeps_step
  | neg e | not e | some e | «try» e | field e _ | assign _ _ _ e =>
    simp only [coreE] at hc
    have ih := keepsE env e hc
    simp only [infer]
    repeat' (first | exact ih _ _ | keeps_step)
  | bin op l r =>
    simp only [coreE, Bool.and_eq_true] at hc
    have ih1 := keepsE env l hc.1.2
    have ih2 := keepsE env r hc.2
    simp only [infer]
    exact keeps_binopWith env _ op (fun τ => ih1 _ _) (fun τ => ih2 _ _)
  | ite c t eo =>
    cases eo with
    | none =>
      simp only [coreE, Bool.and_eq_true] at hc
      have ih1 := keepsE env c hc.1
      have ih2 := keepsB env t hc.2
      simp only [infer]
      repeat' (first | exact ih1 _ _ | exact ih2 _ _ | keeps_step)
    | some el =>
      simp only [coreE, Bool.and_eq_true] at hc
      have ih1 := keepsE env c hc.1.1
      have ih2 := keepsB env t hc.1.2
      have ih3 := keepsB env el hc.2
      simp only [infer]
      repeat' (first | exact ih1 _ _ | exact ih2 _ _ | exact ih3 _ _ | keeps_step)
  | «while» c b | «for» _ c b =>
    simp only [coreE, Bool.and_eq_true] at hc
    have ih1 := keepsE env c hc.1
    have ih2 := keepsB env b hc.2
    simp only [infer]
    repeat' (first | exact ih1 _ _ | exact ih2 _ _ | keeps_step)
  | block b =>
    simp only [coreE] at hc
    have ih := keepsB env b hc
    simp only [infer]
    exact ih _ _
  | call f args =>
    simp only [coreE] at hc
    have ih := keepsArgs env args hc
    simp only [infer]
    repeat' (first | exact ih _ _ _ | keeps_step)
  | listLit es =>
    simp only [coreE] at hc
    have ih := keepsList env es hc
    simp only [infer]
    repeat' (first | exact ih _ _ | keeps_step)
  | ret k eo =>
    cases eo with
    | none => simp only [infer]; repeat' keeps_step
    | some e =>
      simp only [coreE] at hc
      have ih := keepsE env e hc
      simp only [infer]
      repeat' (first | exact ih _ _ | keeps_step)
  | ctor ty k args =>
    simp only [coreE] at hc
    have ih := keepsArgs env args hc
    simp only [infer]
    repeat' (first | exact ih _ _ _ | keeps_step)
  | record ty fields =>
    simp only [coreE] at hc
    have ih := keepsFields env fields hc
    simp only [infer]
    repeat' (first | exact ih _ _ _ | keeps_step)
  | «match» e arms =>
    simp only [coreE, Bool.and_eq_true] at hc
    have ih1 := keepsE env e hc.1.1
    have ih2 := keepsArms env arms hc.2
    simp only [infer]
    repeat' (first | exact ih1 _ _ | exact ih2 _ _ _ _ | keeps_step)
  | cassign op ic x p e =>
    simp only [coreE, Bool.and_eq_true] at hc
    have ih := keepsE env e hc.2
    simp only [infer]
    repeat' (first | exact keeps_binopWith env _ op (fun τ => by unfold pathAsExpr; repeat' keeps_step) (fun τ => ih _ _) | keeps_step)
  | mcall e m args =>
    simp only [coreE, Bool.and_eq_true] at hc
    have ih1 := keepsE env e hc.1
    have ih2 := keepsArgs env args hc.2
    simp only [infer]
    repeat' (first | exact ih1 _ _ | exact ih2 _ _ _ | exact keeps_getMethod _ _ | keeps_step)
  | fstr _ => simp [coreE] at hc
termination_by sizeOf e

theorem keepsArms (env : Env) (arms : List Arm) (hc : coreA arms = true) :
    ∀ cx g vs st0, Keeps (inferArms env cx g vs arms st0) := by
  intro cx g vs st0
  cases arms with
  | nil => simp only [inferArms]; repeat' keeps_step
  | cons a rest =>
    cases a with
    | mk pat guard body =>
      have hcb : coreB body = true := by
        cases guard <;> simp only [coreA, Bool.and_eq_true] at hc
        · exact hc.1
        · exact hc.1.2
      have hcr : coreA rest = true := by
        cases guard <;> simp only [coreA, Bool.and_eq_true] at hc <;> exact hc.2
      have ihb := keepsB env body hcb
      have ihr := keepsArms env rest hcr
      rw [inferArms.eq_def]
      simp only
      cases guard with
      | none =>
        simp only
        repeat' (first | exact ihb _ _ | exact ihr _ _ _ _ | exact keeps_declareAllM _ _ | keeps_step)
      | some gd0 =>
        have ihg := keepsE env gd0 (by simp only [coreA, Bool.and_eq_true] at hc; exact hc.1.1)
        simp only
        repeat' (first | exact ihg _ _ | exact ihb _ _ | exact ihr _ _ _ _ | exact keeps_declareAllM _ _ | keeps_step)
termination_by sizeOf arms

theorem keepsFields (env : Env) (fs : List Field) (hc : coreF fs = true) :
    ∀ cx g decl, Keeps (inferFields env cx g fs decl) := by
  intro cx g decl
  cases fs with
  | nil => simp only [inferFields]; repeat' keeps_step
  | cons f rest =>
    cases f with
    | mk n e =>
      simp only [coreF, Bool.and_eq_true] at hc
      have ih1 := keepsE env e hc.1
      have ih2 := keepsFields env rest hc.2
      simp only [inferFields]
      repeat' (first | exact ih1 _ _ | exact ih2 _ _ _ | keeps_step)
termination_by sizeOf fs

theorem keepsArgs (env : Env) (es : List Expr) (hc : coreL es = true) : ∀ cx g ps, Keeps (inferArgsGo env cx g es ps) := by
  intro cx g ps
  cases es with
  | nil => simp only [inferArgsGo]; repeat' keeps_step
  | cons e es =>
    cases ps with
    | nil => simp only [inferArgsGo]; repeat' keeps_step
    | cons p ps =>
      simp only [coreL, Bool.and_eq_true] at hc
      have ih1 := keepsE env e hc.1
      have ih2 := keepsArgs env es hc.2
      simp only [inferArgsGo]
      repeat' (first | exact ih1 _ _ | exact ih2 _ _ _ | keeps_step)
termination_by sizeOf es

theorem keepsList (env : Env) (es : List Expr) (hc : coreL es = true) : ∀ cx g, Keeps (inferList env cx g es) := by
  intro cx g
  cases es with
  | nil => simp only [inferList]; repeat' keeps_step
  | cons e es =>
    simp only [coreL, Bool.and_eq_true] at hc
    have ih1 := keepsE env e hc.1
    have ih2 := keepsList env es hc.2
    simp only [inferList]
    repeat' (first | exact ih1 _ _ | exact ih2 _ _ | keeps_step)
termination_by sizeOf es

theorem keepsS (env : Env) (ss : List Stmt) (hc : coreS ss = true) : ∀ cx g, Keeps (inferStmts env cx g ss) := by
  intro cx g
  cases ss with
  | nil => simp only [inferStmts]; repeat' keeps_step
  | cons s rest =>
    cases s with
    | expr e =>
      simp only [coreS, Bool.and_eq_true] at hc
      have ih1 := keepsE env e hc.1
      have ih2 := keepsS env rest hc.2
      simp only [inferStmts]
      repeat' (first | exact ih1 _ _ | exact ih2 _ _ | keeps_step)
    | let_ x ann e =>
      cases ann with
      | none =>
        simp only [coreS, Bool.and_eq_true] at hc
        have ih1 := keepsE env e hc.1
        have ih2 := keepsS env rest hc.2
        simp only [inferStmts]
        repeat' (first | exact ih1 _ _ | exact ih2 _ _ | keeps_step)
      | some a =>
        simp only [coreS, Bool.and_eq_true] at hc
        have ih1 := keepsE env e hc.1.2
        have ih2 := keepsS env rest hc.2
        simp only [inferStmts]
        repeat' (first | exact ih1 _ _ | exact ih2 _ _ | keeps_step)
termination_by sizeOf ss

theorem keepsB (env : Env) (b : Block) (hc : coreB b = true) : ∀ cx g, Keeps (inferBlock env cx g b) := by
  intro cx g
  cases b with
  | mk ss last =>
    cases last with
    | none =>
      simp only [coreB] at hc
      have ih := keepsS env ss hc
      simp only [inferBlock]
      repeat' (first | exact ih _ _ | keeps_step)
    | some e =>
      simp only [coreB, Bool.and_eq_true] at hc
      have ih1 := keepsS env ss hc.1
      have ih2 := keepsE env e hc.2
      simp only [inferBlock]
      repeat' (first | exact ih1 _ _ | exact ih2 _ _ | keeps_step)
termination_by sizeOf b
end

end RotoV.TcInfer

namespace RotoV.TcInfer
open RotoV.Typing RotoV.Unify RotoV.Gen

theorem keeps_go (env : Env) : ∀ params, Keeps (inferFn.go env params)
  | [] => by simp only [inferFn.go]; exact keeps_pure _
  | (x, t) :: rest => by
    have ih := keeps_go env rest
    simp only [inferFn.go]
    repeat' (first | exact ih | keeps_step)

theorem keeps_apply {α : Type} {x : M α} (h : Keeps x) {st : St} {a : α} {st' : St} (hx : x st = .ok a st') :
    st'.obls = st.obls := by
  unfold Keeps at h; exact h st a st' hx

/-- for a body of the core fragment the deferred obligations stay empty, so
    `resolve_obligations` changes nothing: the store `function` ends with is the
    store the body check leaves behind -/
theorem inferFn_store {env : Env} {params : List (Nat × Ty)} {rt : Ty} {body : Block} (hcb : coreB body = true)
    {st' : St} {u : Unit} (h : inferFn env params rt body ⟨[], []⟩ = .ok u st') :
    ∃ st1, inferFnBody env params rt body ⟨[], []⟩ = .ok () st1 ∧ st'.store = st1.store := by
  obtain ⟨st1, h1, h2⟩ := inferFn_split h
  refine ⟨st1, h1, ?_⟩
  have hk : Keeps (inferFnBody env params rt body) := by
    unfold inferFnBody
    have ihb := keepsB env body hcb
    repeat' (first | exact keeps_go _ _ | exact keeps_declareAllM _ _ | exact ihb _ _ | keeps_step)
  have hob : st1.obls = [] := keeps_apply hk h1
  unfold runObligations at h2
  rw [hob] at h2
  simp only [resolveObligations] at h2
  obtain ⟨_, rfl⟩ := pure_ok.mp h2
  rfl

end RotoV.TcInfer
