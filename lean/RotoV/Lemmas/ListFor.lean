/-
  ListFor: the variable a lowered `for` loop keeps for itself is out of reach
  of the loop body — no operation that does not name it as its destination
  changes which list it refers to, whatever is assigned to the other variables
  (C15: `for` walks the one shared vector the loop started on).
-/
import RotoV.Lemmas.ListRefine
import RotoV.Model.ListFor

namespace RotoV.ListM
open RotoV

/-- on the shared vectors: an operation that does not write the variable `v`
    leaves `v` referring to what it referred to -/
theorem specStep_slot_frame (t : Spec) (op : Op) (v : Nat) (hw : op.writes v = false) :
    (specStep t op).2.slots[v]? = t.slots[v]? := by
  cases op <;> simp only [Op.writes, beq_eq_false_iff_ne, ne_eq] at hw <;>
    simp only [specStep, Spec.bind] <;> (repeat' split) <;>
    first
      | rfl
      | (simp only [List.getElem?_set]; rw [if_neg hw])

/-- the same for the implementation model, from every state satisfying the invariant -/
theorem step_slot_frame {sz : Nat} {s : St} (inv : Inv sz s) (op : Op) (v : Nat) (hw : op.writes v = false) :
    (step sz s op).2.slots[v]? = s.slots[v]? := by
  rcases good_step inv (Rel_abs s) op with ⟨_, h, _⟩ | ⟨_, _, rel, _⟩
  · rw [h]
  · rw [← rel.slots, specStep_slot_frame _ op v hw]
    rfl

theorem runSt_slot_frame {sz : Nat} : ∀ (body : List Op) {s : St}, Inv sz s → (v : Nat) →
    (∀ op ∈ body, op.writes v = false) → (runSt sz s body).slots[v]? = s.slots[v]?
  | [], _, _, _, _ => rfl
  | op :: rest, s, inv, v, hb => by
    simp only [runSt]
    rw [runSt_slot_frame rest (Inv_step inv op) v (fun o ho => hb o (by simp [ho])),
      step_slot_frame inv op v (hb op (by simp))]

/-- the loop's own variable after `cloneH tmp h`: the list `h` refers to -/
theorem cloneH_binds {sz : Nat} {s : St} (inv : Inv sz s) {tmp h a : Nat}
    (hs : s.slots[h]? = some (some a)) (ht : tmp < s.slots.length)
    (hok : (step sz s (.cloneH tmp h)).1 ≠ .fault .panic) :
    (step sz s (.cloneH tmp h)).2.slots[tmp]? = some (some a) := by
  have ⟨l, hl⟩ := inv.slot h a hs
  rcases good_step inv (Rel_abs s) (.cloneH tmp h) with ⟨hp, _, _⟩ | ⟨_, _, rel, _⟩
  · exact absurd hp hok
  · rw [← rel.slots]
    have hv := vec_ok (Rel_abs s) hs hl
    have ht' : tmp < (absSpec s).slots.length := ht
    simp only [specStep, hv, ht', if_true]
    simp [ht']

end RotoV.ListM
