/-
  ListJoin: the `join` binding of `List[String]` (property C15).

  `joinSpec` (ListM) is the meaning of the method — the separator between every
  two neighbouring elements; `sliceJoin` (ListBase) is `[S]::join` as Rust's
  std computes it; `Gen.ListJoin.join_body` is the binding's body as the source
  has it on this run. Everything here is for ALL lists of strings (any number
  of empty strings anywhere, singleton, empty list) and ALL separators (empty,
  multi-byte, equal to an element).
-/
import RotoV.Model.ListM

namespace RotoV.ListM

/-! ### the specification, characterised -/

@[simp] theorem joinSpec_nil (sep : Str) : joinSpec [] sep = [] := rfl

@[simp] theorem joinSpec_single (x sep : Str) : joinSpec [x] sep = x := by
  simp [joinSpec]

theorem joinSpec_cons_cons (x y : Str) (r : List Str) (sep : Str) :
    joinSpec (x :: y :: r) sep = x ++ (sep ++ joinSpec (y :: r) sep) := by
  simp [joinSpec]

/-- bytes of all elements -/
def totalLen : List Str → Nat
  | [] => 0
  | x :: r => x.length + totalLen r

/-- every separator is there: the result has the elements' bytes plus
    `len - 1` separators -/
theorem joinSpec_length (l : List Str) (sep : Str) :
    (joinSpec l sep).length = totalLen l + (l.length - 1) * sep.length := by
  induction l with
  | nil => simp [totalLen]
  | cons x r ih =>
    cases r with
    | nil => simp [totalLen]
    | cons y r' =>
      rw [joinSpec_cons_cons, List.length_append, List.length_append, ih]
      simp only [totalLen, List.length_cons, Nat.add_sub_cancel]
      rw [Nat.add_mul, Nat.one_mul]
      omega

/-- empty separator: concatenation -/
theorem joinSpec_empty_sep (l : List Str) : joinSpec l [] = l.flatten := by
  induction l with
  | nil => rfl
  | cons x r ih =>
    cases r with
    | nil => simp
    | cons y r' => rw [joinSpec_cons_cons, ih]; simp

/-- joining splits at any inner boundary -/
theorem joinSpec_append (a b : List Str) (sep : Str) (ha : a ≠ []) (hb : b ≠ []) :
    joinSpec (a ++ b) sep = joinSpec a sep ++ (sep ++ joinSpec b sep) := by
  induction a with
  | nil => exact absurd rfl ha
  | cons x r ih =>
    cases r with
    | nil =>
      cases b with
      | nil => exact absurd rfl hb
      | cons y b' => simp [joinSpec_cons_cons]
    | cons y r' =>
      have := ih (by simp)
      simp only [List.cons_append] at this ⊢
      rw [joinSpec_cons_cons, this, joinSpec_cons_cons]
      simp [List.append_assoc]

/-! ### std's `[S]::join` is that -/

theorem sliceJoinRest_cons_spec (sep y : Str) (r : List Str) :
    sliceJoinRest sep (y :: r) = sep ++ joinSpec (y :: r) sep := by
  induction r generalizing y with
  | nil => simp [sliceJoinRest]
  | cons z r' ih => rw [sliceJoinRest, ih, joinSpec_cons_cons]

theorem sliceJoin_eq_spec (l : List Str) (sep : Str) : sliceJoin l sep = joinSpec l sep := by
  cases l with
  | nil => rfl
  | cons x r =>
    cases r with
    | nil => simp [sliceJoin, sliceJoinRest]
    | cons y r' => rw [sliceJoin, sliceJoinRest_cons_spec, joinSpec_cons_cons]

/-! ### the binding's body (generated from `src/runtime/basic.rs`) is that -/

/-- **Obligation** (breaks when the body of the `join` binding is rewritten into
    something that is not `[String]::join`): for every list of strings and every
    separator the body returns `joinSpec`. -/
theorem join_body_eq (l : List Str) (sep : Str) :
    Gen.ListJoin.join_body l sep = joinSpec l sep := by
  -- any arrangement of `let`s around one `[S]::join` of the elements
  unfold Gen.ListJoin.join_body
  simp [Id.run, pure, sliceJoin_eq_spec]

/-! ### the element strings are distinct

`contains` / `index` / `==` on a `List[String]` compare strings; the model
compares the element values. The two agree because `elemStr` is injective. -/

/-- reading an element string back -/
def elemVal : Str → Nat
  | [] => 0
  | [115] => 2
  | [195, 169] => 3
  | [44] => 4
  | [83, 49] => 5
  | [115, 49, 32] => 6
  | [226, 134, 146, 120] => 7
  | 115 :: ds => Nat.ofDigitChars 10 (ds.map Char.ofNat) 0
  | _ => 0

theorem map_ofNat_toNat (cs : List Char) : (cs.map Char.toNat).map Char.ofNat = cs := by
  induction cs with
  | nil => rfl
  | cons c r ih => simp [ih]

theorem elemStr_general (v : Nat) (h : 8 ≤ v ∨ v = 1) :
    elemStr v = 115 :: (Nat.toDigits 10 v).map Char.toNat := by
  rcases h with h | h
  · unfold elemStr
    split <;> first | omega | rfl
  · subst h; decide

theorem elemVal_general (ds : List Nat) (h1 : ds ≠ []) (h2 : ds ≠ [49, 32]) :
    elemVal (115 :: ds) = Nat.ofDigitChars 10 (ds.map Char.ofNat) 0 := by
  unfold elemVal
  split <;> simp_all

theorem elemVal_elemStr (v : Nat) : elemVal (elemStr v) = v := by
  by_cases h : 8 ≤ v ∨ v = 1
  · rw [elemStr_general v h, elemVal_general, map_ofNat_toNat]
    · exact Nat.ofDigitChars_ten_toDigits
    · simp [Nat.toDigits_ne_nil]
    · intro hc
      have hm := congrArg (List.map Char.ofNat) hc
      rw [map_ofNat_toNat] at hm
      have : ' ' ∈ Nat.toDigits 10 v := by rw [hm]; decide
      have := Nat.isDigit_of_mem_toDigits (by omega) (by omega) this
      exact absurd this (by decide)
  · have : v = 0 ∨ v = 2 ∨ v = 3 ∨ v = 4 ∨ v = 5 ∨ v = 6 ∨ v = 7 := by omega
    rcases this with h | h | h | h | h | h | h <;> subst h <;> decide

theorem elemStr_injective {v w : Nat} (h : elemStr v = elemStr w) : v = w := by
  rw [← elemVal_elemStr v, ← elemVal_elemStr w, h]
end RotoV.ListM
