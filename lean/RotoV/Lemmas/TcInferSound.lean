/-
  Lemmas for C07: soundness of the inference model (`Model/TcInfer.lean`)
  against the declarative checker (`Model/Typing.lean`).
-/
import RotoV.Lemmas.TcInferUnify

namespace RotoV.TcInfer
end RotoV.TcInfer
