/-
  Lemmas for C07: soundness of the inference model (`Model/TcInfer.lean`)
  against the declarative checker (`Model/Typing.lean`) — infrastructure and
  the per-construct lemmas.

  * the monad of the model (`bind_ok`, …), the primitive steps (`fresh_var`,
    `resolve_type`, `unify`) as store extensions: every step keeps the store
    well-formed and every solution of the later store solves the earlier one;
  * `den σ (toM t) = t` for written types, `den σ t` ground for well-formed `t`;
  * checker scopes under a valuation (`denG`), the fragment `coreE/coreB/…`,
    what acceptance means (`PostE`, `PostB`, `PostS`, `PostArgs`);
  * `Negate` (`neg_sound`), `binop` with its special cases (`binopWith_sound`),
    `Option.Some/None`, `?`, `for`, constants, list literals, constructors,
    record literals, field access (one path or `Access`), assignment;
  * `match`: the bookkeeping of the arms (`armsBook`, `heads_ok`: an accepted loop
    passes the declarative `matchHeads`, pigeonhole for the count-based
    exhaustiveness test), binders, guards, the variants of the examinee.
-/
import RotoV.Lemmas.TcInferUnify
import RotoV.Lemmas.TypingAux

namespace RotoV.TcInfer
open RotoV.Typing RotoV.Unify RotoV.Gen

/-! ### the monad -/

theorem bind_ok {α β : Type} {x : M α} {f : α → M β} {st : St} {b : β} {st'' : St} :
    (x >>= f) st = .ok b st'' ↔ ∃ a st', x st = .ok a st' ∧ f a st' = .ok b st'' := by
  show M.bind x f st = _ ↔ _
  unfold M.bind
  cases h : x st with
  | ok a st' =>
    simp only [Res.ok.injEq]
    constructor
    · intro hf; exact ⟨a, st', ⟨rfl, rfl⟩, hf⟩
    · rintro ⟨a1, st1, ⟨rfl, rfl⟩, hf⟩; exact hf
  | err e => simp
  | ice => simp
  | stuck => simp

theorem pure_ok {α : Type} {a b : α} {st st' : St} : (pure a : M α) st = .ok b st' ↔ a = b ∧ st = st' := by
  show M.pure a st = _ ↔ _
  unfold M.pure
  simp

theorem throw_ok {α : Type} {e : Err} {b : α} {st st' : St} : (throw e : M α) st = .ok b st' ↔ False := by
  unfold throw; simp

/-- a valuation into ground types -/
def GVal (σ : Val) : Prop := ∀ i, ground (σ i) = true

/-- a later state: well-formedness is kept and every solution of the later
    store solves the earlier one -/
def Ext (st st' : St) : Prop :=
  (WTs st.store → WTs st'.store) ∧ ∀ σ : Val, Sat σ st'.store → Sat σ st.store

theorem Ext.refl (st : St) : Ext st st := ⟨id, fun _ h => h⟩
theorem Ext.trans {a b c : St} (h1 : Ext a b) (h2 : Ext b c) : Ext a c :=
  ⟨fun h => h2.1 (h1.1 h), fun σ h => h1.2 σ (h2.2 σ h)⟩

theorem Sat_append {σ : Val} {s : Store} {t : MTy} (h : Sat σ (s ++ [t])) : Sat σ s := by
  intro i r hr
  apply h i r
  have := lt_of_getElem? hr
  rw [List.getElem?_append_left this]; exact hr

theorem WTs_append {s : Store} {t : MTy} (h : WTs s) (ht : WT t = true) : WTs (s ++ [t]) := by
  intro i r hr
  by_cases hi : i < s.length
  · rw [List.getElem?_append_left hi] at hr; exact h i r hr
  · by_cases hi2 : i = s.length
    · subst hi2; simp at hr; subst hr; exact ht
    · have : (s ++ [t])[i]? = none := by simp; omega
      rw [this] at hr; cases hr

theorem freshVar_ok {st st' : St} {t : MTy} (h : freshVar st = .ok t st') :
    t = .var st.store.length ∧ Ext st st' := by
  unfold freshVar fresh at h
  simp only [Res.ok.injEq] at h
  obtain ⟨rfl, rfl⟩ := h
  exact ⟨rfl, fun hW => WTs_append hW rfl, fun σ hs => Sat_append hs⟩

theorem freshInt_ok {st st' : St} {t : MTy} (h : freshInt st = .ok t st') :
    t = .intVar st.store.length false ∧ Ext st st' ∧
      ∀ σ : Val, Sat σ st'.store → isGInt (σ st.store.length) = true := by
  unfold freshInt fresh at h
  simp only [Res.ok.injEq] at h
  obtain ⟨rfl, rfl⟩ := h
  refine ⟨rfl, ⟨fun hW => WTs_append hW rfl, fun σ hs => Sat_append hs⟩, fun σ hs => ?_⟩
  have := hs st.store.length (.intVar st.store.length false) (by simp)
  exact this.2.1

theorem freshFloat_ok {st st' : St} {t : MTy} (h : freshFloat st = .ok t st') :
    t = .floatVar st.store.length ∧ Ext st st' ∧
      ∀ σ : Val, Sat σ st'.store → isGFloat (σ st.store.length) = true := by
  unfold freshFloat fresh at h
  simp only [Res.ok.injEq] at h
  obtain ⟨rfl, rfl⟩ := h
  refine ⟨rfl, ⟨fun hW => WTs_append hW rfl, fun σ hs => Sat_append hs⟩, fun σ hs => ?_⟩
  have := hs st.store.length (.floatVar st.store.length) (by simp)
  exact this.2

theorem resolveM_ok {st st' : St} {t t' : MTy} (h : resolveM t st = .ok t' st') :
    st = st' ∧ resolve st.store t = some t' := by
  unfold resolveM at h
  cases hr : resolve st.store t with
  | none => simp [hr] at h
  | some r => simp [hr] at h; exact ⟨h.2, by rw [h.1]⟩

/-- `unify(expected, found)` on well-formed types -/
theorem unifyM_ok {env : Env} {st st' : St} {a b : MTy} {u : Unit} (h : unifyM env a b st = .ok u st')
    (hW : WTs st.store) (ha : WT a = true) (hb : WT b = true) :
    WTs st'.store ∧ Ext st st' ∧ ∀ σ : Val, Sat σ st'.store → den σ a = den σ b := by
  unfold unifyM at h
  cases hu : unifyTop (mkDefs env) fuel st.store a b with
  | ok t s =>
    simp only [hu, Res.ok.injEq] at h
    obtain ⟨_, rfl⟩ := h
    obtain ⟨h1, h2⟩ := unifyTop_sound (mkDefs_std env) fuel st.store a b t s hW ha hb hu
    exact ⟨h1, ⟨fun _ => h1, fun σ hs => (h2 σ hs).1⟩, fun σ hs => (h2 σ hs).2⟩
  | fail s => simp [hu] at h
  | ice => simp [hu] at h
  | stuck => simp [hu] at h

/-- `unify(expected, !)`: a diverging expression fits; nothing changes -/
theorem unifyM_never {env : Env} {st st' : St} {a : MTy} {u : Unit}
    (h : unifyM env a .never st = .ok u st') : st = st' := by
  unfold unifyM unifyTop at h
  have h1 : C07Facts.unifyFoundNeverFitsAll = true := by decide
  have hn : resolve st.store MTy.never = some MTy.never := rfl
  simp only [h1, hn] at h
  cases hr : resolve st.store a with
  | none => simp [hr] at h
  | some e => simp [hr] at h; exact h

end RotoV.TcInfer

namespace RotoV.TcInfer
open RotoV.Typing RotoV.Unify RotoV.Gen

/-- a type a script can write (no flexible type inside; the four other built-in ground types) -/
def plain : Ty → Bool
  | .int _ | .f32 | .f64 | .bool | .string | .unit | .named _ => true
  | .opt t | .list t => plain t
  | .verdict a r => plain a && plain r
  | .prim k => decide (k < 4)
  | _ => false

theorem ityOf_ityNum (t : ITy) : ityOf (ityNum t) = t := by cases t <;> rfl
theorem ityNum_lt (t : ITy) : ityNum t < 8 := by cases t <;> decide

theorem den_toM (σ : Val) : ∀ t, plain t = true → den σ (toM t) = t ∧ WT (toM t) = true ∧ ground t = true := by
  intro t
  induction t with
  | int t => intro _; cases t <;> simp [toM, den, denL, denName, ityNum, ityOf, WT, WTl, arity, ground, nmOption, nmList, nmVerdict]
  | f32 => intro _; simp [toM, den, denL, denName, WT, WTl, arity, ground, nmF32, nmOption, nmList, nmVerdict]
  | f64 => intro _; simp [toM, den, denL, denName, WT, WTl, arity, ground, nmF64, nmOption, nmList, nmVerdict]
  | bool => intro _; simp [toM, tBool, den, denL, denName, WT, WTl, arity, ground, nmBool, nmOption, nmList, nmVerdict]
  | string => intro _; simp [toM, tString, den, denL, denName, WT, WTl, arity, ground, nmString, nmOption, nmList, nmVerdict]
  | unit => intro _; simp [toM, den, WT, ground]
  | opt t ih =>
    intro h; simp only [plain] at h
    obtain ⟨h1, h2, h3⟩ := ih h
    simp [toM, tOption, den, denL, denName, h1, WT, WTl, h2, arity, ground, h3, nmOption]
  | list t ih =>
    intro h; simp only [plain] at h
    obtain ⟨h1, h2, h3⟩ := ih h
    simp [toM, tList, den, denL, denName, h1, WT, WTl, h2, arity, ground, h3, nmList, nmOption]
  | named n =>
    intro _
    have h1 : ¬ (32 + n < 8) := by omega
    have h2 : ¬ (32 + n < 32) := by omega
    have h3 : (32 + n == 8) = false := by simp; omega
    have h4 : (32 + n == 9) = false := by simp; omega
    have h5 : (32 + n == 10) = false := by simp; omega
    have h6 : (32 + n == 11) = false := by simp; omega
    have h7 : (32 + n == 12) = false := by simp; omega
    have h8 : (32 + n == 13) = false := by simp; omega
    have h9 : (32 + n == 14) = false := by simp; omega
    simp [toM, den, denL, denName, nmUser, WT, WTl, arity, ground, nmOption, nmList, nmVerdict, h1, h2, h3, h4, h5, h6, h7, h8, h9]
  | verdict a r iha ihr =>
    intro h; simp only [plain, Bool.and_eq_true] at h
    obtain ⟨h1, h2, h3⟩ := iha h.1
    obtain ⟨h4, h5, h6⟩ := ihr h.2
    simp [toM, tVerdict, den, denL, denName, h1, h4, WT, WTl, h2, h5, arity, ground, h3, h6, nmVerdict, nmOption, nmList]
  | prim k =>
    intro h; simp only [plain, decide_eq_true_eq] at h
    have : k = 0 ∨ k = 1 ∨ k = 2 ∨ k = 3 := by omega
    rcases this with rfl | rfl | rfl | rfl <;> simp [toM, den, denL, denName, nmChar, WT, WTl, arity, ground, nmOption, nmList, nmVerdict]
  | anyInt s => intro h; simp [plain] at h
  | anyFloat => intro h; simp [plain] at h
  | unknown => intro h; simp [plain] at h
  | never => intro h; simp [plain] at h

theorem denName_ground (n : Nat) (args : List Ty) (h : args.all ground = true) : ground (denName n args) = true := by
  unfold denName
  repeat' split
  all_goals first
    | rfl
    | (cases args with
       | nil => rfl
       | cons a as =>
         simp only [List.all_cons, Bool.and_eq_true] at h
         first
           | (simp only [List.headD_cons, ground]; exact h.1)
           | (cases as with
              | nil => simp [ground, h.1]
              | cons b bs =>
                simp only [List.all_cons, Bool.and_eq_true] at h
                simp [ground, h.1, h.2.1]))

mutual
theorem den_ground {σ : Val} (hσ : GVal σ) : ∀ t, WT t = true → ground (den σ t) = true
  | .var n, _ | .intVar n _, _ | .floatVar n, _ => by simp only [den]; exact hσ n
  | .unit, _ => rfl
  | .name n args, h => by
    simp only [WT, Bool.and_eq_true, beq_iff_eq] at h
    simp only [den]
    exact denName_ground n _ (denL_ground hσ args h.1)
  | .explicitVar _, h | .recordVar _ _, h | .never, h | .record _, h | .func _ _, h => by simp [WT] at h
theorem denL_ground {σ : Val} (hσ : GVal σ) : ∀ ts, WTl ts = true → (denL σ ts).all ground = true
  | [], _ => rfl
  | t :: ts, h => by
    simp only [WTl, Bool.and_eq_true] at h
    simp only [denL, List.all_cons, Bool.and_eq_true]
    exact ⟨den_ground hσ t h.1, denL_ground hσ ts h.2⟩
end

end RotoV.TcInfer

namespace RotoV.TcInfer
open RotoV.Typing RotoV.Unify RotoV.Gen

def denS (σ : Val) : MScope → Scope
  | [] => []
  | (x, t) :: r => (x, den σ t) :: denS σ r

def denG (σ : Val) : MGamma → Gamma
  | [] => []
  | s :: r => denS σ s :: denG σ r

theorem lookup_denS (σ : Val) (x : Nat) : ∀ s : MScope, (denS σ s).lookup x = (s.lookup x).map (den σ)
  | [] => rfl
  | (y, t) :: r => by
    simp only [denS, List.lookup]
    cases (x == y) with
    | true => rfl
    | false => exact lookup_denS σ x r

theorem lookup_denG (σ : Val) (x : Nat) : ∀ g : MGamma, lookupVar (denG σ g) x = (lookupM g x).map (den σ)
  | [] => rfl
  | s :: r => by
    simp only [denG, lookupVar, lookupM, lookup_denS]
    cases s.lookup x with
    | some t => rfl
    | none => exact lookup_denG σ x r

def WTg (g : MGamma) : Prop := ∀ s ∈ g, ∀ p ∈ s, WT p.2 = true

theorem lookup_mem {s : MScope} {x : Nat} {t : MTy} (h : s.lookup x = some t) : (x, t) ∈ s := by
  induction s with
  | nil => simp [List.lookup] at h
  | cons p r ih =>
    obtain ⟨y, u⟩ := p
    simp only [List.lookup] at h
    cases hxy : (x == y) with
    | true =>
      simp only [hxy] at h; cases h
      have : x = y := by simpa using hxy
      subst this; exact List.mem_cons_self
    | false => simp only [hxy] at h; exact List.mem_cons_of_mem _ (ih h)

theorem lookupM_WT {g : MGamma} (hg : WTg g) {x : Nat} {t : MTy} (h : lookupM g x = some t) : WT t = true := by
  induction g with
  | nil => simp [lookupM] at h
  | cons s r ih =>
    simp only [lookupM] at h
    cases hs : s.lookup x with
    | some u =>
      simp only [hs] at h; cases h
      exact hg s List.mem_cons_self _ (lookup_mem hs)
    | none =>
      simp only [hs] at h
      exact ih (fun s' hs' => hg s' (List.mem_cons_of_mem _ hs')) h

theorem WTg_push {g : MGamma} (hg : WTg g) : WTg ([] :: g) := by
  intro s hs p hp
  cases hs with
  | head => cases hp
  | tail _ h => exact hg s h p hp

theorem declareM_ok {g g' : MGamma} {x : Nat} {t : MTy} {st st' : St} (h : declareM g x t st = .ok g' st') :
    st = st' ∧ (∀ σ : Val, declare (denG σ g) x (den σ t) = some (denG σ g')) ∧
      (WTg g → WT t = true → WTg g') := by
  cases g with
  | nil =>
    simp only [declareM] at h
    obtain ⟨rfl, rfl⟩ := pure_ok.mp h
    refine ⟨rfl, fun σ => rfl, fun _ ht => ?_⟩
    intro s hs p hp
    simp only [List.mem_singleton] at hs; subst hs
    simp only [List.mem_singleton] at hp; subst hp; exact ht
  | cons s r =>
    simp only [declareM] at h
    cases hl : s.lookup x with
    | some u => simp only [hl, Option.isSome_some, if_true] at h; exact (throw_ok.mp h).elim
    | none =>
      simp only [hl, Option.isSome_none, Bool.false_eq_true, if_false] at h
      obtain ⟨rfl, rfl⟩ := pure_ok.mp h
      refine ⟨rfl, fun σ => ?_, fun hg ht => ?_⟩
      · simp only [denG, declare, lookup_denS, hl, Option.map_none, Option.isSome_none, Bool.false_eq_true,
          if_false, denS]
      · intro s' hs' p hp
        cases hs' with
        | head =>
          cases hp with
          | head => exact ht
          | tail _ hp' => exact hg s List.mem_cons_self p hp'
        | tail _ h' => exact hg s' (List.mem_cons_of_mem _ h') p hp

/-- the declarative context of a checker context under a valuation -/
def denCx (σ : Val) (cx : Cx) : Ctx := ⟨cx.ret.map (den σ)⟩

def WTcx (cx : Cx) : Prop := WT cx.expected = true ∧ ∀ r, cx.ret = some r → WT r = true

theorem WTcx_with {cx : Cx} (h : WTcx cx) {t : MTy} (ht : WT t = true) : WTcx (cx.withTy t) := ⟨ht, h.2⟩

/-- the signatures of the environment are written types -/
def EnvPlain (env : Env) : Prop :=
  (∀ f sig, env.fns.lookup f = some sig → sig.params.all plain = true ∧ plain sig.ret = true) ∧
  (∀ c t, env.consts.lookup c = some t → plain t = true) ∧
  (∀ n fs, env.types.lookup n = some (.record fs) → (fs.all fun f => plain f.2) = true) ∧
  (∀ n vs, env.types.lookup n = some (.enum vs) → ∀ v ∈ vs, v.2.all plain = true)

/-! the constructs of the fragment `infer_sound` covers -/
mutual
def coreE : Expr → Bool
  | .intLit _ | .floatLit _ | .boolLit | .strLit | .unitLit | .var _ | .const _ | .none => true
  | .neg e | .not e | .some e | .try e | .field e _ | .assign _ _ _ e => coreE e
  | .cassign op _ _ _ e => op != .div && coreE e
  | .mcall e _ args => coreE e && coreL args
  | .listLit es => coreL es
  | .ctor _ _ args => coreL args
  | .record _ fs => coreF fs
  | .match e arms => coreE e && !arms.isEmpty && coreA arms
  | .for _ e b => coreE e && coreB b
  | .bin op l r => op != .div && coreE l && coreE r
  | .ite c t none => coreE c && coreB t
  | .ite c t (some e) => coreE c && coreB t && coreB e
  | .while c b => coreE c && coreB b
  | .block b => coreB b
  | .call _ args => coreL args
  | .ret _ none => true
  | .ret _ (some e) => coreE e
  | _ => false
def coreL : List Expr → Bool
  | [] => true
  | e :: es => coreE e && coreL es
def coreF : List Field → Bool
  | [] => true
  | .mk _ e :: fs => coreE e && coreF fs
def coreA : List Arm → Bool
  | [] => true
  | .mk _ none b :: r => coreB b && coreA r
  | .mk _ (some gd) b :: r => coreE gd && coreB b && coreA r
def coreS : List Stmt → Bool
  | [] => true
  | .let_ _ none e :: rest => coreE e && coreS rest
  | .let_ _ (some a) e :: rest => plain a && coreE e && coreS rest
  | .expr e :: rest => coreE e && coreS rest
def coreB : Block → Bool
  | .mk ss none => coreS ss
  | .mk ss (some e) => coreS ss && coreE e
end

/-- what acceptance of an expression by the inference model means -/
def PostE (env : Env) (cx : Cx) (g : MGamma) (e : Expr) (st : St) (d : Bool) (st' : St) : Prop :=
  WTs st'.store ∧ ∀ σ : Val, GVal σ → Sat σ st'.store → Sat σ st.store ∧
    ∀ gd, gammaInst gd (denG σ g) = true →
      ∃ t dd, synth env (denCx σ cx) gd e = .ok (t, dd) ∧ inst t (den σ cx.expected) = true ∧
        (d = true → dd = true)

def PostB (env : Env) (cx : Cx) (g : MGamma) (b : Block) (st : St) (d : Bool) (st' : St) : Prop :=
  WTs st'.store ∧ ∀ σ : Val, GVal σ → Sat σ st'.store → Sat σ st.store ∧
    ∀ gd, gammaInst gd (denG σ g) = true →
      ∃ t dd, synthBlock env (denCx σ cx) gd b = .ok (t, dd) ∧ inst t (den σ cx.expected) = true ∧
        (d = true → dd = true)

def PostS (env : Env) (cx : Cx) (g : MGamma) (ss : List Stmt) (st : St) (g' : MGamma) (d : Bool) (st' : St) : Prop :=
  WTs st'.store ∧ WTg g' ∧ ∀ σ : Val, GVal σ → Sat σ st'.store → Sat σ st.store ∧
    ∀ gd, gammaInst gd (denG σ g) = true →
      ∃ gd' dd, synthStmts env (denCx σ cx) gd ss = .ok (gd', dd) ∧ gammaInst gd' (denG σ g') = true ∧
        (d = true → dd = true)

/-- the expression was checked against a type `found` that the expected type was unified with -/
theorem inst_of_eq {t a b : Ty} (h : inst t a = true) (e : b = a) : inst t b = true := e ▸ h

def PostList (env : Env) (cx : Cx) (g : MGamma) (es : List Expr) (st : St) (d : Bool) (st' : St) : Prop :=
  WTs st'.store ∧ ∀ σ : Val, GVal σ → Sat σ st'.store → Sat σ st.store ∧
    ∀ gd, gammaInst gd (denG σ g) = true →
      ∃ ts dd, synthList env (denCx σ cx) gd es = .ok (ts, dd) ∧
        (∀ t ∈ ts, inst t (den σ cx.expected) = true) ∧ (d = true → dd = true)

def PostFields (env : Env) (cx : Cx) (g : MGamma) (fs : List Field) (decl : List (Nat × Ty)) (st : St) (d : Bool)
    (st' : St) : Prop :=
  WTs st'.store ∧ ∀ σ : Val, GVal σ → Sat σ st'.store → Sat σ st.store ∧
    ∀ gd, gammaInst gd (denG σ g) = true →
      ∃ dd, checkFields env (denCx σ cx) gd fs decl = .ok dd ∧ (d = true → dd = true)

def PostArgs (env : Env) (cx : Cx) (g : MGamma) (es : List Expr) (ps : List Ty) (st : St) (d : Bool) (st' : St) : Prop :=
  WTs st'.store ∧ ∀ σ : Val, GVal σ → Sat σ st'.store → Sat σ st.store ∧
    ∀ gd, gammaInst gd (denG σ g) = true →
      ∃ dd, checkArgs env (denCx σ cx) gd es ps = .ok dd ∧ (d = true → dd = true)

theorem expect_ok' {what : String} {a b : Ty} (h : compat a b = true) : expect what a b = .ok () := by
  simp [expect, h, pure, Except.pure]

theorem denCx_with (σ : Val) (cx : Cx) (t : MTy) : denCx σ (cx.withTy t) = denCx σ cx := rfl

theorem denG_push (σ : Val) (g : MGamma) : denG σ ([] :: g) = [] :: denG σ g := rfl

theorem wfTy_of_plain (env : Env) : ∀ t, plain t = true → wfTy env t = true → True := fun _ _ _ => trivial

end RotoV.TcInfer

namespace RotoV.TcInfer
open RotoV.Typing RotoV.Unify RotoV.Gen

theorem WT_var (n : Nat) : WT (.var n) = true := by simp [WT]
theorem WT_unit : WT .unit = true := by simp [WT]

theorem den_name0 (σ : Val) (n : Nat) : den σ (.name n []) = denName n [] := by simp [den, denL]
theorem den_tBool (σ : Val) : den σ tBool = .bool := by simp [tBool, den, denL, denName, nmBool]
theorem den_tString (σ : Val) : den σ tString = .string := by simp [tString, den, denL, denName, nmString]
theorem den_int (σ : Val) (t : ITy) : den σ (.name (ityNum t) []) = .int t := by
  cases t <;> simp [den, denL, denName, ityNum, ityOf]
theorem den_f32 (σ : Val) : den σ (.name nmF32 []) = .f32 := by simp [den, denL, denName, nmF32]
theorem den_f64 (σ : Val) : den σ (.name nmF64 []) = .f64 := by simp [den, denL, denName, nmF64]
theorem WT_name0 (n : Nat) (h : n < 12) : WT (.name n []) = true := by
  simp only [WT, WTl, arity, nmOption, nmList, nmVerdict, Bool.true_and, List.length_nil]
  have h1 : (n == 12) = false := by simp; omega
  have h2 : (n == 13) = false := by simp; omega
  have h3 : (n == 14) = false := by simp; omega
  simp [h1, h2, h3]
theorem WT_tBool : WT tBool = true := WT_name0 10 (by decide)
theorem WT_tString : WT tString = true := WT_name0 11 (by decide)


theorem resolve_idem {s : Store} {a r : MTy} (h : resolve s a = some r) : resolve s r = some r := by
  cases hv : r.varIndex with
  | none => unfold resolve; simp [hv]
  | some v =>
    have hroot := resolve_root h hv
    unfold resolve
    simp only [hv]
    unfold find
    simp [hroot, hv]

/-- `Negate` marking an integer-literal variable as must-be-signed -/
theorem markSigned_spec {s : Store} {a r : MTy} (hres : resolve s a = some r) (hW : WTs s) :
    WTs (markSigned s r) ∧ ∀ σ : Val, Sat σ (markSigned s r) → Sat σ s ∧
      (∀ i sg, r = .intVar i sg → isGSigned (σ i) = true) := by
  have hrr := resolve_idem hres
  unfold markSigned
  rw [hrr]
  cases r with
  | intVar i sg =>
    have hroot : s[i]? = some (.intVar i sg) := resolve_root hres rfl
    cases sg with
    | false =>
      simp only
      refine ⟨WTs_set hW (by simp [WT]), fun σ hs => ?_⟩
      obtain ⟨_, hk⟩ := Sat_set_new hs (lt_of_getElem? hroot)
      simp only [KindOk] at hk
      refine ⟨Sat_set hs (by
        intro r' hr'; rw [hroot] at hr'; cases hr'
        exact ⟨by simp [den], by simp only [KindOk]; exact ⟨hk.1, by intro h; cases h⟩⟩), ?_⟩
      intro i' sg' he; cases he; exact hk.2 trivial
    | true =>
      simp only
      refine ⟨hW, fun σ hs => ⟨hs, ?_⟩⟩
      intro i' sg' he; cases he
      have := (hs i _ hroot).2
      simp only [KindOk] at this
      exact this.2 trivial
  | _ => exact ⟨hW, fun σ hs => ⟨hs, by intro i sg he; cases he⟩⟩

/-- a resolved operand `Negate` accepts denotes a type that can be negated -/
theorem negatable_of {env : Env} {s : Store} {a r : MTy} {σ : Val} (hres : resolve s a = some r)
    (hWr : WT r = true) (hs : Sat σ s)
    (hsg : ∀ i sg, r = .intVar i sg → isGSigned (σ i) = true)
    (hu : isUnsignedR env r = false) (hn : isNumericR env r = true) :
    negTy (den σ r) = some (den σ r) := by
  have hd := mkDefs_std env
  cases r with
  | intVar i sg =>
    have := hsg i sg rfl
    simp only [den]
    cases hv : σ i <;> simp [hv, isGSigned] at this
    simp [negTy, isNegatable, this]
  | floatVar i =>
    have hroot : s[i]? = some (.floatVar i) := resolve_root hres rfl
    have := (hs i _ hroot).2
    simp only [KindOk] at this
    simp only [den]
    cases hv : σ i <;> simp [hv, isGFloat] at this <;> simp [negTy, isNegatable]
  | name n args =>
    simp only [isUnsignedR, isNumericR, hd.isInt, hd.isSigned, hd.isFloat] at hu hn
    simp only [den]
    have : (4 ≤ n ∧ n < 8) ∨ n = 8 ∨ n = 9 := by
      simp only [Bool.and_eq_false_iff, Bool.or_eq_true, decide_eq_true_eq, decide_eq_false_iff_not,
        Bool.not_eq_false', beq_iff_eq] at hu hn
      omega
    rcases this with ⟨h1, h2⟩ | rfl | rfl
    · have h3 := ityOf_signed n ⟨h1, h2⟩
      simp [denName, h2, negTy, isNegatable, h3]
    · simp [denName, negTy, isNegatable]
    · simp [denName, negTy, isNegatable]
  | var _ => simp [isNumericR] at hn
  | unit => simp [isNumericR] at hn
  | _ => simp [WT] at hWr

theorem neg_sound {env : Env} {e : Expr}
    (ih : ∀ cx g st d st', WTs st.store → WTcx cx → WTg g → infer env cx g e st = .ok d st' →
      PostE env cx g e st d st')
    {cx : Cx} {g : MGamma} {st : St} {d : Bool} {st' : St} (hW : WTs st.store) (hcx : WTcx cx) (hg : WTg g)
    (h : infer env cx g (.neg e) st = .ok d st') : PostE env cx g (.neg e) st d st' := by
  simp only [infer] at h
  obtain ⟨operand, st1, h1, h2⟩ := bind_ok.mp h
  obtain ⟨rfl, hE1⟩ := freshVar_ok h1
  obtain ⟨d1, st2, h3, h4⟩ := bind_ok.mp h2
  obtain ⟨r, st3, h5, h6⟩ := bind_ok.mp h4
  obtain ⟨rfl, hres⟩ := resolveM_ok h5
  obtain ⟨hW2, hp⟩ := ih (cx.withTy (.var st.store.length)) g st1 d1 st2 (hE1.1 hW) (WTcx_with hcx (WT_var _)) hg h3
  have hWr : WT r = true := resolve_WT hW2 (WT_var _) hres
  by_cases hu : isUnsignedR env r = true
  · simp only [hu, if_true] at h6; exact (throw_ok.mp h6).elim
  · simp only [hu, Bool.false_eq_true, if_false] at h6
    by_cases hn : isNumericR env r = true
    · simp only [hn, if_true] at h6
      obtain ⟨u1, st4, h7, h8⟩ := bind_ok.mp h6
      obtain ⟨u2, st5, h9, h10⟩ := bind_ok.mp h8
      obtain ⟨rfl, rfl⟩ := pure_ok.mp h10
      unfold markSignedM at h7
      simp only [Res.ok.injEq] at h7
      obtain ⟨_, rfl⟩ := h7
      obtain ⟨hW4, hm⟩ := markSigned_spec hres hW2
      obtain ⟨hW5, hE5, heq5⟩ := unifyM_ok h9 hW4 hcx.1 hWr
      refine ⟨hW5, fun σ hσ hs => ?_⟩
      have hs4 := hE5.2 σ hs
      obtain ⟨hs2, hsg⟩ := hm σ hs4
      obtain ⟨hs1, hsyn⟩ := hp σ hσ hs2
      refine ⟨hE1.2 σ hs1, fun gd hgd => ?_⟩
      obtain ⟨t, dd, a1, a2, a3⟩ := hsyn gd hgd
      have a1' : synth env (denCx σ cx) gd e = .ok (t, dd) := a1
      have hden : den σ r = den σ (.var st.store.length) := resolve_den hs2 hres
      have a2' : inst t (den σ r) = true := by rw [hden]; exact a2
      have hneg := negatable_of (env := env) hres hWr hs2 hsg (by simpa using hu) hn
      obtain ⟨t', b1, b2, _⟩ := neg_mono t (den σ r) (den σ r) a2' (den_ground hσ r hWr) hneg
      refine ⟨t', dd, ?_, by rw [heq5 σ hs]; exact b2, a3⟩
      simp only [synth, a1', b1, bind, Except.bind, pure, Except.pure]
    · simp only [hn, Bool.false_eq_true, if_false] at h6; exact (throw_ok.mp h6).elim

end RotoV.TcInfer

namespace RotoV.TcInfer
open RotoV.Typing RotoV.Unify RotoV.Gen

theorem compat_self {G : Ty} (hg : ground G = true) : compat G G = true := inst_compat G G hg (inst_self G hg)

/-- the declarative side of a binary operator whose operands were checked against ground types -/
theorem bin_decl {env : Env} {ctx : Ctx} {gd : Gamma} {op : BinOp} {l r : Expr} {tl tr : Ty} {ddl ddr : Bool}
    {GL GR GRes : Ty}
    (h1 : synth env ctx gd l = .ok (tl, ddl)) (h2 : synth env ctx gd r = .ok (tr, ddr))
    (i1 : inst tl GL = true) (i2 : inst tr GR = true) (g1 : ground GL = true) (g2 : ground GR = true)
    (hb : binopTy op GL GR = some GRes) :
    ∃ res, synth env ctx gd (.bin op l r) = .ok (res, binDiv op ddl ddr) ∧ inst res GRes = true := by
  obtain ⟨res, b1, b2, _⟩ := binop_mono op tl tr GL GR GRes i1 i2 g1 g2 hb
  exact ⟨res, by simp only [synth, h1, h2, b1, bind, Except.bind, pure, Except.pure], b2⟩

theorem numeric_of {env : Env} {s : Store} {a r : MTy} {σ : Val} (hres : resolve s a = some r)
    (hs : Sat σ s) (hn : isNumericR env r = true) : isNumeric (den σ r) = true := by
  have hd := mkDefs_std env
  cases r with
  | intVar i sg =>
    have hroot : s[i]? = some (.intVar i sg) := resolve_root hres rfl
    have := (hs i _ hroot).2.1
    simp only [den]
    cases hv : σ i <;> simp [hv, isGInt] at this <;> rfl
  | floatVar i =>
    have hroot : s[i]? = some (.floatVar i) := resolve_root hres rfl
    have := (hs i _ hroot).2
    simp only [KindOk] at this
    simp only [den]
    cases hv : σ i <;> simp [hv, isGFloat] at this <;> rfl
  | name n args =>
    simp only [isNumericR, hd.isInt, hd.isFloat, Bool.or_eq_true, decide_eq_true_eq, beq_iff_eq] at hn
    simp only [den]
    rcases hn with h | h | h
    · simp [denName, h, isNumeric]
    · subst h; simp [denName, isNumeric]
    · subst h; simp [denName, isNumeric]
  | _ => simp [isNumericR] at hn

theorem int_of {env : Env} {s : Store} {a r : MTy} {σ : Val} (hres : resolve s a = some r)
    (hs : Sat σ s) (hn : isIntR env r = true) : isInt (den σ r) = true := by
  have hd := mkDefs_std env
  cases r with
  | intVar i sg =>
    have hroot : s[i]? = some (.intVar i sg) := resolve_root hres rfl
    have := (hs i _ hroot).2.1
    simp only [den]
    cases hv : σ i <;> simp [hv, isGInt] at this <;> rfl
  | name n args =>
    simp only [isIntR, hd.isInt, decide_eq_true_eq] at hn
    simp [den, denName, hn, isInt]
  | _ => simp [isIntR] at hn

theorem isNumeric_of_isInt {G : Ty} (h : isInt G = true) : isNumeric G = true := by
  cases G <;> simp_all [isInt, isNumeric]

theorem binop_arith {op : BinOp} {G : Ty} (hop : op = .add ∨ op = .sub ∨ op = .mul) (hg : ground G = true)
    (hn : isNumeric G = true) : binopTy op G G = some G := by
  rcases hop with rfl | rfl | rfl <;> simp [binopTy, hn, compat_self hg, meet_self G hg]

theorem binop_cmp {op : BinOp} {G : Ty} (hop : op = .lt ∨ op = .le ∨ op = .gt ∨ op = .ge) (hg : ground G = true)
    (hn : isNumeric G = true) : binopTy op G G = some .bool := by
  rcases hop with rfl | rfl | rfl | rfl <;> simp [binopTy, hn, compat_self hg]

theorem binop_eq {op : BinOp} {G : Ty} (hop : op = .eq ∨ op = .ne) (hg : ground G = true) :
    binopTy op G G = some .bool := by
  rcases hop with rfl | rfl <;> simp [binopTy, compat_self hg]

theorem binop_mod {G : Ty} (hg : ground G = true) (hn : isInt G = true) : binopTy .mod G G = some G := by
  simp [binopTy, hn, compat_self hg, meet_self G hg]

theorem binop_logic {op : BinOp} (hop : op = .and ∨ op = .or) : binopTy op .bool .bool = some .bool := by
  rcases hop with rfl | rfl <;> rfl

theorem binop_add_string : binopTy .add .string .string = some .string := by rfl

theorem binop_add_list {A : Ty} (hg : ground A = true) : binopTy .add (.list A) (.list A) = some (.list A) := by
  simp [binopTy, isNumeric, compat, compat_self hg, meet_self A hg]

end RotoV.TcInfer

namespace RotoV.TcInfer
open RotoV.Typing RotoV.Unify RotoV.Gen

/-- an operand check of `binop`: checking against `τ` behaves like `expr` on that operand -/
def OperandOk (env : Env) (cx : Cx) (g : MGamma) (e : Expr) (chk : MTy → M Bool) : Prop :=
  ∀ τ st d st', WTs st.store → WT τ = true → chk τ st = .ok d st' → PostE env (cx.withTy τ) g e st d st'

/-- the same for a check that is only known to be right in states that extend a
    given store (the left operand of a compound assignment: the assigned path, whose
    type was computed in the state `binop` starts from) -/
def OperandOkFrom (base : Store) (env : Env) (cx : Cx) (g : MGamma) (e : Expr) (chk : MTy → M Bool) : Prop :=
  ∀ τ st d st', WTs st.store → (∀ σ : Val, Sat σ st.store → Sat σ base) → WT τ = true →
    chk τ st = .ok d st' → PostE env (cx.withTy τ) g e st d st'

theorem OperandOk.from {env : Env} {cx : Cx} {g : MGamma} {e : Expr} {chk : MTy → M Bool}
    (h : OperandOk env cx g e chk) (base : Store) : OperandOkFrom base env cx g e chk :=
  fun τ st d st' hW _ hτ hc => h τ st d st' hW hτ hc

/-- the arithmetic arm of `binop` after the left operand has been checked against `v` -/
theorem arith_tail {env : Env} {cx : Cx} {g : MGamma} {l r : Expr} {op : BinOp} {right : MTy → M Bool}
    (hop : op = .add ∨ op = .sub ∨ op = .mul)
    (hr : OperandOk env cx g r right) (hcx : WTcx cx)
    {v : MTy} (hv : WT v = true) {st0 st1 : St} {dl : Bool} (hW1 : WTs st1.store)
    (hl : PostE env (cx.withTy v) g l st0 dl st1)
    {d : Bool} {st' : St}
    (h : (do
        let r0 ← resolveM v
        if isNumericR env r0 then do
          let dr ← right v
          unifyM env cx.expected v
          pure (dl || dr)
        else throw .notNumeric : M Bool) st1 = .ok d st') :
    PostE env cx g (.bin op l r) st0 d st' := by
  obtain ⟨r0, st2, h1, h2⟩ := bind_ok.mp h
  obtain ⟨rfl, hres⟩ := resolveM_ok h1
  by_cases hn : isNumericR env r0 = true
  · simp only [hn, if_true] at h2
    obtain ⟨dr, st3, h3, h4⟩ := bind_ok.mp h2
    obtain ⟨u, st4, h5, h6⟩ := bind_ok.mp h4
    obtain ⟨rfl, rfl⟩ := pure_ok.mp h6
    obtain ⟨hW3, hp3⟩ := hr v st1 dr st3 hW1 hv h3
    obtain ⟨hW4, hE4, heq4⟩ := unifyM_ok h5 hW3 hcx.1 hv
    refine ⟨hW4, fun σ hσ hs => ?_⟩
    have hs3 := hE4.2 σ hs
    obtain ⟨hs1, hsynr⟩ := hp3 σ hσ hs3
    obtain ⟨hs0, hsynl⟩ := hl.2 σ hσ hs1
    refine ⟨hs0, fun gd hgd => ?_⟩
    obtain ⟨tl, ddl, a1, a2, a3⟩ := hsynl gd hgd
    obtain ⟨tr, ddr, b1, b2, b3⟩ := hsynr gd hgd
    have hG := den_ground hσ v hv
    have hnum : isNumeric (den σ v) = true := by
      rw [← resolve_den hs1 hres]; exact numeric_of hres hs1 hn
    obtain ⟨res, c1, c2⟩ := bin_decl (op := op) a1 b1 a2 b2 hG hG (binop_arith hop hG hnum)
    refine ⟨res, _, c1, by rw [heq4 σ hs]; exact c2, ?_⟩
    intro hd
    have : binDiv op ddl ddr = (ddl || ddr) := by rcases hop with rfl | rfl | rfl <;> rfl
    rw [this]
    simp only [Bool.or_eq_true] at hd ⊢
    rcases hd with hd | hd
    · exact Or.inl (a3 hd)
    · exact Or.inr (b3 hd)
  · simp only [hn, Bool.false_eq_true, if_false] at h2; exact (throw_ok.mp h2).elim

/-- the String / List arms of `+`: the right operand against the left's type `v`,
    the expression against `m` (which means the same as `v`) -/
theorem concat_tail {env : Env} {cx : Cx} {g : MGamma} {l r : Expr} {right : MTy → M Bool}
    (hr : OperandOk env cx g r right) (hcx : WTcx cx)
    {v m : MTy} (hv : WT v = true) (hm : WT m = true) {st0 st1 : St} {dl : Bool} (hW1 : WTs st1.store)
    (hl : PostE env (cx.withTy v) g l st0 dl st1)
    (hmeq : ∀ σ : Val, Sat σ st1.store → den σ m = den σ v)
    (hshape : ∀ σ : Val, GVal σ → Sat σ st1.store → binopTy .add (den σ v) (den σ v) = some (den σ v))
    {c : Option (Sum Bool (MTy × Bool))} {st' : St}
    (h : (do
        let dr ← right v
        unifyM env cx.expected m
        pure (some (Sum.inl (dl || dr))) : M (Option (Sum Bool (MTy × Bool)))) st1 = .ok c st') :
    ∃ d, c = some (Sum.inl d) ∧ PostE env cx g (.bin .add l r) st0 d st' := by
  obtain ⟨dr, st3, h3, h4⟩ := bind_ok.mp h
  obtain ⟨u, st4, h5, h6⟩ := bind_ok.mp h4
  obtain ⟨rfl, rfl⟩ := pure_ok.mp h6
  refine ⟨dl || dr, rfl, ?_⟩
  obtain ⟨hW3, hp3⟩ := hr v st1 dr st3 hW1 hv h3
  obtain ⟨hW4, hE4, heq4⟩ := unifyM_ok h5 hW3 hcx.1 hm
  refine ⟨hW4, fun σ hσ hs => ?_⟩
  have hs3 := hE4.2 σ hs
  obtain ⟨hs1, hsynr⟩ := hp3 σ hσ hs3
  obtain ⟨hs0, hsynl⟩ := hl.2 σ hσ hs1
  refine ⟨hs0, fun gd hgd => ?_⟩
  obtain ⟨tl, ddl, a1, a2, a3⟩ := hsynl gd hgd
  obtain ⟨tr, ddr, b1, b2, b3⟩ := hsynr gd hgd
  have hG := den_ground hσ v hv
  obtain ⟨res, c1, c2⟩ := bin_decl (op := .add) a1 b1 a2 b2 hG hG (hshape σ hσ hs1)
  refine ⟨res, _, c1, by rw [heq4 σ hs, hmeq σ hs1]; exact c2, ?_⟩
  intro hd
  show (ddl || ddr) = true
  simp only [Bool.or_eq_true] at hd ⊢
  rcases hd with hd | hd
  · exact Or.inl (a3 hd)
  · exact Or.inr (b3 hd)

end RotoV.TcInfer

namespace RotoV.TcInfer
open RotoV.Typing RotoV.Unify RotoV.Gen

theorem eq_case {env : Env} {cx : Cx} {g : MGamma} {l r : Expr} {op : BinOp} {left right : MTy → M Bool}
    (hop : op = .eq ∨ op = .ne) {st : St} (hl : OperandOkFrom st.store env cx g l left) (hr : OperandOk env cx g r right)
    {d : Bool} {st' : St} (hW : WTs st.store) (hcx : WTcx cx)
    (h : (do
        unifyM env cx.expected tBool
        let ty ← freshVar
        let dl ← left ty
        let dr ← right ty
        pure (dl || dr) : M Bool) st = .ok d st') :
    PostE env cx g (.bin op l r) st d st' := by
  obtain ⟨u, s0, a0, a0'⟩ := bind_ok.mp h
  obtain ⟨v, s1, a1, a2⟩ := bind_ok.mp a0'
  obtain ⟨dl, s2, a3, a4⟩ := bind_ok.mp a2
  obtain ⟨dr, s3, a5, a6⟩ := bind_ok.mp a4
  obtain ⟨rfl, rfl⟩ := pure_ok.mp a6
  obtain ⟨hW0, hE0, heq0⟩ := unifyM_ok a0 hW hcx.1 WT_tBool
  obtain ⟨rfl, hE1⟩ := freshVar_ok a1
  have hpl := hl _ s1 dl s2 (hE1.1 hW0) (fun σ hs => hE0.2 σ (hE1.2 σ hs)) (WT_var _) a3
  obtain ⟨hW3, hp3⟩ := hr _ s2 dr s3 hpl.1 (WT_var _) a5
  refine ⟨hW3, fun σ hσ hs => ?_⟩
  obtain ⟨hs2, hsynr⟩ := hp3 σ hσ hs
  obtain ⟨hs1, hsynl⟩ := hpl.2 σ hσ hs2
  have hs0 := hE1.2 σ hs1
  refine ⟨hE0.2 σ hs0, fun gd hgd => ?_⟩
  obtain ⟨tl, ddl, c1, c2, c3⟩ := hsynl gd hgd
  obtain ⟨tr, ddr, e1, e2, e3⟩ := hsynr gd hgd
  have hG := den_ground hσ (.var s0.store.length) (WT_var _)
  obtain ⟨res, f1, f2⟩ := bin_decl (op := op) c1 e1 c2 e2 hG hG (binop_eq hop hG)
  refine ⟨res, _, f1, by rw [heq0 σ hs0, den_tBool]; exact f2, ?_⟩
  intro hd
  have : binDiv op ddl ddr = (ddl || ddr) := by rcases hop with rfl | rfl <;> rfl
  rw [this]
  simp only [Bool.or_eq_true] at hd ⊢
  rcases hd with hd | hd
  · exact Or.inl (c3 hd)
  · exact Or.inr (e3 hd)

theorem cmp_case {env : Env} {cx : Cx} {g : MGamma} {l r : Expr} {op : BinOp} {left right : MTy → M Bool}
    (hop : op = .lt ∨ op = .le ∨ op = .gt ∨ op = .ge) {st : St} (hl : OperandOkFrom st.store env cx g l left) (hr : OperandOk env cx g r right)
    {d : Bool} {st' : St} (hW : WTs st.store) (hcx : WTcx cx)
    (h : (do
        unifyM env cx.expected tBool
        let ty ← freshVar
        let dl ← left ty
        let r0 ← resolveM ty
        if isNumericR env r0 then do
          let dr ← right ty
          pure (dl || dr)
        else throw .notNumeric : M Bool) st = .ok d st') :
    PostE env cx g (.bin op l r) st d st' := by
  obtain ⟨u, s0, a0, a0'⟩ := bind_ok.mp h
  obtain ⟨v, s1, a1, a2⟩ := bind_ok.mp a0'
  obtain ⟨dl, s2, a3, a4⟩ := bind_ok.mp a2
  obtain ⟨r0, s3, a5, a6⟩ := bind_ok.mp a4
  obtain ⟨rfl, hres⟩ := resolveM_ok a5
  obtain ⟨hW0, hE0, heq0⟩ := unifyM_ok a0 hW hcx.1 WT_tBool
  obtain ⟨rfl, hE1⟩ := freshVar_ok a1
  have hpl := hl _ s1 dl s2 (hE1.1 hW0) (fun σ hs => hE0.2 σ (hE1.2 σ hs)) (WT_var _) a3
  by_cases hn : isNumericR env r0 = true
  · simp only [hn, if_true] at a6
    obtain ⟨dr, s4, b1, b2⟩ := bind_ok.mp a6
    obtain ⟨rfl, rfl⟩ := pure_ok.mp b2
    obtain ⟨hW3, hp3⟩ := hr _ s2 dr s4 hpl.1 (WT_var _) b1
    refine ⟨hW3, fun σ hσ hs => ?_⟩
    obtain ⟨hs2, hsynr⟩ := hp3 σ hσ hs
    obtain ⟨hs1, hsynl⟩ := hpl.2 σ hσ hs2
    have hs0 := hE1.2 σ hs1
    refine ⟨hE0.2 σ hs0, fun gd hgd => ?_⟩
    obtain ⟨tl, ddl, c1, c2, c3⟩ := hsynl gd hgd
    obtain ⟨tr, ddr, e1, e2, e3⟩ := hsynr gd hgd
    have hG := den_ground hσ (.var s0.store.length) (WT_var _)
    have hnum : isNumeric (den σ (.var s0.store.length)) = true := by
      rw [← resolve_den hs2 hres]; exact numeric_of hres hs2 hn
    obtain ⟨res, f1, f2⟩ := bin_decl (op := op) c1 e1 c2 e2 hG hG (binop_cmp hop hG hnum)
    refine ⟨res, _, f1, by rw [heq0 σ hs0, den_tBool]; exact f2, ?_⟩
    intro hd
    have : binDiv op ddl ddr = (ddl || ddr) := by rcases hop with rfl | rfl | rfl | rfl <;> rfl
    rw [this]
    simp only [Bool.or_eq_true] at hd ⊢
    rcases hd with hd | hd
    · exact Or.inl (c3 hd)
    · exact Or.inr (e3 hd)
  · simp only [hn, Bool.false_eq_true, if_false] at a6; exact (throw_ok.mp a6).elim

theorem logic_case {env : Env} {cx : Cx} {g : MGamma} {l r : Expr} {op : BinOp} {left right : MTy → M Bool}
    (hop : op = .and ∨ op = .or) {st : St} (hl : OperandOkFrom st.store env cx g l left) (hr : OperandOk env cx g r right)
    {d : Bool} {st' : St} (hW : WTs st.store) (hcx : WTcx cx)
    (h : (do
        unifyM env cx.expected tBool
        let dl ← left tBool
        let _ ← right tBool
        pure dl : M Bool) st = .ok d st') :
    PostE env cx g (.bin op l r) st d st' := by
  obtain ⟨u, s0, a0, a0'⟩ := bind_ok.mp h
  obtain ⟨dl, s2, a3, a4⟩ := bind_ok.mp a0'
  obtain ⟨dr, s3, a5, a6⟩ := bind_ok.mp a4
  obtain ⟨rfl, rfl⟩ := pure_ok.mp a6
  obtain ⟨hW0, hE0, heq0⟩ := unifyM_ok a0 hW hcx.1 WT_tBool
  have hpl := hl _ s0 dl s2 hW0 hE0.2 WT_tBool a3
  obtain ⟨hW3, hp3⟩ := hr _ s2 dr s3 hpl.1 WT_tBool a5
  refine ⟨hW3, fun σ hσ hs => ?_⟩
  obtain ⟨hs2, hsynr⟩ := hp3 σ hσ hs
  obtain ⟨hs0, hsynl⟩ := hpl.2 σ hσ hs2
  refine ⟨hE0.2 σ hs0, fun gd hgd => ?_⟩
  obtain ⟨tl, ddl, c1, c2, c3⟩ := hsynl gd hgd
  obtain ⟨tr, ddr, e1, e2, e3⟩ := hsynr gd hgd
  have c2' : inst tl .bool = true := by simpa [Cx.withTy, den_tBool] using c2
  have e2' : inst tr .bool = true := by simpa [Cx.withTy, den_tBool] using e2
  obtain ⟨res, f1, f2⟩ := bin_decl (op := op) c1 e1 c2' e2' rfl rfl (binop_logic hop)
  refine ⟨res, _, f1, by rw [heq0 σ hs0, den_tBool]; exact f2, ?_⟩
  intro hd
  have : binDiv op ddl ddr = ddl := by rcases hop with rfl | rfl <;> rfl
  rw [this]; exact c3 hd

theorem binopWith_sound {env : Env} {cx : Cx} {g : MGamma} {l r : Expr} {op : BinOp} {left right : MTy → M Bool}
    (hop : op ≠ .div) {st : St} (hl : OperandOkFrom st.store env cx g l left) (hr : OperandOk env cx g r right)
    {d : Bool} {st' : St} (hW : WTs st.store) (hcx : WTcx cx)
    (h : binopWith env cx.expected op left right st = .ok d st') :
    PostE env cx g (.bin op l r) st d st' := by
  unfold binopWith at h
  cases op with
  | div => exact absurd rfl hop
  | sub =>
    simp only at h
    obtain ⟨c, st0, h0, h1⟩ := bind_ok.mp h
    obtain ⟨rfl, rfl⟩ := pure_ok.mp h0
    simp only at h1
    obtain ⟨x, st1, h2, h3⟩ := bind_ok.mp h1
    obtain ⟨v, s1, a1, a2⟩ := bind_ok.mp h2
    obtain ⟨dl, s2, a3, a4⟩ := bind_ok.mp a2
    obtain ⟨rfl, rfl⟩ := pure_ok.mp a4
    obtain ⟨rfl, hE1⟩ := freshVar_ok a1
    have hpl := hl _ s1 dl s2 (hE1.1 hW) hE1.2 (WT_var _) a3
    have hpl' : PostE env (cx.withTy (.var st.store.length)) g l st dl s2 :=
      ⟨hpl.1, fun σ hσ hs => ⟨hE1.2 σ (hpl.2 σ hσ hs).1, (hpl.2 σ hσ hs).2⟩⟩
    exact arith_tail (Or.inr (Or.inl rfl)) hr hcx (WT_var _) hpl.1 hpl' h3
  | mul =>
    simp only at h
    obtain ⟨c, st0, h0, h1⟩ := bind_ok.mp h
    obtain ⟨rfl, rfl⟩ := pure_ok.mp h0
    simp only at h1
    obtain ⟨x, st1, h2, h3⟩ := bind_ok.mp h1
    obtain ⟨v, s1, a1, a2⟩ := bind_ok.mp h2
    obtain ⟨dl, s2, a3, a4⟩ := bind_ok.mp a2
    obtain ⟨rfl, rfl⟩ := pure_ok.mp a4
    obtain ⟨rfl, hE1⟩ := freshVar_ok a1
    have hpl := hl _ s1 dl s2 (hE1.1 hW) hE1.2 (WT_var _) a3
    have hpl' : PostE env (cx.withTy (.var st.store.length)) g l st dl s2 :=
      ⟨hpl.1, fun σ hσ hs => ⟨hE1.2 σ (hpl.2 σ hσ hs).1, (hpl.2 σ hσ hs).2⟩⟩
    exact arith_tail (Or.inr (Or.inr rfl)) hr hcx (WT_var _) hpl.1 hpl' h3
  | add =>
    simp only at h
    obtain ⟨checked, stc, hA, hB⟩ := bind_ok.mp h
    obtain ⟨v, s1, a1, a2⟩ := bind_ok.mp hA
    obtain ⟨dl, s2, a3, a4⟩ := bind_ok.mp a2
    obtain ⟨r0, s3, a5, a6⟩ := bind_ok.mp a4
    obtain ⟨rfl, hres⟩ := resolveM_ok a5
    obtain ⟨rfl, hE1⟩ := freshVar_ok a1
    have hpl := hl _ s1 dl s2 (hE1.1 hW) hE1.2 (WT_var _) a3
    have hpl' : PostE env (cx.withTy (.var st.store.length)) g l st dl s2 :=
      ⟨hpl.1, fun σ hσ hs => ⟨hE1.2 σ (hpl.2 σ hσ hs).1, (hpl.2 σ hσ hs).2⟩⟩
    have hWr0 : WT r0 = true := resolve_WT hpl.1 (WT_var _) hres
    have hcases : (∃ d0, checked = some (Sum.inl d0) ∧ PostE env cx g (.bin .add l r) st d0 stc) ∨
        (checked = some (Sum.inr (MTy.var st.store.length, dl)) ∧ s2 = stc) := by
      by_cases hstr : (r0 == tString) = true
      · simp only [hstr, if_true] at a6
        obtain ⟨d0, rfl, hp⟩ := concat_tail hr hcx (WT_var _) WT_tString hpl.1 hpl'
          (fun σ hs => by rw [← resolve_den hs hres]; exact (beq_den σ r0 tString hstr).symm)
          (fun σ _ hs => by
            have : den σ (.var st.store.length) = .string := by
              rw [← resolve_den hs hres, beq_den σ r0 tString hstr, den_tString]
            rw [this]; exact binop_add_string) a6
        exact Or.inl ⟨d0, rfl, hp⟩
      · simp only [hstr, Bool.false_eq_true, if_false] at a6
        cases r0 with
        | name n args =>
          simp only at a6
          by_cases hlist : (n == nmList) = true
          · simp only [hlist, if_true] at a6
            have hn : n = nmList := by simpa using hlist
            subst hn
            obtain ⟨d0, rfl, hp⟩ := concat_tail hr hcx (WT_var _) (WT_var _) hpl.1 hpl'
              (fun σ hs => rfl)
              (fun σ hσ hs => by
                simp only [WT, Bool.and_eq_true, beq_iff_eq] at hWr0
                have hlen : args.length = 1 := by rw [hWr0.2]; rfl
                cases args with
                | nil => simp at hlen
                | cons a as =>
                  cases as with
                  | cons _ _ => simp at hlen
                  | nil =>
                    have hWa : WT a = true := by simpa [WTl] using hWr0.1
                    have : den σ (.var st.store.length) = .list (den σ a) := by
                      rw [← resolve_den hs hres]; simp [den, denL, denName, nmList]
                    rw [this]; exact binop_add_list (den_ground hσ a hWa)) a6
            exact Or.inl ⟨d0, rfl, hp⟩
          · simp only [hlist, Bool.false_eq_true, if_false] at a6
            obtain ⟨rfl, rfl⟩ := pure_ok.mp a6
            exact Or.inr ⟨rfl, rfl⟩
        | var _ => simp only at a6; obtain ⟨rfl, rfl⟩ := pure_ok.mp a6; exact Or.inr ⟨rfl, rfl⟩
        | intVar _ _ => simp only at a6; obtain ⟨rfl, rfl⟩ := pure_ok.mp a6; exact Or.inr ⟨rfl, rfl⟩
        | floatVar _ => simp only at a6; obtain ⟨rfl, rfl⟩ := pure_ok.mp a6; exact Or.inr ⟨rfl, rfl⟩
        | unit => simp only at a6; obtain ⟨rfl, rfl⟩ := pure_ok.mp a6; exact Or.inr ⟨rfl, rfl⟩
        | _ => simp [WT] at hWr0
    rcases hcases with ⟨d0, rfl, hp⟩ | ⟨rfl, rfl⟩
    · simp only at hB
      obtain ⟨rfl, rfl⟩ := pure_ok.mp hB
      exact hp
    · simp only at hB
      obtain ⟨x, st1, h2, h3⟩ := bind_ok.mp hB
      obtain ⟨rfl, rfl⟩ := pure_ok.mp h2
      exact arith_tail (Or.inl rfl) hr hcx (WT_var _) hpl.1 hpl' h3
  | mod =>
    simp only at h
    obtain ⟨c, st0, h0, h1⟩ := bind_ok.mp h
    obtain ⟨rfl, rfl⟩ := pure_ok.mp h0
    simp only at h1
    obtain ⟨v, s1, a1, a2⟩ := bind_ok.mp h1
    obtain ⟨dl, s2, a3, a4⟩ := bind_ok.mp a2
    obtain ⟨r0, s3, a5, a6⟩ := bind_ok.mp a4
    obtain ⟨rfl, hres⟩ := resolveM_ok a5
    obtain ⟨rfl, hE1⟩ := freshVar_ok a1
    have hpl := hl _ s1 dl s2 (hE1.1 hW) hE1.2 (WT_var _) a3
    by_cases hn : isIntR env r0 = true
    · simp only [hn, if_true] at a6
      obtain ⟨dr, s4, b1, b2⟩ := bind_ok.mp a6
      obtain ⟨u, s5, b3, b4⟩ := bind_ok.mp b2
      obtain ⟨rfl, rfl⟩ := pure_ok.mp b4
      obtain ⟨hW4, hp4⟩ := hr _ s2 dr s4 hpl.1 (WT_var _) b1
      obtain ⟨hW5, hE5, heq5⟩ := unifyM_ok b3 hW4 hcx.1 (WT_var _)
      refine ⟨hW5, fun σ hσ hs => ?_⟩
      have hs4 := hE5.2 σ hs
      obtain ⟨hs2, hsynr⟩ := hp4 σ hσ hs4
      obtain ⟨hs1, hsynl⟩ := hpl.2 σ hσ hs2
      refine ⟨hE1.2 σ hs1, fun gd hgd => ?_⟩
      obtain ⟨tl, ddl, c1, c2, c3⟩ := hsynl gd hgd
      obtain ⟨tr, ddr, e1, e2, e3⟩ := hsynr gd hgd
      have hG := den_ground hσ (.var st.store.length) (WT_var _)
      have hint : isInt (den σ (.var st.store.length)) = true := by
        rw [← resolve_den hs2 hres]; exact int_of hres hs2 hn
      obtain ⟨res, f1, f2⟩ := bin_decl (op := .mod) c1 e1 c2 e2 hG hG (binop_mod hG hint)
      refine ⟨res, _, f1, by rw [heq5 σ hs]; exact f2, ?_⟩
      intro hd
      show (ddl || ddr) = true
      simp only [Bool.or_eq_true] at hd ⊢
      rcases hd with hd | hd
      · exact Or.inl (c3 hd)
      · exact Or.inr (e3 hd)
    · simp only [hn, Bool.false_eq_true, if_false] at a6; exact (throw_ok.mp a6).elim
  | eq =>
    simp only at h
    obtain ⟨c, st0, h0, h1⟩ := bind_ok.mp h
    obtain ⟨rfl, rfl⟩ := pure_ok.mp h0
    exact eq_case (Or.inl rfl) hl hr hW hcx h1
  | ne =>
    simp only at h
    obtain ⟨c, st0, h0, h1⟩ := bind_ok.mp h
    obtain ⟨rfl, rfl⟩ := pure_ok.mp h0
    exact eq_case (Or.inr rfl) hl hr hW hcx h1
  | lt =>
    simp only at h
    obtain ⟨c, st0, h0, h1⟩ := bind_ok.mp h
    obtain ⟨rfl, rfl⟩ := pure_ok.mp h0
    exact cmp_case (Or.inl rfl) hl hr hW hcx h1
  | le =>
    simp only at h
    obtain ⟨c, st0, h0, h1⟩ := bind_ok.mp h
    obtain ⟨rfl, rfl⟩ := pure_ok.mp h0
    exact cmp_case (Or.inr (Or.inl rfl)) hl hr hW hcx h1
  | gt =>
    simp only at h
    obtain ⟨c, st0, h0, h1⟩ := bind_ok.mp h
    obtain ⟨rfl, rfl⟩ := pure_ok.mp h0
    exact cmp_case (Or.inr (Or.inr (Or.inl rfl))) hl hr hW hcx h1
  | ge =>
    simp only at h
    obtain ⟨c, st0, h0, h1⟩ := bind_ok.mp h
    obtain ⟨rfl, rfl⟩ := pure_ok.mp h0
    exact cmp_case (Or.inr (Or.inr (Or.inr rfl))) hl hr hW hcx h1
  | and =>
    simp only at h
    obtain ⟨c, st0, h0, h1⟩ := bind_ok.mp h
    obtain ⟨rfl, rfl⟩ := pure_ok.mp h0
    exact logic_case (Or.inl rfl) hl hr hW hcx h1
  | or =>
    simp only at h
    obtain ⟨c, st0, h0, h1⟩ := bind_ok.mp h
    obtain ⟨rfl, rfl⟩ := pure_ok.mp h0
    exact logic_case (Or.inr rfl) hl hr hW hcx h1

end RotoV.TcInfer

namespace RotoV.TcInfer
open RotoV.Typing RotoV.Unify RotoV.Gen

theorem toMList_length : ∀ ps : List Ty, (toMList ps).length = ps.length
  | [] => rfl
  | _ :: ps => by simp [toMList, toMList_length ps]


theorem den_tOption (σ : Val) (a : MTy) : den σ (tOption a) = .opt (den σ a) := by
  simp [tOption, den, denL, denName, nmOption]
theorem den_tList (σ : Val) (a : MTy) : den σ (tList a) = .list (den σ a) := by
  simp [tList, den, denL, denName, nmList]
theorem WT_tOption {a : MTy} (ha : WT a = true) : WT (tOption a) = true := by
  simp [tOption, WT, WTl, ha, arity, nmOption]
theorem WT_tList {a : MTy} (ha : WT a = true) : WT (tList a) = true := by
  simp [tList, WT, WTl, ha, arity, nmList, nmOption]

abbrev IH (env : Env) (e : Expr) : Prop :=
  ∀ cx g st d st', WTs st.store → WTcx cx → WTg g → infer env cx g e st = .ok d st' → PostE env cx g e st d st'

theorem some_sound {env : Env} {e : Expr} (ih : IH env e)
    {cx : Cx} {g : MGamma} {st : St} {d : Bool} {st' : St} (hW : WTs st.store) (hcx : WTcx cx) (hg : WTg g)
    (h : infer env cx g (.some e) st = .ok d st') : PostE env cx g (.some e) st d st' := by
  simp only [infer] at h
  obtain ⟨v, s1, h1, h2⟩ := bind_ok.mp h
  obtain ⟨rfl, hE1⟩ := freshVar_ok h1
  obtain ⟨d1, s2, h3, h4⟩ := bind_ok.mp h2
  obtain ⟨u, s3, h5, h6⟩ := bind_ok.mp h4
  obtain ⟨rfl, rfl⟩ := pure_ok.mp h6
  obtain ⟨hW2, hp⟩ := ih (cx.withTy (.var st.store.length)) g s1 d1 s2 (hE1.1 hW) (WTcx_with hcx (WT_var _)) hg h3
  obtain ⟨hW3, hE3, heq3⟩ := unifyM_ok h5 hW2 hcx.1 (WT_tOption (WT_var _))
  refine ⟨hW3, fun σ hσ hs => ?_⟩
  have hs2 := hE3.2 σ hs
  obtain ⟨hs1, hsyn⟩ := hp σ hσ hs2
  refine ⟨hE1.2 σ hs1, fun gd hgd => ?_⟩
  obtain ⟨t, dd, a1, a2, a3⟩ := hsyn gd hgd
  have a1' : synth env (denCx σ cx) gd e = .ok (t, dd) := a1
  refine ⟨.opt t, dd, by simp only [synth, a1', bind, Except.bind, pure, Except.pure], ?_, a3⟩
  rw [heq3 σ hs, den_tOption]; simp only [inst]; exact a2

theorem none_sound {env : Env}
    {cx : Cx} {g : MGamma} {st : St} {d : Bool} {st' : St} (hW : WTs st.store) (hcx : WTcx cx)
    (h : infer env cx g .none st = .ok d st') : PostE env cx g .none st d st' := by
  simp only [infer] at h
  obtain ⟨v, s1, h1, h2⟩ := bind_ok.mp h
  obtain ⟨rfl, hE1⟩ := freshVar_ok h1
  obtain ⟨u, s3, h5, h6⟩ := bind_ok.mp h2
  obtain ⟨rfl, rfl⟩ := pure_ok.mp h6
  obtain ⟨hW3, hE3, heq3⟩ := unifyM_ok h5 (hE1.1 hW) hcx.1 (WT_tOption (WT_var _))
  refine ⟨hW3, fun σ hσ hs => ⟨hE1.2 σ (hE3.2 σ hs), fun gd hgd => ?_⟩⟩
  refine ⟨.opt .unknown, false, rfl, ?_, by simp⟩
  rw [heq3 σ hs, den_tOption]; rfl

theorem try_sound {env : Env} {e : Expr} (ih : IH env e)
    {cx : Cx} {g : MGamma} {st : St} {d : Bool} {st' : St} (hW : WTs st.store) (hcx : WTcx cx) (hg : WTg g)
    (h : infer env cx g (.try e) st = .ok d st') : PostE env cx g (.try e) st d st' := by
  simp only [infer] at h
  obtain ⟨d1, s2, h3, h4⟩ := bind_ok.mp h
  obtain ⟨hW2, hp⟩ := ih (cx.withTy (tOption cx.expected)) g st d1 s2 hW (WTcx_with hcx (WT_tOption hcx.1)) hg h3
  cases hr : cx.ret with
  | none => simp only [hr] at h4; exact (throw_ok.mp h4).elim
  | some ret =>
    simp only [hr] at h4
    obtain ⟨r, s3, h5, h6⟩ := bind_ok.mp h4
    obtain ⟨rfl, hres⟩ := resolveM_ok h5
    have hWr : WT r = true := resolve_WT hW2 (hcx.2 ret hr) hres
    cases r with
    | name n args =>
      simp only at h6
      by_cases hn : (n == nmOption) = true
      · simp only [hn, if_true] at h6
        obtain ⟨rfl, rfl⟩ := pure_ok.mp h6
        have hn' : n = nmOption := by simpa using hn
        subst hn'
        refine ⟨hW2, fun σ hσ hs => ?_⟩
        obtain ⟨hs0, hsyn⟩ := hp σ hσ hs
        refine ⟨hs0, fun gd hgd => ?_⟩
        obtain ⟨t, dd, a1, a2, a3⟩ := hsyn gd hgd
        have a1' : synth env (denCx σ cx) gd e = .ok (t, dd) := a1
        have a2' : inst t (.opt (den σ cx.expected)) = true := by
          have : inst t (den σ (tOption cx.expected)) = true := a2
          rwa [den_tOption] at this
        have hret : (denCx σ cx).retTy = some (.opt ((denL σ args).headD .unit)) := by
          have : den σ ret = den σ (.name nmOption args) := (resolve_den hs hres).symm
          simp only [denCx, hr, Option.map_some, this, den, denName, nmOption]
          rfl
        cases t with
        | opt t' =>
          refine ⟨t', dd, ?_, by simpa [inst] using a2', a3⟩
          simp only [synth, a1', hret, bind, Except.bind, pure, Except.pure]
        | unknown =>
          refine ⟨.unknown, dd, ?_, rfl, a3⟩
          simp only [synth, a1', hret, bind, Except.bind, pure, Except.pure]
        | never =>
          refine ⟨.unknown, dd, ?_, rfl, a3⟩
          simp only [synth, a1', hret, bind, Except.bind, pure, Except.pure]
        | _ => simp [inst] at a2'
      · simp only [hn, Bool.false_eq_true, if_false] at h6; exact (throw_ok.mp h6).elim
    | var _ => exact (throw_ok.mp h6).elim
    | intVar _ _ => exact (throw_ok.mp h6).elim
    | floatVar _ => exact (throw_ok.mp h6).elim
    | unit => exact (throw_ok.mp h6).elim
    | _ => simp [WT] at hWr

/-- a `for` loop, given the list expression and the body -/
theorem for_sound {env : Env} {x : Nat} {e : Expr} {b : Block} (ih : IH env e)
    (ihb : ∀ cx g st d st', WTs st.store → WTcx cx → WTg g → inferBlock env cx g b st = .ok d st' →
      PostB env cx g b st d st')
    {cx : Cx} {g : MGamma} {st : St} {d : Bool} {st' : St} (hW : WTs st.store) (hcx : WTcx cx) (hg : WTg g)
    (h : infer env cx g (.for x e b) st = .ok d st') : PostE env cx g (.for x e b) st d st' := by
  simp only [infer] at h
  obtain ⟨v, s1, h1, h2⟩ := bind_ok.mp h
  obtain ⟨rfl, hE1⟩ := freshVar_ok h1
  obtain ⟨d1, s2, h3, h4⟩ := bind_ok.mp h2
  obtain ⟨db, s3, h5, h6⟩ := bind_ok.mp h4
  obtain ⟨u, s4, h7, h8⟩ := bind_ok.mp h6
  obtain ⟨rfl, rfl⟩ := pure_ok.mp h8
  obtain ⟨hW2, hp⟩ := ih (cx.withTy (tList (.var st.store.length))) g s1 d1 s2 (hE1.1 hW)
    (WTcx_with hcx (WT_tList (WT_var _))) hg h3
  have hg' : WTg ([(x, MTy.var st.store.length)] :: g) := by
    intro s hs p hp
    cases hs with
    | head => simp only [List.mem_singleton] at hp; subst hp; exact WT_var _
    | tail _ h' => exact hg s h' p hp
  obtain ⟨hW3, hpb⟩ := ihb cx ([(x, .var st.store.length)] :: g) s2 db s3 hW2 hcx hg' h5
  obtain ⟨hW4, hE4, heq4⟩ := unifyM_ok h7 hW3 hcx.1 WT_unit
  refine ⟨hW4, fun σ hσ hs => ?_⟩
  have hs3 := hE4.2 σ hs
  obtain ⟨hs2, hsynb⟩ := hpb σ hσ hs3
  obtain ⟨hs1, hsyn⟩ := hp σ hσ hs2
  refine ⟨hE1.2 σ hs1, fun gd hgd => ?_⟩
  obtain ⟨t, dd, a1, a2, a3⟩ := hsyn gd hgd
  have a1' : synth env (denCx σ cx) gd e = .ok (t, dd) := a1
  have a2' : inst t (.list (σ st.store.length)) = true := by
    have : inst t (den σ (tList (.var st.store.length))) = true := a2
    rwa [den_tList] at this
  have hgr := hσ st.store.length
  have hexp : den σ cx.expected = .unit := by rw [heq4 σ hs]; rfl
  have key : ∀ elemd : Ty, inst elemd (σ st.store.length) = true →
      ∃ tb ddb, synthBlock env (denCx σ cx) ([(x, elemd)] :: gd) b = .ok (tb, ddb) ∧ inst tb .unit = true := by
    intro elemd hi
    have : gammaInst ([(x, elemd)] :: gd) (denG σ ([(x, .var st.store.length)] :: g)) = true := by
      simp only [denG, denS, den, gammaInst, scopeInst, beq_self_eq_true, hi, hgr, hgd, Bool.and_self]
    obtain ⟨tb, ddb, b1, b2, _⟩ := hsynb _ this
    exact ⟨tb, ddb, b1, by rw [hexp] at b2; exact b2⟩
  cases t with
  | list t' =>
    obtain ⟨tb, ddb, b1, b2⟩ := key t' (by simpa [inst] using a2')
    refine ⟨.unit, dd, ?_, by rw [hexp]; rfl, a3⟩
    simp only [synth, a1', b1, expect_ok' (inst_compat tb .unit rfl b2), bind, Except.bind, pure, Except.pure]
  | unknown =>
    obtain ⟨tb, ddb, b1, b2⟩ := key .unknown rfl
    refine ⟨.unit, dd, ?_, by rw [hexp]; rfl, a3⟩
    simp only [synth, a1', b1, expect_ok' (inst_compat tb .unit rfl b2), bind, Except.bind, pure, Except.pure]
  | never =>
    obtain ⟨tb, ddb, b1, b2⟩ := key .unknown rfl
    refine ⟨.unit, dd, ?_, by rw [hexp]; rfl, a3⟩
    simp only [synth, a1', b1, expect_ok' (inst_compat tb .unit rfl b2), bind, Except.bind, pure, Except.pure]
  | _ => simp [inst] at a2'

theorem const_sound {env : Env} (henv : EnvPlain env) {c : Nat}
    {cx : Cx} {g : MGamma} {st : St} {d : Bool} {st' : St} (hW : WTs st.store) (hcx : WTcx cx)
    (h : infer env cx g (.const c) st = .ok d st') : PostE env cx g (.const c) st d st' := by
  simp only [infer] at h
  obtain ⟨p, st1, h1, h2⟩ := bind_ok.mp h
  unfold rootTy at h1
  simp only [if_true] at h1
  cases hl : env.consts.lookup c with
  | none => simp only [hl] at h1; exact (throw_ok.mp h1).elim
  | some t =>
    simp only [hl] at h1
    obtain ⟨rfl, rfl⟩ := pure_ok.mp h1
    simp only at h2
    obtain ⟨u, st2, h3, h4⟩ := bind_ok.mp h2
    obtain ⟨rfl, rfl⟩ := pure_ok.mp h4
    have hpl := henv.2.1 c t hl
    obtain ⟨hW3, hE3, heq3⟩ := unifyM_ok h3 hW hcx.1 (den_toM (fun _ => .unit) t hpl).2.1
    refine ⟨hW3, fun σ hσ hs => ⟨hE3.2 σ hs, fun gd hgd => ?_⟩⟩
    obtain ⟨hd, _, hgt⟩ := den_toM σ t hpl
    exact ⟨t, false, by simp only [synth, hl]; rfl, by rw [heq3 σ hs, hd]; exact inst_self t hgt, by simp⟩

theorem foldCompat_inst (what : String) (G : Ty) : ∀ (ts : List Ty) (acc : Ty), (∀ t ∈ ts, inst t G = true) →
    inst acc G = true → ∃ r, foldCompat what ts acc = .ok r ∧ inst r G = true
  | [], acc, _, hacc => ⟨acc, rfl, hacc⟩
  | t :: rest, acc, hts, hacc => by
    have ht := hts t List.mem_cons_self
    obtain ⟨hc, _⟩ := inst_compat_meet G t acc ht hacc
    obtain ⟨_, hm⟩ := inst_compat_meet G acc t hacc ht
    simp only [foldCompat, hc, if_true]
    exact foldCompat_inst what G rest (meet acc t) (fun t' h' => hts t' (List.mem_cons_of_mem _ h')) hm

theorem listLit_sound {env : Env} {es : List Expr}
    (ihl : ∀ cx g st d st', WTs st.store → WTcx cx → WTg g → inferList env cx g es st = .ok d st' →
      PostList env cx g es st d st')
    {cx : Cx} {g : MGamma} {st : St} {d : Bool} {st' : St} (hW : WTs st.store) (hcx : WTcx cx) (hg : WTg g)
    (h : infer env cx g (.listLit es) st = .ok d st') : PostE env cx g (.listLit es) st d st' := by
  simp only [infer] at h
  obtain ⟨v, s1, h1, h2⟩ := bind_ok.mp h
  obtain ⟨rfl, hE1⟩ := freshVar_ok h1
  obtain ⟨u, s2, h3, h4⟩ := bind_ok.mp h2
  obtain ⟨hW2, hE2, heq2⟩ := unifyM_ok h3 (hE1.1 hW) hcx.1 (WT_tList (WT_var _))
  obtain ⟨hW3, hp⟩ := ihl (cx.withTy (.var st.store.length)) g s2 d st' hW2 (WTcx_with hcx (WT_var _)) hg h4
  refine ⟨hW3, fun σ hσ hs => ?_⟩
  obtain ⟨hs2, hsyn⟩ := hp σ hσ hs
  refine ⟨hE1.2 σ (hE2.2 σ hs2), fun gd hgd => ?_⟩
  obtain ⟨ts, dd, a1, a2, a3⟩ := hsyn gd hgd
  have a1' : synthList env (denCx σ cx) gd es = .ok (ts, dd) := a1
  have a2' : ∀ t ∈ ts, inst t (σ st.store.length) = true := a2
  obtain ⟨r, b1, b2⟩ := foldCompat_inst "element" (σ st.store.length) ts .unknown a2' rfl
  refine ⟨.list r, dd, by simp only [synth, a1', b1, bind, Except.bind, pure, Except.pure], ?_, a3⟩
  rw [heq2 σ hs2, den_tList]; simp only [inst, den]; exact b2

theorem lookup_mem_gen {β : Type} : ∀ {l : List (Nat × β)} {k : Nat} {v : β}, l.lookup k = some v → (k, v) ∈ l
  | [], _, _, h => by simp [List.lookup] at h
  | (k', v') :: r, k, v, h => by
    simp only [List.lookup] at h
    cases hk : (k == k') with
    | true =>
      simp only [hk] at h; cases h
      have : k = k' := by simpa using hk
      subst this; exact List.mem_cons_self
    | false => simp only [hk] at h; exact List.mem_cons_of_mem _ (lookup_mem_gen h)

theorem den_user (σ : Val) (n : Nat) : den σ (.name (nmUser n) []) = .named n := (den_toM σ (.named n) rfl).1
theorem WT_user (n : Nat) : WT (.name (nmUser n) []) = true := (den_toM (fun _ => .unit) (.named n) rfl).2.1

theorem lookup_toMFields (f : Nat) : ∀ decl : List (Nat × Ty), (toMFields decl).lookup f = (decl.lookup f).map toM
  | [] => rfl
  | (g, t) :: rest => by
    simp only [toMFields, List.lookup]
    cases (f == g) with
    | true => rfl
    | false => exact lookup_toMFields f rest

theorem lookup_plain {decl : List (Nat × Ty)} (h : (decl.all fun f => plain f.2) = true) {f : Nat} {t : Ty}
    (hl : decl.lookup f = some t) : plain t = true := by
  induction decl with
  | nil => simp [List.lookup] at hl
  | cons p r ih =>
    obtain ⟨g, u⟩ := p
    simp only [List.all_cons, Bool.and_eq_true] at h
    simp only [List.lookup] at hl
    cases hfg : (f == g) with
    | true => simp only [hfg] at hl; cases hl; exact h.1
    | false => simp only [hfg] at hl; exact ih h.2 hl

/-- a constructor of a user enum (`T.K` and `T.K(args)`), given the arguments -/
theorem ctor_sound {env : Env} (henv : EnvPlain env) {ty k : Nat} {args : List Expr}
    (iha : ∀ ps, ps.all plain = true → ∀ cx g st d st', WTs st.store → WTcx cx → WTg g →
      inferArgsGo env cx g args (toMList ps) st = .ok d st' → PostArgs env cx g args ps st d st')
    {cx : Cx} {g : MGamma} {st : St} {d : Bool} {st' : St} (hW : WTs st.store) (hcx : WTcx cx) (hg : WTg g)
    (h : infer env cx g (.ctor ty k args) st = .ok d st') : PostE env cx g (.ctor ty k args) st d st' := by
  simp only [infer] at h
  cases ht : env.types.lookup ty with
  | none => simp only [ht] at h; exact (throw_ok.mp h).elim
  | some td =>
    cases td with
    | record fs => simp only [ht] at h; exact (throw_ok.mp h).elim
    | enum vs =>
      simp only [ht] at h
      cases hk : vs.lookup k with
      | none => simp only [hk] at h; exact (throw_ok.mp h).elim
      | some tys =>
        simp only [hk] at h
        have hpl := henv.2.2.2 ty vs ht (k, tys) (lookup_mem_gen hk)
        cases args with
        | nil =>
          simp only at h
          by_cases he : tys.isEmpty = true
          · simp only [he, Bool.not_true, Bool.false_eq_true, if_false] at h
            obtain ⟨u, s1, h1, h2⟩ := bind_ok.mp h
            obtain ⟨rfl, rfl⟩ := pure_ok.mp h2
            obtain ⟨hW1, hE1, heq1⟩ := unifyM_ok h1 hW hcx.1 (WT_user ty)
            refine ⟨hW1, fun σ hσ hs => ⟨hE1.2 σ hs, fun gd hgd => ?_⟩⟩
            have hlen : tys.length = 0 := by
              cases tys with
              | nil => rfl
              | cons _ _ => simp at he
            refine ⟨.named ty, false, ?_, by rw [heq1 σ hs, den_user]; simp [inst], by simp⟩
            simp only [synth, ht, hk, hlen, List.length_nil, bne_self_eq_false, Bool.false_eq_true, if_false,
              checkArgs, bind, Except.bind, pure, Except.pure]
          · simp only [he, Bool.not_false, if_true] at h; exact (throw_ok.mp h).elim
        | cons a as =>
          simp only at h
          obtain ⟨d1, s1, h1, h2⟩ := bind_ok.mp h
          obtain ⟨u, s2, h3, h4⟩ := bind_ok.mp h2
          obtain ⟨rfl, rfl⟩ := pure_ok.mp h4
          unfold arityThen at h1
          rw [toMList_length] at h1
          by_cases hlen : ((a :: as).length != tys.length) = true
          · simp only [hlen, if_true] at h1; exact (throw_ok.mp h1).elim
          · simp only [hlen, Bool.false_eq_true, if_false] at h1
            obtain ⟨hW1, hp1⟩ := iha tys hpl cx g st d1 s1 hW hcx hg h1
            obtain ⟨hW2, hE2, heq2⟩ := unifyM_ok h3 hW1 hcx.1 (WT_user ty)
            refine ⟨hW2, fun σ hσ hs => ?_⟩
            obtain ⟨hs0, hsyn⟩ := hp1 σ hσ (hE2.2 σ hs)
            refine ⟨hs0, fun gd hgd => ?_⟩
            obtain ⟨dd, a1, a2⟩ := hsyn gd hgd
            refine ⟨.named ty, dd, ?_, by rw [heq2 σ hs, den_user]; simp [inst], a2⟩
            simp only [synth, ht, hk, hlen, a1, bind, Except.bind, pure, Except.pure, Bool.false_eq_true, if_false]

/-- a typed record literal, given its fields -/
theorem record_sound {env : Env} (henv : EnvPlain env) {ty : Nat} {fields : List Field}
    (ihf : ∀ decl : List (Nat × Ty), (decl.all fun f => plain f.2) = true → ∀ cx g st d st', WTs st.store → WTcx cx →
      WTg g → inferFields env cx g fields (toMFields decl) st = .ok d st' → PostFields env cx g fields decl st d st')
    {cx : Cx} {g : MGamma} {st : St} {d : Bool} {st' : St} (hW : WTs st.store) (hcx : WTcx cx) (hg : WTg g)
    (h : infer env cx g (.record ty fields) st = .ok d st') : PostE env cx g (.record ty fields) st d st' := by
  simp only [infer] at h
  cases ht : env.types.lookup ty with
  | none => simp only [ht] at h; exact (throw_ok.mp h).elim
  | some td =>
    cases td with
    | enum vs => simp only [ht] at h; exact (throw_ok.mp h).elim
    | record decl =>
      simp only [ht] at h
      by_cases hn : recordNamesOk (decl.map (·.1)) (fieldNames fields) = true
      · simp only [hn, Bool.not_true, Bool.false_eq_true, if_false] at h
        obtain ⟨d1, s1, h1, h2⟩ := bind_ok.mp h
        obtain ⟨u, s2, h3, h4⟩ := bind_ok.mp h2
        obtain ⟨rfl, rfl⟩ := pure_ok.mp h4
        obtain ⟨hW1, hp1⟩ := ihf decl (henv.2.2.1 ty decl ht) cx g st d1 s1 hW hcx hg h1
        obtain ⟨hW2, hE2, heq2⟩ := unifyM_ok h3 hW1 hcx.1 (WT_user ty)
        refine ⟨hW2, fun σ hσ hs => ?_⟩
        obtain ⟨hs0, hsyn⟩ := hp1 σ hσ (hE2.2 σ hs)
        refine ⟨hs0, fun gd hgd => ?_⟩
        obtain ⟨dd, a1, a2⟩ := hsyn gd hgd
        have hnames : fieldNamesOk (decl.map (·.1)) (fieldNames fields) = none := by
          unfold recordNamesOk at hn
          cases hx : fieldNamesOk (List.map (fun x => x.fst) decl) (fieldNames fields) with
          | none => rfl
          | some e => simp [hx] at hn
        refine ⟨.named ty, dd, ?_, by rw [heq2 σ hs, den_user]; simp [inst], a2⟩
        simp only [synth, recordFields, ht, hnames, a1, bind, Except.bind, pure, Except.pure]
      · simp only [hn, Bool.not_false, if_true] at h; exact (throw_ok.mp h).elim

end RotoV.TcInfer

namespace RotoV.TcInfer
open RotoV.Typing RotoV.Unify RotoV.Gen

theorem mkDefs_recordFields {env : Env} {n : Nat} {fs : List (Nat × MTy)}
    (h : (mkDefs env).recordFields n = some fs) :
    32 ≤ n ∧ ∃ decl, env.types.lookup (n - 32) = some (.record decl) ∧ fs = toMFields decl := by
  unfold Defs.recordFields mkDefs at h
  by_cases h1 : n < 4
  · simp [h1] at h
  · by_cases h2 : n < 8
    · simp [h1, h2] at h
    · by_cases h3 : n < 10
      · simp [h1, h2, h3] at h
      · by_cases h4 : n < 32
        · simp [h1, h2, h3, h4] at h
        · simp only [h1, h2, h3, h4, if_false] at h
          refine ⟨by omega, ?_⟩
          cases ht : env.types.lookup (n - 32) with
          | none => simp [ht] at h
          | some td =>
            cases td with
            | record decl => simp [ht] at h; exact ⟨decl, rfl, h.symm⟩
            | enum vs => simp [ht] at h

theorem den_user' (σ : Val) {n : Nat} (h : 32 ≤ n) (args : List MTy) : den σ (.name n args) = .named (n - 32) := by
  have h1 : ¬ n < 8 := by omega
  have h2 : ¬ n < 32 := by omega
  have e8 : (n == 8) = false := by simp; omega
  have e9 : (n == 9) = false := by simp; omega
  have e10 : (n == 10) = false := by simp; omega
  have e11 : (n == 11) = false := by simp; omega
  have e12 : (n == 12) = false := by simp; omega
  have e13 : (n == 13) = false := by simp; omega
  have e14 : (n == 14) = false := by simp; omega
  simp [den, denName, h1, h2, e8, e9, e10, e11, e12, e13, e14]

/-- `access_field`: the field's type, as the declarative `fieldTy` gives it -/
theorem accessField_sound {env : Env} (henv : EnvPlain env) {t ft : MTy} {f : Nat} {st st' : St}
    (h : accessField env t f st = .ok ft st') (hW : WTs st.store) (ht : WT t = true) :
    st = st' ∧ WT ft = true ∧ ∀ σ : Val, Sat σ st.store → ∀ tf, inst tf (den σ t) = true →
      ∃ tf', fieldTy env tf f = some tf' ∧ inst tf' (den σ ft) = true := by
  unfold accessField at h
  obtain ⟨t', s1, h1, h2⟩ := bind_ok.mp h
  obtain ⟨rfl, hres⟩ := resolveM_ok h1
  have hWt' := resolve_WT hW ht hres
  cases t' with
  | name n args =>
    simp only at h2
    cases hf : (mkDefs env).recordFields n with
    | none => simp only [hf] at h2; exact (throw_ok.mp h2).elim
    | some fs =>
      simp only [hf] at h2
      obtain ⟨hn, decl, hd, rfl⟩ := mkDefs_recordFields hf
      rw [lookup_toMFields] at h2
      cases hl : decl.lookup f with
      | none => simp only [hl, Option.map_none] at h2; exact (throw_ok.mp h2).elim
      | some tyf =>
        simp only [hl, Option.map_some] at h2
        obtain ⟨rfl, rfl⟩ := pure_ok.mp h2
        have hpl := lookup_plain (henv.2.2.1 _ decl hd) hl
        refine ⟨rfl, (den_toM (fun _ => .unit) tyf hpl).2.1, fun σ hs tf hi => ?_⟩
        obtain ⟨hdt, _, hgt⟩ := den_toM σ tyf hpl
        have hden : den σ t = .named (n - 32) := by rw [← resolve_den hs hres]; exact den_user' σ hn args
        rw [hden] at hi
        rw [hdt]
        cases tf with
        | named k =>
          have : k = n - 32 := by simpa [inst] using hi
          subst this
          exact ⟨tyf, by simp only [fieldTy, recordFields, hd, hl], inst_self tyf hgt⟩
        | unknown => exact ⟨.unknown, rfl, rfl⟩
        | never => exact ⟨.unknown, rfl, rfl⟩
        | _ => simp [inst] at hi
  | var _ => exact (throw_ok.mp h2).elim
  | intVar _ _ => exact (throw_ok.mp h2).elim
  | floatVar _ => exact (throw_ok.mp h2).elim
  | unit => exact (throw_ok.mp h2).elim
  | _ => simp [WT] at hWt'

theorem accessPath_sound {env : Env} (henv : EnvPlain env) : ∀ (path : List Nat) {t ft : MTy} {st st' : St},
    accessPath env t path st = .ok ft st' → WTs st.store → WT t = true →
    st = st' ∧ WT ft = true ∧ ∀ σ : Val, Sat σ st.store → ∀ tf, inst tf (den σ t) = true →
      ∃ tf', pathTy env tf path = some tf' ∧ inst tf' (den σ ft) = true
  | [], t, ft, st, st', h, _, ht => by
    simp only [accessPath] at h
    obtain ⟨rfl, rfl⟩ := pure_ok.mp h
    exact ⟨rfl, ht, fun σ _ tf hi => ⟨tf, rfl, hi⟩⟩
  | f :: rest, t, ft, st, st', h, hW, ht => by
    simp only [accessPath] at h
    obtain ⟨t1, s1, h1, h2⟩ := bind_ok.mp h
    obtain ⟨rfl, hW1, hp1⟩ := accessField_sound henv h1 hW ht
    obtain ⟨rfl, hW2, hp2⟩ := accessPath_sound henv rest h2 hW hW1
    refine ⟨rfl, hW2, fun σ hs tf hi => ?_⟩
    obtain ⟨tf1, a1, a2⟩ := hp1 σ hs tf hi
    obtain ⟨tf2, b1, b2⟩ := hp2 σ hs tf1 a2
    exact ⟨tf2, by simp only [pathTy, a1, b1], b2⟩

theorem pathTy_append (env : Env) : ∀ (p : List Nat) (t : Ty) (f : Nat),
    pathTy env t (p ++ [f]) = match pathTy env t p with | some t' => fieldTy env t' f | none => none
  | [], t, f => by
    simp only [List.nil_append, pathTy]
    cases fieldTy env t f <;> rfl
  | g :: rest, t, f => by
    simp only [List.cons_append, pathTy]
    cases fieldTy env t g with
    | none => rfl
    | some t' => exact pathTy_append env rest t' f

/-- an expression the printer writes as one path rooted at a variable is typed
    by the declarative checker as that variable followed by the fields -/
theorem synth_path (env : Env) (ctx : Ctx) (gd : Gamma) : ∀ (e : Expr) (x : Nat) (p : List Nat) (tf tf' : Ty),
    pathOf e = some (.var x, p) → lookupVar gd x = some tf → pathTy env tf p = some tf' →
    synth env ctx gd e = .ok (tf', false)
  | .var y, x, p, tf, tf', hp, hl, ht => by
    simp only [pathOf, Option.some.injEq, Prod.mk.injEq, Root.var.injEq] at hp
    obtain ⟨rfl, rfl⟩ := hp
    simp only [pathTy, Option.some.injEq] at ht
    subst ht
    simp only [synth, hl]; rfl
  | .field e f, x, p, tf, tf', hp, hl, ht => by
    simp only [pathOf] at hp
    cases hpe : pathOf e with
    | none => simp [hpe] at hp
    | some rp =>
      obtain ⟨r, p'⟩ := rp
      simp only [hpe, Option.some.injEq, Prod.mk.injEq] at hp
      obtain ⟨rfl, rfl⟩ := hp
      rw [pathTy_append] at ht
      cases hp' : pathTy env tf p' with
      | none => simp [hp'] at ht
      | some t1 =>
        simp only [hp'] at ht
        have := synth_path env ctx gd e x p' tf t1 hpe hl hp'
        simp only [synth, this, ht, bind, Except.bind, pure, Except.pure]
  | .const _, _, _, _, _, hp, _, _ => by simp [pathOf] at hp
  | .none, _, _, _, _, hp, _, _ => by simp [pathOf] at hp
  | .ctor _ _ [], _, _, _, _, hp, _, _ => by simp [pathOf] at hp
  | .ctor _ _ (_ :: _), _, _, _, _, hp, _, _ => by simp [pathOf] at hp
  | .intLit _, _, _, _, _, hp, _, _ | .floatLit _, _, _, _, _, hp, _, _ | .boolLit, _, _, _, _, hp, _, _
  | .strLit, _, _, _, _, hp, _, _ | .unitLit, _, _, _, _, hp, _, _ | .neg _, _, _, _, _, hp, _, _
  | .not _, _, _, _, _, hp, _, _ | .bin _ _ _, _, _, _, _, hp, _, _ | .ite _ _ _, _, _, _, _, hp, _, _
  | .while _ _, _, _, _, _, hp, _, _ | .for _ _ _, _, _, _, _, hp, _, _ | .block _, _, _, _, _, hp, _, _
  | .call _ _, _, _, _, _, hp, _, _ | .mcall _ _ _, _, _, _, _, hp, _, _ | .assign _ _ _ _, _, _, _, _, hp, _, _
  | .cassign _ _ _ _ _, _, _, _, _, hp, _, _ | .ret _ _, _, _, _, _, hp, _, _ | .record _ _, _, _, _, _, hp, _, _
  | .listLit _, _, _, _, _, hp, _, _ | .some _, _, _, _, _, hp, _, _ | .try _, _, _, _, _, hp, _, _
  | .match _ _, _, _, _, _, hp, _, _ | .fstr _, _, _, _, _, hp, _, _ => by simp [pathOf] at hp

theorem synth_path_const (env : Env) (ctx : Ctx) (gd : Gamma) : ∀ (e : Expr) (c : Nat) (p : List Nat) (t tf' : Ty),
    pathOf e = some (.const c, p) → env.consts.lookup c = some t → pathTy env t p = some tf' →
    synth env ctx gd e = .ok (tf', false)
  | .const y, c, p, t, tf', hp, hl, ht => by
    simp only [pathOf, Option.some.injEq, Prod.mk.injEq, Root.const.injEq] at hp
    obtain ⟨rfl, rfl⟩ := hp
    simp only [pathTy, Option.some.injEq] at ht
    subst ht
    simp only [synth, hl]; rfl
  | .field e f, c, p, t, tf', hp, hl, ht => by
    simp only [pathOf] at hp
    cases hpe : pathOf e with
    | none => simp [hpe] at hp
    | some rp =>
      obtain ⟨r, p'⟩ := rp
      simp only [hpe, Option.some.injEq, Prod.mk.injEq] at hp
      obtain ⟨rfl, rfl⟩ := hp
      rw [pathTy_append] at ht
      cases hp' : pathTy env t p' with
      | none => simp [hp'] at ht
      | some t1 =>
        simp only [hp'] at ht
        have := synth_path_const env ctx gd e c p' t t1 hpe hl hp'
        simp only [synth, this, ht, bind, Except.bind, pure, Except.pure]
  | .var _, _, _, _, _, hp, _, _ => by simp [pathOf] at hp
  | .none, _, _, _, _, hp, _, _ => by simp [pathOf] at hp
  | .ctor _ _ [], _, _, _, _, hp, _, _ => by simp [pathOf] at hp
  | .ctor _ _ (_ :: _), _, _, _, _, hp, _, _ => by simp [pathOf] at hp
  | .intLit _, _, _, _, _, hp, _, _ | .floatLit _, _, _, _, _, hp, _, _ | .boolLit, _, _, _, _, hp, _, _
  | .strLit, _, _, _, _, hp, _, _ | .unitLit, _, _, _, _, hp, _, _ | .neg _, _, _, _, _, hp, _, _
  | .not _, _, _, _, _, hp, _, _ | .bin _ _ _, _, _, _, _, hp, _, _ | .ite _ _ _, _, _, _, _, hp, _, _
  | .while _ _, _, _, _, _, hp, _, _ | .for _ _ _, _, _, _, _, hp, _, _ | .block _, _, _, _, _, hp, _, _
  | .call _ _, _, _, _, _, hp, _, _ | .mcall _ _ _, _, _, _, _, hp, _, _ | .assign _ _ _ _, _, _, _, _, hp, _, _
  | .cassign _ _ _ _ _, _, _, _, _, hp, _, _ | .ret _ _, _, _, _, _, hp, _, _ | .record _ _, _, _, _, _, hp, _, _
  | .listLit _, _, _, _, _, hp, _, _ | .some _, _, _, _, _, hp, _, _ | .try _, _, _, _, _, hp, _, _
  | .match _ _, _, _, _, _, hp, _, _ | .fstr _, _, _, _, _, hp, _, _ => by simp [pathOf] at hp

/-- field access: one path `v.a.b` rooted at a variable, or `Access` on any other expression -/
theorem field_sound {env : Env} (henv : EnvPlain env) {e : Expr} {f : Nat} (ih : IH env e)
    {cx : Cx} {g : MGamma} {st : St} {d : Bool} {st' : St} (hW : WTs st.store) (hcx : WTcx cx) (hg : WTg g)
    (h : infer env cx g (.field e f) st = .ok d st') : PostE env cx g (.field e f) st d st' := by
  simp only [infer] at h
  cases hp : pathOf (.field e f) with
  | none =>
    simp only [hp] at h
    obtain ⟨v, s1, h1, h2⟩ := bind_ok.mp h
    obtain ⟨rfl, hE1⟩ := freshVar_ok h1
    obtain ⟨d1, s2, h3, h4⟩ := bind_ok.mp h2
    obtain ⟨ft, s3, h5, h6⟩ := bind_ok.mp h4
    obtain ⟨u, s4, h7, h8⟩ := bind_ok.mp h6
    obtain ⟨rfl, rfl⟩ := pure_ok.mp h8
    obtain ⟨hW2, hp2⟩ := ih (cx.withTy (.var st.store.length)) g s1 d1 s2 (hE1.1 hW) (WTcx_with hcx (WT_var _)) hg h3
    obtain ⟨rfl, hWft, hpf⟩ := accessField_sound henv h5 hW2 (WT_var _)
    obtain ⟨hW4, hE4, heq4⟩ := unifyM_ok h7 hW2 hcx.1 hWft
    refine ⟨hW4, fun σ hσ hs => ?_⟩
    have hs2 := hE4.2 σ hs
    obtain ⟨hs1, hsyn⟩ := hp2 σ hσ hs2
    refine ⟨hE1.2 σ hs1, fun gd hgd => ?_⟩
    obtain ⟨t, dd, a1, a2, a3⟩ := hsyn gd hgd
    have a1' : synth env (denCx σ cx) gd e = .ok (t, dd) := a1
    obtain ⟨tf', b1, b2⟩ := hpf σ hs2 t a2
    refine ⟨tf', dd, ?_, by rw [heq4 σ hs]; exact b2, a3⟩
    simp only [synth, a1', b1, bind, Except.bind, pure, Except.pure]
  | some rp =>
    obtain ⟨root, path⟩ := rp
    cases root with
    | var x =>
      simp only [hp] at h
      obtain ⟨p, s1, h1, h2⟩ := bind_ok.mp h
      unfold rootTy at h1
      simp only [Bool.false_eq_true, if_false] at h1
      cases hl : lookupM g x with
      | none => simp only [hl] at h1; exact (throw_ok.mp h1).elim
      | some t =>
        simp only [hl] at h1
        obtain ⟨rfl, rfl⟩ := pure_ok.mp h1
        simp only at h2
        obtain ⟨ft, s2, h3, h4⟩ := bind_ok.mp h2
        obtain ⟨u, s3, h5, h6⟩ := bind_ok.mp h4
        obtain ⟨rfl, rfl⟩ := pure_ok.mp h6
        obtain ⟨rfl, hWft, hpf⟩ := accessPath_sound henv path h3 hW (lookupM_WT hg hl)
        obtain ⟨hW3, hE3, heq3⟩ := unifyM_ok h5 hW hcx.1 hWft
        refine ⟨hW3, fun σ hσ hs => ⟨hE3.2 σ hs, fun gd hgd => ?_⟩⟩
        obtain ⟨tf, c1, c2, _⟩ := gamma_lookup hgd x (den σ t) (by rw [lookup_denG, hl]; rfl)
        obtain ⟨tf', b1, b2⟩ := hpf σ (hE3.2 σ hs) tf c2
        exact ⟨tf', false, synth_path env _ gd (.field e f) x path tf tf' hp c1 b1, by rw [heq3 σ hs]; exact b2, by simp⟩
    | const c =>
      simp only [hp] at h
      obtain ⟨p, s1, h1, h2⟩ := bind_ok.mp h
      unfold rootTy at h1
      simp only [if_true] at h1
      cases hl : env.consts.lookup c with
      | none => simp only [hl] at h1; exact (throw_ok.mp h1).elim
      | some t =>
        -- `C.a`: constants of record type; outside the fragment (not produced by `coreE`-checked callers)
        simp only [hl] at h1
        obtain ⟨rfl, rfl⟩ := pure_ok.mp h1
        simp only at h2
        obtain ⟨ft, s2, h3, h4⟩ := bind_ok.mp h2
        obtain ⟨u, s3, h5, h6⟩ := bind_ok.mp h4
        obtain ⟨rfl, rfl⟩ := pure_ok.mp h6
        have hpl := henv.2.1 c t hl
        obtain ⟨rfl, hWft, hpf⟩ := accessPath_sound henv path h3 hW (den_toM (fun _ => .unit) t hpl).2.1
        obtain ⟨hW3, hE3, heq3⟩ := unifyM_ok h5 hW hcx.1 hWft
        refine ⟨hW3, fun σ hσ hs => ⟨hE3.2 σ hs, fun gd hgd => ?_⟩⟩
        obtain ⟨hdt, _, hgt⟩ := den_toM σ t hpl
        obtain ⟨tf', b1, b2⟩ := hpf σ (hE3.2 σ hs) t (by rw [hdt]; exact inst_self t hgt)
        exact ⟨tf', false, synth_path_const env _ gd (.field e f) c path t tf' hp hl b1, by rw [heq3 σ hs]; exact b2,
          by simp⟩
    | ctor =>
      simp only [hp] at h
      obtain ⟨u, s1, _, h2⟩ := bind_ok.mp h
      exact (throw_ok.mp h2).elim

/-- assignment to a local variable or to fields of it -/
theorem assign_sound {env : Env} (henv : EnvPlain env) {isConst : Bool} {x : Nat} {path : List Nat} {e : Expr}
    (ih : IH env e)
    {cx : Cx} {g : MGamma} {st : St} {d : Bool} {st' : St} (hW : WTs st.store) (hcx : WTcx cx) (hg : WTg g)
    (h : infer env cx g (.assign isConst x path e) st = .ok d st') :
    PostE env cx g (.assign isConst x path e) st d st' := by
  simp only [infer] at h
  obtain ⟨u, s1, h1, h2⟩ := bind_ok.mp h
  obtain ⟨p, s2, h3, h4⟩ := bind_ok.mp h2
  obtain ⟨hW1, hE1, heq1⟩ := unifyM_ok h1 hW hcx.1 WT_unit
  cases isConst with
  | true =>
    unfold rootTy at h3
    simp only [if_true] at h3
    cases hl : env.consts.lookup x with
    | none => simp only [hl] at h3; exact (throw_ok.mp h3).elim
    | some t =>
      simp only [hl] at h3
      obtain ⟨rfl, rfl⟩ := pure_ok.mp h3
      simp only at h4
      obtain ⟨ft, s3, h5, h6⟩ := bind_ok.mp h4
      simp only [Bool.not_false, if_true] at h6
      exact (throw_ok.mp h6).elim
  | false =>
    unfold rootTy at h3
    simp only [Bool.false_eq_true, if_false] at h3
    cases hl : lookupM g x with
    | none => simp only [hl] at h3; exact (throw_ok.mp h3).elim
    | some t =>
      simp only [hl] at h3
      obtain ⟨rfl, rfl⟩ := pure_ok.mp h3
      simp only at h4
      obtain ⟨ft, s3, h5, h6⟩ := bind_ok.mp h4
      simp only [Bool.not_true, Bool.false_eq_true, if_false] at h6
      obtain ⟨rfl, hWft, hpf⟩ := accessPath_sound henv path h5 hW1 (lookupM_WT hg hl)
      obtain ⟨hW3, hp3⟩ := ih (cx.withTy ft) g s1 d st' hW1 (WTcx_with hcx hWft) hg h6
      refine ⟨hW3, fun σ hσ hs => ?_⟩
      obtain ⟨hs1, hsyn⟩ := hp3 σ hσ hs
      refine ⟨hE1.2 σ hs1, fun gd hgd => ?_⟩
      obtain ⟨te, dd, a1, a2, a3⟩ := hsyn gd hgd
      have a1' : synth env (denCx σ cx) gd e = .ok (te, dd) := a1
      have a2' : inst te (den σ ft) = true := a2
      obtain ⟨tf, c1, c2, _⟩ := gamma_lookup hgd x (den σ t) (by rw [lookup_denG, hl]; rfl)
      obtain ⟨tp, b1, b2⟩ := hpf σ hs1 tf c2
      obtain ⟨hcm, _⟩ := inst_compat_meet _ te tp a2' b2
      refine ⟨.unit, dd, ?_, by rw [heq1 σ hs1]; rfl, a3⟩
      simp only [synth, c1, b1, a1', expect_ok' hcm, bind, Except.bind, pure, Except.pure, Bool.false_eq_true, if_false]

/-! ### compound assignment: `binop` with the assigned path as left operand -/

/-- the assigned path read as an expression: `x.f1.f2…` -/
def pathExpr (x : Nat) (path : List Nat) : Expr := path.foldl (fun acc f => Expr.field acc f) (.var x)

theorem synth_fields (env : Env) (c : Ctx) (gd : Gamma) : ∀ (path : List Nat) (b : Expr) (t tp : Ty) (d : Bool),
    synth env c gd b = .ok (t, d) → pathTy env t path = some tp →
    synth env c gd (path.foldl (fun acc f => Expr.field acc f) b) = .ok (tp, d)
  | [], b, t, tp, d, hb, hp => by
    simp only [pathTy, Option.some.injEq] at hp
    subst hp
    exact hb
  | f :: rest, b, t, tp, d, hb, hp => by
    simp only [pathTy] at hp
    cases hf : fieldTy env t f with
    | none => simp [hf] at hp
    | some t' =>
      simp only [hf] at hp
      refine synth_fields env c gd rest (.field b f) t' tp d ?_ hp
      simp only [synth, hb, hf, bind, Except.bind, pure, Except.pure]

/-- compound assignment to a local variable or to fields of it (`x.p op= e`,
    `op` not `/`): the model calls `binop` with the assigned path as left operand,
    the declarative rule asks for `binopTy op (type of x.p) (type of e)` and that
    the result can be assigned back -/
theorem cassign_sound {env : Env} (henv : EnvPlain env) {op : BinOp} {isConst : Bool} {x : Nat} {path : List Nat} {e : Expr}
    (hop : op ≠ .div) (ih : IH env e)
    {cx : Cx} {g : MGamma} {st : St} {d : Bool} {st' : St} (hW : WTs st.store) (hcx : WTcx cx) (hg : WTg g)
    (h : infer env cx g (.cassign op isConst x path e) st = .ok d st') :
    PostE env cx g (.cassign op isConst x path e) st d st' := by
  simp only [infer] at h
  obtain ⟨u, s1, h1, h2⟩ := bind_ok.mp h
  obtain ⟨p, s2, h3, h4⟩ := bind_ok.mp h2
  obtain ⟨hW1, hE1, heq1⟩ := unifyM_ok h1 hW hcx.1 WT_unit
  cases isConst with
  | true =>
    unfold rootTy at h3
    simp only [if_true] at h3
    cases hl : env.consts.lookup x with
    | none => simp only [hl] at h3; exact (throw_ok.mp h3).elim
    | some t =>
      simp only [hl] at h3
      obtain ⟨rfl, rfl⟩ := pure_ok.mp h3
      simp only at h4
      obtain ⟨ft, s3, h5, h6⟩ := bind_ok.mp h4
      simp only [Bool.not_false, if_true] at h6
      exact (throw_ok.mp h6).elim
  | false =>
    unfold rootTy at h3
    simp only [Bool.false_eq_true, if_false] at h3
    cases hl : lookupM g x with
    | none => simp only [hl] at h3; exact (throw_ok.mp h3).elim
    | some t =>
      simp only [hl] at h3
      obtain ⟨rfl, rfl⟩ := pure_ok.mp h3
      simp only at h4
      obtain ⟨ft, s3, h5, h6⟩ := bind_ok.mp h4
      simp only [Bool.not_true, Bool.false_eq_true, if_false] at h6
      obtain ⟨rfl, hWft, hpf⟩ := accessPath_sound henv path h5 hW1 (lookupM_WT hg hl)
      -- the left operand: the path, in every state that extends the one its type was computed in
      have hleft : OperandOkFrom s1.store env (cx.withTy ft) g (pathExpr x path) (pathAsExpr env ft) := by
        intro τ s0 d0 s0' hW0 hext hτ hchk
        unfold pathAsExpr at hchk
        obtain ⟨u0, sa, b1, b2⟩ := bind_ok.mp hchk
        obtain ⟨rfl, rfl⟩ := pure_ok.mp b2
        obtain ⟨hWa, hEa, heqa⟩ := unifyM_ok b1 hW0 hτ hWft
        refine ⟨hWa, fun σ hσ hs => ⟨hEa.2 σ hs, fun gd hgd => ?_⟩⟩
        have hs1 : Sat σ s1.store := hext σ (hEa.2 σ hs)
        obtain ⟨tf, c1, c2, _⟩ := gamma_lookup hgd x (den σ t) (by rw [lookup_denG, hl]; rfl)
        obtain ⟨tp, q1, q2⟩ := hpf σ hs1 tf c2
        refine ⟨tp, false, ?_, ?_, fun hf => by cases hf⟩
        · exact synth_fields env _ gd path (.var x) tf tp false (by simp only [synth, c1, pure, Except.pure]) q1
        · show inst tp (den σ τ) = true
          rw [heqa σ hs]; exact q2
      have hright : OperandOk env (cx.withTy ft) g e (fun t => infer env (cx.withTy t) g e) :=
        fun τ s0 d0 s0' hW0 hτ hh => ih (cx.withTy τ) g s0 d0 s0' hW0 (WTcx_with hcx hτ) hg hh
      obtain ⟨hW3, hp3⟩ := binopWith_sound (cx := cx.withTy ft) hop hleft hright hW1 (WTcx_with hcx hWft) h6
      refine ⟨hW3, fun σ hσ hs => ?_⟩
      obtain ⟨hs1, hsyn⟩ := hp3 σ hσ hs
      refine ⟨hE1.2 σ hs1, fun gd hgd => ?_⟩
      obtain ⟨tb, ddb, a1, a2, a3⟩ := hsyn gd hgd
      have a2' : inst tb (den σ ft) = true := a2
      -- what the declarative checker did on `x.p op e`
      obtain ⟨tf, c1, c2, _⟩ := gamma_lookup hgd x (den σ t) (by rw [lookup_denG, hl]; rfl)
      obtain ⟨tp, q1, q2⟩ := hpf σ hs1 tf c2
      have hpe : synth env (denCx σ cx) gd (pathExpr x path) = .ok (tp, false) :=
        synth_fields env _ gd path (.var x) tf tp false (by simp only [synth, c1, pure, Except.pure]) q1
      have a1' : synth env (denCx σ cx) gd (.bin op (pathExpr x path) e) = .ok (tb, ddb) := a1
      simp only [synth, hpe, bind, Except.bind] at a1'
      cases hse : synth env (denCx σ cx) gd e with
      | error msg => simp [hse] at a1'
      | ok pr =>
        obtain ⟨te, dde⟩ := pr
        simp only [hse] at a1'
        cases hb : binopTy op tp te with
        | none => simp [hb, fail] at a1'
        | some tr =>
          simp only [hb, pure, Except.pure, Except.ok.injEq, Prod.mk.injEq] at a1'
          obtain ⟨rfl, rfl⟩ := a1'
          obtain ⟨hcm, _⟩ := inst_compat_meet _ tr tp a2' q2
          refine ⟨.unit, dde, ?_, by rw [heq1 σ hs1]; rfl, ?_⟩
          · simp only [synth, c1, q1, hse, hb, expect_ok' hcm, bind, Except.bind, pure, Except.pure, Bool.false_eq_true, if_false]
          · intro hd
            have := a3 hd
            cases op <;> simp_all [binDiv]

end RotoV.TcInfer

namespace RotoV.TcInfer
open RotoV.Typing RotoV.Unify RotoV.Gen

/-! ### `match`: the bookkeeping of the arms, separated from the typing of guards and bodies -/

theorem patNameEq_iff (a b : PatName) : patNameEq a b = true ↔ a = b := by
  constructor
  · exact patNameEq_eq a b
  · rintro rfl; cases a <;> simp [patNameEq]

theorem any_patNameEq (n : PatName) (l : List PatName) : l.any (patNameEq n) = true ↔ n ∈ l := by
  simp only [List.any_eq_true, patNameEq_iff]
  constructor
  · rintro ⟨x, hx, rfl⟩; exact hx
  · intro h; exact ⟨n, h, rfl⟩

theorem any_patNameEq' (n : PatName) (l : List PatName) : l.any (fun m => patNameEq m n) = true ↔ n ∈ l := by
  simp only [List.any_eq_true, patNameEq_iff]
  constructor
  · rintro ⟨x, hx, rfl⟩; exact hx
  · intro h; exact ⟨n, h, rfl⟩

/-- `match (field_types.as_slice(), data_field)` of `match_expr` as a test -/
def arityM : List MTy → Option (List Nat) → Bool
  | [], none => true
  | [], some _ => false
  | tys, some xs => tys.length == xs.length
  | _, none => false

/-- the state of the loop that `match_expr` keeps about the heads: `used_variants`, `default_arm` -/
def armsBook (vs : List (PatName × List MTy)) : List ArmHead → List PatName × Bool → Option (List PatName × Bool)
  | [], s => some s
  | h :: rest, (used, dflt) =>
    if dflt then none else
    match h.pat with
    | .wild => armsBook vs rest (used, !h.guarded)
    | .variant n bs =>
      match lookupVariantM vs n with
      | none => none
      | some tys =>
        if used.any (patNameEq n) then none else
        if !arityM tys bs then none else
        armsBook vs rest (if h.guarded then used else used ++ [n], false)

/-- pigeonhole: a duplicate-free list inside `names` that is at least as long contains all of `names` -/
theorem pigeon {α : Type} [DecidableEq α] : ∀ (l names : List α), l.Nodup → (∀ x ∈ l, x ∈ names) →
    names.length ≤ l.length → ∀ y ∈ names, y ∈ l
  | [], names, _, _, hlen, y, hy => by
    cases names with
    | nil => cases hy
    | cons _ _ => simp at hlen
  | x :: l, names, hnd, hsub, hlen, y, hy => by
    have hx : x ∈ names := hsub x List.mem_cons_self
    have hnd' := List.nodup_cons.mp hnd
    by_cases hyx : y = x
    · subst hyx; exact List.mem_cons_self
    · have ih := pigeon l (names.erase x) hnd'.2
        (fun z hz => (List.mem_erase_of_ne (by rintro rfl; exact hnd'.1 hz)).mpr (hsub z (List.mem_cons_of_mem _ hz)))
        (by rw [List.length_erase_of_mem hx]; simp only [List.length_cons] at hlen; omega)
        y ((List.mem_erase_of_ne hyx).mpr hy)
      exact List.mem_cons_of_mem _ ih

def vnames (vs : List (PatName × List MTy)) : List PatName := vs.map (·.1)

theorem lookupVariantM_mem {vs : List (PatName × List MTy)} {n : PatName} {tys : List MTy}
    (h : lookupVariantM vs n = some tys) : n ∈ vnames vs := by
  induction vs with
  | nil => simp [lookupVariantM] at h
  | cons v r ih =>
    obtain ⟨m, ts⟩ := v
    simp only [lookupVariantM] at h
    by_cases hm : patNameEq m n = true
    · have := patNameEq_eq m n hm; subst this; simp [vnames]
    · simp only [hm, Bool.false_eq_true, if_false] at h
      exact List.mem_cons_of_mem _ (ih h)

/-- the variants as the declarative checker sees them under a valuation -/
def denVs (σ : Val) : List (PatName × List MTy) → List (PatName × List Ty)
  | [] => []
  | (n, tys) :: r => (n, denL σ tys) :: denVs σ r

theorem denL_length (σ : Val) : ∀ ts : List MTy, (denL σ ts).length = ts.length
  | [] => rfl
  | _ :: ts => by simp [denL, denL_length σ ts]

theorem lookupVariant_denVs (σ : Val) (n : PatName) : ∀ vs : List (PatName × List MTy),
    lookupVariant (denVs σ vs) n = (lookupVariantM vs n).map (denL σ)
  | [] => rfl
  | (m, tys) :: r => by
    simp only [denVs, lookupVariant, lookupVariantM]
    by_cases hm : patNameEq m n = true
    · simp [hm]
    · simp only [hm, Bool.false_eq_true, if_false]; exact lookupVariant_denVs σ n r

theorem denVs_all (σ : Val) (c : List PatName) : ∀ vs : List (PatName × List MTy),
    (denVs σ vs).all (fun v => c.any (patNameEq v.1)) = (vnames vs).all (fun n => c.any (patNameEq n))
  | [] => rfl
  | (m, tys) :: r => by simp only [denVs, vnames, List.map_cons, List.all_cons]; rw [← vnames, denVs_all σ c r]

theorem arity_agree (tys : List MTy) (σ : Val) (bs : Option (List Nat)) :
    arityOk (denL σ tys) bs = arityM tys bs := by
  cases tys with
  | nil => cases bs <;> simp [arityOk, denL, arityM]
  | cons t ts =>
    cases bs with
    | none => simp [arityOk, denL, arityM]
    | some xs =>
      simp only [arityOk, denL, List.isEmpty_cons, Bool.not_false, Bool.true_and, List.length_cons, denL_length, arityM]
      cases h : (xs.length == ts.length + 1) <;> cases h' : (ts.length + 1 == xs.length) <;> simp_all <;> omega

/-- the loop's bookkeeping is the declarative one (`matchHeads`), up to the final exhaustiveness test -/
theorem book_heads (σ : Val) (vs : List (PatName × List MTy)) : ∀ (heads : List ArmHead) (used : List PatName)
    (dflt : Bool) (covered uF : List PatName) (dF : Bool),
    armsBook vs heads (used, dflt) = some (uF, dF) → (∀ n, n ∈ covered ↔ n ∈ used) →
    ∃ cF : List PatName, (∀ n, n ∈ cF ↔ n ∈ uF) ∧
      matchHeads (denVs σ vs) heads covered dflt =
        (if dF || (denVs σ vs).all (fun v => cF.any (patNameEq v.1)) then none else some "non-exhaustive")
  | [], used, dflt, covered, uF, dF, h, hc => by
    simp only [armsBook, Option.some.injEq, Prod.mk.injEq] at h
    obtain ⟨rfl, rfl⟩ := h
    exact ⟨covered, hc, rfl⟩
  | hd :: rest, used, dflt, covered, uF, dF, h, hc => by
    rw [matchHeads_cons]
    simp only [armsBook] at h
    cases dflt with
    | true => simp at h
    | false =>
      simp only [Bool.false_eq_true, if_false] at h ⊢
      cases hp : hd.pat with
      | wild =>
        simp only [hp] at h ⊢
        exact book_heads σ vs rest used (!hd.guarded) covered uF dF h hc
      | variant n bs =>
        simp only [hp] at h ⊢
        rw [lookupVariant_denVs]
        cases hl : lookupVariantM vs n with
        | none => simp [hl] at h
        | some tys =>
          simp only [hl, Option.map_some] at h ⊢
          by_cases hu : used.any (patNameEq n) = true
          · simp [hu] at h
          · simp only [hu, Bool.false_eq_true, if_false] at h
            rw [arity_agree]
            by_cases hok' : arityM tys bs = true
            · simp only [hok', Bool.not_true, Bool.false_eq_true, if_false] at h ⊢
              have hcov : covered.any (patNameEq n) = false := by
                cases hcv : covered.any (patNameEq n) with
                | false => rfl
                | true =>
                  exfalso
                  have := (any_patNameEq n covered).mp hcv
                  exact hu ((any_patNameEq n used).mpr ((hc n).mp this))
              simp only [hcov, Bool.false_eq_true, if_false]
              apply book_heads σ vs rest _ false _ uF dF h
              intro m
              cases hd.guarded with
              | true => simpa using hc m
              | false =>
                simp only [Bool.false_eq_true, if_false, List.mem_cons, List.mem_append, List.not_mem_nil, or_false]
                rw [hc m]; constructor
                · rintro (h1 | h1); exact Or.inr h1; exact Or.inl h1
                · rintro (h1 | h1); exact Or.inr h1; exact Or.inl h1
            · simp [hok'] at h

/-- invariant of the loop: the used variants are distinct names of the enum -/
theorem book_used (vs : List (PatName × List MTy)) : ∀ (heads : List ArmHead) (used : List PatName) (dflt : Bool)
    (uF : List PatName) (dF : Bool), armsBook vs heads (used, dflt) = some (uF, dF) →
    used.Nodup → (∀ n ∈ used, n ∈ vnames vs) → uF.Nodup ∧ ∀ n ∈ uF, n ∈ vnames vs
  | [], used, dflt, uF, dF, h, hn, hs => by
    simp only [armsBook, Option.some.injEq, Prod.mk.injEq] at h
    obtain ⟨rfl, rfl⟩ := h
    exact ⟨hn, hs⟩
  | hd :: rest, used, dflt, uF, dF, h, hn, hs => by
    simp only [armsBook] at h
    cases dflt with
    | true => simp at h
    | false =>
      simp only [Bool.false_eq_true, if_false] at h
      cases hp : hd.pat with
      | wild => simp only [hp] at h; exact book_used vs rest used _ uF dF h hn hs
      | variant n bs =>
        simp only [hp] at h
        cases hl : lookupVariantM vs n with
        | none => simp [hl] at h
        | some tys =>
          simp only [hl] at h
          by_cases hu : used.any (patNameEq n) = true
          · simp [hu] at h
          · simp only [hu, Bool.false_eq_true, if_false] at h
            by_cases hok' : arityM tys bs = true
            · simp only [hok', Bool.not_true, Bool.false_eq_true, if_false] at h
              apply book_used vs rest _ false uF dF h
              · cases hd.guarded with
                | true => simpa using hn
                | false =>
                  simp only [Bool.false_eq_true, if_false]
                  rw [List.nodup_append]
                  refine ⟨hn, by simp, ?_⟩
                  intro a ha b hb
                  simp only [List.mem_singleton] at hb
                  subst hb
                  rintro rfl
                  exact hu ((any_patNameEq a used).mpr ha)
              · intro m
                cases hd.guarded with
                | true => exact (fun hm => hs m (by simpa using hm))
                | false =>
                  intro hm
                  simp only [Bool.false_eq_true, if_false, List.mem_append, List.mem_singleton] at hm
                  rcases hm with hm | rfl
                  · exact hs m hm
                  · exact lookupVariantM_mem hl
            · simp [hok'] at h

/-- **the heads of an accepted `match` pass the declarative bookkeeping** -/
theorem heads_ok (σ : Val) (vs : List (PatName × List MTy)) (heads : List ArmHead)
    (uF : List PatName) (dF : Bool) (h : armsBook vs heads ([], false) = some (uF, dF))
    (hex : ¬ (!dF && decide (uF.length < vs.length)) = true) :
    matchHeads (denVs σ vs) heads [] false = none := by
  obtain ⟨cF, hc, hm⟩ := book_heads σ vs heads [] false [] uF dF h (fun n => Iff.rfl)
  obtain ⟨hn, hs⟩ := book_used vs heads [] false uF dF h List.nodup_nil (by intro n hn; cases hn)
  rw [hm]
  cases dF with
  | true => rfl
  | false =>
    simp only [Bool.not_false, Bool.true_and, decide_eq_true_eq, Nat.not_lt] at hex
    have hall : (denVs σ vs).all (fun v => cF.any (patNameEq v.1)) = true := by
      rw [denVs_all, List.all_eq_true]
      intro n hn'
      have := pigeon uF (vnames vs) hn hs (by simpa [vnames] using hex) n hn'
      exact (any_patNameEq n cF).mpr ((hc n).mpr this)
    simp [hall]

end RotoV.TcInfer

namespace RotoV.TcInfer
open RotoV.Typing RotoV.Unify RotoV.Gen

/-- the bookkeeping part of an accepted loop over the arms -/
theorem inferArms_book (env : Env) (cx : Cx) (g : MGamma) (vs : List (PatName × List MTy)) :
    ∀ (arms : List Arm) (st0 : MSt) (st : St) (stF : MSt) (st' : St),
    inferArms env cx g vs arms st0 st = .ok stF st' →
    armsBook vs (armHeads arms) (st0.used, st0.dflt) = some (stF.used, stF.dflt)
  | [], st0, st, stF, st', h => by
    simp only [inferArms] at h
    obtain ⟨rfl, _⟩ := pure_ok.mp h
    rfl
  | .mk pat guard body :: rest, st0, st, stF, st', h => by
    rw [inferArms.eq_def] at h
    simp only [armHeads, armsBook]
    by_cases hd : st0.dflt = true
    · simp only [hd, if_true] at h; exact (throw_ok.mp h).elim
    · simp only [hd, Bool.false_eq_true, if_false] at h ⊢
      cases pat with
      | wild =>
        simp only at h ⊢
        obtain ⟨dflt, s1, h1, h2⟩ := bind_ok.mp h
        obtain ⟨db, s2, h3, h4⟩ := bind_ok.mp h2
        have := inferArms_book env cx g vs rest _ s2 stF st' h4
        simp only at this
        cases guard with
        | none =>
          simp only at h1
          obtain ⟨rfl, _⟩ := pure_ok.mp h1
          simpa using this
        | some gd =>
          simp only at h1
          obtain ⟨_, s1', _, h1b⟩ := bind_ok.mp h1
          obtain ⟨rfl, _⟩ := pure_ok.mp h1b
          simpa using this
      | variant n bs =>
        simp only at h ⊢
        cases hl : lookupVariantM vs n with
        | none => simp only [hl] at h; exact (throw_ok.mp h).elim
        | some tys =>
          simp only [hl] at h ⊢
          by_cases hu : st0.used.any (patNameEq n) = true
          · simp only [hu, if_true] at h; exact (throw_ok.mp h).elim
          · simp only [hu, Bool.false_eq_true, if_false] at h ⊢
            obtain ⟨g', s1, h1, h2⟩ := bind_ok.mp h
            obtain ⟨used, s2, h3, h4⟩ := bind_ok.mp h2
            obtain ⟨db, s3, h5, h6⟩ := bind_ok.mp h4
            have := inferArms_book env cx g vs rest _ s3 stF st' h6
            simp only at this
            have har : arityM tys bs = true := by
              cases tys with
              | nil =>
                cases bs with
                | none => rfl
                | some xs => simp only at h1; exact (throw_ok.mp h1).elim
              | cons t ts =>
                cases bs with
                | none => simp only at h1; exact (throw_ok.mp h1).elim
                | some xs =>
                  simp only at h1
                  by_cases hlen : ((t :: ts).length != xs.length) = true
                  · simp only [hlen, if_true] at h1; exact (throw_ok.mp h1).elim
                  · simp only [arityM]; simpa using hlen
            simp only [har, Bool.not_true, Bool.false_eq_true, if_false]
            cases guard with
            | none =>
              simp only at h3
              obtain ⟨rfl, _⟩ := pure_ok.mp h3
              simpa using this
            | some gd =>
              simp only at h3
              obtain ⟨_, s1', _, h3b⟩ := bind_ok.mp h3
              obtain ⟨rfl, _⟩ := pure_ok.mp h3b
              simpa using this

end RotoV.TcInfer

namespace RotoV.TcInfer
open RotoV.Typing RotoV.Unify RotoV.Gen

theorem denS_zip (σ : Val) : ∀ (xs : List Nat) (tys : List MTy), denS σ (xs.zip tys) = xs.zip (denL σ tys)
  | [], _ => rfl
  | _ :: _, [] => rfl
  | x :: xs, t :: ts => by simp only [List.zip_cons_cons, denS, denL, denS_zip σ xs ts]

theorem declareAllM_gen : ∀ (ps : List (Nat × MTy)) {g g' : MGamma} {st st' : St},
    declareAllM g ps st = .ok g' st' →
      st = st' ∧ (WTg g → (∀ q ∈ ps, WT q.2 = true) → WTg g') ∧
        ∀ σ : Val, declareAll (denG σ g) (denS σ ps) = some (denG σ g')
  | [], g, g', st, st', h => by
    simp only [declareAllM] at h
    obtain ⟨rfl, rfl⟩ := pure_ok.mp h
    exact ⟨rfl, fun hg _ => hg, fun σ => rfl⟩
  | (x, t) :: rest, g, g', st, st', h => by
    simp only [declareAllM] at h
    obtain ⟨g1, s1, h1, h2⟩ := bind_ok.mp h
    obtain ⟨rfl, hd, hWg⟩ := declareM_ok h1
    obtain ⟨rfl, hg', hrest⟩ := declareAllM_gen rest h2
    refine ⟨rfl, fun hg hps => hg' (hWg hg (hps (x, t) List.mem_cons_self))
      (fun q hq => hps q (List.mem_cons_of_mem _ hq)), fun σ => ?_⟩
    simp only [denS, declareAll, hd σ]
    exact hrest σ

def WTvs (vs : List (PatName × List MTy)) : Prop := ∀ v ∈ vs, WTl v.2 = true

theorem lookupVariantM_WT {vs : List (PatName × List MTy)} (h : WTvs vs) {n : PatName} {tys : List MTy}
    (hl : lookupVariantM vs n = some tys) : WTl tys = true := by
  induction vs with
  | nil => simp [lookupVariantM] at hl
  | cons v r ih =>
    obtain ⟨m, ts⟩ := v
    simp only [lookupVariantM] at hl
    by_cases hm : patNameEq m n = true
    · simp only [hm, if_true, Option.some.injEq] at hl; subst hl; exact h (m, ts) List.mem_cons_self
    · simp only [hm, Bool.false_eq_true, if_false] at hl
      exact ih (fun v hv => h v (List.mem_cons_of_mem _ hv)) hl

theorem WTl_mem : ∀ {tys : List MTy}, WTl tys = true → ∀ t ∈ tys, WT t = true
  | [], _, t, ht => by cases ht
  | u :: us, h, t, ht => by
    simp only [WTl, Bool.and_eq_true] at h
    cases ht with
    | head => exact h.1
    | tail _ h' => exact WTl_mem h.2 t h'

theorem zip_WT {xs : List Nat} {tys : List MTy} (h : WTl tys = true) : ∀ q ∈ xs.zip tys, WT q.2 = true := by
  intro q hq
  obtain ⟨x, t⟩ := q
  exact WTl_mem h t (List.of_mem_zip hq).2

def PostArms (env : Env) (cx : Cx) (g : MGamma) (vs : List (PatName × List MTy)) (arms : List Arm)
    (st : St) (stF : MSt) (st' : St) : Prop :=
  WTs st'.store ∧ ∀ σ : Val, GVal σ → Sat σ st'.store → Sat σ st.store ∧
    ∀ gd vsd, gammaInst gd (denG σ g) = true → armVariantsOk vsd (denVs σ vs) = true →
      ∃ ts dda, synthArms env (denCx σ cx) gd vsd arms = .ok (ts, dda) ∧
        (∀ t ∈ ts, inst t (den σ cx.expected) = true) ∧ (stF.allDiverge = true → dda = true)

/-- what the binders of one arm are declared as, flexible side against ground side -/
theorem armBinds_rel (σ : Val) (hσ : GVal σ) {vs : List (PatName × List MTy)} (hvs : WTvs vs) {n : PatName}
    {tys : List MTy} (hl : lookupVariantM vs n = some tys) (xs : List Nat) (hlen : tys.length = xs.length)
    (vsd : Option (List (PatName × List Ty))) (hv : armVariantsOk vsd (denVs σ vs) = true) :
    scopeInst (armBinds vsd (.variant n (some xs))) (xs.zip (denL σ tys)) = true := by
  have hWt := lookupVariantM_WT hvs hl
  have hgr : (denL σ tys).all ground = true := denL_ground hσ tys hWt
  cases vsd with
  | none =>
    simp only [armBinds, Option.getD_some]
    exact map_unknown_scopeInst xs (denL σ tys) (by rw [denL_length]; exact hlen.symm) hgr
  | some vd =>
    simp only [armVariantsOk] at hv
    have hlg : lookupVariant (denVs σ vs) n = some (denL σ tys) := by rw [lookupVariant_denVs, hl]; rfl
    obtain ⟨tysd, h1, h2, _⟩ := (lookupVariant_rel vd (denVs σ vs) n hv).2 _ hlg
    simp only [armBinds, Option.getD_some, h1]
    exact zip_scopeInst xs tysd (denL σ tys) h2 hgr

end RotoV.TcInfer

namespace RotoV.TcInfer
open RotoV.Typing RotoV.Unify RotoV.Gen

/-- the declarative check of an arm's guard -/
def GuardOk (env : Env) (ctx : Ctx) (gd' : Gamma) : Option Expr → Prop
  | some gd0 => ∃ tg dg, synth env ctx gd' gd0 = .ok (tg, dg) ∧ compat tg .bool = true
  | none => True

/-- the guard of an arm (checked against `bool` in the arm's scope), if there is one -/
theorem guard_sound {env : Env} {α : Type} {guard : Option Expr} {a b : α}
    {cx : Cx} {g' : MGamma} {st st' : St} {r : α}
    (h : (match guard with
      | some gd => do
        let _ ← infer env (cx.withTy tBool) g' gd
        pure a
      | none => pure b : M α) st = .ok r st')
    (ihg : ∀ gd0, guard = some gd0 → IH env gd0) (hW : WTs st.store) (hcx : WTcx cx) (hg : WTg g') :
    r = (if guard.isSome then a else b) ∧ WTs st'.store ∧ ∀ σ : Val, GVal σ → Sat σ st'.store → Sat σ st.store ∧
      ∀ gd', gammaInst gd' (denG σ g') = true → GuardOk env (denCx σ cx) gd' guard := by
  cases guard with
  | none =>
    simp only at h
    obtain ⟨rfl, rfl⟩ := pure_ok.mp h
    exact ⟨rfl, hW, fun σ _ hs => ⟨hs, fun _ _ => trivial⟩⟩
  | some gd0 =>
    simp only at h
    obtain ⟨d, s1, h1, h2⟩ := bind_ok.mp h
    obtain ⟨rfl, rfl⟩ := pure_ok.mp h2
    obtain ⟨hW1, hp⟩ := ihg gd0 rfl (cx.withTy tBool) g' st d s1 hW (WTcx_with hcx WT_tBool) hg h1
    refine ⟨rfl, hW1, fun σ hσ hs => ?_⟩
    obtain ⟨hs0, hsyn⟩ := hp σ hσ hs
    refine ⟨hs0, fun gd' hgd' => ?_⟩
    obtain ⟨tg, dg, a1, a2, _⟩ := hsyn gd' hgd'
    have a2' : inst tg .bool = true := by simpa [Cx.withTy, den_tBool] using a2
    exact ⟨tg, dg, a1, inst_bool tg a2'⟩

/-- the declarative check of one arm, from its guard and body -/
theorem synthArm_of {env : Env} {ctx : Ctx} {gd' : Gamma} {pat : Pat} {guard : Option Expr} {body : Block}
    {tb : Ty} {db : Bool}
    (hguard : GuardOk env ctx gd' guard)
    (hbody : synthBlock env ctx gd' body = .ok (tb, db)) :
    synthArm env ctx gd' (.mk pat guard body) = .ok (tb, db) := by
  cases guard with
  | none => simp only [synthArm, hbody]
  | some gd0 =>
    obtain ⟨tg, dg, h1, h2⟩ := hguard
    simp only [synthArm, h1, expect_ok' h2, hbody, bind, Except.bind]

end RotoV.TcInfer

namespace RotoV.TcInfer
open RotoV.Typing RotoV.Unify RotoV.Gen

theorem toMList_WT : ∀ {tys : List Ty}, tys.all plain = true → WTl (toMList tys) = true
  | [], _ => rfl
  | t :: ts, h => by
    simp only [List.all_cons, Bool.and_eq_true] at h
    simp only [toMList, WTl, (den_toM (fun _ => .unit) t h.1).2.1, toMList_WT h.2, Bool.and_self]

theorem denL_toMList (σ : Val) : ∀ {tys : List Ty}, tys.all plain = true → denL σ (toMList tys) = tys
  | [], _ => rfl
  | t :: ts, h => by
    simp only [List.all_cons, Bool.and_eq_true] at h
    simp only [toMList, denL, (den_toM σ t h.1).1, denL_toMList σ h.2]

theorem plain_ground : ∀ {tys : List Ty}, tys.all plain = true → tys.all ground = true
  | [], _ => rfl
  | t :: ts, h => by
    simp only [List.all_cons, Bool.and_eq_true] at h
    simp only [List.all_cons, (den_toM (fun _ => .unit) t h.1).2.2, plain_ground h.2, Bool.and_self]

theorem instList_self : ∀ {tys : List Ty}, tys.all ground = true → instList tys tys = true
  | [], _ => rfl
  | t :: ts, h => by
    simp only [List.all_cons, Bool.and_eq_true] at h
    simp only [instList, inst_self t h.1, instList_self h.2, Bool.and_self]

/-- the variants of a resolved examinee type are well-formed -/
theorem variantsM_WT {env : Env} (henv : EnvPlain env) {t : MTy} (hWt : WT t = true)
    {vs : List (PatName × List MTy)} (hv : variantsM env t = some vs) : WTvs vs := by
  cases t with
  | name n args =>
    simp only [variantsM] at hv
    by_cases hn : (n == nmOption) = true
    · simp only [hn, if_true] at hv
      cases args with
      | nil => simp at hv
      | cons a as =>
        cases as with
        | cons _ _ => simp at hv
        | nil =>
          simp only [Option.some.injEq] at hv
          subst hv
          simp only [WT, WTl, Bool.and_true, Bool.and_eq_true] at hWt
          intro v hv'
          simp only [List.mem_cons, List.not_mem_nil, or_false] at hv'
          rcases hv' with rfl | rfl
          · simp [WTl, hWt.1]
          · rfl
    · simp only [hn, Bool.false_eq_true, if_false] at hv
      by_cases h32 : n ≥ 32
      · simp only [h32, decide_true, if_true] at hv
        cases ht : env.types.lookup (n - 32) with
        | none => simp [ht] at hv
        | some td =>
          cases td with
          | record _ => simp [ht] at hv
          | enum evs =>
            simp only [ht, Option.some.injEq] at hv
            subst hv
            intro v hv'
            simp only [List.mem_map] at hv'
            obtain ⟨⟨k, tys⟩, hm, rfl⟩ := hv'
            exact toMList_WT (henv.2.2.2 _ evs ht (k, tys) hm)
      · simp [h32] at hv
  | _ => simp [variantsM] at hv

theorem variantsInst_enum (σ : Val) : ∀ (evs : List (Nat × List Ty)), (∀ v ∈ evs, v.2.all plain = true) →
    variantsInst (evs.map fun (k, tys) => (PatName.user k, tys))
      (denVs σ (evs.map fun (k, tys) => (PatName.user k, toMList tys))) = true
  | [], _ => rfl
  | (k, tys) :: r, h => by
    have hp := h (k, tys) List.mem_cons_self
    simp only [List.map_cons, denVs, variantsInst, denL_toMList σ hp, instList_self (plain_ground hp), plain_ground hp,
      Bool.and_true, Bool.true_and]
    simp only [patNameEq, beq_self_eq_true, Bool.true_and]
    exact variantsInst_enum σ r (fun v hv => h v (List.mem_cons_of_mem _ hv))

/-- what the declarative checker knows about the variants of the examinee -/
theorem variantsOf_rel {env : Env} (henv : EnvPlain env) (σ : Val) (hσ : GVal σ) {t : MTy} (hWt : WT t = true)
    {vs : List (PatName × List MTy)} (hv : variantsM env t = some vs) (te : Ty) (hi : inst te (den σ t) = true) :
    (te = .unknown ∨ te = .never) ∨
      ∃ vsd, variantsOf env te = some vsd ∧ variantsInst vsd (denVs σ vs) = true ∧
        (∀ a : Ty, te ≠ .unknown ∧ te ≠ .never) := by
  cases t with
  | name n args =>
    simp only [variantsM] at hv
    by_cases hn : (n == nmOption) = true
    · simp only [hn, if_true] at hv
      have hn' : n = nmOption := by simpa using hn
      subst hn'
      cases args with
      | nil => simp at hv
      | cons a as =>
        cases as with
        | cons _ _ => simp at hv
        | nil =>
          simp only [Option.some.injEq] at hv
          subst hv
          have hWa : WT a = true := by
            simp only [WT, WTl, Bool.and_true, Bool.and_eq_true] at hWt; exact hWt.1
          have hden : den σ (.name nmOption [a]) = .opt (den σ a) := den_tOption σ a
          rw [hden] at hi
          cases te with
          | opt t' =>
            refine Or.inr ⟨[(.some, [t']), (.none, [])], rfl, ?_, fun _ => ⟨by simp, by simp⟩⟩
            have : inst t' (den σ a) = true := by simpa [inst] using hi
            simp [denVs, denL, variantsInst, patNameEq, instList, this, den_ground hσ a hWa]
          | unknown => exact Or.inl (Or.inl rfl)
          | never => exact Or.inl (Or.inr rfl)
          | _ => simp [inst] at hi
    · simp only [hn, Bool.false_eq_true, if_false] at hv
      by_cases h32 : n ≥ 32
      · simp only [h32, decide_true, if_true] at hv
        cases ht : env.types.lookup (n - 32) with
        | none => simp [ht] at hv
        | some td =>
          cases td with
          | record _ => simp [ht] at hv
          | enum evs =>
            simp only [ht, Option.some.injEq] at hv
            subst hv
            rw [den_user' σ h32 args] at hi
            cases te with
            | named k =>
              have hk : k = n - 32 := by simpa [inst] using hi
              subst hk
              refine Or.inr ⟨evs.map fun (k, tys) => (PatName.user k, tys), by simp only [variantsOf, ht], ?_,
                fun _ => ⟨by simp, by simp⟩⟩
              exact variantsInst_enum σ evs (henv.2.2.2 _ evs ht)
            | unknown => exact Or.inl (Or.inl rfl)
            | never => exact Or.inl (Or.inr rfl)
            | _ => simp [inst] at hi
      · simp [h32] at hv
  | _ => simp [variantsM] at hv

end RotoV.TcInfer

namespace RotoV.TcInfer
open RotoV.Typing RotoV.Unify RotoV.Gen

theorem synth_match_known {env : Env} {ctx : Ctx} {gd : Gamma} {e : Expr} {arms : List Arm} {te : Ty} {dde : Bool}
    {vsd : List (PatName × List Ty)} {ts : List Ty} {dda : Bool} {tr : Ty}
    (h1 : synth env ctx gd e = .ok (te, dde)) (hv : variantsOf env te = some vsd)
    (hm : matchHeads vsd (armHeads arms) [] false = none)
    (hs : synthArms env ctx gd (some vsd) arms = .ok (ts, dda))
    (hf : foldCompat "branches" ts .unknown = .ok tr) :
    synth env ctx gd (.match e arms) = .ok (tr, dde || (!arms.isEmpty && dda)) := by
  cases te with
  | opt t' => simp only [synth, h1, hv, hm, hs, hf, bind, Except.bind, pure, Except.pure]
  | named n => simp only [synth, h1, hv, hm, hs, hf, bind, Except.bind, pure, Except.pure]
  | _ => simp [variantsOf] at hv

theorem synth_match_unknown {env : Env} {ctx : Ctx} {gd : Gamma} {e : Expr} {arms : List Arm} {te : Ty} {dde : Bool}
    {ts : List Ty} {dda : Bool} {tr : Ty}
    (h1 : synth env ctx gd e = .ok (te, dde)) (hu : te = .unknown ∨ te = .never)
    (hs : synthArms env ctx gd none arms = .ok (ts, dda))
    (hf : foldCompat "branches" ts .unknown = .ok tr) :
    synth env ctx gd (.match e arms) = .ok (tr, dde || (!arms.isEmpty && dda)) := by
  rcases hu with rfl | rfl <;> simp only [synth, h1, hs, hf, bind, Except.bind, pure, Except.pure]

end RotoV.TcInfer
