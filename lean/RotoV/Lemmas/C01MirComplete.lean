/-
  C01MirComplete: the executable, table-based semantics of structured MIR
  (`Model/C01MirRun`) is *complete* for the relational one on scalar code:
  whenever `LowerS.ExecC` executes a piece of code of the scalar class (`scC`:
  assignments of constants in range / clones / moves / `binop` / `not` / `neg` /
  script-function calls, two-way switches, loops, `return`) from a store whose
  integers are in the `i32` range, `C01MirRun.execC` returns the same outcome for
  every sufficiently large fuel — every operator step being the generated table
  composition — and the integers stay in range.
-/
import RotoV.Lemmas.C01MirOps

namespace RotoV.C01MirComplete
open RotoV RotoV.Gen RotoV.Gen.OpTables RotoV.C01MirRun RotoV.C01MirOps RotoV.LowerS
open RotoV.TraceSpec (Val Trace)

/-- constants of scalar code: an `i32` in range, a boolean, `()` -/
def okVal : Val → Bool
  | .int n => inI32 n
  | .bool _ => true
  | .unit => true
  | _ => false

/-- operands of the scalar class -/
def scV : Value → Bool
  | .const v => okVal v
  | .clone _ | .move _ | .binop _ _ _ | .not _ | .neg _ | .call _ _ => true
  | _ => false

mutual
/-- statements of the scalar class -/
def scS : Stm → Bool
  | .assign _ v => scV v
  | .ite _ _ thn els => scC thn && scC els
  | .whl cond _ body => scC cond && scC body
  | .ret _ => true
  | _ => false
def scC : List Stm → Bool
  | [] => true
  | s :: rest => scS s && scC rest
end

/-- every function of the program is scalar code -/
def scP (P : Prog) : Prop := ∀ (f : Nat) (params : List Nat) (code : Code), P[f]? = some (params, code) → scC code = true

/-- the integers of a value / a store / an outcome are in the `i32` range -/
def InRv (v : Val) : Prop := ∀ n, v = .int n → inI32 n = true
def InR (σ : Store) : Prop := ∀ x, InRv (σ x)
def InRo : Outcome → Prop
  | .normal σ => InR σ
  | .returned v => InRv v

theorem InR.set {σ : Store} (h : InR σ) (x : Var) {v : Val} (hv : InRv v) : InR (σ.set x v) := by
  intro y
  unfold Store.set
  split
  · exact hv
  · exact h y

theorem okVal_InRv {v : Val} (h : okVal v = true) : InRv v := by
  intro n hn; subst hn; exact h

section
variable [F : FloatOps]

theorem tableBinop_complete {op : TraceSpec.BinOp} {a b w : Val} (h : TraceSpec.binop op a b = some w)
    (ha : InRv a) (hb : InRv b) : tableBinop op a b = some w ∧ InRv w := by
  cases a <;> cases b <;> simp only [TraceSpec.binop, reduceCtorEq] at h
  case int.int x y =>
    have hx := ha x rfl
    have hy := hb y rfl
    obtain ⟨r, i, cr, h1, h2, h3, h4⟩ := binop_int_generated false op x y hx hy
    have hrw : r = w := by
      have : TraceSpec.binop op (.int x) (.int y) = some w := by simpa [TraceSpec.binop] using h
      rw [h1] at this; exact Option.some.inj this
    subst hrw
    have hin : InRv r := by
      intro n hn; subst hn
      cases op <;> simp only [TraceSpec.binop, Option.some.injEq, Val.int.injEq, reduceCtorEq] at h1 <;>
        subst h1 <;> exact wrap32_inI32 _
    refine ⟨?_, hin⟩
    simp only [tableBinop, hx, hy, Bool.and_self, if_true, h2, h4]
    cases r with
    | int n => simp only [cvOf, Option.some.injEq] at h3; subst h3; exact decode_cvI32 (hin n rfl)
    | bool c => simp only [cvOf, Option.some.injEq] at h3; subst h3; exact decode_ofBool c
    | _ => simp [cvOf] at h3
  case bool.bool x y =>
    have hw : TraceSpec.binop op (.bool x) (.bool y) = some w := by simpa [TraceSpec.binop] using h
    obtain ⟨i, cr, h2, h3, h4⟩ := binop_bool_generated false op x y w hw
    have hin : InRv w := by
      intro n hn; subst hn
      cases op <;> simp [TraceSpec.binop] at hw
    refine ⟨?_, hin⟩
    cases op <;> simp only [TraceSpec.binop, reduceCtorEq] at hw
    all_goals
      simp only [tableBinop, h2, h4]
      cases w with
      | bool c => simp only [cvOf, Option.some.injEq] at h3; subst h3; exact decode_ofBool c
      | _ => simp at hw

theorem tableNeg_complete {n : Int} (h : inI32 n = true) :
    tableNeg (.int n) = some (.int (TraceSpec.wrap32 (-n))) := by
  simp only [tableNeg, h, if_true, neg_generated false n h, decode_cvI32 (wrap32_inI32 _)]

omit F in
theorem tableNot_complete (b : Bool) : tableNot (.bool b) = some (.bool (!b)) := by
  simp only [tableNot, not_generated false b, decode_ofBool]

omit F in
theorem InR_storeOfEnv : ∀ (params : List Nat) (vals : List Val) (acc cenv : TraceSpec.Env),
    TraceSpec.bindParams params vals acc = some cenv → (∀ v ∈ vals, InRv v) →
    (∀ p ∈ acc, InRv p.2) → ∀ p ∈ cenv, InRv p.2
  | [], [], acc, cenv, h, _, ha => by simp only [TraceSpec.bindParams, Option.some.injEq] at h; subst h; exact ha
  | [], _ :: _, _, _, h, _, _ => by simp [TraceSpec.bindParams] at h
  | _ :: _, [], _, _, h, _, _ => by simp [TraceSpec.bindParams] at h
  | x :: ps, v :: vs, acc, cenv, h, hv, ha => by
    simp only [TraceSpec.bindParams] at h
    refine InR_storeOfEnv ps vs ((x, v) :: acc) cenv h (fun w hw => hv w (by simp [hw])) ?_
    intro p hp
    simp only [List.mem_cons] at hp
    rcases hp with rfl | hp
    · exact hv v (by simp)
    · exact ha p hp

omit F in
theorem lookup_mem : ∀ (env : TraceSpec.Env) (x : Nat) (v : Val), TraceSpec.lookup env x = some v → (x, v) ∈ env
  | [], _, _, h => by simp [TraceSpec.lookup] at h
  | (y, w) :: env, x, v, h => by
    simp only [TraceSpec.lookup] at h
    split at h
    · rename_i hxy; cases h; subst hxy; simp
    · simp [lookup_mem env x v h]

omit F in
theorem InR_of_env {cenv : TraceSpec.Env} (h : ∀ p ∈ cenv, InRv p.2) : InR (storeOfEnv cenv) := by
  intro y
  cases y with
  | x p =>
    simp only [storeOfEnv]
    cases hl : TraceSpec.lookup cenv p with
    | none => intro n hn; simp at hn
    | some v => exact h (p, v) (lookup_mem cenv p v hl)
  | t k => intro n hn; simp [storeOfEnv] at hn

/-- for every sufficiently large fuel the executable semantics returns `r` -/
def Conv {α} (f : Nat → Option α) (r : α) : Prop := ∃ n, ∀ m, n ≤ m → f m = some r

mutual
theorem evalV_complete {P : Prog} (hP : scP P) : ∀ {σ : Store} {v : Value} {t : Trace} {w : Val},
    EvalV P σ v t w → scV v = true → InR σ → Conv (fun m => evalV P m σ v) (t, w) ∧ InRv w
  | σ, v, t, w, .pure h, hs, hi => by
    cases v <;> simp only [scV, reduceCtorEq] at hs <;> simp only [evalValue, reduceCtorEq] at h
    case const c =>
      cases h
      exact ⟨⟨1, fun m hm => by obtain ⟨k, rfl⟩ : ∃ k, m = k + 1 := ⟨m - 1, by omega⟩; simp only [evalV]⟩, okVal_InRv hs⟩
    case clone x =>
      cases h
      exact ⟨⟨1, fun m hm => by obtain ⟨k, rfl⟩ : ∃ k, m = k + 1 := ⟨m - 1, by omega⟩; simp only [evalV]⟩, hi x⟩
    case move x =>
      cases h
      exact ⟨⟨1, fun m hm => by obtain ⟨k, rfl⟩ : ∃ k, m = k + 1 := ⟨m - 1, by omega⟩; simp only [evalV]⟩, hi x⟩
    case binop l op r =>
      obtain ⟨w', hw, heq⟩ := Option.map_eq_some_iff.mp h
      cases heq
      obtain ⟨h1, h2⟩ := tableBinop_complete hw (hi l) (hi r)
      exact ⟨⟨1, fun m hm => by
        obtain ⟨k, rfl⟩ : ∃ k, m = k + 1 := ⟨m - 1, by omega⟩
        simp only [evalV, h1, Option.map_some]⟩, h2⟩
    case not x =>
      split at h
      · rename_i b hb
        cases h
        exact ⟨⟨1, fun m hm => by
          obtain ⟨k, rfl⟩ : ∃ k, m = k + 1 := ⟨m - 1, by omega⟩
          simp only [evalV, hb, tableNot_complete, Option.map_some]⟩, fun n hn => by simp at hn⟩
      · cases h
    case neg x =>
      split at h
      · rename_i n hn
        cases h
        have hr := hi x n hn
        exact ⟨⟨1, fun m hm => by
          obtain ⟨k, rfl⟩ : ∃ k, m = k + 1 := ⟨m - 1, by omega⟩
          simp only [evalV, hn, tableNeg_complete hr, Option.map_some]⟩,
          fun k hk => by cases hk; exact wrap32_inI32 _⟩
      · cases h
  | _, _, _, _, .call (params := params) (code := code) (cenv := cenv) hp hb hx, _, hi => by
    have hsc := hP _ _ _ hp
    have hin : InR (storeOfEnv cenv) :=
      InR_of_env (InR_storeOfEnv params _ [] cenv hb (fun v hv => by
        obtain ⟨x, _, rfl⟩ := List.mem_map.mp hv; exact hi x) (by simp))
    obtain ⟨⟨n, hn⟩, hw⟩ := execC_complete hP hx hsc hin
    exact ⟨⟨n + 1, fun m hm => by
      obtain ⟨k, rfl⟩ : ∃ k, m = k + 1 := ⟨m - 1, by omega⟩
      simp only [evalV, hp, hb, hn k (by omega)]⟩, hw⟩
termination_by structural _ _ _ _ h _ _ => h

theorem execS_complete {P : Prog} (hP : scP P) : ∀ {σ : Store} {s : Stm} {t : Trace} {o : Outcome},
    ExecS P σ s t o → scS s = true → InR σ → Conv (fun m => execS P m σ s) (t, o) ∧ InRo o
  | _, _, _, _, .assign (x := x) hv, hs, hi => by
    simp only [scS] at hs
    obtain ⟨⟨n, hn⟩, hw⟩ := evalV_complete hP hv hs hi
    exact ⟨⟨n + 1, fun m hm => by
      obtain ⟨k, rfl⟩ : ∃ k, m = k + 1 := ⟨m - 1, by omega⟩
      simp only [execS, hn k (by omega)]⟩, hi.set x hw⟩
  | _, _, _, _, .ret (x := x), _, hi =>
    ⟨⟨1, fun m hm => by obtain ⟨k, rfl⟩ : ∃ k, m = k + 1 := ⟨m - 1, by omega⟩; simp only [execS]⟩, hi x⟩
  | _, _, _, _, .iteThen hx hc, hs, hi => by
    simp only [scS, Bool.and_eq_true] at hs
    obtain ⟨⟨n, hn⟩, ho⟩ := execC_complete hP hc hs.1 hi
    exact ⟨⟨n + 1, fun m hm => by
      obtain ⟨k, rfl⟩ : ∃ k, m = k + 1 := ⟨m - 1, by omega⟩
      simp only [execS, hx, if_true, hn k (by omega)]⟩, ho⟩
  | _, _, _, _, .iteElse (k := k) hx hc, hs, hi => by
    simp only [scS, Bool.and_eq_true] at hs
    obtain ⟨⟨n, hn⟩, ho⟩ := execC_complete hP hc hs.2 hi
    exact ⟨⟨n + 1, fun m hm => by
      obtain ⟨j, rfl⟩ : ∃ j, m = j + 1 := ⟨m - 1, by omega⟩
      have : ((!k) = k) = False := by cases k <;> simp
      simp only [execS, hx, this, if_false, hn j (by omega)]⟩, ho⟩
  | _, _, _, _, .whlDone hc hx, hs, hi => by
    simp only [scS, Bool.and_eq_true] at hs
    obtain ⟨⟨n, hn⟩, ho⟩ := execC_complete hP hc hs.1 hi
    exact ⟨⟨n + 1, fun m hm => by
      obtain ⟨k, rfl⟩ : ∃ k, m = k + 1 := ⟨m - 1, by omega⟩
      simp only [execS, hn k (by omega), hx]⟩, ho⟩
  | _, _, _, _, .whlCondRet hc, hs, hi => by
    simp only [scS, Bool.and_eq_true] at hs
    obtain ⟨⟨n, hn⟩, ho⟩ := execC_complete hP hc hs.1 hi
    exact ⟨⟨n + 1, fun m hm => by
      obtain ⟨k, rfl⟩ : ∃ k, m = k + 1 := ⟨m - 1, by omega⟩
      simp only [execS, hn k (by omega)]⟩, ho⟩
  | _, _, _, _, .whlBodyRet hc hx hb, hs, hi => by
    simp only [scS, Bool.and_eq_true] at hs
    obtain ⟨⟨n1, hn1⟩, ho1⟩ := execC_complete hP hc hs.1 hi
    obtain ⟨⟨n2, hn2⟩, ho2⟩ := execC_complete hP hb hs.2 ho1
    exact ⟨⟨max n1 n2 + 1, fun m hm => by
      obtain ⟨k, rfl⟩ : ∃ k, m = k + 1 := ⟨m - 1, by omega⟩
      simp only [execS, hn1 k (by omega), hx, hn2 k (by omega)]⟩, ho2⟩
  | _, _, _, _, .whlStep hc hx hb hw, hs, hi => by
    have hs' := hs
    simp only [scS, Bool.and_eq_true] at hs
    obtain ⟨⟨n1, hn1⟩, ho1⟩ := execC_complete hP hc hs.1 hi
    obtain ⟨⟨n2, hn2⟩, ho2⟩ := execC_complete hP hb hs.2 ho1
    obtain ⟨⟨n3, hn3⟩, ho3⟩ := execS_complete hP hw hs' ho2
    exact ⟨⟨max n1 (max n2 n3) + 1, fun m hm => by
      obtain ⟨k, rfl⟩ : ∃ k, m = k + 1 := ⟨m - 1, by omega⟩
      simp only [execS, hn1 k (by omega), hx, hn2 k (by omega), hn3 k (by omega)]⟩, ho3⟩
  | _, _, _, _, .setDisc, hs, _ => by simp [scS] at hs
  | _, _, _, _, .assignField _ _, hs, _ => by simp [scS] at hs
  | _, _, _, _, .iteDThen _ _, hs, _ => by simp [scS] at hs
  | _, _, _, _, .iteDElse _ _ _, hs, _ => by simp [scS] at hs
  | _, _, _, _, .push _ _, hs, _ => by simp [scS] at hs
  | _, _, _, _, .forDone _ _ _, hs, _ => by simp [scS] at hs
  | _, _, _, _, .forBodyRet _ _ _, hs, _ => by simp [scS] at hs
  | _, _, _, _, .forStep _ _ _ _ _, hs, _ => by simp [scS] at hs
  | _, _, _, _, .mtchArm _ _ _ _, hs, _ => by simp [scS] at hs
  | _, _, _, _, .mtchGuardRet _ _, hs, _ => by simp [scS] at hs
termination_by structural _ _ _ _ h _ _ => h

theorem execC_complete {P : Prog} (hP : scP P) : ∀ {σ : Store} {c : Code} {t : Trace} {o : Outcome},
    ExecC P σ c t o → scC c = true → InR σ → Conv (fun m => execC P m σ c) (t, o) ∧ InRo o
  | _, _, _, _, .nil, _, hi =>
    ⟨⟨1, fun m hm => by obtain ⟨k, rfl⟩ : ∃ k, m = k + 1 := ⟨m - 1, by omega⟩; simp only [execC]⟩, hi⟩
  | _, _, _, _, .consRet hs', hs, hi => by
    simp only [scC, Bool.and_eq_true] at hs
    obtain ⟨⟨n, hn⟩, ho⟩ := execS_complete hP hs' hs.1 hi
    exact ⟨⟨n + 1, fun m hm => by
      obtain ⟨k, rfl⟩ : ∃ k, m = k + 1 := ⟨m - 1, by omega⟩
      simp only [execC, hn k (by omega)]⟩, ho⟩
  | _, _, _, _, .cons hs' hr, hs, hi => by
    simp only [scC, Bool.and_eq_true] at hs
    obtain ⟨⟨n1, hn1⟩, ho1⟩ := execS_complete hP hs' hs.1 hi
    obtain ⟨⟨n2, hn2⟩, ho2⟩ := execC_complete hP hr hs.2 ho1
    exact ⟨⟨max n1 n2 + 1, fun m hm => by
      obtain ⟨k, rfl⟩ : ∃ k, m = k + 1 := ⟨m - 1, by omega⟩
      simp only [execC, hn1 k (by omega), hn2 k (by omega)]⟩, ho2⟩
termination_by structural _ _ _ _ h _ _ => h
end

end

end RotoV.C01MirComplete
