/-
  `unescape_f_string_part` (src/parser/expr.rs) never slices its argument off
  a character boundary: the model of its scan (`uScan`, `fPieces` in
  `Model/Parse.lean`) returns `.ok ()` for EVERY text (property C06).
-/
import RotoV.Model.Parse
import RotoV.Lemmas.Lexer

namespace RotoV.Parse
open RotoV RotoV.Lex

/-- `&t[a..b]` does not panic for a span of `t` -/
theorem slice_ok {t : List Char} {sp : Span} (h : SpanOk t sp) : ∃ m, slice t sp.1 sp.2 = .ok m := by
  obtain ⟨a, b, hc, _⟩ := characterRange_ok t sp h
  unfold characterRange at hc
  cases h1 : sliceTo t sp.1 with
  | panic => rw [h1] at hc; cases hc
  | ok p =>
    rw [h1] at hc
    dsimp only at hc
    cases h2 : slice t sp.1 sp.2 with
    | panic => rw [h2] at hc; cases hc
    | ok m => exact ⟨m, rfl⟩

/-- `&t[a..]` does not panic at a character boundary -/
theorem sliceFrom_ok {t : List Char} {a : Nat} (h : IsBoundary t a) : ∃ m, sliceFrom t a = .ok m := by
  obtain ⟨pre, post, hp, hb⟩ := h
  refine ⟨post, ?_⟩
  unfold sliceFrom
  rw [hp, ← hb, splitAt_append]

theorem sliceAll_ok {t : List Char} (rs : List (Nat × Nat)) (h : ∀ r ∈ rs, SpanOk t r) :
    sliceAll t rs = .ok () := by
  induction rs with
  | nil => rfl
  | cons r rs ih =>
    obtain ⟨m, hm⟩ := slice_ok (h r (by simp))
    simp only [sliceAll, hm]
    exact ih fun x hx => h x (List.mem_cons_of_mem _ hx)

theorem isBoundary_snoc {t pre rest : List Char} (c : Char) (h : t = pre ++ c :: rest) :
    IsBoundary t (blen pre + sz c) :=
  ⟨pre ++ [c], rest, by rw [h]; simp, by rw [blen_append]; simp [blen]⟩

/-- the invariant of the scan: every range it cuts is a span of the text, and
`piece_start` stays on a boundary at or before the scan position -/
theorem uScan_ok (t : List Char) (n : Nat) : ∀ (mode : UMode) (i ps : Nat) (rest : List Char)
    (acc : List (Nat × Nat)) (pre : List Char), rest.length ≤ n → t = pre ++ rest → blen pre = i →
    IsBoundary t ps → ps ≤ i → (∀ r ∈ acc, SpanOk t r) →
    (∀ r ∈ (uScan mode i ps rest acc).1, SpanOk t r) ∧ IsBoundary t (uScan mode i ps rest acc).2 := by
  induction n with
  | zero =>
    intro mode i ps rest acc pre hn ht hi hps hle hacc
    have : rest = [] := List.eq_nil_of_length_eq_zero (by omega)
    subst this
    cases mode <;> exact ⟨by simpa [uScan] using hacc, hps⟩
  | succ n ih =>
    intro mode i ps rest acc pre hn ht hi hps hle hacc
    cases rest with
    | nil => cases mode <;> exact ⟨by simpa [uScan] using hacc, hps⟩
    | cons c cs =>
      have hc1 := sz_pos c
      have hpre1 : t = (pre ++ [c]) ++ cs := by rw [ht]; simp
      have hb1 : blen (pre ++ [c]) = i + sz c := by rw [blen_append]; simp [blen, hi]
      have step : ∀ (m : UMode), (∀ r ∈ (uScan m (i + sz c) ps cs acc).1, SpanOk t r) ∧
          IsBoundary t (uScan m (i + sz c) ps cs acc).2 :=
        fun m => ih m (i + sz c) ps cs acc (pre ++ [c]) (by simp at hn; omega) hpre1 hb1 hps (by omega) hacc
      have step2 : ∀ (m : UMode) (d : Char) (ds : List Char) (ps' : Nat) (acc' : List (Nat × Nat)), cs = d :: ds →
          IsBoundary t ps' → ps' ≤ i + sz c + sz d → (∀ r ∈ acc', SpanOk t r) →
          (∀ r ∈ (uScan m (i + sz c + sz d) ps' ds acc').1, SpanOk t r) ∧
            IsBoundary t (uScan m (i + sz c + sz d) ps' ds acc').2 := by
        intro m d ds ps' acc' hcs hb hl ha
        subst hcs
        exact ih m _ ps' ds acc' (pre ++ [c, d]) (by simp at hn; omega) (by rw [ht]; simp)
          (by rw [blen_append]; simp [blen, hi]; omega) hb hl ha
      have hbi : IsBoundary t i := ⟨pre, c :: cs, ht, hi⟩
      cases mode with
      | normal =>
        unfold uScan
        split
        · exact step _
        · split
          · rename_i hbrace
            split
            · rename_i d ds
              split
              · rename_i hd
                -- a doubled brace: both are one byte, the new `piece_start` is `i + 2`
                have hsz : sz c = 1 := by rcases hbrace with rfl | rfl <;> decide
                have hszd : sz d = 1 := by rw [hd]; exact hsz
                have hb2 : IsBoundary t (i + 2) :=
                  ⟨pre ++ [c, d], ds, by rw [ht]; simp, by rw [blen_append]; simp [blen, hi, hsz, hszd]⟩
                refine step2 _ d ds (i + 2) _ rfl hb2 (by omega) ?_
                intro r hr
                simp only [List.mem_cons] at hr
                rcases hr with rfl | hr
                · exact ⟨hle, hps, hbi⟩
                · exact hacc r hr
              · exact step _
            · exact ⟨by simpa using hacc, hps⟩
          · exact step _
      | esc =>
        unfold uScan
        split
        · split
          · rename_i d ds
            split
            · exact step2 _ d ds ps acc rfl hps (by omega) hacc
            · exact step _
          · exact ⟨by simpa using hacc, hps⟩
        · exact step _
      | uni =>
        unfold uScan
        split
        · exact step _
        · exact step _

/-- `unescape_f_string_part` never slices its argument off a character boundary -/
theorem fPieces_ok (t : List Char) : fPieces t = .ok () := by
  obtain ⟨h1, h2⟩ := uScan_ok t t.length .normal 0 0 t [] [] (Nat.le_refl _) rfl rfl
    ⟨[], t, rfl, rfl⟩ (Nat.le_refl _) (by simp)
  obtain ⟨m, hm⟩ := sliceFrom_ok h2
  unfold fPieces
  rw [sliceAll_ok _ h1]
  dsimp only
  rw [hm]

end RotoV.Parse
