/-
  Lemmas for C14's second layer (`Model/TarjanLir`): the item loop over the
  lowered item list, and edge completeness of the collected reference graph.
-/
import RotoV.Lemmas.Tarjan
import RotoV.Lemmas.TarjanCtx
import RotoV.Model.TarjanLir

namespace RotoV.Tarjan

/-! ### edge completeness -/

theorem edgesSubset_sound (t i : Graph) (h : edgesSubset t i = true) :
    ∀ u v, Edge t u v → Edge i u v := by
  intro u v e
  obtain ⟨rs, hm, hv⟩ := edge_mem_edges e
  simp only [edgesSubset, List.all_eq_true, List.contains_eq_mem, decide_eq_true_eq] at h
  exact h (u, rs) hm v hv

theorem edgesMissing_nil (t i : Graph) (h : edgesMissing t i = []) : edgesSubset t i = true := by
  simp only [edgesSubset, List.all_eq_true, List.contains_eq_mem, decide_eq_true_eq]
  intro ⟨u, vs⟩ hm v hv
  by_cases hc : v ∈ i.refs u
  · exact hc
  · exfalso
    have : (u, v) ∈ edgesMissing t i := by
      simp only [edgesMissing, List.mem_flatMap, List.mem_map, List.mem_filter]
      exact ⟨(u, vs), hm, v, ⟨hv, by simpa using hc⟩, rfl⟩
    rw [h] at this
    cases this

theorem Reach.mono {t i : Graph} (h : ∀ u v, Edge t u v → Edge i u v) {a b : Nat}
    (r : Reach t a b) : Reach i a b := by
  induction r with
  | refl => exact .refl _
  | step e _ ih => exact .step (h _ _ e) ih

theorem UsesCtx.mono {t i : Graph} (h : ∀ u v, Edge t u v → Edge i u v)
    (hk : ∀ x, t.kind x = .ctx → i.kind x = .ctx) {a : Nat} (u : UsesCtx t a) : UsesCtx i a := by
  obtain ⟨x, r, hx⟩ := u
  exact ⟨x, r.mono h, hk x hx⟩

/-! ### the item loop over the lowered list -/

/-- item `p`'s body refers to the function at position `q` -/
def LEdge (items : List LItem) (p q : Nat) : Prop := some q ∈ lFuncs items p

/-- everything an item can call, directly or through calls -/
inductive LReach (items : List LItem) : Nat → Nat → Prop
  | refl (a : Nat) : LReach items a a
  | step {a b c : Nat} : LEdge items a b → LReach items b c → LReach items a c

theorem isSomeIn_some {l : List Nat} {o : Option Nat} (h : isSomeIn l o = true) : ∃ x, o = some x ∧ x ∈ l := by
  cases o with
  | none => simp [isSomeIn] at h
  | some x => exact ⟨x, rfl, by simpa [isSomeIn] using h⟩

/-- item `p`'s body takes the address of the script constant at position `k` -/
def LReads (items : List LItem) (p k : Nat) : Prop := some k ∈ lConsts items p

structure LInv (items : List LItem) (st : LState) : Prop where
  /-- a finalized function only refers to functions that have a body -/
  closed : ∀ p, p ∈ st.defined → p ∉ st.pending → ∀ q, LEdge items p q → q ∈ st.defined
  /-- a defined body only reads constants that have been evaluated -/
  cdeps : ∀ p, p ∈ st.defined → ∀ k, LReads items p k → k ∈ st.store
  /-- the store is the list of constants whose initialiser has run, in that order -/
  store : st.store = st.runs.map Prod.fst
  /-- when an initialiser ran: it and everything defined then was call-closed, read
  only constants evaluated before, and those come earlier in the run order -/
  runs : ∀ c D S, (c, D, S) ∈ st.runs →
    c ∈ D ∧ (∀ p, p ∈ D → ∀ q, LEdge items p q → q ∈ D) ∧
    (∀ p, p ∈ D → ∀ k, LReads items p k → k ∈ S) ∧
    (∀ k, k ∈ S → Before k c (st.runs.map Prod.fst))

theorem LInv.new (items : List LItem) : LInv items LState.new :=
  ⟨by simp [LState.new], by simp [LState.new], by simp [LState.new], by simp [LState.new]⟩

theorem Before.append_right {d c : Nat} {l : List Nat} (h : Before d c l) (r : List Nat) : Before d c (l ++ r) := by
  obtain ⟨l1, l2, l3, rfl⟩ := h
  exact ⟨l1, l2, l3 ++ r, by simp⟩

theorem Before.of_mem {d : Nat} {l : List Nat} (h : d ∈ l) (c : Nat) : Before d c (l ++ [c]) := by
  obtain ⟨l1, l2, rfl⟩ := List.append_of_mem h
  exact ⟨l1, l2, [], by simp⟩

theorem lDefine_inv {items : List LItem} {st st' : LState} {i : Nat} {it : LItem}
    (hit : items[i]? = some it) (inv : LInv items st) (h : lDefine st i it = .ok st') :
    LInv items st' ∧ st'.defined = i :: st.defined ∧ st'.store = st.store ∧ st'.runs = st.runs := by
  unfold lDefine at h
  split at h
  · next hchk =>
    cases h
    refine ⟨⟨?_, ?_, inv.store, inv.runs⟩, rfl, rfl, rfl⟩
    · intro p hp hnp q e
      simp only [List.mem_cons, not_or] at hp hnp
      rcases hp with hp | hp
      · exact absurd hp hnp.1
      · exact List.mem_cons_of_mem _ (inv.closed p hp hnp.2 q e)
    · intro p hp k hk
      simp only [List.mem_cons] at hp
      rcases hp with rfl | hp
      · simp only [Bool.and_eq_true, List.all_eq_true] at hchk
        have : some k ∈ it.consts := by simpa [LReads, lConsts, hit] using hk
        obtain ⟨x, hx, hm⟩ := isSomeIn_some (hchk.2 (some k) this)
        cases hx
        exact hm
      · exact inv.cdeps p hp k hk
  · cases h

theorem lFinalize_inv {items : List LItem} {st st' : LState}
    (inv : LInv items st) (h : lFinalize items st = .ok st') :
    LInv items st' ∧ st'.defined = st.defined ∧ st'.pending = [] ∧ st'.store = st.store ∧ st'.runs = st.runs := by
  unfold lFinalize at h
  split at h
  · next hall =>
    cases h
    refine ⟨⟨?_, inv.cdeps, inv.store, inv.runs⟩, rfl, rfl, rfl, rfl⟩
    intro p hp _ q e
    by_cases hpp : p ∈ st.pending
    · simp only [List.all_eq_true] at hall
      obtain ⟨x, hx, hm⟩ := isSomeIn_some (hall p hpp (some q) e)
      cases hx
      exact hm
    · exact inv.closed p hp hpp q e
  · cases h

theorem lStep_inv {items : List LItem} {st st' : LState} {i : Nat} {it : LItem}
    (hit : items[i]? = some it) (inv : LInv items st) (h : lStep items st i it = .ok st') :
    LInv items st' ∧
      st'.runs.map Prod.fst = st.runs.map Prod.fst ++ (if it.isConst then [i] else []) := by
  unfold lStep at h
  simp only [bind, Except.bind] at h
  cases hd : lDefine st i it with
  | error e => rw [hd] at h; cases h
  | ok st1 =>
    rw [hd] at h
    obtain ⟨inv1, hdef1, hst1, hr1⟩ := lDefine_inv hit inv hd
    by_cases hc : it.isConst = true
    · simp only [hc, if_true] at h ⊢
      cases hf : lFinalize items st1 with
      | error e => rw [hf] at h; cases h
      | ok st2 =>
        rw [hf] at h
        obtain ⟨inv2, hdef2, hpend2, hst2, hr2⟩ := lFinalize_inv inv1 hf
        simp only at h
        split at h
        · cases h
          have hclosed : ∀ p, p ∈ st2.defined → ∀ q, LEdge items p q → q ∈ st2.defined := by
            intro p hp q e
            exact inv2.closed p hp (by rw [hpend2]; simp) q e
          refine ⟨⟨?_, ?_, ?_, ?_⟩, by simp [hr2, hr1]⟩
          · exact inv2.closed
          · intro p hp k hk
            exact List.mem_append_left _ (inv2.cdeps p hp k hk)
          · simp [inv2.store]
          · intro c D S hm
            simp only [List.mem_append, List.mem_singleton, Prod.mk.injEq] at hm
            simp only [List.map_append, List.map_cons, List.map_nil]
            rcases hm with hm | ⟨hc1, hD1, hS1⟩
            · obtain ⟨h1, h2, h3, h4⟩ := inv2.runs c D S hm
              exact ⟨h1, h2, h3, fun k hk => (h4 k hk).append_right _⟩
            · subst hc1 hD1 hS1
              refine ⟨by rw [hdef2, hdef1]; simp, hclosed, inv2.cdeps, ?_⟩
              intro k hk
              rw [inv2.store] at hk
              exact Before.of_mem hk c
        · cases h
    · simp only [hc] at h ⊢
      cases h
      exact ⟨inv1, by simp [hr1]⟩

theorem drop_cons_get {α} : ∀ (l : List α) (i : Nat) (a : α) (r : List α),
    l.drop i = a :: r → l[i]? = some a ∧ l.drop (i + 1) = r := by
  intro l
  induction l with
  | nil => intro i a r h; simp at h
  | cons x xs ih =>
    intro i a r h
    cases i with
    | zero => simp at h; simp [h.1, h.2]
    | succ i =>
      simp only [List.drop_succ_cons] at h
      have := ih i a r h
      simpa using this

theorem lLoop_inv {items : List LItem} : ∀ (rest : List LItem) (i : Nat) (st st' : LState),
    items.drop i = rest → LInv items st → lLoop items i rest st = .ok st' →
    LInv items st' ∧ st'.runs.map Prod.fst = st.runs.map Prod.fst ++ constPositions i rest := by
  intro rest
  induction rest with
  | nil =>
    intro i st st' _ inv h
    simp only [lLoop] at h
    cases h
    exact ⟨inv, by simp [constPositions]⟩
  | cons it rest ih =>
    intro i st st' hdrop inv h
    obtain ⟨hit, hdrop'⟩ := drop_cons_get items i it rest hdrop
    simp only [lLoop, bind, Except.bind] at h
    cases hs : lStep items st i it with
    | error e => rw [hs] at h; cases h
    | ok st1 =>
      rw [hs] at h
      obtain ⟨inv1, hr1⟩ := lStep_inv hit inv hs
      obtain ⟨inv', hr'⟩ := ih (i + 1) st1 st' hdrop' inv1 h
      refine ⟨inv', ?_⟩
      rw [hr', hr1]
      by_cases hc : it.isConst = true <;> simp [constPositions, hc]

/-! ### the closed form implies that the loop completes -/

/-- the state after `i` items, described positionally -/
structure LPos (items : List LItem) (i : Nat) (st : LState) : Prop where
  defined : ∀ q, q ∈ st.defined ↔ q < i
  pending : ∀ p, p ∈ st.pending → p < i
  store : ∀ k, k ∈ st.store ↔ (k < i ∧ isConstAt items k = true)

theorem optLe_isSomeIn {n : Nat} {l : List Nat} (h : ∀ q, q ≤ n → q ∈ l) {o : Option Nat}
    (ho : optLe n o = true) : isSomeIn l o = true := by
  cases o with
  | none => simp [optLe] at ho
  | some q => simp only [optLe, decide_eq_true_eq] at ho; simpa [isSomeIn] using h q ho

theorem optLt_isSomeIn {n : Nat} {l : List Nat} (h : ∀ q, q < n → q ∈ l) {o : Option Nat}
    (ho : optLt n o = true) : isSomeIn l o = true := by
  cases o with
  | none => simp [optLt] at ho
  | some q => simp only [optLt, decide_eq_true_eq] at ho; simpa [isSomeIn] using h q ho

theorem lStep_ready {items : List LItem} {st : LState} {i : Nat} {it : LItem}
    (hit : items[i]? = some it) (pos : LPos items i st) (hr : itemReady items i it = true) :
    ∃ st', lStep items st i it = .ok st' ∧ LPos items (i + 1) st' := by
  simp only [itemReady, Bool.and_eq_true, Bool.or_eq_true, Bool.not_eq_true', List.all_eq_true] at hr
  obtain ⟨⟨hf, hc⟩, hk⟩ := hr
  have hdef : lDefine st i it = .ok { st with defined := i :: st.defined, pending := i :: st.pending } := by
    have h1 : it.funcs.all Option.isSome = true := List.all_eq_true.2 hf
    have h2 : it.consts.all (isSomeIn st.store) = true := by
      refine List.all_eq_true.2 fun c hcm => ?_
      have := hc c hcm
      cases c with
      | none => simp at this
      | some k =>
        simp only [Bool.and_eq_true, decide_eq_true_eq] at this
        simpa [isSomeIn] using (pos.store k).2 this
    simp [lDefine, h1, h2]
  have hconstAt : isConstAt items i = it.isConst := by simp [isConstAt, hit]
  by_cases hcst : it.isConst = true
  · -- a constant: finalize, fetch the drop function, run
    rcases hk with hk | hk
    · rw [hcst] at hk; cases hk
    obtain ⟨hdrop, hall⟩ := hk
    have hmemle : ∀ q, q ≤ i → q ∈ i :: st.defined := by
      intro q hq
      rcases Nat.lt_or_eq_of_le hq with h | h
      · exact List.mem_cons_of_mem _ ((pos.defined q).2 h)
      · simp [h]
    have hfin : lFinalize items { st with defined := i :: st.defined, pending := i :: st.pending }
        = .ok { st with defined := i :: st.defined, pending := [] } := by
      have : (i :: st.pending).all (fun p => (lFuncs items p).all (isSomeIn (i :: st.defined))) = true := by
        refine List.all_eq_true.2 fun p hp => List.all_eq_true.2 fun o ho => ?_
        have hple : p ≤ i := by
          simp only [List.mem_cons] at hp
          rcases hp with rfl | hp
          · exact Nat.le_refl _
          · exact Nat.le_of_lt (pos.pending p hp)
        have := hall p (by simp; omega)
        exact optLe_isSomeIn hmemle (this o ho)
      simp [lFinalize, this]
    refine ⟨{ st with defined := i :: st.defined, pending := [], store := st.store ++ [i],
                      runs := st.runs ++ [(i, i :: st.defined, st.store)] }, ?_, ?_, ?_, ?_⟩
    · simp only [lStep, bind, Except.bind, hdef, hcst, if_true, hfin]
      simp [optLe_isSomeIn hmemle hdrop]
    · intro q
      simp only [List.mem_cons, pos.defined q]
      omega
    · intro p hp; cases hp
    · intro k
      simp only [List.mem_append, List.mem_singleton, pos.store k]
      constructor
      · rintro (⟨h1, h2⟩ | rfl)
        · exact ⟨by omega, h2⟩
        · exact ⟨by omega, by rw [hconstAt, hcst]⟩
      · rintro ⟨h1, h2⟩
        rcases Nat.lt_or_eq_of_le (Nat.le_of_lt_succ h1) with h | h
        · exact Or.inl ⟨h, h2⟩
        · exact Or.inr h
  · refine ⟨{ st with defined := i :: st.defined, pending := i :: st.pending }, ?_, ?_, ?_, ?_⟩
    · simp [lStep, bind, Except.bind, hdef, hcst]
    · intro q
      simp only [List.mem_cons, pos.defined q]
      omega
    · intro p hp
      simp only [List.mem_cons] at hp
      rcases hp with rfl | hp
      · omega
      · have := pos.pending p hp; omega
    · intro k
      simp only [pos.store k]
      constructor
      · rintro ⟨h1, h2⟩; exact ⟨by omega, h2⟩
      · rintro ⟨h1, h2⟩
        rcases Nat.lt_or_eq_of_le (Nat.le_of_lt_succ h1) with h | h
        · exact ⟨h, h2⟩
        · subst h; rw [hconstAt] at h2; exact absurd h2 hcst

theorem lLoop_ready {items : List LItem} : ∀ (rest : List LItem) (i : Nat) (st : LState),
    items.drop i = rest → LPos items i st → itemsReady items i rest = true →
    ∃ st', lLoop items i rest st = .ok st' ∧ LPos items (i + rest.length) st' := by
  intro rest
  induction rest with
  | nil => intro i st _ pos _; exact ⟨st, rfl, by simpa using pos⟩
  | cons it rest ih =>
    intro i st hdrop pos hr
    obtain ⟨hit, hdrop'⟩ := drop_cons_get items i it rest hdrop
    simp only [itemsReady, Bool.and_eq_true] at hr
    obtain ⟨st1, hs, pos1⟩ := lStep_ready hit pos hr.1
    obtain ⟨st', hl, pos'⟩ := ih (i + 1) st1 hdrop' pos1 hr.2
    refine ⟨st', by simp [lLoop, bind, Except.bind, hs, hl], ?_⟩
    have : i + (it :: rest).length = i + 1 + rest.length := by simp; omega
    rw [this]; exact pos'

theorem cgLir_ok_of_ready' (items : List LItem) (h : lirReady items = true) : ∃ st, cgLir items = .ok st := by
  simp only [lirReady, Bool.and_eq_true] at h
  obtain ⟨st1, hl, pos⟩ := lLoop_ready (items := items) items 0 LState.new (by simp)
    ⟨by simp [LState.new], by simp [LState.new], by simp [LState.new]⟩ h.1
  simp only [Nat.zero_add] at pos
  have hfin : lFinalize items st1 = .ok { st1 with pending := [] } := by
    have : st1.pending.all (fun p => (lFuncs items p).all (isSomeIn st1.defined)) = true := by
      refine List.all_eq_true.2 fun p hp => List.all_eq_true.2 fun o ho => ?_
      have := List.all_eq_true.1 h.2 p (by simpa using pos.pending p hp)
      exact optLt_isSomeIn (fun q hq => (pos.defined q).2 hq) (List.all_eq_true.1 this o ho)
    simp [lFinalize, this]
  exact ⟨{ st1 with pending := [] }, by simp [cgLir, bind, Except.bind, hl, hfin]⟩

theorem LReach.closed {items : List LItem} {D : List Nat}
    (hD : ∀ p, p ∈ D → ∀ q, LEdge items p q → q ∈ D) {a b : Nat} (r : LReach items a b) (ha : a ∈ D) :
    b ∈ D := by
  induction r with
  | refl => exact ha
  | step e _ ih => exact ih (hD _ ha _ e)

end RotoV.Tarjan
