/-
  Lemmas for C14's second layer (`Model/TarjanLir`): the item loop over the
  lowered item list, and edge completeness of the collected reference graph.
-/
import RotoV.Lemmas.Tarjan
import RotoV.Lemmas.TarjanCtx
import RotoV.Model.TarjanLir

namespace RotoV.Tarjan

/-! ### edge completeness -/

theorem edgesSubset_sound (t i : Graph) (h : edgesSubset t i = true) :
    ∀ u v, Edge t u v → Edge i u v := by
  intro u v e
  obtain ⟨rs, hm, hv⟩ := edge_mem_edges e
  simp only [edgesSubset, List.all_eq_true, List.contains_eq_mem, decide_eq_true_eq] at h
  exact h (u, rs) hm v hv

theorem edgesMissing_nil (t i : Graph) (h : edgesMissing t i = []) : edgesSubset t i = true := by
  simp only [edgesSubset, List.all_eq_true, List.contains_eq_mem, decide_eq_true_eq]
  intro ⟨u, vs⟩ hm v hv
  by_cases hc : v ∈ i.refs u
  · exact hc
  · exfalso
    have : (u, v) ∈ edgesMissing t i := by
      simp only [edgesMissing, List.mem_flatMap, List.mem_map, List.mem_filter]
      exact ⟨(u, vs), hm, v, ⟨hv, by simpa using hc⟩, rfl⟩
    rw [h] at this
    cases this

theorem Reach.mono {t i : Graph} (h : ∀ u v, Edge t u v → Edge i u v) {a b : Nat}
    (r : Reach t a b) : Reach i a b := by
  induction r with
  | refl => exact .refl _
  | step e _ ih => exact .step (h _ _ e) ih

theorem UsesCtx.mono {t i : Graph} (h : ∀ u v, Edge t u v → Edge i u v)
    (hk : ∀ x, t.kind x = .ctx → i.kind x = .ctx) {a : Nat} (u : UsesCtx t a) : UsesCtx i a := by
  obtain ⟨x, r, hx⟩ := u
  exact ⟨x, r.mono h, hk x hx⟩

/-! ### the item loop over the lowered list -/

/-- item `p`'s body refers to the function at position `q` -/
def LEdge (items : List LItem) (p q : Nat) : Prop := some q ∈ lFuncs items p

/-- everything an item can call, directly or through calls -/
inductive LReach (items : List LItem) : Nat → Nat → Prop
  | refl (a : Nat) : LReach items a a
  | step {a b c : Nat} : LEdge items a b → LReach items b c → LReach items a c

theorem isSomeIn_some {l : List Nat} {o : Option Nat} (h : isSomeIn l o = true) : ∃ x, o = some x ∧ x ∈ l := by
  cases o with
  | none => simp [isSomeIn] at h
  | some x => exact ⟨x, rfl, by simpa [isSomeIn] using h⟩

structure LInv (items : List LItem) (st : LState) : Prop where
  /-- a finalized function only refers to functions that have a body -/
  closed : ∀ p, p ∈ st.defined → p ∉ st.pending → ∀ q, LEdge items p q → q ∈ st.defined
  /-- when an initialiser ran, it and everything defined then was call-closed -/
  runs : ∀ c D, (c, D) ∈ st.runs → c ∈ D ∧ ∀ p, p ∈ D → ∀ q, LEdge items p q → q ∈ D
  /-- a stored constant's initialiser has run -/
  stored : ∀ c, c ∈ st.store → ∃ D, (c, D) ∈ st.runs

theorem LInv.new (items : List LItem) : LInv items LState.new :=
  ⟨by simp [LState.new], by simp [LState.new], by simp [LState.new]⟩

theorem lDefine_inv {items : List LItem} {st st' : LState} {i : Nat} {it : LItem}
    (inv : LInv items st) (h : lDefine st i it = .ok st') :
    LInv items st' ∧ st'.defined = i :: st.defined ∧ st'.store = st.store ∧ st'.runs = st.runs := by
  unfold lDefine at h
  split at h
  · cases h
    refine ⟨⟨?_, inv.runs, inv.stored⟩, rfl, rfl, rfl⟩
    intro p hp hnp q e
    simp only [List.mem_cons, not_or] at hp hnp
    rcases hp with hp | hp
    · exact absurd hp hnp.1
    · exact List.mem_cons_of_mem _ (inv.closed p hp hnp.2 q e)
  · cases h

theorem lFinalize_inv {items : List LItem} {st st' : LState}
    (inv : LInv items st) (h : lFinalize items st = .ok st') :
    LInv items st' ∧ st'.defined = st.defined ∧ st'.pending = [] ∧ st'.store = st.store ∧ st'.runs = st.runs := by
  unfold lFinalize at h
  split at h
  · next hall =>
    cases h
    refine ⟨⟨?_, inv.runs, inv.stored⟩, rfl, rfl, rfl, rfl⟩
    intro p hp _ q e
    by_cases hpp : p ∈ st.pending
    · simp only [List.all_eq_true] at hall
      obtain ⟨x, hx, hm⟩ := isSomeIn_some (hall p hpp (some q) e)
      cases hx
      exact hm
    · exact inv.closed p hp hpp q e
  · cases h

theorem lStep_inv {items : List LItem} {st st' : LState} {i : Nat} {it : LItem}
    (inv : LInv items st) (h : lStep items st i it = .ok st') :
    LInv items st' ∧
      st'.runs.map Prod.fst = st.runs.map Prod.fst ++ (if it.isConst then [i] else []) := by
  unfold lStep at h
  simp only [bind, Except.bind] at h
  cases hd : lDefine st i it with
  | error e => rw [hd] at h; cases h
  | ok st1 =>
    rw [hd] at h
    obtain ⟨inv1, hdef1, hst1, hr1⟩ := lDefine_inv inv hd
    by_cases hc : it.isConst = true
    · simp only [hc, if_true] at h ⊢
      cases hf : lFinalize items st1 with
      | error e => rw [hf] at h; cases h
      | ok st2 =>
        rw [hf] at h
        obtain ⟨inv2, hdef2, hpend2, hst2, hr2⟩ := lFinalize_inv inv1 hf
        simp only at h
        split at h
        · cases h
          have hclosed : ∀ p, p ∈ st2.defined → ∀ q, LEdge items p q → q ∈ st2.defined := by
            intro p hp q e
            exact inv2.closed p hp (by rw [hpend2]; simp) q e
          refine ⟨⟨?_, ?_, ?_⟩, by simp [hr2, hr1]⟩
          · exact inv2.closed
          · intro c D hm
            simp only [List.mem_append, List.mem_singleton, Prod.mk.injEq] at hm
            rcases hm with hm | ⟨rfl, rfl⟩
            · exact inv2.runs c D hm
            · exact ⟨by rw [hdef2, hdef1]; simp, hclosed⟩
          · intro c hcs
            simp only [List.mem_append, List.mem_singleton] at hcs
            rcases hcs with hcs | rfl
            · obtain ⟨D, hD⟩ := inv2.stored c hcs
              exact ⟨D, by simp [hD]⟩
            · exact ⟨st2.defined, by simp⟩
        · cases h
    · simp only [hc] at h ⊢
      cases h
      exact ⟨inv1, by simp [hr1]⟩

theorem lLoop_inv {items : List LItem} : ∀ (rest : List LItem) (i : Nat) (st st' : LState),
    LInv items st → lLoop items i rest st = .ok st' →
    LInv items st' ∧ st'.runs.map Prod.fst = st.runs.map Prod.fst ++ constPositions i rest := by
  intro rest
  induction rest with
  | nil =>
    intro i st st' inv h
    simp only [lLoop] at h
    cases h
    exact ⟨inv, by simp [constPositions]⟩
  | cons it rest ih =>
    intro i st st' inv h
    simp only [lLoop, bind, Except.bind] at h
    cases hs : lStep items st i it with
    | error e => rw [hs] at h; cases h
    | ok st1 =>
      rw [hs] at h
      obtain ⟨inv1, hr1⟩ := lStep_inv inv hs
      obtain ⟨inv', hr'⟩ := ih (i + 1) st1 st' inv1 h
      refine ⟨inv', ?_⟩
      rw [hr', hr1]
      by_cases hc : it.isConst = true <;> simp [constPositions, hc]

theorem LReach.closed {items : List LItem} {D : List Nat}
    (hD : ∀ p, p ∈ D → ∀ q, LEdge items p q → q ∈ D) {a b : Nat} (r : LReach items a b) (ha : a ∈ D) :
    b ∈ D := by
  induction r with
  | refl => exact ha
  | step e _ ih => exact ih (hD _ ha _ e)

end RotoV.Tarjan
