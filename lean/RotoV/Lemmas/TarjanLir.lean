/-
  Lemmas for C14's second layer (`Model/TarjanLir`): the item loop over the
  lowered item list, and edge completeness of the collected reference graph.
-/
import RotoV.Lemmas.Tarjan
import RotoV.Lemmas.TarjanCtx
import RotoV.Model.TarjanLir

namespace RotoV.Tarjan

/-! ### edge completeness -/

theorem edgesSubset_sound (t i : Graph) (h : edgesSubset t i = true) :
    ∀ u v, Edge t u v → Edge i u v := by
  intro u v e
  obtain ⟨rs, hm, hv⟩ := edge_mem_edges e
  simp only [edgesSubset, List.all_eq_true, List.contains_eq_mem, decide_eq_true_eq] at h
  exact h (u, rs) hm v hv

theorem edgesMissing_nil (t i : Graph) (h : edgesMissing t i = []) : edgesSubset t i = true := by
  simp only [edgesSubset, List.all_eq_true, List.contains_eq_mem, decide_eq_true_eq]
  intro ⟨u, vs⟩ hm v hv
  by_cases hc : v ∈ i.refs u
  · exact hc
  · exfalso
    have : (u, v) ∈ edgesMissing t i := by
      simp only [edgesMissing, List.mem_flatMap, List.mem_map, List.mem_filter]
      exact ⟨(u, vs), hm, v, ⟨hv, by simpa using hc⟩, rfl⟩
    rw [h] at this
    cases this

theorem Reach.mono {t i : Graph} (h : ∀ u v, Edge t u v → Edge i u v) {a b : Nat}
    (r : Reach t a b) : Reach i a b := by
  induction r with
  | refl => exact .refl _
  | step e _ ih => exact .step (h _ _ e) ih

theorem UsesCtx.mono {t i : Graph} (h : ∀ u v, Edge t u v → Edge i u v)
    (hk : ∀ x, t.kind x = .ctx → i.kind x = .ctx) {a : Nat} (u : UsesCtx t a) : UsesCtx i a := by
  obtain ⟨x, r, hx⟩ := u
  exact ⟨x, r.mono h, hk x hx⟩

/-! ### the item loop over the lowered list -/

/-- item `p`'s body refers to the function at position `q` -/
def LEdge (items : List LItem) (p q : Nat) : Prop := some q ∈ lFuncs items p

/-- everything an item can call, directly or through calls -/
inductive LReach (items : List LItem) : Nat → Nat → Prop
  | refl (a : Nat) : LReach items a a
  | step {a b c : Nat} : LEdge items a b → LReach items b c → LReach items a c

theorem isSomeIn_some {l : List Nat} {o : Option Nat} (h : isSomeIn l o = true) : ∃ x, o = some x ∧ x ∈ l := by
  cases o with
  | none => simp [isSomeIn] at h
  | some x => exact ⟨x, rfl, by simpa [isSomeIn] using h⟩

/-- item `p`'s body takes the address of the script constant at position `k` -/
def LReads (items : List LItem) (p k : Nat) : Prop := some k ∈ lConsts items p

structure LInv (items : List LItem) (st : LState) : Prop where
  /-- a finalized function only refers to functions that have a body -/
  closed : ∀ p, p ∈ st.defined → p ∉ st.pending → ∀ q, LEdge items p q → q ∈ st.defined
  /-- a defined body only reads constants that have been evaluated -/
  cdeps : ∀ p, p ∈ st.defined → ∀ k, LReads items p k → k ∈ st.store
  /-- the store is the list of constants whose initialiser has run, in that order -/
  store : st.store = st.runs.map Prod.fst
  /-- when an initialiser ran: it and everything defined then was call-closed, read
  only constants evaluated before, and those come earlier in the run order -/
  runs : ∀ c D S, (c, D, S) ∈ st.runs →
    c ∈ D ∧ (∀ p, p ∈ D → ∀ q, LEdge items p q → q ∈ D) ∧
    (∀ p, p ∈ D → ∀ k, LReads items p k → k ∈ S) ∧
    (∀ k, k ∈ S → Before k c (st.runs.map Prod.fst))

theorem LInv.new (items : List LItem) : LInv items LState.new :=
  ⟨by simp [LState.new], by simp [LState.new], by simp [LState.new], by simp [LState.new]⟩

theorem Before.append_right {d c : Nat} {l : List Nat} (h : Before d c l) (r : List Nat) : Before d c (l ++ r) := by
  obtain ⟨l1, l2, l3, rfl⟩ := h
  exact ⟨l1, l2, l3 ++ r, by simp⟩

theorem Before.of_mem {d : Nat} {l : List Nat} (h : d ∈ l) (c : Nat) : Before d c (l ++ [c]) := by
  obtain ⟨l1, l2, rfl⟩ := List.append_of_mem h
  exact ⟨l1, l2, [], by simp⟩

theorem lDefine_inv {items : List LItem} {st st' : LState} {i : Nat} {it : LItem}
    (hit : items[i]? = some it) (inv : LInv items st) (h : lDefine st i it = .ok st') :
    LInv items st' ∧ st'.defined = i :: st.defined ∧ st'.store = st.store ∧ st'.runs = st.runs := by
  unfold lDefine at h
  split at h
  · next hchk =>
    cases h
    refine ⟨⟨?_, ?_, inv.store, inv.runs⟩, rfl, rfl, rfl⟩
    · intro p hp hnp q e
      simp only [List.mem_cons, not_or] at hp hnp
      rcases hp with hp | hp
      · exact absurd hp hnp.1
      · exact List.mem_cons_of_mem _ (inv.closed p hp hnp.2 q e)
    · intro p hp k hk
      simp only [List.mem_cons] at hp
      rcases hp with rfl | hp
      · simp only [Bool.and_eq_true, List.all_eq_true] at hchk
        have : some k ∈ it.consts := by simpa [LReads, lConsts, hit] using hk
        obtain ⟨x, hx, hm⟩ := isSomeIn_some (hchk.2 (some k) this)
        cases hx
        exact hm
      · exact inv.cdeps p hp k hk
  · cases h

theorem lFinalize_inv {items : List LItem} {st st' : LState}
    (inv : LInv items st) (h : lFinalize items st = .ok st') :
    LInv items st' ∧ st'.defined = st.defined ∧ st'.pending = [] ∧ st'.store = st.store ∧ st'.runs = st.runs := by
  unfold lFinalize at h
  split at h
  · next hall =>
    cases h
    refine ⟨⟨?_, inv.cdeps, inv.store, inv.runs⟩, rfl, rfl, rfl, rfl⟩
    intro p hp _ q e
    by_cases hpp : p ∈ st.pending
    · simp only [List.all_eq_true] at hall
      obtain ⟨x, hx, hm⟩ := isSomeIn_some (hall p hpp (some q) e)
      cases hx
      exact hm
    · exact inv.closed p hp hpp q e
  · cases h

theorem lStep_inv {items : List LItem} {st st' : LState} {i : Nat} {it : LItem}
    (hit : items[i]? = some it) (inv : LInv items st) (h : lStep items st i it = .ok st') :
    LInv items st' ∧
      st'.runs.map Prod.fst = st.runs.map Prod.fst ++ (if it.isConst then [i] else []) := by
  unfold lStep at h
  simp only [bind, Except.bind] at h
  cases hd : lDefine st i it with
  | error e => rw [hd] at h; cases h
  | ok st1 =>
    rw [hd] at h
    obtain ⟨inv1, hdef1, hst1, hr1⟩ := lDefine_inv hit inv hd
    by_cases hc : it.isConst = true
    · simp only [hc, if_true] at h ⊢
      cases hf : lFinalize items st1 with
      | error e => rw [hf] at h; cases h
      | ok st2 =>
        rw [hf] at h
        obtain ⟨inv2, hdef2, hpend2, hst2, hr2⟩ := lFinalize_inv inv1 hf
        simp only at h
        split at h
        · cases h
          have hclosed : ∀ p, p ∈ st2.defined → ∀ q, LEdge items p q → q ∈ st2.defined := by
            intro p hp q e
            exact inv2.closed p hp (by rw [hpend2]; simp) q e
          refine ⟨⟨?_, ?_, ?_, ?_⟩, by simp [hr2, hr1]⟩
          · exact inv2.closed
          · intro p hp k hk
            exact List.mem_append_left _ (inv2.cdeps p hp k hk)
          · simp [inv2.store]
          · intro c D S hm
            simp only [List.mem_append, List.mem_singleton, Prod.mk.injEq] at hm
            simp only [List.map_append, List.map_cons, List.map_nil]
            rcases hm with hm | ⟨hc1, hD1, hS1⟩
            · obtain ⟨h1, h2, h3, h4⟩ := inv2.runs c D S hm
              exact ⟨h1, h2, h3, fun k hk => (h4 k hk).append_right _⟩
            · subst hc1 hD1 hS1
              refine ⟨by rw [hdef2, hdef1]; simp, hclosed, inv2.cdeps, ?_⟩
              intro k hk
              rw [inv2.store] at hk
              exact Before.of_mem hk c
        · cases h
    · simp only [hc] at h ⊢
      cases h
      exact ⟨inv1, by simp [hr1]⟩

theorem drop_cons_get {α} : ∀ (l : List α) (i : Nat) (a : α) (r : List α),
    l.drop i = a :: r → l[i]? = some a ∧ l.drop (i + 1) = r := by
  intro l
  induction l with
  | nil => intro i a r h; simp at h
  | cons x xs ih =>
    intro i a r h
    cases i with
    | zero => simp at h; simp [h.1, h.2]
    | succ i =>
      simp only [List.drop_succ_cons] at h
      have := ih i a r h
      simpa using this

theorem lLoop_inv {items : List LItem} : ∀ (rest : List LItem) (i : Nat) (st st' : LState),
    items.drop i = rest → LInv items st → lLoop items i rest st = .ok st' →
    LInv items st' ∧ st'.runs.map Prod.fst = st.runs.map Prod.fst ++ constPositions i rest := by
  intro rest
  induction rest with
  | nil =>
    intro i st st' _ inv h
    simp only [lLoop] at h
    cases h
    exact ⟨inv, by simp [constPositions]⟩
  | cons it rest ih =>
    intro i st st' hdrop inv h
    obtain ⟨hit, hdrop'⟩ := drop_cons_get items i it rest hdrop
    simp only [lLoop, bind, Except.bind] at h
    cases hs : lStep items st i it with
    | error e => rw [hs] at h; cases h
    | ok st1 =>
      rw [hs] at h
      obtain ⟨inv1, hr1⟩ := lStep_inv hit inv hs
      obtain ⟨inv', hr'⟩ := ih (i + 1) st1 st' hdrop' inv1 h
      refine ⟨inv', ?_⟩
      rw [hr', hr1]
      by_cases hc : it.isConst = true <;> simp [constPositions, hc]

theorem LReach.closed {items : List LItem} {D : List Nat}
    (hD : ∀ p, p ∈ D → ∀ q, LEdge items p q → q ∈ D) {a b : Nat} (r : LReach items a b) (ha : a ∈ D) :
    b ∈ D := by
  induction r with
  | refl => exact ha
  | step e _ ih => exact ih (hD _ ha _ e)

end RotoV.Tarjan
