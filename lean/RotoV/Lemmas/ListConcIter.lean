/-
  C16 — lemmas about live iterators over shared lists (Model/ListConcIter):
  spec-level facts about runs in which nobody swaps a list (it only grows at
  its end, so what a successful `get` returned stays where it was), and the
  shape of the operations an iterator issues.
-/
import RotoV.Model.ListConcIter
import RotoV.Lemmas.ListConc

namespace RotoV.ListConc
open RotoV

theorem specRun_cons (σ : Spec) (op : Op) (rest : List Op) :
    specRun σ (op :: rest) =
      ((specOp σ op).1 :: (specRun (specOp σ op).2 rest).1, (specRun (specOp σ op).2 rest).2) := by
  simp [specRun]

theorem specRun_cons_inv {σ : Spec} {op : Op} {rest : List Op} {r : Res} {rs : List Res} {σ' : Spec}
    (h : specRun σ (op :: rest) = (r :: rs, σ')) :
    (specOp σ op).1 = r ∧ specRun (specOp σ op).2 rest = (rs, σ') := by
  rw [specRun_cons] at h
  have ha := congrArg Prod.fst h
  have hb := congrArg Prod.snd h
  simp only [List.cons.injEq] at ha
  exact ⟨ha.1, Prod.ext ha.2 hb⟩

/-- an operation that is not a swap of `l` leaves `l`'s old contents as a prefix -/
theorem specOp_prefix (σ : Spec) (op : Op) (l : Nat) (h : ∀ i j, op ≠ .swap l i j) :
    σ l <+: (specOp σ op).2 l := by
  cases op with
  | push l' v =>
    simp only [specOp, upd]
    by_cases hl : l = l'
    · subst hl; simp
    · simp [hl]
  | swap l' i j =>
    simp only [specOp, upd]
    by_cases hl : l = l'
    · subst hl; exact absurd rfl (h i j)
    · simp [hl]
  | _ => simp [specOp]

theorem specRun_prefix (ops : List Op) (σ : Spec) (l : Nat)
    (h : ∀ op ∈ ops, ∀ i j, op ≠ .swap l i j) : σ l <+: (specRun σ ops).2 l := by
  induction ops generalizing σ with
  | nil => simp [specRun]
  | cons op rest ih =>
    rw [specRun_cons]
    exact (specOp_prefix σ op l (h op (by simp))).trans
      (ih (specOp σ op).2 (fun o ho => h o (by simp [ho])))

theorem prefix_getElem? {α : Type} {a b : List α} (h : a <+: b) {i : Nat} {v : α}
    (hv : a[i]? = some v) : b[i]? = some v := by
  obtain ⟨t, rfl⟩ := h
  have hi : i < a.length := by
    rcases Nat.lt_or_ge i a.length with h | h
    · exact h
    · rw [List.getElem?_eq_none h] at hv; cases hv
  rw [List.getElem?_append_left hi]; exact hv

/-- in a sequential run in which nobody swaps `l`, whatever a successful
    `get l i` returned is still at index `i` at the end -/
theorem specRun_get_stable (l : Nat) (ds : List Done) (σ σ' : Spec)
    (hrun : specRun σ (ds.map (·.op)) = (ds.map (·.res), σ'))
    (hns : ∀ d ∈ ds, ∀ i j, d.op ≠ .swap l i j) :
    ∀ d ∈ ds, ∀ i v, d.op = .get l i → d.res = .opt (some v) → (σ' l)[i]? = some v := by
  induction ds generalizing σ with
  | nil => intro d hd; cases hd
  | cons d0 rest ih =>
    simp only [List.map_cons] at hrun
    obtain ⟨h1, h2⟩ := specRun_cons_inv hrun
    intro d hd i v hop hres
    rcases List.mem_cons.1 hd with rfl | hd
    · rw [hop] at h1
      simp only [specOp] at h1
      rw [hres] at h1
      have hv : (σ l)[i]? = some v := by injection h1
      have hσ : (specOp σ (.get l i)).2 = σ := by simp [specOp]
      have hp : σ l <+: σ' l := by
        have := specRun_prefix (rest.map (·.op)) (specOp σ d.op).2 l (by
          intro o ho
          obtain ⟨d', hd', rfl⟩ := List.mem_map.1 ho
          exact hns d' (by simp [hd']))
        rw [h2] at this
        rw [hop, hσ] at this
        exact this
      exact prefix_getElem? hp hv
    · exact ih (specOp σ d0.op).2 h2 (fun d' hd' => hns d' (by simp [hd'])) d hd i v hop hres

/-- a `clone` returns unit -/
theorem specRun_clone_unit (ds : List Done) (σ σ' : Spec)
    (hrun : specRun σ (ds.map (·.op)) = (ds.map (·.res), σ')) :
    ∀ d ∈ ds, ∀ l, d.op = .clone l → d.res = .unit := by
  induction ds generalizing σ with
  | nil => intro d hd; cases hd
  | cons d0 rest ih =>
    simp only [List.map_cons] at hrun
    obtain ⟨h1, h2⟩ := specRun_cons_inv hrun
    intro d hd l hop
    rcases List.mem_cons.1 hd with rfl | hd
    · rw [hop] at h1; simp only [specOp] at h1; exact h1.symm
    · exact ih (specOp σ d0.op).2 h2 d hd l hop

theorem yielded_cons_some (v : Nat) (rs : List Res) :
    yielded (.opt (some v) :: rs) = v :: yielded rs := rfl

theorem yielded_cons_other (r : Res) (rs : List Res) (h : ∀ v, r ≠ .opt (some v)) :
    yielded (r :: rs) = yielded rs := by
  cases r with
  | opt o =>
    cases o with
    | none => rfl
    | some v => exact absurd rfl (h v)
  | _ => rfl

/-- the `next` calls of an iterator whose cursor is `c`, with the decisions of
    `IntoIter::next` as generated (`hidx`, `hafter`): if every element a
    successful `get l i` returned is at index `i` of `final`, the items yielded
    are `final[c], final[c+1], …` -/
theorem iter_yield_aux (l : Nat) (final : List Nat)
    (hidx : ∀ c, Gen.ListIter.nextIndex (iterView c) = c)
    (hafter : ∀ c, Gen.ListIter.nextIdxAfter (iterView c) = c + 1) :
    ∀ (n c : Nat) (F : List Done),
      resolved (some (l, c)) (List.replicate n .iterNext) (F.map (·.res)) = F.map (·.op) →
      (∀ d ∈ F, ∀ i v, d.op = .get l i → d.res = .opt (some v) → final[i]? = some v) →
      yielded (F.map (·.res)) = (final.drop c).take (yielded (F.map (·.res))).length := by
  intro n
  induction n with
  | zero =>
    intro c F h _
    cases F with
    | nil => simp [yielded]
    | cons d F' => simp [resolved] at h
  | succ n ih =>
    intro c F h hget
    cases F with
    | nil => simp [yielded]
    | cons d F' =>
      simp only [List.replicate_succ, List.map_cons, resolved, iresolve, hidx] at h
      have hop : d.op = .get l c := (List.cons.inj h).1.symm
      have htail := (List.cons.inj h).2
      by_cases hs : ∃ v, d.res = .opt (some v)
      · obtain ⟨v, hv⟩ := hs
        have hfin : final[c]? = some v := hget d (by simp) c v hop hv
        rw [hv] at htail
        simp only [iadvance, hafter] at htail
        have := ih (c + 1) F' htail (fun d' hd' => hget d' (by simp [hd']))
        simp only [List.map_cons, hv, yielded_cons_some, List.length_cons]
        have hc : c < final.length := by
          rcases Nat.lt_or_ge c final.length with h | h
          · exact h
          · rw [List.getElem?_eq_none h] at hfin; cases hfin
        have hcv : final[c] = v := by
          rw [List.getElem?_eq_getElem hc] at hfin; injection hfin
        rw [List.drop_eq_getElem_cons hc, List.take_succ_cons, hcv, ← this]
      · have hne : ∀ v, d.res ≠ .opt (some v) := fun v hv => hs ⟨v, hv⟩
        have hadv : iadvance (some (l, c)) .iterNext d.res = some (l, c) := by
          cases hr : d.res with
          | opt o =>
            cases o with
            | none => rfl
            | some v => exact absurd hr (hne v)
          | _ => rfl
        rw [hadv] at htail
        have := ih c F' htail (fun d' hd' => hget d' (by simp [hd']))
        simp only [List.map_cons, yielded_cons_other d.res _ hne]
        exact this

/-- **Iterator under pushes.** From what `atomic_ops_linearizable` gives for a
    run (`hsim`, `hres`, `hord`): if thread `t`'s static program is what a
    thread that makes an iterator over `l` and calls `next` up to `n` times
    issued (`Follows`), and no executed operation swaps `l`, then the items
    the iterator yielded are a prefix of `l`'s final contents. -/
theorem iter_prefix_of_linearizable (hist : List Done) (σ0 σ' : Spec)
    (results : List Res) (prog rest : List Op) (t l n : Nat)
    (hstart : Gen.ListIter.startIdx = 0)
    (hidx : ∀ c, Gen.ListIter.nextIndex (iterView c) = c)
    (hafter : ∀ c, Gen.ListIter.nextIdxAfter (iterView c) = c + 1)
    (hsim : specRun σ0 (hist.map (·.op)) = (hist.map (·.res), σ'))
    (hres : results = (hist.filter (·.tid = t)).map (·.res))
    (hord : (hist.filter (·.tid = t)).map (·.op) ++ rest = prog)
    (hfol : Follows (.iterNew l :: List.replicate n .iterNext) prog results)
    (hns : ∀ d ∈ hist, ∀ i j, d.op ≠ .swap l i j) :
    yielded results <+: σ' l := by
  have hstable := specRun_get_stable l hist σ0 σ' hsim hns
  have hclone := specRun_clone_unit hist σ0 σ' hsim
  generalize hF : hist.filter (·.tid = t) = F at hres hord
  have hmem : ∀ d ∈ F, d ∈ hist := by
    intro d hd; rw [← hF] at hd; exact (List.mem_filter.1 hd).1
  subst hres
  unfold Follows at hfol
  rw [← hord, List.length_map, ← List.length_map (f := (·.op)), List.take_left] at hfol
  cases F with
  | nil => simp [yielded]
  | cons d F' =>
    simp only [List.map_cons, resolved, iresolve] at hfol
    have hop : d.op = .clone l := (List.cons.inj hfol).1.symm
    have htail := (List.cons.inj hfol).2
    simp only [iadvance, hstart] at htail
    have hunit : d.res = .unit := hclone d (hmem d (by simp)) l hop
    have := iter_yield_aux l (σ' l) hidx hafter n 0 F' htail
      (fun d' hd' i v ho hr => hstable d' (hmem d' (by simp [hd'])) i v ho hr)
    simp only [List.map_cons, hunit]
    rw [yielded_cons_other .unit _ (by intro v h; cases h)]
    rw [this, List.drop_zero]
    exact List.take_prefix _ _

theorem step_ext {F : Facts} {t : Nat} {s s2 s' : State} {ext : Nat → List Op}
    (h : ExtBy ext s s2) (hs : step F t s = some s') :
    ∃ s2', step F t s2 = some s2' ∧ ExtBy ext s' s2' := by
  obtain ⟨hc, hh, ht, hsp, hth⟩ := h
  unfold step at hs ⊢
  simp only [hth t, hc, hh, ht, hsp]
  by_cases hhalt : (s.threads t).halted = true
  · simp [hhalt] at hs
  · simp only [hhalt] at hs ⊢
    cases hp : (s.threads t).prog with
    | nil => simp [hp] at hs
    | cons op rest =>
      simp only [hp, List.cons_append] at hs ⊢
      cases ho : opStep F t s.cells (s.threads t).ptr (s.threads t).acc op (s.threads t).pc with
      | none => simp [ho] at hs
      | some o =>
        simp only [ho] at hs ⊢
        cases hn : o.next with
        | cont =>
          simp only [hn] at hs ⊢
          injection hs with hs; subst hs
          refine ⟨_, rfl, rfl, rfl, rfl, rfl, ?_⟩
          intro u
          by_cases hu : u = t
          · subst hu; simp [upd]
          · simp [upd, hu, hth u]
        | done r =>
          simp only [hn] at hs ⊢
          injection hs with hs; subst hs
          refine ⟨_, rfl, rfl, rfl, rfl, rfl, ?_⟩
          intro u
          by_cases hu : u = t
          · subst hu; simp [upd]
          · simp [upd, hu, hth u]
        | trap =>
          simp only [hn] at hs ⊢
          injection hs with hs; subst hs
          refine ⟨_, rfl, rfl, rfl, rfl, rfl, ?_⟩
          intro u
          by_cases hu : u = t
          · subst hu; simp [upd]
          · simp [upd, hu, hth u]

theorem run_ext {F : Facts} {ext : Nat → List Op} (sched : List Nat) :
    ∀ {s s2 s' : State}, ExtBy ext s s2 → run F s sched = some s' →
      ∃ s2', run F s2 sched = some s2' ∧ ExtBy ext s' s2' := by
  induction sched with
  | nil => intro s s2 s' h hr; simp only [run] at hr ⊢; injection hr with hr; subst hr; exact ⟨s2, rfl, h⟩
  | cons t rest ih =>
    intro s s2 s' h hr
    simp only [run] at hr ⊢
    cases hs : step F t s with
    | none => simp [hs] at hr
    | some s1 =>
      simp only [hs] at hr
      obtain ⟨s21, h21, he⟩ := step_ext h hs
      simp only [h21]
      exact ih he hr

theorem extendProgs_getD (progs : List (List Op)) (more : Nat → List Op) (t : Nat) :
    (extendProgs progs more).getD t [] =
      progs.getD t [] ++ (if t < progs.length then more t else []) := by
  unfold extendProgs
  by_cases ht : t < progs.length
  · simp [List.getD, ht]
  · simp [List.getD, ht]

theorem init_ext (lists : List (List Nat)) (progs : List (List Op)) (more : Nat → List Op) :
    ExtBy (fun t => if t < progs.length then more t else [])
      (init lists progs) (init lists (extendProgs progs more)) := by
  refine ⟨?_, rfl, rfl, rfl, ?_⟩
  · simp [init, extendProgs]
  · intro t
    simp only [init, extendProgs_getD]

end RotoV.ListConc
