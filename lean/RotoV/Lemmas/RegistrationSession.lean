/-
  C18 — histories of adds (`Model/RegistrationSession.lean`).

  * the in-place passes (`…IP`) and the functional passes of
    `Model/Registration.lean` give the same verdict and, on success, the same
    state (`addIP_toRes`, `stepIP_outcome`, `stepIP_ok_state`): the two ways of
    running `Rt::add` differ only in what a *rejected* add leaves behind;
  * all-or-nothing histories: a rejected add is the identity
    (`step_rejected_noop`), a history is the history of its accepted libraries
    (`session_accepted_only`).
-/
import RotoV.Model.RegistrationSession
import RotoV.Lemmas.Registration

namespace RotoV.Reg

@[simp] theorem IPRes.toRes_ok (st : St) : IPRes.toRes (st, .ok ()) = .ok st := rfl
@[simp] theorem IPRes.toRes_err (st : St) (e : Err) : IPRes.toRes (st, .err e) = .err e := rfl
@[simp] theorem IPRes.toRes_panic (st : St) (s : Site) : IPRes.toRes (st, .panic s) = .panic s := rfl

theorem ipLeaf_toRes (st : St) (r : Res St) : (ipLeaf st r).toRes = r := by
  cases r <;> rfl

section
variable (cfg : Cfg) (lex : Name → Lex)

mutual
theorem declModulesIP_toRes (parent : Option ScopeId) :
    ∀ (is : Items) (st : St), (declModulesIP parent is st).toRes = declModules parent is st
  | .nil, st => rfl
  | .cons i is, st => by
    have h := declModulesItemIP_toRes parent i st
    simp only [declModulesIP, declModules]
    rcases hr : declModulesItemIP parent i st with ⟨st', r⟩
    rw [hr] at h
    cases r with
    | ok u => cases u; simp only [IPRes.toRes_ok] at h; rw [← h]; exact declModulesIP_toRes parent is st'
    | err e => simp only [IPRes.toRes_err] at h; rw [← h]; rfl
    | panic s => simp only [IPRes.toRes_panic] at h; rw [← h]; rfl
theorem declModulesItemIP_toRes (parent : Option ScopeId) :
    ∀ (i : Item) (st : St), (declModulesItemIP parent i st).toRes = declModulesItem parent i st
  | .module n ch, st => by
    simp only [declModulesItemIP, declModulesItem]
    cases declareModule (parent.getD []) n st with
    | ok p => obtain ⟨st', ms⟩ := p; exact declModulesIP_toRes (some ms) ch st'
    | err e => rfl
    | panic s => rfl
  | .type _ _, st => rfl
  | .function _ _ _ _, st => rfl
  | .constant _ _ _, st => rfl
  | .impl _ _, st => rfl
  | .use _, st => rfl
end

theorem declMethodsIP_toRes (scope : ScopeId) :
    ∀ (is : Items) (st : St), (declMethodsIP cfg lex scope is st).toRes = declMethods cfg lex scope is st
  | .nil, st => rfl
  | .cons (.function n ps r tag) is, st => by
    simp only [declMethodsIP, declMethods]
    cases declareFunction cfg lex scope n ps r tag true st with
    | ok st' => exact declMethodsIP_toRes scope is st'
    | err e => rfl
    | panic s => rfl
  | .cons (.impl _ _) _, st => rfl
  | .cons (.type _ _) _, st => rfl
  | .cons (.module _ _) _, st => rfl
  | .cons (.use _) is, st => by
    simp only [declMethodsIP, declMethods]; exact declMethodsIP_toRes scope is st
  | .cons (.constant _ _ _) is, st => by
    simp only [declMethodsIP, declMethods]; exact declMethodsIP_toRes scope is st

theorem declImplConstantsIP_toRes (scope : ScopeId) :
    ∀ (is : Items) (st : St), (declImplConstantsIP scope is st).toRes = declImplConstants scope is st
  | .nil, st => rfl
  | .cons (.constant n ty tag) is, st => by
    simp only [declImplConstantsIP, declImplConstants]
    cases declareConstant scope n ty tag st with
    | ok st' => exact declImplConstantsIP_toRes scope is st'
    | err e => rfl
    | panic s => rfl
  | .cons (.module _ _) _, st => rfl
  | .cons (.impl _ _) _, st => rfl
  | .cons (.type _ _) is, st => by
    simp only [declImplConstantsIP, declImplConstants]; exact declImplConstantsIP_toRes scope is st
  | .cons (.function _ _ _ _) is, st => by
    simp only [declImplConstantsIP, declImplConstants]; exact declImplConstantsIP_toRes scope is st
  | .cons (.use _) is, st => by
    simp only [declImplConstantsIP, declImplConstants]; exact declImplConstantsIP_toRes scope is st

theorem passLeafIP_toRes (p : Pass) (scope : ScopeId) (i : Item) (st : St) :
    (passLeafIP cfg lex p scope i st).toRes = passLeaf cfg lex p scope i st := by
  cases p <;> cases i <;> simp only [passLeafIP, passLeaf, ipLeaf_toRes, IPRes.toRes_ok]
  · cases implScopeC cfg scope _ st with
    | ok s => exact declMethodsIP_toRes cfg lex s _ st
    | err e => rfl
    | panic s => rfl
  · cases implScopeC cfg scope _ st with
    | ok s => exact declImplConstantsIP_toRes s _ st
    | err e => rfl
    | panic s => rfl

mutual
theorem walkIP_toRes (p : Pass) :
    ∀ (is : Items) (scope : ScopeId) (st : St), (walkIP cfg lex p scope is st).toRes = walk cfg lex p scope is st
  | .nil, _, st => rfl
  | .cons i is, scope, st => by
    have h := walkItemIP_toRes p i scope st
    simp only [walkIP, walk]
    rcases hr : walkItemIP cfg lex p scope i st with ⟨st', r⟩
    rw [hr] at h
    cases r with
    | ok u => cases u; simp only [IPRes.toRes_ok] at h; rw [← h]; exact walkIP_toRes p is scope st'
    | err e => simp only [IPRes.toRes_err] at h; rw [← h]; rfl
    | panic s => simp only [IPRes.toRes_panic] at h; rw [← h]; rfl
theorem walkItemIP_toRes (p : Pass) :
    ∀ (i : Item) (scope : ScopeId) (st : St), (walkItemIP cfg lex p scope i st).toRes = walkItem cfg lex p scope i st
  | .module n ch, scope, st => by
    simp only [walkItemIP, walkItem]
    cases st.getScopeOf scope n with
    | none => rfl
    | some s => exact walkIP_toRes p ch s st
  | .type n id, scope, st => by simp only [walkItemIP, walkItem]; exact passLeafIP_toRes cfg lex p scope _ st
  | .function n ps r tag, scope, st => by simp only [walkItemIP, walkItem]; exact passLeafIP_toRes cfg lex p scope _ st
  | .constant n ty tag, scope, st => by simp only [walkItemIP, walkItem]; exact passLeafIP_toRes cfg lex p scope _ st
  | .impl ty ch, scope, st => by simp only [walkItemIP, walkItem]; exact passLeafIP_toRes cfg lex p scope _ st
  | .use ps, scope, st => by simp only [walkItemIP, walkItem]; exact passLeafIP_toRes cfg lex p scope _ st
end

theorem declareImportListIP_toRes (scope : ScopeId) :
    ∀ (ps : List (List Name)) (st : St),
      (declareImportListIP cfg scope ps st).toRes = declareImportList cfg scope ps st
  | [], st => rfl
  | p :: ps, st => by
    simp only [declareImportListIP, declareImportList]
    cases declareImport cfg scope p st with
    | ok st' => exact declareImportListIP_toRes scope ps st'
    | err e => rfl
    | panic s => rfl

mutual
theorem declImportsIP_toRes (scope : ScopeId) :
    ∀ (is : Items) (st : St), (declImportsIP cfg scope is st).toRes = declImports cfg scope is st
  | .nil, st => rfl
  | .cons i is, st => by
    have h := declImportsItemIP_toRes scope i st
    simp only [declImportsIP, declImports]
    rcases hr : declImportsItemIP cfg scope i st with ⟨st', r⟩
    rw [hr] at h
    cases r with
    | ok u => cases u; simp only [IPRes.toRes_ok] at h; rw [← h]; exact declImportsIP_toRes scope is st'
    | err e => simp only [IPRes.toRes_err] at h; rw [← h]; rfl
    | panic s => simp only [IPRes.toRes_panic] at h; rw [← h]; rfl
theorem declImportsItemIP_toRes (scope : ScopeId) :
    ∀ (i : Item) (st : St), (declImportsItemIP cfg scope i st).toRes = declImportsItem cfg scope i st
  | .use paths, st => by
    simp only [declImportsItemIP, declImportsItem]; exact declareImportListIP_toRes cfg scope paths st
  | .module _ ch, st => by
    simp only [declImportsItemIP, declImportsItem]; exact declImportsIP_toRes scope ch st
  | .type _ _, st => rfl
  | .function _ _ _ _, st => rfl
  | .constant _ _ _, st => rfl
  | .impl _ _, st => rfl
end

/-- the five passes in place and the five passes on a copy: same verdict, and
    the same runtime when every pass succeeds -/
theorem addIP_toRes (st : St) (items : Items) : (addIP cfg lex st items).toRes = add cfg lex st items := by
  unfold addIP add
  have h1 := declModulesIP_toRes none items st
  rcases hr1 : declModulesIP none items st with ⟨st1, r1⟩
  rw [hr1] at h1
  cases r1 with
  | err e => simp only [IPRes.toRes_err] at h1; rw [← h1]; rfl
  | panic s => simp only [IPRes.toRes_panic] at h1; rw [← h1]; rfl
  | ok u =>
    cases u; simp only [IPRes.toRes_ok] at h1; rw [← h1]; dsimp only
    have h2 := walkIP_toRes cfg lex .types items [] st1
    rcases hr2 : walkIP cfg lex .types [] items st1 with ⟨st2, r2⟩
    rw [hr2] at h2
    cases r2 with
    | err e => simp only [IPRes.toRes_err] at h2; rw [← h2]; rfl
    | panic s => simp only [IPRes.toRes_panic] at h2; rw [← h2]; rfl
    | ok u =>
      cases u; simp only [IPRes.toRes_ok] at h2; rw [← h2]; dsimp only
      have h3 := walkIP_toRes cfg lex .functions items [] st2
      rcases hr3 : walkIP cfg lex .functions [] items st2 with ⟨st3, r3⟩
      rw [hr3] at h3
      cases r3 with
      | err e => simp only [IPRes.toRes_err] at h3; rw [← h3]; rfl
      | panic s => simp only [IPRes.toRes_panic] at h3; rw [← h3]; rfl
      | ok u =>
        cases u; simp only [IPRes.toRes_ok] at h3; rw [← h3]; dsimp only
        have h4 := walkIP_toRes cfg lex .constants items [] st3
        rcases hr4 : walkIP cfg lex .constants [] items st3 with ⟨st4, r4⟩
        rw [hr4] at h4
        cases r4 with
        | err e => simp only [IPRes.toRes_err] at h4; rw [← h4]; rfl
        | panic s => simp only [IPRes.toRes_panic] at h4; rw [← h4]; rfl
        | ok u =>
          cases u; simp only [IPRes.toRes_ok] at h4; rw [← h4]; dsimp only
          exact declImportsIP_toRes cfg [] items st4

theorem IPRes.toRes_outcome (r : IPRes) : r.toRes.outcome = r.2.outcome := by
  obtain ⟨st, r⟩ := r
  cases r with
  | ok u => cases u; rfl
  | err e => rfl
  | panic s => rfl

/-- in place or on a copy, the host is told the same -/
theorem stepIP_outcome (st : St) (items : Items) :
    (stepIP cfg lex st items).2 = (step cfg lex st items).2 := by
  unfold stepIP step register
  by_cases hn : namesOk cfg lex items = true
  · simp only [hn, if_true]
    rw [← addIP_toRes cfg lex st items]
    rcases addIP cfg lex st items with ⟨st', r⟩
    cases r with
    | ok u => cases u; rfl
    | err e => rfl
    | panic s => rfl
  · simp only [hn]; rfl

/-- … and an accepted library leaves the same runtime -/
theorem stepIP_ok_state (st : St) (items : Items) (h : (step cfg lex st items).2 = .ok) :
    (stepIP cfg lex st items).1 = (step cfg lex st items).1 := by
  unfold stepIP step register at *
  by_cases hn : namesOk cfg lex items = true
  · simp only [hn, if_true] at h ⊢
    rw [← addIP_toRes cfg lex st items] at h ⊢
    generalize addIP cfg lex st items = a at h ⊢
    obtain ⟨st', r⟩ := a
    cases r with
    | ok u => cases u; rfl
    | err e => simp [IPRes.toRes] at h
    | panic s => simp [IPRes.toRes] at h
  · simp only [hn] at h; simp at h

/-! ## all or nothing -/

/-- a rejected add is the identity on the runtime -/
theorem step_rejected_noop (st : St) (items : Items) (h : (step cfg lex st items).2 ≠ .ok) :
    (step cfg lex st items).1 = st := by
  unfold step at *
  cases hr : register cfg lex st items with
  | ok st' => rw [hr] at h; exact absurd rfl h
  | err e => rfl
  | panic s => rfl

/-- an accepted add is `register` -/
theorem step_ok_iff (st : St) (items : Items) (st' : St) :
    step cfg lex st items = (st', .ok) ↔ register cfg lex st items = .ok st' := by
  unfold step
  cases register cfg lex st items with
  | ok a => simp
  | err e => simp
  | panic s => simp

/-- the libraries of a history that were accepted, in order -/
def accepted (st : St) : List Items → List Items
  | [] => []
  | l :: ls =>
    let r := step cfg lex st l
    if r.2 = .ok then l :: accepted r.1 ls else accepted r.1 ls

/-- **A history is the history of its accepted libraries**: the runtime after
    any sequence of adds — rejected ones included, wherever they stand — is the
    runtime after adding the accepted libraries alone, and every one of those is
    accepted again.  So whatever is added after a rejected add, and whatever a
    script then sees, is as if the rejected library had never been offered. -/
theorem session_accepted_only :
    ∀ (libs : List Items) (st : St),
      session cfg lex st (accepted cfg lex st libs) =
        ((session cfg lex st libs).1, (accepted cfg lex st libs).map (fun _ => Outcome.ok))
  | [], st => rfl
  | l :: ls, st => by
    by_cases h : (step cfg lex st l).2 = .ok
    · have ih := session_accepted_only ls (step cfg lex st l).1
      simp only [accepted, h, if_true, session, List.map_cons]
      rw [ih]
    · have hn := step_rejected_noop cfg lex st l h
      have ih := session_accepted_only ls st
      simp only [accepted, h, if_false, session, hn]
      rw [ih]

end

end RotoV.Reg
