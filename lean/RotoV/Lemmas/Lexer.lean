/-
  Lemmas about the lexer model (`Model/Lexer.lean`) behind property C06.
-/
import RotoV.Lemmas.LexerBasics
import RotoV.Lemmas.LexerDriver

namespace RotoV.Lex
open RotoV RotoV.Gen.LexTables

/-- two boundaries of the same text are nested -/
theorem prefix_of_blen_le {p1 q1 p2 q2 : List Char} (h : p1 ++ q1 = p2 ++ q2)
    (hle : blen p1 ≤ blen p2) : ∃ m, p2 = p1 ++ m := by
  induction p1 generalizing p2 with
  | nil => exact ⟨p2, rfl⟩
  | cons c cs ih =>
    cases p2 with
    | nil => have := sz_pos c; simp at hle; omega
    | cons d ds =>
      simp only [List.cons_append, List.cons.injEq] at h
      obtain ⟨rfl, h⟩ := h
      simp only [blen_cons] at hle
      obtain ⟨m, rfl⟩ := ih h (by omega)
      exact ⟨m, rfl⟩

/-- T3: `Span::character_range` never slices off a boundary for a span that
lies inside the file on character boundaries. -/
theorem characterRange_ok (file : List Char) (sp : Span) (h : SpanOk file sp) :
    ∃ a b, characterRange file sp = .ok (a, b) ∧ a ≤ b ∧ b ≤ file.length := by
  obtain ⟨hle, ⟨p1, q1, h1, hb1⟩, ⟨p2, q2, h2, hb2⟩⟩ := h
  obtain ⟨m, rfl⟩ := prefix_of_blen_le (h1.symm.trans h2) (by omega)
  have hq1 : q1 = m ++ q2 := by
    have := h1.symm.trans h2; simpa using this
  have hs1 : splitAt file sp.1 = .ok (p1, q1) := by rw [h1, ← hb1]; exact splitAt_append _ _
  have hm : blen m = sp.2 - sp.1 := by rw [blen_append] at hb2; omega
  have hs2 : splitAt q1 (sp.2 - sp.1) = .ok (m, q2) := by rw [hq1, ← hm]; exact splitAt_append _ _
  refine ⟨p1.length, p1.length + m.length, ?_, by omega, ?_⟩
  · simp [characterRange, sliceTo, slice, hs1, usub_ok hle, hs2]
  · rw [h2]; simp

end RotoV.Lex
