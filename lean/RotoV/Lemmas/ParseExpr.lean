/-
  Specifications of the expression / block functions of the parser model
  (`Model/Parse.lean`: `block`, `assign_expr`, `binop_expr`, `negation`,
  `access`, `atom`, `record`, `if_else`, `while_expr`, `for_expr`, `match_expr`,
  `f_string` and their loops), property C06: one simultaneous induction on the
  fuel. Ranks (see `FB`): the loops, `block`, `record`, `if_else`, `while_expr`,
  `for_expr`, `match_expr`, `f_string` 1; `atom` 2; `access` 3; `negation` 4;
  `binop_expr` 5; `assign_expr`, `compound_assign_expr` 6; the loop of `block`
  7; its continuation after `if`/`match`/`while`/`for` 8.
-/
import RotoV.Lemmas.ParseTypes
import RotoV.Lemmas.ParseFText

namespace RotoV.Parse
open RotoV RotoV.Lex

/-- the windows of `atom` can be tried in order without `peek_many` panicking:
each is at least as long as the queue can be and at most 3 -/
def winOk : Nat → List (List String) → Bool
  | _, [] => true
  | b, w :: ws => decide (b ≤ w.length) && decide (w.length ≤ 3) && winOk w.length ws

/-- obligation on GENERATED code: `relative_associativity` never panics -/
theorem rel_ok (p op : BinOp) : ∃ a, Gen.Precedence.relative_associativity true p op = .ok a := by
  cases p <;> cases op <;> exact ⟨_, rfl⟩

theorem find_of_contains (l : List (String × String)) (x : String)
    (h : (l.map (·.1)).contains x = true) : ∃ e, l.find? (fun e => e.1 == x) = some e := by
  have hm : x ∈ l.map (·.1) := List.contains_iff_mem.mp h
  obtain ⟨e, he, hx⟩ := List.mem_map.mp hm
  have : (l.find? (fun e => e.1 == x)).isSome := List.find?_isSome.mpr ⟨e, he, by simp [hx]⟩
  exact Option.isSome_iff_exists.mp this

section
variable (T : LexOk) {c : Ctx} (hl : LitOk c)
include T

theorem isRecord_spec (ws : List (List String)) {b : Nat} {s0 : PState} (h : InvB b c s0)
    (hw : winOk b ws = true) (hb : b ≤ 3) :
    SpecR c False (fun _ s => InvB 3 c s ∧ μ s ≤ μ s0 ∧ nsz s = nsz s0) (isRecord c ws s0) := by
  induction ws generalizing b s0 with
  | nil => exact ⟨h.mono hb, Nat.le_refl _, rfl⟩
  | cons w ws ih =>
    simp only [winOk, Bool.and_eq_true, decide_eq_true_eq] at hw
    obtain ⟨⟨hw1, hw2⟩, hw3⟩ := hw
    unfold isRecord
    pb peekMany_spec T stops w.length h hw1
    intro r s1 ⟨hi1, hm1, hn1⟩
    have hrest := (ih hi1 hw3 hw2).mono id
      (fun a s (hp : InvB 3 c s ∧ μ s ≤ μ s1 ∧ nsz s = nsz s1) =>
        (⟨hp.1, by have := hp.2.1; omega, by have := hp.2.2; omega⟩ : InvB 3 c s ∧ μ s ≤ μ s0 ∧ nsz s = nsz s0))
    cases r with
    | none => exact hrest
    | some toks =>
      dsimp only
      split
      · exact ⟨hi1.mono hw2, hm1, hn1⟩
      · exact hrest

include hl

/-- a non-empty text part of an f-string -/
theorem fText_spec {s0 s : PState} (sp : Span) (parts : List Sx) (hi : InvB 2 c s) (hsp : SpanOk c.src sp)
    (hm : μ s ≤ μ s0) (hn : nsz s0 ≤ nsz s) :
    SpecR c False (Post c s0 0 fun _ _ => True) (fText c sp parts s) := by
  unfold fText
  split
  · rw [fPieces_ok]
    dsimp only
    split
    · rename_i k j a b he
      obtain ⟨hf, _⟩ := hl _ _ _ _ _ _ _ he
      exact fail_ok _ hi (spanOk_in2 hsp (pieceOf_spanOk _ j) (hf rfl))
    · rw [addNode_k]
      exact ⟨hi.add hsp, by simpa using hm, by simp; omega, trivial⟩
  · exact ⟨hi, by omega, hn, trivial⟩

variable (W : winOk 2 Gen.ParseFacts.recordWindows = true)
include W

set_option maxRecDepth 4000 in
theorem expr_group (n : Nat) :
    (∀ b s0, InvB b c s0 → b ≤ 3 → SpecR c (FB n 1 s0) (Post c s0 1 Vid) (block c n s0)) ∧
    (∀ start imps stmts s0, InvB 2 c s0 → SpanOk c.src start →
      SpecR c (FB n 7 s0) (Post c s0 1 Vid) (blockLoop c n start imps stmts s0)) ∧
    (∀ start imps stmts e s0, InvB 2 c s0 → SpanOk c.src start →
      SpecR c (FB n 8 s0) (Post c s0 1 Vid) (blockKw c n start imps stmts e s0)) ∧
    (∀ r s0, InvB 2 c s0 → SpecR c (FB n 6 s0) (Post c s0 1 Vid) (assignExpr c n r s0)) ∧
    (∀ left op r s0, InvB 2 c s0 → left.id < nsz s0 →
      SpecR c (FB n 6 s0) (Post c s0 1 Vid) (compoundAssign c n left op r s0)) ∧
    (∀ prev r s0, InvB 2 c s0 → SpecR c (FB n 5 s0) (Post c s0 1 Vid) (binopExpr c n prev r s0)) ∧
    (∀ prev r lhs s0, InvB 2 c s0 → lhs.id < nsz s0 →
      SpecR c (FB n 1 s0) (Post c s0 0 Vid) (binopLoop c n prev r lhs s0)) ∧
    (∀ r s0, InvB 2 c s0 → SpecR c (FB n 4 s0) (Post c s0 1 Vid) (negation c n r s0)) ∧
    (∀ r s0, InvB 2 c s0 → SpecR c (FB n 3 s0) (Post c s0 1 Vid) (access c n r s0)) ∧
    (∀ e s0, InvB 2 c s0 → e.id < nsz s0 → SpecR c (FB n 1 s0) (Post c s0 0 Vid) (accessLoop c n e s0)) ∧
    (∀ b s0, InvB b c s0 → b ≤ 3 → SpecR c (FB n 1 s0) (Post c s0 1 Vid) (record c n s0)) ∧
    (∀ s0, InvB 2 c s0 → SpecR c (FB n 1 s0) (Post c s0 1 Vid) (recordItem c n s0)) ∧
    (∀ r s0, InvB 2 c s0 → SpecR c (FB n 2 s0) (Post c s0 1 Vid) (atom c n r s0)) ∧
    (∀ s0, InvB 2 c s0 → SpecR c (FB n 1 s0) (Post c s0 1 Vid) (ifElse c n s0)) ∧
    (∀ s0, InvB 2 c s0 → SpecR c (FB n 1 s0) (Post c s0 1 Vid) (whileExpr c n s0)) ∧
    (∀ s0, InvB 2 c s0 → SpecR c (FB n 1 s0) (Post c s0 1 Vid) (forExpr c n s0)) ∧
    (∀ s0, InvB 2 c s0 → SpecR c (FB n 1 s0) (Post c s0 1 Vid) (matchExpr c n s0)) ∧
    (∀ arms s0, InvB 2 c s0 → SpecR c (FB n 1 s0) (Post c s0 0 fun _ _ => True) (matchLoop c n arms s0)) ∧
    (∀ s0, InvB 2 c s0 → SpecR c (FB n 1 s0) (Post c s0 1 Vid) (fString c n s0)) ∧
    (∀ start parts s0, InvB 2 c s0 → SpanOk c.src start →
      SpecR c (FB n 1 s0) (Post c s0 0 Vid) (fLoop c n start parts s0)) := by
  induction n with
  | zero =>
    refine ⟨?_, ?_, ?_, ?_, ?_, ?_, ?_, ?_, ?_, ?_, ?_, ?_, ?_, ?_, ?_, ?_, ?_, ?_, ?_, ?_⟩ <;> intros <;>
      simp only [block, blockLoop, blockKw, assignExpr, compoundAssign, binopExpr, binopLoop, negation, access,
        accessLoop, record, recordItem, atom, ifElse, whileExpr, forExpr, matchExpr, matchLoop, fString, fLoop,
        SpecR, FB] <;> omega
  | succ n ih =>
    obtain ⟨iBlock, iBlockLoop, iBlockKw, iAssign, iCompound, iBinop, iBinopLoop, iNeg, iAccess, iAccessLoop,
      iRecord, iRecordItem, iAtom, iIf, iWhile, iFor, iMatch, iMatchLoop, iFString, iFLoop⟩ := ih
    -- the closure `assignExpr c n false` as an item of `separated`, for a caller of rank `r`
    have exprItem : ∀ (s0 : PState) (r : Nat), ∀ s1, InvB 2 c s1 → μ s1 + 1 ≤ μ s0 →
        SpecR c (FB (n + 1) r s0) (Post c s1 0 fun _ _ => True) (assignExpr c n false s1) :=
      fun s0 r s1 hi1 hm1 => (iAssign false s1 hi1).mono (by intro hF; simp only [FB] at hF ⊢; omega)
        fun _ _ hp => hp.weak
    refine ⟨?_, ?_, ?_, ?_, ?_, ?_, ?_, ?_, ?_, ?_, ?_, ?_, ?_, ?_, ?_, ?_, ?_, ?_, ?_, ?_⟩
    -- block
    · intro b s0 h hb
      unfold block
      pb take_spec T _ h hb
      intro start s1 ⟨hi1, hm1, hn1, hst⟩
      refine (iBlockLoop start [] [] s1 hi1 hst).mono (by intro hF; simp only [FB] at hF ⊢; omega) ?_
      intro r s2 hp
      exact hp.rebase (by omega) (by omega)
    -- blockLoop
    · intro start imps stmts s0 h hst
      unfold blockLoop
      pb peekIs_post T _ h
      intro b s1 ⟨hi1, hm1, hn1, _⟩
      cases b with
      | true =>
        simp only [if_true]
        pb take_spec T _ hi1 (by omega)
        intro e s2 ⟨hi2, hm2, hn2, he⟩
        exact addNode_ok _ _ hi2 (spanOk_merge hst he) (by omega) (by omega)
      | false =>
      simp only [Bool.false_eq_true, if_false]
      pb peekIs_post T _ hi1
      intro b s2 ⟨hi2, hm2, hn2, _⟩
      cases b with
      | true =>
        simp only [if_true]
        pb importStmt_spec T n hi2
        intro ps s3 ⟨hi3, hm3, hn3, _⟩
        refine (iBlockLoop _ _ _ s3 hi3 hst).mono (by intro hF; simp only [FB] at hF ⊢; omega) ?_
        intro r s4 hp
        exact hp.rebase (by omega) (by omega)
      | false =>
      simp only [Bool.false_eq_true, if_false]
      pb peekIs_post T _ hi2
      intro b s3 ⟨hi3, hm3, hn3, _⟩
      cases b with
      | true =>
        simp only [if_true]
        pb take_spec T _ hi3 (by omega)
        intro st s4 ⟨hi4, hm4, hn4, hst4⟩
        pb identifier_spec T hi4 (by omega)
        intro _ s5 ⟨hi5, hm5, hn5, _⟩
        pb peekIs_post T _ hi5
        intro b s6 ⟨hi6, hm6, hn6, _⟩
        have hty : SpecR c (FB (n + 1) 7 s0) (Post c s6 0 fun _ _ => True)
            (if b = true then
              (take c (pu "Colon") s6).bind fun _ s => (typeExpr c n s).bind fun t s => PR.ok [t.sx] s
            else PR.ok [] s6) := by
          cases b with
          | false => exact ⟨hi6, by omega, by omega, trivial⟩
          | true =>
            simp only [if_true]
            pb take_spec T _ hi6 (by omega)
            intro _ s7 ⟨hi7, hm7, hn7, _⟩
            pb typeExpr_spec T n hi7
            intro t s8 ⟨hi8, hm8, hn8, _⟩
            exact ⟨hi8, by omega, by omega, trivial⟩
        pb hty
        intro ty s7 ⟨hi7, hm7, hn7, _⟩
        pb take_spec T _ hi7 (by omega)
        intro _ s8 ⟨hi8, hm8, hn8, _⟩
        pb iAssign false s8 hi8
        intro e s9 ⟨hi9, hm9, hn9, _⟩
        pb take_spec T _ hi9 (by omega)
        intro en s10 ⟨hi10, hm10, hn10, hen⟩
        rw [addNode_k]
        refine (iBlockLoop _ _ _ _ (hi10.add (spanOk_merge hst4 hen)) hst).mono
          (by intro hF; simp only [FB, μ_add] at hF ⊢; omega) ?_
        intro r s11 hp
        exact hp.rebase (by simp only [μ_add]; omega) (by simp only [nsz_add]; omega)
      | false =>
      simp only [Bool.false_eq_true, if_false]
      -- the four keyword statements
      have kwStmt : ∀ (sub : PState → PR Node) (s4 : PState), InvB 2 c s4 → μ s4 ≤ μ s0 → nsz s0 ≤ nsz s4 →
          (∀ s, InvB 2 c s → SpecR c (FB n 1 s) (Post c s 1 Vid) (sub s)) →
          SpecR c (FB (n + 1) 7 s0) (Post c s0 1 Vid)
            ((sub s4).bind fun e s => blockKw c n start imps stmts e s) := by
        intro sub s4 hi4 hm4 hn4 hsub
        pb hsub s4 hi4
        intro e s5 ⟨hi5, hm5, hn5, _⟩
        refine (iBlockKw _ _ _ e s5 hi5 hst).mono (by intro hF; simp only [FB] at hF ⊢; omega) ?_
        intro r s6 hp
        exact hp.rebase (by omega) (by omega)
      pb peekIs_post T _ hi3
      intro b s4 ⟨hi4, hm4, hn4, _⟩
      cases b with
      | true => simp only [if_true]; exact kwStmt _ s4 hi4 (by omega) (by omega) iIf
      | false =>
      simp only [Bool.false_eq_true, if_false]
      pb peekIs_post T _ hi4
      intro b s5 ⟨hi5, hm5, hn5, _⟩
      cases b with
      | true => simp only [if_true]; exact kwStmt _ s5 hi5 (by omega) (by omega) iMatch
      | false =>
      simp only [Bool.false_eq_true, if_false]
      pb peekIs_post T _ hi5
      intro b s6 ⟨hi6, hm6, hn6, _⟩
      cases b with
      | true => simp only [if_true]; exact kwStmt _ s6 hi6 (by omega) (by omega) iWhile
      | false =>
      simp only [Bool.false_eq_true, if_false]
      pb peekIs_post T _ hi6
      intro b s7 ⟨hi7, hm7, hn7, _⟩
      cases b with
      | true => simp only [if_true]; exact kwStmt _ s7 hi7 (by omega) (by omega) iFor
      | false =>
      simp only [Bool.false_eq_true, if_false]
      pb iAssign false s7 hi7
      intro e s8 ⟨hi8, hm8, hn8, _⟩
      pb nextIs_spec T _ hi8
      intro b s9 ⟨hi9, hm9, hn9, _⟩
      cases b with
      | true =>
        simp only [if_true]
        refine (iBlockLoop _ _ _ s9 hi9 hst).mono (by intro hF; simp only [FB] at hF ⊢; omega) ?_
        intro r s10 hp
        exact hp.rebase (by omega) (by omega)
      | false =>
        simp only [Bool.false_eq_true, if_false]
        pb take_spec T _ hi9 (by omega)
        intro en s10 ⟨hi10, hm10, hn10, hen⟩
        exact addNode_ok _ _ hi10 (spanOk_merge hst hen) (by omega) (by omega)
    -- blockKw
    · intro start imps stmts e s0 h hst
      unfold blockKw
      pb peekIs_post T _ h
      intro b s1 ⟨hi1, hm1, hn1, _⟩
      cases b with
      | true =>
        simp only [if_true]
        pb take_spec T _ hi1 (by omega)
        intro en s2 ⟨hi2, hm2, hn2, hen⟩
        exact addNode_ok _ _ hi2 (spanOk_merge hst hen) (by omega) (by omega)
      | false =>
        simp only [Bool.false_eq_true, if_false]
        pb nextIs_spec T _ hi1
        intro _ s2 ⟨hi2, hm2, hn2, _⟩
        refine (iBlockLoop _ _ _ s2 hi2 hst).mono (by intro hF; simp only [FB] at hF ⊢; omega) ?_
        intro r s3 hp
        exact hp.rebase (by omega) (by omega)
    -- assignExpr
    · intro r s0 h
      unfold assignExpr
      pb iBinop none r s0 h
      intro left s1 ⟨hi1, hm1, hn1, hleft⟩
      have hleft' : ∀ s, nsz s1 ≤ nsz s → left.id < nsz s := fun s hs => Nat.lt_of_lt_of_le hleft hs
      have comp : ∀ (op : String) (s : PState), InvB 2 c s → μ s + 1 ≤ μ s0 → nsz s1 ≤ nsz s →
          SpecR c (FB (n + 1) 6 s0) (Post c s0 1 Vid) (compoundAssign c n left op r s) := by
        intro op s hi hm hn
        refine (iCompound left op r s hi (hleft' s hn)).mono (by intro hF; simp only [FB] at hF ⊢; omega) ?_
        intro a s' hp
        exact hp.rebase (by omega) (by omega)
      pb nextIs_spec T _ hi1
      intro b s2 ⟨hi2, hm2, hn2, hb2⟩
      cases b with
      | true =>
        simp only [if_true]
        have := hb2 rfl
        split
        · obtain ⟨sp, hsp, hk⟩ := getSpan_k hi2 (hleft' s2 hn2)
          rw [hk]
          pfail hi2, hsp
        · pb iBinop none r s2 hi2
          intro right s3 ⟨hi3, hm3, hn3, hright⟩
          obtain ⟨sp, hsp, hk⟩ := mergeSpans_k hi3 (hleft' s3 (by omega)) hright
          rw [hk]
          exact addNode_ok _ _ hi3 hsp (by omega) (by omega)
      | false =>
      simp only [Bool.false_eq_true, if_false]
      pb nextIs_spec T _ hi2
      intro b s3 ⟨hi3, hm3, hn3, _⟩
      cases b with
      | true => simp only [if_true]; exact comp _ s3 hi3 (by omega) (by omega)
      | false =>
      simp only [Bool.false_eq_true, if_false]
      pb nextIs_spec T _ hi3
      intro b s4 ⟨hi4, hm4, hn4, _⟩
      cases b with
      | true => simp only [if_true]; exact comp _ s4 hi4 (by omega) (by omega)
      | false =>
      simp only [Bool.false_eq_true, if_false]
      pb nextIs_spec T _ hi4
      intro b s5 ⟨hi5, hm5, hn5, _⟩
      cases b with
      | true => simp only [if_true]; exact comp _ s5 hi5 (by omega) (by omega)
      | false =>
      simp only [Bool.false_eq_true, if_false]
      pb nextIs_spec T _ hi5
      intro b s6 ⟨hi6, hm6, hn6, _⟩
      cases b with
      | true => simp only [if_true]; exact comp _ s6 hi6 (by omega) (by omega)
      | false =>
      simp only [Bool.false_eq_true, if_false]
      pb nextIs_spec T _ hi6
      intro b s7 ⟨hi7, hm7, hn7, _⟩
      cases b with
      | true => simp only [if_true]; exact comp _ s7 hi7 (by omega) (by omega)
      | false => exact ⟨hi7, by omega, by omega, hleft' s7 (by omega)⟩
    -- compoundAssign
    · intro left op r s0 h hleft
      unfold compoundAssign
      pb iBinop none r s0 h
      intro right s1 ⟨hi1, hm1, hn1, hright⟩
      obtain ⟨sp, hsp, hk⟩ := mergeSpans_k hi1 (show left.id < nsz s1 by omega) hright
      rw [hk]
      split
      · obtain ⟨lsp, hlsp, hk2⟩ := getSpan_k hi1 (show left.id < nsz s1 by omega)
        rw [hk2]
        pfail hi1, hlsp
      · rw [addNode_k]
        exact addNode_ok _ _ (hi1.add hsp) hsp (by simp only [μ_add]; omega) (by simp only [nsz_add]; omega)
    -- binopExpr
    · intro prev r s0 h
      unfold binopExpr
      pb iNeg r s0 h
      intro lhs s1 ⟨hi1, hm1, hn1, hlhs⟩
      refine (iBinopLoop prev r lhs s1 hi1 hlhs).mono (by intro hF; simp only [FB] at hF ⊢; omega) ?_
      intro a s2 hp
      exact hp.rebase (by omega) (by omega)
    -- binopLoop
    · intro prev r lhs s0 h hlhs
      unfold binopLoop
      pb ppeek_post T h
      intro k s1 ⟨hi1, hm1, hn1, hk1⟩
      cases hop : k.bind peekBinop with
      | none => exact ⟨hi1, hm1, hn1, by show lhs.id < nsz s1; omega⟩
      | some op =>
        dsimp only
        have go : SpecR c (FB (n + 1) 1 s0) (Post c s0 0 Vid)
            ((pnext c s1).bind fun _ s => (binopExpr c n (some op) r s).bind fun rhs s =>
              mergeSpans lhs.id rhs.id s fun sp s =>
                addNode sp (sx "BinOp" [.a (opName op), lhs.sx, rhs.sx]) s fun lhs s =>
                  binopLoop c n prev r lhs s) := by
          pb pnext_spec T hi1 (by omega)
          intro _ s2 ⟨hi2, hm2, hn2, _⟩
          pb iBinop (some op) r s2 hi2
          intro rhs s3 ⟨hi3, hm3, hn3, hrhs⟩
          obtain ⟨sp, hsp, hk⟩ := mergeSpans_k hi3 (show lhs.id < nsz s3 by omega) hrhs
          rw [hk, addNode_k]
          refine (iBinopLoop prev r _ _ (hi3.add hsp) (by simp)).mono
            (by intro hF; simp only [FB, μ_add] at hF ⊢; omega) ?_
          intro a s4 hp
          exact hp.rebase (by simp only [μ_add]; omega) (by simp only [nsz_add]; omega)
        cases prev with
        | none => exact go
        | some p =>
          dsimp only
          obtain ⟨a, ha⟩ := rel_ok p op
          rw [ha]
          cases a with
          | Right => exact go
          | Left => exact ⟨hi1, hm1, hn1, by show lhs.id < nsz s1; omega⟩
          | Not =>
            dsimp only
            pb pnext_spec T hi1 (by omega)
            intro t s2 ⟨hi2, hm2, hn2, hsp, _⟩
            pfail hi2, hsp
    -- negation
    · intro r s0 h
      unfold negation
      have neg : ∀ (tag : String) (t : TokKind) (s1 : PState), InvB 2 c s1 → μ s1 ≤ μ s0 → nsz s0 ≤ nsz s1 →
          SpecR c (FB (n + 1) 4 s0) (Post c s0 1 Vid)
            ((take c t s1).bind fun sp s => (negation c n r s).bind fun e s =>
              getSpan e.id s fun esp s => addNode (mergeSp sp esp) (sx tag [e.sx]) s .ok) := by
        intro tag t s1 hi1 hm1 hn1
        pb take_spec T _ hi1 (by omega)
        intro sp s2 ⟨hi2, hm2, hn2, hsp⟩
        pb iNeg r s2 hi2
        intro e s3 ⟨hi3, hm3, hn3, he⟩
        obtain ⟨esp, hesp, hk⟩ := getSpan_k hi3 he
        rw [hk]
        exact addNode_ok _ _ hi3 (spanOk_merge hsp hesp) (by omega) (by omega)
      pb peekIs_post T _ h
      intro b s1 ⟨hi1, hm1, hn1, _⟩
      cases b with
      | true => simp only [if_true]; exact neg _ _ s1 hi1 hm1 hn1
      | false =>
        simp only [Bool.false_eq_true, if_false]
        pb peekIs_post T _ hi1
        intro b s2 ⟨hi2, hm2, hn2, _⟩
        cases b with
        | true => simp only [if_true]; exact neg _ _ s2 hi2 (by omega) (by omega)
        | false =>
          simp only [Bool.false_eq_true, if_false]
          refine (iAccess r s2 hi2).mono (by intro hF; simp only [FB] at hF ⊢; omega) ?_
          intro a s3 hp
          exact hp.rebase (by omega) (by omega)
    -- access
    · intro r s0 h
      unfold access
      pb iAtom r s0 h
      intro e s1 ⟨hi1, hm1, hn1, he⟩
      refine (iAccessLoop e s1 hi1 he).mono (by intro hF; simp only [FB] at hF ⊢; omega) ?_
      intro a s2 hp
      exact hp.rebase (by omega) (by omega)
    -- accessLoop
    · intro e s0 h he
      unfold accessLoop
      pb peekIs_post T _ h
      intro b s1 ⟨hi1, hm1, hn1, _⟩
      cases b with
      | true =>
        simp only [if_true]
        pb take_spec T _ hi1 (by omega)
        intro sp s2 ⟨hi2, hm2, hn2, hsp⟩
        obtain ⟨esp, hesp, hk⟩ := getSpan_k hi2 (show e.id < nsz s2 by omega)
        rw [hk, addNode_k]
        refine (iAccessLoop _ _ (hi2.add (spanOk_merge hsp hesp)) (by simp)).mono
          (by intro hF; simp only [FB, μ_add] at hF ⊢; omega) ?_
        intro a s3 hp
        exact hp.rebase (by simp only [μ_add]; omega) (by simp only [nsz_add]; omega)
      | false =>
        simp only [Bool.false_eq_true, if_false]
        pb peekIs_post T _ hi1
        intro b s2 ⟨hi2, hm2, hn2, _⟩
        cases b with
        | true =>
          simp only [if_true]
          pb separated_spec T (assignExpr c n false) _ _ _ n (F := FB (n + 1) 1 s0) hi2 (by omega)
            (fun s3 hi3 hm3 => exprItem s0 1 s3 hi3 (by omega))
          intro args s3 ⟨hi3, hm3, hn3, hargs⟩
          obtain ⟨sp, hsp, hk⟩ := mergeSpans_k hi3 (show e.id < nsz s3 by omega) hargs
          rw [hk, addNode_k]
          refine (iAccessLoop _ _ (hi3.add hsp) (by simp)).mono
            (by intro hF; simp only [FB, μ_add] at hF ⊢; omega) ?_
          intro a s4 hp
          exact hp.rebase (by simp only [μ_add]; omega) (by simp only [nsz_add]; omega)
        | false =>
          simp only [Bool.false_eq_true, if_false]
          pb nextIs_spec T _ hi2
          intro b s3 ⟨hi3, hm3, hn3, hb3⟩
          cases b with
          | false => exact ⟨hi3, by omega, by omega, by show e.id < nsz s3; omega⟩
          | true =>
            simp only [if_true]
            have := hb3 rfl
            pb identifier_spec T hi3 (by omega)
            intro i s4 ⟨hi4, hm4, hn4, hi'⟩
            obtain ⟨sp, hsp, hk⟩ := mergeSpans_k hi4 (show e.id < nsz s4 by omega) hi'
            rw [hk, addNode_k]
            refine (iAccessLoop _ _ (hi4.add hsp) (by simp)).mono
              (by intro hF; simp only [FB, μ_add] at hF ⊢; omega) ?_
            intro a s5 hp
            exact hp.rebase (by simp only [μ_add]; omega) (by simp only [nsz_add]; omega)
    -- record
    · intro b s0 h hb
      unfold record
      refine (separated_spec T (recordItem c n) _ _ _ n (F := FB (n + 1) 1 s0) h hb
        (fun s1 hi1 hm1 => (iRecordItem s1 hi1).mono (by intro hF; simp only [FB] at hF ⊢; omega)
          fun _ _ hp => hp.weak)).mono (by intro hF; simp only [FB] at hF ⊢; omega) fun _ _ hp => hp
    -- recordItem
    · intro s0 h
      unfold recordItem
      pb identifier_spec T h (by omega)
      intro _ s1 ⟨hi1, hm1, hn1, _⟩
      pb take_spec T _ hi1 (by omega)
      intro _ s2 ⟨hi2, hm2, hn2, _⟩
      refine (iAssign false s2 hi2).mono (by intro hF; simp only [FB] at hF ⊢; omega) ?_
      intro a s3 hp
      exact hp.rebase (by omega) (by omega)
    -- atom
    · intro r s0 h
      unfold atom
      pb peekIs_post T _ h
      intro b s1 ⟨hi1, hm1, hn1, _⟩
      cases b with
      | true =>
        simp only [if_true]
        pb take_spec T _ hi1 (by omega)
        intro l s2 ⟨hi2, hm2, hn2, hl2⟩
        pb peekIs_post T _ hi2
        intro b s3 ⟨hi3, hm3, hn3, _⟩
        cases b with
        | true =>
          simp only [if_true]
          pb take_spec T _ hi3 (by omega)
          intro rr s4 ⟨hi4, hm4, hn4, hrr⟩
          exact addNode_ok _ _ hi4 (spanOk_merge hl2 hrr) (by omega) (by omega)
        | false =>
          simp only [Bool.false_eq_true, if_false]
          pb iAssign false s3 hi3
          intro e s4 ⟨hi4, hm4, hn4, he⟩
          pb take_spec T _ hi4 (by omega)
          intro _ s5 ⟨hi5, hm5, hn5, _⟩
          exact ⟨hi5, by omega, by omega, by show e.id < nsz s5; omega⟩
      | false =>
      simp only [Bool.false_eq_true, if_false]
      pb peekIs_post T _ hi1
      intro b s2 ⟨hi2, hm2, hn2, _⟩
      cases b with
      | true =>
        simp only [if_true]
        pb separated_spec T (assignExpr c n false) _ _ _ n (F := FB (n + 1) 2 s0) hi2 (by omega)
          (fun s3 hi3 hm3 => exprItem s0 2 s3 hi3 (by omega))
        intro v s3 ⟨hi3, hm3, hn3, hv⟩
        exact ⟨hi3, by omega, by omega, hv⟩
      | false =>
      simp only [Bool.false_eq_true, if_false]
      pb peekIs_post T _ hi2
      intro b s3 ⟨hi3, hm3, hn3, _⟩
      cases b with
      | true =>
        simp only [if_true]
        pb isRecord_spec T _ hi3 W (by omega)
        intro isRec s4 ⟨hi4, hm4, hn4⟩
        cases isRec with
        | true =>
          simp only [if_true]
          pb iRecord 3 s4 hi4 (by omega)
          intro kv s5 ⟨hi5, hm5, hn5, hkv⟩
          obtain ⟨sp, hsp, hk⟩ := getSpan_k hi5 hkv
          rw [hk]
          exact addNode_ok _ _ hi5 hsp (by omega) (by omega)
        | false =>
          simp only [Bool.false_eq_true, if_false]
          pb iBlock 3 s4 hi4 (by omega)
          intro bl s5 ⟨hi5, hm5, hn5, hbl⟩
          obtain ⟨sp, hsp, hk⟩ := getSpan_k hi5 hbl
          rw [hk]
          exact addNode_ok _ _ hi5 hsp (by omega) (by omega)
      | false =>
      simp only [Bool.false_eq_true, if_false]
      pb ppeek_post T hi3
      intro k s4 ⟨hi4, hm4, hn4, hk4⟩
      split
      · -- `accept` / `reject` / `return`
        rename_i hret
        cases k with
        | none => simp at hret
        | some t0 =>
          simp only [Option.map_some, beq_iff_eq, Option.some.injEq] at hret
          obtain ⟨sp0, rest, hq⟩ := hk4 t0 rfl
          have hnx := pnext_spec T hi4 (by omega)
          rw [pnext_front hq] at hnx ⊢
          obtain ⟨hi5, hm5, hn5, hsp5, _⟩ := hnx
          simp only [PR.bind]
          obtain ⟨rk, hrk⟩ := find_of_contains _ _ hret
          rw [hrk]
          dsimp only
          pb ppeek_post T hi5
          intro k2 s6 ⟨hi6, hm6, hn6, _⟩
          split
          · pb iAssign false s6 hi6
            intro e s7 ⟨hi7, hm7, hn7, he⟩
            obtain ⟨esp, hesp, hk⟩ := getSpan_k hi7 he
            rw [hk]
            exact addNode_ok _ _ hi7 (spanOk_merge hsp5 hesp) (by omega) (by omega)
          · exact addNode_ok _ _ hi6 hsp5 (by omega) (by omega)
      · have sub : ∀ (f : PState → PR Node) (s : PState), InvB 2 c s → μ s ≤ μ s0 → nsz s0 ≤ nsz s →
            (∀ s, InvB 2 c s → SpecR c (FB n 1 s) (Post c s 1 Vid) (f s)) →
            SpecR c (FB (n + 1) 2 s0) (Post c s0 1 Vid) (f s) := by
          intro f s hi hm hn hf
          refine (hf s hi).mono (by intro hF; simp only [FB] at hF ⊢; omega) ?_
          intro a s' hp
          exact hp.rebase (by omega) (by omega)
        pb peekIs_post T _ hi4
        intro b s5 ⟨hi5, hm5, hn5, _⟩
        cases b with
        | true => simp only [if_true]; exact sub _ s5 hi5 (by omega) (by omega) iIf
        | false =>
        simp only [Bool.false_eq_true, if_false]
        pb peekIs_post T _ hi5
        intro b s6 ⟨hi6, hm6, hn6, _⟩
        cases b with
        | true => simp only [if_true]; exact sub _ s6 hi6 (by omega) (by omega) iMatch
        | false =>
        simp only [Bool.false_eq_true, if_false]
        pb peekIs_post T _ hi6
        intro b s7 ⟨hi7, hm7, hn7, _⟩
        cases b with
        | true => simp only [if_true]; exact sub _ s7 hi7 (by omega) (by omega) iWhile
        | false =>
        simp only [Bool.false_eq_true, if_false]
        pb peekIs_post T _ hi7
        intro b s8 ⟨hi8, hm8, hn8, _⟩
        cases b with
        | true => simp only [if_true]; exact sub _ s8 hi8 (by omega) (by omega) iFor
        | false =>
        simp only [Bool.false_eq_true, if_false]
        pb ppeek_post T hi8
        intro k s9 ⟨hi9, hm9, hn9, _⟩
        split
        · -- a path, maybe a typed record
          pb path_spec T n hi9
          intro p s10 ⟨hi10, hm10, hn10, hp10⟩
          have hcurly : SpecR c False (Post c s10 0 fun _ _ => True)
              (if r = true then PR.ok false s10 else peekIs c (pu "CurlyLeft") s10) := by
            split
            · exact ⟨hi10, by omega, by omega, trivial⟩
            · exact (peekIs_post T _ hi10).mono id fun _ _ hp => hp.weak
          pb hcurly
          intro b s11 ⟨hi11, hm11, hn11, _⟩
          cases b with
          | true =>
            simp only [if_true]
            pb iRecord 2 s11 hi11 (by omega)
            intro kv s12 ⟨hi12, hm12, hn12, hkv⟩
            obtain ⟨sp, hsp, hk⟩ := mergeSpans_k hi12 (show p.id < nsz s12 by omega) hkv
            rw [hk]
            exact addNode_ok _ _ hi12 hsp (by omega) (by omega)
          | false => exact ⟨hi11, by omega, by omega, by show p.id < nsz s11; omega⟩
        · pb peekIs_post T _ hi9
          intro b s10 ⟨hi10, hm10, hn10, _⟩
          cases b with
          | true => simp only [if_true]; exact sub _ s10 hi10 (by omega) (by omega) iFString
          | false =>
            simp only [Bool.false_eq_true, if_false]
            pb literal_spec T hl hi10
            intro l s11 ⟨hi11, hm11, hn11, hl11⟩
            exact ⟨hi11, by omega, by omega, hl11⟩
    -- ifElse
    · intro s0 h
      unfold ifElse
      pb take_spec T _ h (by omega)
      intro start s1 ⟨hi1, hm1, hn1, hst⟩
      pb iAssign true s1 hi1
      intro cond s2 ⟨hi2, hm2, hn2, _⟩
      pb iBlock 2 s2 hi2 (by omega)
      intro tb s3 ⟨hi3, hm3, hn3, htb⟩
      pb nextIs_spec T _ hi3
      intro b s4 ⟨hi4, hm4, hn4, _⟩
      cases b with
      | false =>
        simp only [Bool.false_eq_true, if_false]
        obtain ⟨sp, hsp, hk⟩ := getSpan_k hi4 (show tb.id < nsz s4 by omega)
        rw [hk]
        exact addNode_ok _ _ hi4 (spanOk_merge hst hsp) (by omega) (by omega)
      | true =>
        simp only [if_true]
        have helse : SpecR c (FB (n + 1) 1 s0) (Post c s4 1 Vid)
            ((peekIs c (kw "If") s4).bind fun b2 s =>
              if b2 = true then (ifElse c n s).bind fun e s => PR.ok ⟨e.id, blockSx [] [] (some e.sx)⟩ s
              else block c n s) := by
          pb peekIs_post T _ hi4
          intro b2 s5 ⟨hi5, hm5, hn5, _⟩
          cases b2 with
          | true =>
            simp only [if_true]
            pb iIf s5 hi5
            intro e s6 ⟨hi6, hm6, hn6, he⟩
            exact ⟨hi6, by omega, by omega, he⟩
          | false =>
            simp only [Bool.false_eq_true, if_false]
            refine (iBlock 2 s5 hi5 (by omega)).mono (by intro hF; simp only [FB] at hF ⊢; omega) ?_
            intro a s6 hp
            exact hp.rebase (by omega) (by omega)
        pb helse
        intro eb s5 ⟨hi5, hm5, hn5, heb⟩
        obtain ⟨sp, hsp, hk⟩ := getSpan_k hi5 heb
        rw [hk]
        exact addNode_ok _ _ hi5 (spanOk_merge hst hsp) (by omega) (by omega)
    -- whileExpr
    · intro s0 h
      unfold whileExpr
      pb take_spec T _ h (by omega)
      intro start s1 ⟨hi1, hm1, hn1, hst⟩
      pb iAssign true s1 hi1
      intro cond s2 ⟨hi2, hm2, hn2, _⟩
      pb iBlock 2 s2 hi2 (by omega)
      intro bl s3 ⟨hi3, hm3, hn3, hbl⟩
      obtain ⟨sp, hsp, hk⟩ := getSpan_k hi3 hbl
      rw [hk]
      exact addNode_ok _ _ hi3 (spanOk_merge hst hsp) (by omega) (by omega)
    -- forExpr
    · intro s0 h
      unfold forExpr
      pb take_spec T _ h (by omega)
      intro start s1 ⟨hi1, hm1, hn1, hst⟩
      pb identifier_spec T hi1 (by omega)
      intro _ s2 ⟨hi2, hm2, hn2, _⟩
      pb take_spec T _ hi2 (by omega)
      intro _ s3 ⟨hi3, hm3, hn3, _⟩
      pb iAssign true s3 hi3
      intro cond s4 ⟨hi4, hm4, hn4, _⟩
      pb iBlock 2 s4 hi4 (by omega)
      intro bl s5 ⟨hi5, hm5, hn5, hbl⟩
      obtain ⟨sp, hsp, hk⟩ := getSpan_k hi5 hbl
      rw [hk]
      exact addNode_ok _ _ hi5 (spanOk_merge hst hsp) (by omega) (by omega)
    -- matchExpr
    · intro s0 h
      unfold matchExpr
      pb take_spec T _ h (by omega)
      intro start s1 ⟨hi1, hm1, hn1, hst⟩
      pb iAssign true s1 hi1
      intro e s2 ⟨hi2, hm2, hn2, _⟩
      pb take_spec T _ hi2 (by omega)
      intro _ s3 ⟨hi3, hm3, hn3, _⟩
      pb iMatchLoop [] s3 hi3
      intro arms s4 ⟨hi4, hm4, hn4, _⟩
      pb take_spec T _ hi4 (by omega)
      intro en s5 ⟨hi5, hm5, hn5, hen⟩
      rw [addNode_k]
      exact addNode_ok _ _ (hi5.add (spanOk_merge hst hen)) (spanOk_merge hst hen)
        (by simp only [μ_add]; omega) (by simp only [nsz_add]; omega)
    -- matchLoop
    · intro arms s0 h
      unfold matchLoop
      pb peekIs_post T _ h
      intro b s1 ⟨hi1, hm1, hn1, _⟩
      cases b with
      | true => exact ⟨hi1, by omega, by omega, trivial⟩
      | false =>
        simp only [Bool.false_eq_true, if_false]
        pb identifier_spec T hi1 (by omega)
        intro v s2 ⟨hi2, hm2, hn2, hv⟩
        obtain ⟨vsp, hvsp, hk⟩ := getSpan_k hi2 hv
        rw [hk]
        have hpat : SpecR c (FB (n + 1) 1 s0) (Post c s2 0 fun p _ => SpanOk c.src p.1)
            (if (textOf c.src vsp == ['_']) = true then PR.ok (vsp, sx "Under" []) s2
             else (peekIs c (pu "RoundLeft") s2).bind fun b s =>
              if b = true then
                (separated c (identifier c) (pu "RoundLeft") (pu "RoundRight") (pu "Comma") n s).bind fun fs s =>
                  mergeSpans v.id fs.id s fun sp s => PR.ok (sp, sx "Variant" [num fs.sx.kids.length]) s
              else PR.ok (vsp, sx "Variant" []) s) := by
          split
          · exact ⟨hi2, by omega, by omega, hvsp⟩
          · pb peekIs_post T _ hi2
            intro b s3 ⟨hi3, hm3, hn3, _⟩
            cases b with
            | false => exact ⟨hi3, by omega, by omega, hvsp⟩
            | true =>
              simp only [if_true]
              pb separated_spec T (identifier c) _ _ _ n (F := FB (n + 1) 1 s0) hi3 (by omega)
                (fun s4 hi4 _ => (identifier_spec T hi4 (by omega)).mono False.elim fun _ _ hp => hp.weak)
              intro fs s4 ⟨hi4, hm4, hn4, hfs⟩
              obtain ⟨sp, hsp, hk2⟩ := mergeSpans_k hi4 (show v.id < nsz s4 by omega) hfs
              rw [hk2]
              exact ⟨hi4, by omega, by omega, hsp⟩
        pb hpat
        intro pat s3 ⟨hi3, hm3, hn3, hpsp⟩
        rw [addNode_k]
        have hi3' := hi3.add hpsp
        pb nextIs_spec T _ hi3'
        intro b s4 ⟨hi4, hm4, hn4, _⟩
        simp only [μ_add, nsz_add] at hm4 hn4
        have hguard : SpecR c (FB (n + 1) 1 s0) (Post c s4 0 fun _ _ => True)
            (if b = true then (assignExpr c n false s4).bind fun g s => PR.ok [sx "Guard" [g.sx]] s
             else PR.ok [] s4) := by
          cases b with
          | false => exact ⟨hi4, by omega, by omega, trivial⟩
          | true =>
            simp only [if_true]
            pb iAssign false s4 hi4
            intro g s5 ⟨hi5, hm5, hn5, _⟩
            exact ⟨hi5, by omega, by omega, trivial⟩
        pb hguard
        intro guard s5 ⟨hi5, hm5, hn5, _⟩
        pb take_spec T _ hi5 (by omega)
        intro _ s6 ⟨hi6, hm6, hn6, _⟩
        pb peekIs_post T _ hi6
        intro b s7 ⟨hi7, hm7, hn7, _⟩
        have hbody : SpecR c (FB (n + 1) 1 s0) (Post c s7 0 fun _ _ => True)
            (if b = true then
              (block c n s7).bind fun bl s => (nextIs c (pu "Comma") s).bind fun _ s => PR.ok bl.sx s
             else
              (assignExpr c n false s7).bind fun e s =>
                (peekIs c (pu "CurlyRight") s).bind fun b s =>
                  (if b = true then PR.ok () s
                   else (take c (pu "Comma") s).bind fun _ s => PR.ok () s).bind fun _ s =>
                    PR.ok (blockSx [] [] (some e.sx)) s) := by
          cases b with
          | true =>
            simp only [if_true]
            pb iBlock 2 s7 hi7 (by omega)
            intro bl s8 ⟨hi8, hm8, hn8, _⟩
            pb nextIs_spec T _ hi8
            intro _ s9 ⟨hi9, hm9, hn9, _⟩
            exact ⟨hi9, by omega, by omega, trivial⟩
          | false =>
            simp only [Bool.false_eq_true, if_false]
            pb iAssign false s7 hi7
            intro e s8 ⟨hi8, hm8, hn8, _⟩
            pb peekIs_post T _ hi8
            intro b s9 ⟨hi9, hm9, hn9, _⟩
            cases b with
            | true => exact ⟨hi9, by omega, by omega, trivial⟩
            | false =>
              simp only [Bool.false_eq_true, if_false]
              refine SpecR.bind' (Q := Post c s9 0 fun _ _ => True) ?_ id ?_
              · pb take_spec T _ hi9 (by omega)
                intro _ s10 ⟨hi10, hm10, hn10, _⟩
                exact ⟨hi10, by omega, by omega, trivial⟩
              · intro _ s10 ⟨hi10, hm10, hn10, _⟩
                exact ⟨hi10, by omega, by omega, trivial⟩
        pb hbody
        intro body s8 ⟨hi8, hm8, hn8, _⟩
        refine (iMatchLoop _ s8 hi8).mono (by intro hF; simp only [FB] at hF ⊢; omega) ?_
        intro a s9 hp
        exact hp.rebase (by omega) (by omega)
    -- fString
    · intro s0 h
      unfold fString
      pb take_spec T _ h (by omega)
      intro start s1 ⟨hi1, hm1, hn1, hst⟩
      refine (iFLoop start [] s1 hi1 hst).mono (by intro hF; simp only [FB] at hF ⊢; omega) ?_
      intro a s2 hp
      exact hp.rebase (by omega) (by omega)
    -- fLoop
    · intro start parts s0 h hst
      unfold fLoop
      obtain ⟨p, L', hfp, hr', hspec⟩ := fStringPart_ok' c.src s0.lx h.reach
      have e0 := h.reach.blen_input
      have e1 := hr'.blen_input
      rw [hfp]
      have hinv : InvB 2 c { s0 with lx := L' } := ⟨hr', h.q, h.len, h.sp, h.al⟩
      cases p with
      | none => dsimp only; rw [origLen_eq h]; pfail h, (spanOk_eof _)
      | strEnd sp =>
        dsimp only
        obtain ⟨h1, hsp, h3⟩ := hspec
        have hmu : μ { s0 with lx := L' } ≤ μ s0 := by
          have := hsp.1
          show blen L'.input + qtoks s0.peeked ≤ blen s0.lx.input + qtoks s0.peeked
          omega
        pb fText_spec T hl sp parts hinv hsp hmu (Nat.le_refl _)
        intro parts' s1 ⟨hi1, hm1, hn1, _⟩
        exact addNode_ok _ _ hi1 (spanOk_merge hst hsp) (by omega) (by omega)
      | strMid sp =>
        dsimp only
        obtain ⟨h1, hsp, h3, _⟩ := hspec
        have hmu : μ { s0 with lx := L' } ≤ μ s0 := by
          have := hsp.1
          show blen L'.input + qtoks s0.peeked ≤ blen s0.lx.input + qtoks s0.peeked
          omega
        pb fText_spec T hl sp parts hinv hsp hmu (Nat.le_refl _)
        intro parts' s1 ⟨hi1, hm1, hn1, _⟩
        pb take_spec T _ hi1 (by omega)
        intro _ s2 ⟨hi2, hm2, hn2, _⟩
        pb iAssign false s2 hi2
        intro e s3 ⟨hi3, hm3, hn3, he⟩
        obtain ⟨esp, hesp, hk⟩ := getSpan_k hi3 he
        rw [hk, addNode_k]
        pb take_spec T _ (hi3.add hesp) (by omega)
        intro _ s4 ⟨hi4, hm4, hn4, _⟩
        simp only [μ_add, nsz_add] at hm4 hn4
        refine (iFLoop _ _ s4 hi4 hst).mono (by intro hF; simp only [FB] at hF ⊢; omega) ?_
        intro a s5 hp
        exact hp.rebase (by omega) (by omega)

end

end RotoV.Parse
