/-
  C16 — the lock structure of the model's steps (`NeedsOp`, `HoldsOp`, the
  enabledness of `opStep`) is the skeleton `opSkel` (Model/ListTrace), for
  every operation, every argument and every step.
-/
import RotoV.Lemmas.ListConc
import RotoV.Model.ListTrace
namespace RotoV.ListConc

theorem eqFirst_guarded (a b : Nat) : eqFirst Facts.guarded a b = min a b := rfl
theorem eqSecond_guarded (a b : Nat) : eqSecond Facts.guarded a b = max a b := rfl

theorem pathOf_same {a b : Nat} (h : a = b) : pathOf a b = .same := by simp [pathOf, h]
theorem pathOf_lt {a b : Nat} (h : a < b) : pathOf a b = .lt := by
  have : a ≠ b := by omega
  simp [pathOf, this, h]
theorem pathOf_ge {a b : Nat} (h : b < a) : pathOf a b = .ge := by
  have h1 : a ≠ b := by omega
  have h2 : ¬ a < b := by omega
  simp [pathOf, h1, h2]

/-- **The lock a step waits for is the one the skeleton says.** For every
    operation and every step the skeleton has: `NeedsOp` (the mutex `opStep`
    must find free — `opStep_enabled`, `opStep_blocked`) is the lock named by
    the schedule point the step starts at; the private result list of `concat`
    is nobody's to wait for. -/
theorem needsOp_from_skeleton (op : Op) (pc : Nat) (st : SkStep)
    (h : (opSkel op)[pc]? = some st) : NeedsOp op pc = st.needs.bind (whoIdx op) := by
  cases op with
  | get l i | ffiGet l i =>
    rcases pc with _ | _ | n <;> simp [opSkel, skGet] at h <;> subst h <;> simp [NeedsOp, whoIdx]
  | push l v | contains l v | len l | index l v | isEmpty l | toVec l =>
    rcases pc with _ | n <;> simp [opSkel, skSingle] at h; subst h; simp [NeedsOp, whoIdx]
  | swap l i j =>
    rcases pc with _ | n <;> simp [opSkel, skSingle] at h; subst h; simp [NeedsOp, whoIdx]
  | clone l | drop l =>
    rcases pc with _ | n <;> simp [opSkel, skNone] at h; subst h; simp [NeedsOp]
  | eq a b =>
    rcases Nat.lt_trichotomy a b with hab | hab | hab
    · rw [opSkel, pathOf_lt hab] at h
      have hne : a ≠ b := by omega
      rcases pc with _ | _ | n <;> simp [skEq] at h <;> subst h <;>
        simp [NeedsOp, whoIdx, hne, eqFirst_guarded, eqSecond_guarded] <;> omega
    · rw [opSkel, pathOf_same hab] at h
      rcases pc with _ | n <;> simp [skEq, skNone] at h; subst h; simp [NeedsOp, hab]
    · rw [opSkel, pathOf_ge hab] at h
      have hne : a ≠ b := by omega
      rcases pc with _ | _ | n <;> simp [skEq] at h <;> subst h <;>
        simp [NeedsOp, whoIdx, hne, eqFirst_guarded, eqSecond_guarded] <;> omega
  | concat a b =>
    rcases Nat.lt_trichotomy a b with hab | hab | hab
    · rw [opSkel, pathOf_lt hab] at h
      have hne : a ≠ b := by omega
      rcases pc with _ | _ | _ | n <;> simp [skConcat] at h <;> subst h <;>
        simp [NeedsOp, whoIdx, hne] <;> omega
    · rw [opSkel, pathOf_same hab] at h
      rcases pc with _ | _ | n <;> simp [skConcat] at h <;> subst h <;> simp [NeedsOp, whoIdx, hab]
    · rw [opSkel, pathOf_ge hab] at h
      have hne : a ≠ b := by omega
      rcases pc with _ | _ | _ | n <;> simp [skConcat] at h <;> subst h <;>
        simp [NeedsOp, whoIdx, hne] <;> omega

/-- **The guards held between two steps are those the skeleton says.**
    `HoldsOp op (pc+1) l` (the mutexes a thread holds while it stands at
    position `pc+1` of `op` — the invariant `Own` of the deadlock proof) holds
    exactly for the lists whose guards are alive at the end of step `pc` of the
    skeleton. -/
theorem holdsOp_from_skeleton (op : Op) (pc : Nat) (st : SkStep)
    (h : (opSkel op)[pc]? = some st) (l : Nat) :
    HoldsOp op (pc + 1) l ↔ l ∈ st.holdsAfter.filterMap (whoIdx op) := by
  cases op with
  | get l' i | ffiGet l' i =>
    rcases pc with _ | _ | n <;> simp [opSkel, skGet] at h <;> subst h <;> simp [HoldsOp, whoIdx] <;> omega
  | push l' v | contains l' v | len l' | index l' v | isEmpty l' | toVec l' =>
    rcases pc with _ | n <;> simp [opSkel, skSingle] at h; subst h; simp [HoldsOp]
  | swap l' i j =>
    rcases pc with _ | n <;> simp [opSkel, skSingle] at h; subst h; simp [HoldsOp]
  | clone l' | drop l' =>
    rcases pc with _ | n <;> simp [opSkel, skNone] at h; subst h; simp [HoldsOp]
  | eq a b =>
    rcases Nat.lt_trichotomy a b with hab | hab | hab
    · rw [opSkel, pathOf_lt hab] at h
      rcases pc with _ | _ | n <;> simp [skEq] at h <;> subst h <;>
        simp [HoldsOp, whoIdx, eqFirst_guarded] <;> omega
    · rw [opSkel, pathOf_same hab] at h
      rcases pc with _ | n <;> simp [skEq, skNone] at h; subst h; simp [HoldsOp, hab]
    · rw [opSkel, pathOf_ge hab] at h
      rcases pc with _ | _ | n <;> simp [skEq] at h <;> subst h <;>
        simp [HoldsOp, whoIdx, eqFirst_guarded] <;> omega
  | concat a b =>
    rcases Nat.lt_trichotomy a b with hab | hab | hab
    · rw [opSkel, pathOf_lt hab] at h
      rcases pc with _ | _ | _ | n <;> simp [skConcat] at h <;> subst h <;>
        simp [HoldsOp, whoIdx] <;> omega
    · rw [opSkel, pathOf_same hab] at h
      rcases pc with _ | _ | n <;> simp [skConcat] at h <;> subst h <;> simp [HoldsOp, whoIdx, hab] <;> omega
    · rw [opSkel, pathOf_ge hab] at h
      rcases pc with _ | _ | _ | n <;> simp [skConcat] at h <;> subst h <;>
        simp [HoldsOp, whoIdx] <;> omega

/-- **A step whose lock is held does not run** (the converse of
    `opStep_enabled`): `NeedsOp` is exactly the enabling condition of the
    model's steps. -/
theorem opStep_blocked {t : Nat} {cells : Nat → Cell} {ptr : Option Ptr} {acc : RawList}
    {op : Op} {pc l : Nat} (hn : NeedsOp op pc = some l) (hheld : (cells l).owner ≠ none) :
    opStep Facts.guarded t cells ptr acc op pc = none := by
  have nf : isFree cells l = false := by
    cases h : isFree cells l with
    | false => rfl
    | true => exact absurd ((isFree_iff _ _).1 h) hheld
  cases op with
  | get l' i =>
    rcases pc with _ | n
    · simp only [NeedsOp, Option.some.injEq] at hn; subst hn
      simp [opStep, lookupStep, nf]
    · simp [NeedsOp] at hn
  | ffiGet l' i =>
    rcases pc with _ | n
    · simp only [NeedsOp, Option.some.injEq] at hn; subst hn
      simp [opStep, lookupStep, nf]
    · simp [NeedsOp] at hn
  | push l' v => simp only [NeedsOp, Option.some.injEq] at hn; subst hn; simp [opStep, nf]
  | contains l' v => simp only [NeedsOp, Option.some.injEq] at hn; subst hn; simp [opStep, nf]
  | swap l' i j => simp only [NeedsOp, Option.some.injEq] at hn; subst hn; simp [opStep, nf]
  | len l' => simp only [NeedsOp, Option.some.injEq] at hn; subst hn; simp [opStep, nf]
  | index l' v => simp only [NeedsOp, Option.some.injEq] at hn; subst hn; simp [opStep, nf]
  | isEmpty l' => simp only [NeedsOp, Option.some.injEq] at hn; subst hn; simp [opStep, nf]
  | toVec l' => simp only [NeedsOp, Option.some.injEq] at hn; subst hn; simp [opStep, nf]
  | clone l' => simp [NeedsOp] at hn
  | drop l' => simp [NeedsOp] at hn
  | eq a b =>
    rcases pc with _ | n
    · by_cases hab : a = b
      · simp [NeedsOp, hab] at hn
      · simp only [NeedsOp, hab, ↓reduceIte, Option.some.injEq] at hn; subst hn
        simp [opStep, hab, nf]
    · simp only [NeedsOp, Option.some.injEq] at hn; subst hn
      simp [opStep, nf]
  | concat a b =>
    rcases pc with _ | _ | n
    · simp only [NeedsOp, Option.some.injEq] at hn; subst hn
      simp [opStep, Facts.guarded, concatAtomicStep, nf]
    · by_cases hab : a = b
      · simp [NeedsOp, hab] at hn
      · simp only [NeedsOp, hab, ↓reduceIte, Option.some.injEq] at hn; subst hn
        simp [opStep, Facts.guarded, concatAtomicStep, hab, nf]
    · simp [NeedsOp] at hn

/-- a step of thread `u` leaves every list whose mutex another thread holds
    alone: same owner, same buffer (contents, capacity and generation) -/
theorem step_frame {F : Facts} (hF : F = Facts.guarded) {u : Nat} {s s' : State}
    (hinv : Inv s) (h : step F u s = some s') : Frame u s.cells s'.cells := by
  unfold step at h
  simp only at h
  split at h
  · cases h
  · split at h
    · cases h
    · rename_i op rest hprog
      split at h
      · cases h
      · rename_i o hop
        have hpc : OpPc s.cells u (s.threads u).ptr op (s.threads u).pc := by
          have := hinv u
          unfold PcOK at this
          rw [hprog] at this
          exact this
        have g := opStep_good hF hpc hop
        split at h
        · cases h; exact g.frame
        · cases h; exact g.frame
        · rename_i hnext; exact absurd hnext g.notrap

/-- any number of steps of threads other than `t` leave a list whose mutex `t`
    holds with `t`, buffer unchanged -/
theorem run_frame {F : Facts} (hF : F = Facts.guarded) (t l : Nat) :
    ∀ (others : List Nat) (s s' : State), Inv s → (∀ u ∈ others, u ≠ t) →
      (s.cells l).owner = some t → run F s others = some s' →
      (s'.cells l).owner = some t ∧ (s'.cells l).raw = (s.cells l).raw := by
  intro others
  induction others with
  | nil =>
    intro s s' _ _ hown h
    simp only [run, Option.some.injEq] at h
    subst h
    exact ⟨hown, rfl⟩
  | cons u rest ih =>
    intro s s' hinv hoth hown h
    simp only [run] at h
    split at h
    · cases h
    · rename_i s1 hs
      have hu : u ≠ t := hoth u (List.mem_cons_self ..)
      have f := step_frame hF hinv hs l t (Ne.symm hu) hown
      have hinv1 := (step_facts hF hinv hs).inv
      have := ih s1 s' hinv1 (fun v hv => hoth v (List.mem_cons_of_mem _ hv)) f.1 h
      exact ⟨this.1, this.2.trans f.2⟩

end RotoV.ListConc
