/-
  Lemmas for the literal theorems of Props/C09. Core Lean only.
-/
import RotoV.Model.FString

namespace RotoV.Literal

/-- the ASCII digit `d` -/
def digitChar (d : Nat) : Char := Char.ofNat (48 + d)

theorem hexVal_digitChar : ∀ d : Fin 10, hexVal (digitChar d.val) = some d.val := by decide
theorem digitChar_ne_underscore : ∀ d : Fin 10, (digitChar d.val != '_') = true := by decide
theorem isDigit_digitChar : ∀ d : Fin 10, isDigit (digitChar d.val) = true := by decide

/-- a spelling of digits with digit-group underscores: each digit is followed
    by any number of `_` -/
def spellDigits : List (Fin 10 × Nat) → List Char
  | [] => []
  | (d, u) :: rest => digitChar d.val :: (List.replicate u '_' ++ spellDigits rest)

/-- Horner value of the digits -/
def horner : Nat → List (Fin 10 × Nat) → Nat
  | acc, [] => acc
  | acc, (d, _) :: rest => horner (acc * 10 + d.val) rest

theorem filter_underscores (u : Nat) (cs : List Char) :
    (List.replicate u '_' ++ cs).filter (· != '_') = cs.filter (· != '_') := by
  induction u with
  | zero => rfl
  | succ u ih => simp [List.replicate_succ, ih]

theorem strip_spell (ds : List (Fin 10 × Nat)) :
    stripUnderscores (spellDigits ds) = ds.map (fun p => digitChar p.1.val) := by
  induction ds with
  | nil => rfl
  | cons p ds ih =>
    obtain ⟨d, u⟩ := p
    simp only [stripUnderscores] at ih ⊢
    simp only [spellDigits, List.filter_cons, digitChar_ne_underscore d, if_true, filter_underscores,
      ih, List.map_cons]

theorem parseRadixAux_digits (acc : Nat) (ds : List (Fin 10 × Nat)) :
    parseRadixAux 10 acc (ds.map (fun p => digitChar p.1.val)) = some (horner acc ds) := by
  induction ds generalizing acc with
  | nil => rfl
  | cons p ds ih =>
    obtain ⟨d, u⟩ := p
    simp only [List.map_cons, parseRadixAux, hexVal_digitChar d, d.isLt, if_true, horner, ih]

end RotoV.Literal

namespace RotoV.FString
open RotoV.Literal

theorem utf8Len_append (a b : List Char) : utf8Len (a ++ b) = utf8Len a + utf8Len b := by
  induction a with
  | nil => simp [utf8Len]
  | cons c a ih => simp [utf8Len, ih]; omega

/-- `split_at` at the byte length of a prefix splits exactly there (never panics) -/
theorem splitAtByte_prefix (pre suf : List Char) :
    splitAtByte (pre ++ suf) (utf8Len pre) = some (pre, suf) := by
  induction pre with
  | nil => cases suf <;> simp [utf8Len, splitAtByte]
  | cons c pre ih =>
    have hpos : 0 < c.utf8Size := Char.utf8Size_pos c
    obtain ⟨n, hn⟩ : ∃ n, c.utf8Size + utf8Len pre = n + 1 := ⟨c.utf8Size + utf8Len pre - 1, by omega⟩
    simp only [List.cons_append, utf8Len, hn, splitAtByte]
    have h1 : c.utf8Size ≤ n + 1 := by omega
    have h2 : n + 1 - c.utf8Size = utf8Len pre := by omega
    simp [h1, h2, ih]

/-- characters the scanner treats specially -/
def special (c : Char) : Bool := c == '\\' || c == '{' || c == '"'

theorem scan_plain (text suf : List Char) (i : Nat) (h : ∀ c ∈ text, special c = false) :
    scan (text ++ suf) i = scan suf (i + utf8Len text) := by
  induction text generalizing i with
  | nil => simp [utf8Len]
  | cons c text ih =>
    have hc := h c (by simp)
    simp only [special, Bool.or_eq_false_iff] at hc
    obtain ⟨⟨h1, h2⟩, h3⟩ := hc
    rw [List.cons_append, scan.eq_def]
    simp only [h1, h2, h3, Bool.false_eq_true, if_false]
    rw [ih _ (fun d hd => h d (by simp [hd]))]
    simp [utf8Len]; congr 1; omega

end RotoV.FString
