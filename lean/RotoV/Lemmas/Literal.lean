/-
  Lemmas for the literal theorems of Props/C09. Core Lean only.
-/
import RotoV.Model.FString

namespace RotoV.Literal

/-- the ASCII digit `d` -/
def digitChar (d : Nat) : Char := Char.ofNat (48 + d)

theorem hexVal_digitChar : ∀ d : Fin 10, hexVal (digitChar d.val) = some d.val := by decide
theorem digitChar_ne_underscore : ∀ d : Fin 10, (digitChar d.val != '_') = true := by decide
theorem isDigit_digitChar : ∀ d : Fin 10, isDigit (digitChar d.val) = true := by decide

/-- a spelling of digits with digit-group underscores: each digit is followed
    by any number of `_` -/
def spellDigits : List (Fin 10 × Nat) → List Char
  | [] => []
  | (d, u) :: rest => digitChar d.val :: (List.replicate u '_' ++ spellDigits rest)

/-- Horner value of the digits -/
def horner : Nat → List (Fin 10 × Nat) → Nat
  | acc, [] => acc
  | acc, (d, _) :: rest => horner (acc * 10 + d.val) rest

theorem filter_underscores (u : Nat) (cs : List Char) :
    (List.replicate u '_' ++ cs).filter (· != '_') = cs.filter (· != '_') := by
  induction u with
  | zero => rfl
  | succ u ih => simp [List.replicate_succ, ih]

theorem strip_spell (ds : List (Fin 10 × Nat)) :
    stripUnderscores (spellDigits ds) = ds.map (fun p => digitChar p.1.val) := by
  induction ds with
  | nil => rfl
  | cons p ds ih =>
    obtain ⟨d, u⟩ := p
    simp only [stripUnderscores] at ih ⊢
    simp only [spellDigits, List.filter_cons, digitChar_ne_underscore d, if_true, filter_underscores,
      ih, List.map_cons]

theorem parseRadixAux_digits (acc : Nat) (ds : List (Fin 10 × Nat)) :
    parseRadixAux 10 acc (ds.map (fun p => digitChar p.1.val)) = some (horner acc ds) := by
  induction ds generalizing acc with
  | nil => rfl
  | cons p ds ih =>
    obtain ⟨d, u⟩ := p
    simp only [List.map_cons, parseRadixAux, hexVal_digitChar d, d.isLt, if_true, horner, ih]

/-! ## the num / suffix split of `Lexer::number` -/

/-- the text `b` does not continue a run of `p` characters -/
def Stops (p : Char → Bool) : List Char → Prop
  | [] => True
  | c :: _ => p c = false

theorem eatWhile_all (p : Char → Bool) (a b : List Char) (ha : ∀ c ∈ a, p c = true) (hb : Stops p b) :
    eatWhile p (a ++ b) = (a, b) := by
  induction a with
  | nil =>
    cases b with
    | nil => rfl
    | cons c b => simp only [Stops] at hb; simp [eatWhile, hb]
  | cons c a ih =>
    have hc : p c = true := ha c (by simp)
    have := ih (fun x hx => ha x (by simp [hx]))
    simp [eatWhile, hc, this]

theorem spellDigits_rotoDigits (ds : List (Fin 10 × Nat)) : ∀ c ∈ spellDigits ds, isRotoDigit c = true := by
  induction ds with
  | nil => simp [spellDigits]
  | cons p ds ih =>
    obtain ⟨d, u⟩ := p
    intro c hc
    simp only [spellDigits, List.mem_cons, List.mem_append, List.mem_replicate] at hc
    rcases hc with h | ⟨_, h⟩ | h
    · subst h; simp [isRotoDigit, isDigit_digitChar d]
    · subst h; decide
    · exact ih c h

/-- the text does not start with `.`, `e`, `E` -/
def PlainStart : List Char → Prop
  | [] => True
  | c :: _ => c ≠ '.' ∧ c ≠ 'e' ∧ c ≠ 'E'

/-- nothing of the float block applies when the text does not start with `.`, `e`, `E` -/
theorem floatBlock_plain (xs : Char → Bool) (t : List Char) (h : PlainStart t) :
    floatBlock xs t = (false, [], t) := by
  cases t with
  | nil => simp [floatBlock, floatBrk, floatFrac, floatExp]
  | cons c t =>
    obtain ⟨h1, h2, h3⟩ := h
    have hb : floatBrk xs (c :: t) = false := by
      unfold floatBrk; split
      · rename_i heq; simp at heq; exact absurd heq.1 h1
      · rfl
    have hf : floatFrac (c :: t) = (false, [], c :: t) := by
      unfold floatFrac; split
      · rename_i heq; simp at heq; exact absurd heq.1 h1
      · rfl
    simp [floatBlock, hb, hf, floatExp, h2, h3]

/-- `10.hello`, `10..`, `10._x`: the edge case keeps the integer -/
theorem floatBlock_brk (xs : Char → Bool) (c : Char) (r : List Char)
    (h : (xs c || c == '.' || c == '_') = true) :
    floatBlock xs ('.' :: c :: r) = (false, [], '.' :: c :: r) := by
  simp [floatBlock, floatBrk, h]

theorem lexNumber_of_digit (xs xc : Char → Bool) (c0 : Char) (tl : List Char) (hd : isDigit c0 = true) :
    lexNumber xs xc (c0 :: tl) =
      some { isFloat := (floatBlock xs (eatWhile isRotoDigit (c0 :: tl)).2).1,
             num := (eatWhile isRotoDigit (c0 :: tl)).1 ++ (floatBlock xs (eatWhile isRotoDigit (c0 :: tl)).2).2.1,
             suffix := (eatWhile (fun c => xc c || c == '_') (floatBlock xs (eatWhile isRotoDigit (c0 :: tl)).2).2.2).1,
             rest := (eatWhile (fun c => xc c || c == '_') (floatBlock xs (eatWhile isRotoDigit (c0 :: tl)).2).2.2).2 } := by
  simp [lexNumber, hd]

/-- every integer suffix is empty or starts with `i` / `u` -/
theorem intSuffix_head (suffix : List Char) (hs : suffix ∈ intSuffixes) :
    suffix = [] ∨ ∃ c tl, suffix = c :: tl ∧ (c = 'i' ∨ c = 'u') := by
  simp only [intSuffixes, List.map_cons, List.map_nil, List.mem_cons, List.not_mem_nil, or_false] at hs
  rcases hs with h | h | h | h | h | h | h | h | h <;> subst h
  all_goals first
    | (left; rfl)
    | (right; exact ⟨'i', _, rfl, Or.inl rfl⟩)
    | (right; exact ⟨'u', _, rfl, Or.inr rfl⟩)

/-- What may follow an integer literal `digits suffix` for the token to end
    there: not a character the suffix scan would eat (`XID_Continue` or `_`);
    and after a literal WITHOUT suffix also not a digit, not `e` / `E` (an
    exponent) and not a `.` — unless the `.` is followed by an identifier start,
    a second `.` or `_` (`10.hello`, `10..`, `10._x`: the documented edge case,
    the integer is followed by a field access / range). After a suffix any
    such text may follow: `5i32.to_string()`. -/
def IntBoundary (xs xc : Char → Bool) (suffix rest : List Char) : Prop :=
  Stops (fun c => xc c || c == '_') rest ∧
  (suffix = [] → Stops isRotoDigit rest ∧
    (PlainStart rest ∨ ∃ c r, rest = '.' :: c :: r ∧ (xs c || c == '.' || c == '_') = true))

theorem lexNumber_digits (xs xc : Char → Bool) (d : Fin 10 × Nat) (ds : List (Fin 10 × Nat))
    (suffix rest : List Char)
    (hs : suffix = [] ∨ ∃ c tl, suffix = c :: tl ∧ (c = 'i' ∨ c = 'u' ∨ c = 'f'))
    (hx : ∀ c ∈ suffix, xc c = true) (hb : IntBoundary xs xc suffix rest) :
    lexNumber xs xc (spellDigits (d :: ds) ++ (suffix ++ rest)) =
      some { isFloat := false, num := spellDigits (d :: ds), suffix := suffix, rest := rest } := by
  obtain ⟨hstop, hnosuf⟩ := hb
  have hdig : Stops isRotoDigit (suffix ++ rest) ∧ floatBlock xs (suffix ++ rest) = (false, [], suffix ++ rest) := by
    rcases hs with h | ⟨c, tl, h, hc⟩
    · subst h
      obtain ⟨h1, h2⟩ := hnosuf rfl
      refine ⟨by simpa using h1, ?_⟩
      rcases h2 with h2 | ⟨c, r, hr, hbrk⟩
      · simpa using floatBlock_plain xs rest h2
      · subst hr; simpa using floatBlock_brk xs c r hbrk
    · subst h
      have hnd : isRotoDigit c = false := by rcases hc with h | h | h <;> subst h <;> decide
      have hp : PlainStart (c :: (tl ++ rest)) := by
        rcases hc with h | h | h <;> subst h <;> exact ⟨by decide, by decide, by decide⟩
      exact ⟨by simpa [Stops] using hnd, by simpa using floatBlock_plain xs _ hp⟩
  obtain ⟨hstopd, hfb⟩ := hdig
  have heat := eatWhile_all isRotoDigit (spellDigits (d :: ds)) (suffix ++ rest)
    (spellDigits_rotoDigits _) hstopd
  have hsuf := eatWhile_all (fun c => xc c || c == '_') suffix rest
    (fun c hc => by simp [hx c hc]) hstop
  obtain ⟨dd, u⟩ := d
  have hcons : spellDigits ((dd, u) :: ds) ++ (suffix ++ rest) =
      digitChar dd.val :: ((List.replicate u '_' ++ spellDigits ds) ++ (suffix ++ rest)) := by
    simp [spellDigits]
  rw [hcons, lexNumber_of_digit xs xc _ _ (isDigit_digitChar dd), ← hcons, heat]
  simp only [hfb, hsuf, List.append_nil]

theorem lexNumber_int (xs xc : Char → Bool) (d : Fin 10 × Nat) (ds : List (Fin 10 × Nat))
    (suffix rest : List Char) (hs : suffix ∈ intSuffixes) (hx : ∀ c ∈ suffix, xc c = true)
    (hb : IntBoundary xs xc suffix rest) :
    lexNumber xs xc (spellDigits (d :: ds) ++ (suffix ++ rest)) =
      some { isFloat := false, num := spellDigits (d :: ds), suffix := suffix, rest := rest } := by
  refine lexNumber_digits xs xc d ds suffix rest ?_ hx hb
  rcases intSuffix_head suffix hs with h | ⟨c, tl, h, hc⟩
  · exact Or.inl h
  · exact Or.inr ⟨c, tl, h, by rcases hc with h | h <;> simp [h]⟩

theorem digitChar_ne_dot : ∀ d : Fin 10, (digitChar d.val == '.') = false := by decide

/-- the text does not start with an exponent letter -/
def NoExpStart : List Char → Prop
  | [] => True
  | c :: _ => c ≠ 'e' ∧ c ≠ 'E'

theorem floatExp_plain (b : Bool) (fl t : List Char) (h : NoExpStart t) : floatExp b fl t = (b, fl, t) := by
  cases t with
  | nil => rfl
  | cons c t => obtain ⟨h1, h2⟩ := h; simp [floatExp, h1, h2]

def floatSuffixes : List (List Char) := ["f32", "f64", ""].map String.toList

theorem floatSuffix_head (suffix : List Char) (hs : suffix ∈ floatSuffixes) :
    suffix = [] ∨ ∃ tl, suffix = 'f' :: tl := by
  simp only [floatSuffixes, List.map_cons, List.map_nil, List.mem_cons, List.not_mem_nil, or_false] at hs
  rcases hs with h | h | h <;> subst h
  · right; exact ⟨_, rfl⟩
  · right; exact ⟨_, rfl⟩
  · left; rfl

/-- What may follow a float literal `digits . digits suffix` for the token to
    end there: not `XID_Continue` / `_`; without suffix also not a digit and not
    an exponent letter. A `.` may follow: `2.0f64.pow(2.0)`, `2.5.abs()`. -/
def FloatBoundary (xc : Char → Bool) (suffix rest : List Char) : Prop :=
  Stops (fun c => xc c || c == '_') rest ∧ (suffix = [] → Stops isRotoDigit rest ∧ NoExpStart rest)

theorem lexNumber_float_point (xs xc : Char → Bool) (d f : Fin 10 × Nat) (ds fs : List (Fin 10 × Nat))
    (suffix rest : List Char) (hs : suffix ∈ floatSuffixes) (hx : ∀ c ∈ suffix, xc c = true)
    (hxs : ∀ k : Fin 10, xs (digitChar k.val) = false) (hb : FloatBoundary xc suffix rest) :
    lexNumber xs xc (spellDigits (d :: ds) ++ ('.' :: (spellDigits (f :: fs) ++ (suffix ++ rest)))) =
      some { isFloat := true, num := spellDigits (d :: ds) ++ '.' :: spellDigits (f :: fs),
             suffix := suffix, rest := rest } := by
  obtain ⟨hstop, hnosuf⟩ := hb
  have hsr : Stops isRotoDigit (suffix ++ rest) ∧ NoExpStart (suffix ++ rest) := by
    rcases floatSuffix_head suffix hs with h | ⟨tl, h⟩
    · subst h; simpa using hnosuf rfl
    · subst h; exact ⟨by show isRotoDigit 'f' = false; decide, by decide, by decide⟩
  have heat1 := eatWhile_all isRotoDigit (spellDigits (d :: ds)) ('.' :: (spellDigits (f :: fs) ++ (suffix ++ rest)))
    (spellDigits_rotoDigits _) (by show isRotoDigit '.' = false; decide)
  have heat2 := eatWhile_all isRotoDigit (spellDigits (f :: fs)) (suffix ++ rest) (spellDigits_rotoDigits _) hsr.1
  have hsuf := eatWhile_all (fun c => xc c || c == '_') suffix rest (fun c hc => by simp [hx c hc]) hstop
  have hfb : floatBlock xs ('.' :: (spellDigits (f :: fs) ++ (suffix ++ rest))) =
      (true, '.' :: spellDigits (f :: fs), suffix ++ rest) := by
    obtain ⟨ff, u⟩ := f
    have hbrk : floatBrk xs ('.' :: (spellDigits ((ff, u) :: fs) ++ (suffix ++ rest))) = false := by
      have h1 := digitChar_ne_underscore ff
      have h2 : (digitChar ff.val == '.') = false := digitChar_ne_dot ff
      simp only [spellDigits, List.cons_append, floatBrk, hxs ff, h2, Bool.or_false, Bool.false_or]
      simpa using h1
    simp only [floatBlock, hbrk, Bool.false_eq_true, if_false, floatFrac, heat2]
    exact floatExp_plain _ _ _ hsr.2
  obtain ⟨dd, u⟩ := d
  have hcons : spellDigits ((dd, u) :: ds) ++ ('.' :: (spellDigits (f :: fs) ++ (suffix ++ rest))) =
      digitChar dd.val :: ((List.replicate u '_' ++ spellDigits ds) ++ ('.' :: (spellDigits (f :: fs) ++ (suffix ++ rest)))) := by
    simp [spellDigits]
  rw [hcons, lexNumber_of_digit xs xc _ _ (isDigit_digitChar dd), ← hcons, heat1]
  simp only [hfb, hsuf]

/-! ## `\\u{…}` -/

/-- value of hex digits read left to right, starting from `v` -/
def hexFold : Nat → List Char → Nat
  | v, [] => v
  | v, c :: cs => hexFold (v * 16 + (hexVal c).getD 0) cs

theorem hexVal_ne (c : Char) (d : Nat) (h : hexVal c = some d) : c ≠ '_' ∧ c ≠ '}' := by
  have h1 : hexVal '_' = none := by decide
  have h2 : hexVal '}' = none := by decide
  constructor <;> (intro hc; subst hc; simp_all)

theorem unicodeRest_digits (v n : Nat) (cs rest : List Char) (hcs : ∀ c ∈ cs, (hexVal c).isSome = true)
    (hlen : n + cs.length ≤ 6) :
    unicodeRest v n (cs ++ '}' :: rest) = some (hexFold v cs, n + cs.length, rest) := by
  induction cs generalizing v n with
  | nil =>
    simp only [List.nil_append, unicodeRest, List.length_nil, Nat.add_zero, hexFold]
    have : ¬ n > 6 := by simp at hlen; omega
    simp [this]
  | cons c cs ih =>
    have hc := hcs c (by simp)
    obtain ⟨d, hd⟩ := Option.isSome_iff_exists.mp hc
    obtain ⟨h1, h2⟩ := hexVal_ne c d hd
    simp only [List.length_cons] at hlen
    have hn : ¬ n + 1 > 6 := by omega
    simp only [List.cons_append, unicodeRest, beq_iff_eq, h1, h2, if_false, hd, hn, hexFold, Option.getD_some]
    rw [ih _ _ (fun x hx => hcs x (by simp [hx])) (by omega)]
    simp only [List.length_cons, Option.some.injEq, Prod.mk.injEq, true_and, and_true]; omega

/-- `\u{H…}`: one to six hex digits (either case) denote the scalar value they
    spell, wherever the escape stands -/
theorem unescape_unicode (c : Char) (cs rest : List Char) (d : Nat) (hd : hexVal c = some d)
    (hcs : ∀ x ∈ cs, (hexVal x).isSome = true) (hlen : cs.length ≤ 5)
    (hv : isScalar (hexFold d cs) = true) :
    unescape ('\\' :: 'u' :: '{' :: c :: (cs ++ '}' :: rest)) =
      (unescape rest).map (Char.ofNat (hexFold d cs) :: ·) := by
  have hr := unicodeRest_digits d 1 cs rest hcs (by omega)
  rw [unescape]
  simp only [hd]
  split
  · rename_i v n r h
    rw [hr] at h
    simp only [Option.some.injEq, Prod.mk.injEq] at h
    obtain ⟨rfl, _, rfl⟩ := h
    simp [hv]
  · rename_i h
    rw [hr] at h
    simp at h

end RotoV.Literal

namespace RotoV.FString
open RotoV.Literal

theorem utf8Len_append (a b : List Char) : utf8Len (a ++ b) = utf8Len a + utf8Len b := by
  induction a with
  | nil => simp [utf8Len]
  | cons c a ih => simp [utf8Len, ih]; omega

/-- `split_at` at the byte length of a prefix splits exactly there (never panics) -/
theorem splitAtByte_prefix (pre suf : List Char) :
    splitAtByte (pre ++ suf) (utf8Len pre) = some (pre, suf) := by
  induction pre with
  | nil => cases suf <;> simp [utf8Len, splitAtByte]
  | cons c pre ih =>
    have hpos : 0 < c.utf8Size := Char.utf8Size_pos c
    obtain ⟨n, hn⟩ : ∃ n, c.utf8Size + utf8Len pre = n + 1 := ⟨c.utf8Size + utf8Len pre - 1, by omega⟩
    simp only [List.cons_append, utf8Len, hn, splitAtByte]
    have h1 : c.utf8Size ≤ n + 1 := by omega
    have h2 : n + 1 - c.utf8Size = utf8Len pre := by omega
    simp [h1, h2, ih]

/-- characters the scanner treats specially -/
def special (c : Char) : Bool := c == '\\' || c == '{' || c == '"'

theorem scan_plain (text suf : List Char) (i : Nat) (h : ∀ c ∈ text, special c = false) :
    scan (text ++ suf) i = scan suf (i + utf8Len text) := by
  induction text generalizing i with
  | nil => simp [utf8Len]
  | cons c text ih =>
    have hc := h c (by simp)
    simp only [special, Bool.or_eq_false_iff] at hc
    obtain ⟨⟨h1, h2⟩, h3⟩ := hc
    rw [List.cons_append, scan.eq_def]
    simp only [h1, h2, h3, Bool.false_eq_true, if_false]
    rw [ih _ (fun d hd => h d (by simp [hd]))]
    simp [utf8Len]; congr 1; omega

/-! ### escapes and `{{` / `}}` in f-string text -/

theorem unescape_plain (c : Char) (rest : List Char) (h1 : c ≠ '\\') (h2 : c ≠ '"') (h3 : c ≠ '\r') :
    unescape (c :: rest) = (unescape rest).map (c :: ·) := by
  rw [unescape.eq_def]
  split <;> simp_all

/-- an escape sequence denotes `v` in every context -/
def EscOK (spelling : List Char) (v : Char) : Prop :=
  ∀ rest, unescape (spelling ++ rest) = (unescape rest).map (v :: ·)

/-- a character the brace pass copies -/
def copied (c : Char) : Bool := !(c == '\\' || c == '{' || c == '}')

/-- the brace pass copies the spelling `s` into the pending piece, whatever
    follows it and whatever is pending (so no brace inside `s` is taken for
    half of a brace escape, and nothing after `s` is swallowed) -/
def Transparent (s : List Char) : Prop :=
  ∀ S acc, partTextGo false (s ++ S) acc = partTextGo false S (s.reverse ++ acc)

def Item.ok : Item → Prop
  | .plain c => copied c = true ∧ c ≠ '"' ∧ c ≠ '\r'
  | .esc s v => EscOK s v ∧ Transparent s
  | .lbrace => True
  | .rbrace => True

def Item.isBrace : Item → Bool
  | .lbrace => true
  | .rbrace => true
  | _ => false

theorem go_nil (acc : List Char) : partTextGo false [] acc = unescape acc.reverse := by
  rw [partTextGo.eq_def]

theorem go_plain (c : Char) (S acc : List Char) (h : copied c = true) :
    partTextGo false (c :: S) acc = partTextGo false S (c :: acc) := by
  simp only [copied, Bool.not_eq_true', Bool.or_eq_false_iff] at h
  obtain ⟨⟨h1, h2⟩, h3⟩ := h
  cases S with
  | nil => rw [go_nil, partTextGo.eq_def]
  | cons d S =>
    cases S with
    | nil => rw [partTextGo.eq_def]; simp [h1, h2, h3]
    | cons e S => rw [partTextGo.eq_def]; simp [h1, h2, h3]

theorem go_plains (t S acc : List Char) (h : ∀ d ∈ t, copied d = true) :
    partTextGo false (t ++ S) acc = partTextGo false S (t.reverse ++ acc) := by
  induction t generalizing acc with
  | nil => rfl
  | cons c t ih =>
    rw [List.cons_append, go_plain c _ _ (h c (by simp)), ih _ (fun d hd => h d (by simp [hd]))]
    simp

theorem go_esc2 (k : Char) (S acc : List Char) (hk : k ≠ 'u') :
    partTextGo false ('\\' :: k :: S) acc = partTextGo false S (k :: '\\' :: acc) := by
  cases S with
  | nil => rw [partTextGo.eq_def]; simp
  | cons e S => rw [partTextGo.eq_def]; simp [hk]

/-- `\\` + one character other than `u` + characters the pass copies (`\\n`, `\\\\`, `\\x7b`, …) -/
theorem transparent_of_shape (k : Char) (tail : List Char) (hk : k ≠ 'u') (ht : ∀ d ∈ tail, copied d = true) :
    Transparent ('\\' :: k :: tail) := by
  intro S acc
  simp only [List.cons_append]
  rw [go_esc2 k _ _ hk, go_plains tail _ _ ht]
  simp

def combine (c : Char) : Option (List Char) → Option (List Char) → Option (List Char)
  | some a, some b => some (a ++ c :: b)
  | _, _ => none

theorem go_brace (c : Char) (S acc : List Char) (hc : c = '{' ∨ c = '}') :
    partTextGo false (c :: c :: S) acc = combine c (unescape acc.reverse) (partTextGo false S []) := by
  have h1 : (c == '\\') = false := by rcases hc with rfl | rfl <;> decide
  have h2 : (c == '{' || c == '}') = true := by rcases hc with rfl | rfl <;> decide
  cases S with
  | nil =>
    rw [partTextGo.eq_def]; simp only [h1, h2, Bool.false_eq_true, if_false, beq_self_eq_true, Bool.and_self, if_true]
    cases unescape acc.reverse <;> cases partTextGo false [] [] <;> rfl
  | cons e S =>
    rw [partTextGo.eq_def]; simp only [h1, h2, Bool.false_eq_true, if_false, beq_self_eq_true, Bool.and_self, if_true]
    cases unescape acc.reverse <;> cases partTextGo false (e :: S) [] <;> rfl

/-- brace-free, valid items: `unescape` is compositional on them -/
theorem unescape_items (pre : List Item) (rest : List Char)
    (hok : ∀ it ∈ pre, it.ok) (hnb : ∀ it ∈ pre, it.isBrace = false) :
    unescape (spell pre ++ rest) = (unescape rest).map (meaning pre ++ ·) := by
  induction pre with
  | nil => simp [spell, meaning]
  | cons it pre ih =>
    have ih' := ih (fun j hj => hok j (by simp [hj])) (fun j hj => hnb j (by simp [hj]))
    have hit := hok it (by simp)
    have hb := hnb it (by simp)
    cases it with
    | plain c =>
      obtain ⟨h1, h2, h3⟩ := hit
      have hc : c ≠ '\\' := by
        intro h; subst h; simp [copied] at h1
      simp only [spell, List.map_cons, List.flatten_cons, Item.spelling, List.cons_append, List.nil_append,
        meaning, Item.value] at ih' ⊢
      rw [unescape_plain c _ hc h2 h3, ih']
      cases unescape rest <;> simp
    | esc sp v =>
      obtain ⟨h1, _⟩ := hit
      simp only [spell, List.map_cons, List.flatten_cons, Item.spelling, List.append_assoc,
        meaning, Item.value] at ih' ⊢
      rw [h1, ih']
      cases unescape rest <;> simp
    | lbrace => simp [Item.isBrace] at hb
    | rbrace => simp [Item.isBrace] at hb

theorem spell_snoc (pre : List Item) (it : Item) : spell (pre ++ [it]) = spell pre ++ it.spelling := by
  simp [spell]

theorem meaning_snoc (pre : List Item) (it : Item) : meaning (pre ++ [it]) = meaning pre ++ [it.value] := by
  simp [meaning]

theorem unescape_pre (pre : List Item) (hok : ∀ it ∈ pre, it.ok) (hnb : ∀ it ∈ pre, it.isBrace = false) :
    unescape (spell pre) = some (meaning pre) := by
  have := unescape_items pre [] hok hnb
  have hnil : unescape [] = some [] := by rw [unescape.eq_def]
  rw [hnil] at this
  simpa using this

theorem partText_items (items pre : List Item) (hok : ∀ it ∈ items, it.ok)
    (hokp : ∀ it ∈ pre, it.ok) (hnb : ∀ it ∈ pre, it.isBrace = false) :
    partTextGo false (spell items) (spell pre).reverse = some (meaning pre ++ meaning items) := by
  induction items generalizing pre with
  | nil =>
    simp only [spell, List.map_nil, List.flatten_nil, go_nil, List.reverse_reverse, meaning, List.append_nil]
    exact unescape_pre pre hokp hnb
  | cons it items ih =>
    have hit := hok it (by simp)
    have hok' : ∀ j ∈ items, j.ok := fun j hj => hok j (by simp [hj])
    have step : ∀ (hb : it.isBrace = false),
        partTextGo false (spell items) (spell (pre ++ [it])).reverse =
          some (meaning pre ++ meaning (it :: items)) := by
      intro hb
      have := ih (pre ++ [it]) hok'
        (fun j hj => by
          simp only [List.mem_append, List.mem_singleton] at hj
          rcases hj with h | h
          · exact hokp j h
          · subst h; exact hit)
        (fun j hj => by
          simp only [List.mem_append, List.mem_singleton] at hj
          rcases hj with h | h
          · exact hnb j h
          · subst h; exact hb)
      rw [this, meaning_snoc]
      simp [meaning]
    cases it with
    | plain c =>
      have := step rfl
      simp only [spell_snoc, Item.spelling, List.reverse_append, List.reverse_cons, List.reverse_nil,
        List.nil_append, List.singleton_append] at this
      simp only [spell, List.map_cons, List.flatten_cons, Item.spelling, List.cons_append, List.nil_append]
      rw [go_plain c _ _ hit.1]
      exact this
    | esc sp v =>
      have := step rfl
      obtain ⟨_, ht⟩ := hit
      simp only [spell_snoc, Item.spelling, List.reverse_append] at this
      simp only [spell, List.map_cons, List.flatten_cons, Item.spelling]
      rw [ht]
      simpa [spell] using this
    | lbrace =>
      simp only [spell, List.map_cons, List.flatten_cons, Item.spelling, List.cons_append, List.nil_append]
      rw [go_brace '{' _ _ (Or.inl rfl), List.reverse_reverse]
      have h1 := unescape_pre pre hokp hnb
      have h2 := ih [] hok' (by simp) (by simp)
      simp only [spell, List.map_nil, List.flatten_nil, List.reverse_nil, meaning, List.nil_append] at h1 h2
      rw [h1, h2]
      simp [combine, meaning, Item.value]
    | rbrace =>
      simp only [spell, List.map_cons, List.flatten_cons, Item.spelling, List.cons_append, List.nil_append]
      rw [go_brace '}' _ _ (Or.inr rfl), List.reverse_reverse]
      have h1 := unescape_pre pre hokp hnb
      have h2 := ih [] hok' (by simp) (by simp)
      simp only [spell, List.map_nil, List.flatten_nil, List.reverse_nil, meaning, List.nil_append] at h1 h2
      rw [h1, h2]
      simp [combine, meaning, Item.value]

theorem copied_of_hex (h : Char) (a : Nat) (hh : hexVal h = some a) : copied h = true := by
  cases hc : copied h with
  | true => rfl
  | false =>
    exfalso
    simp only [copied, Bool.not_eq_false', Bool.or_eq_true, beq_iff_eq] at hc
    rcases hc with (rfl | rfl) | rfl <;> simp [hexVal] at hh

/-! ### the scanner on arbitrary input -/

theorem skipToBrace_split (cs : List Char) (i : Nat) (r : List Char) (j : Nat)
    (h : skipToBrace cs i = some (r, j)) : ∃ mid, cs = mid ++ r ∧ j = i + utf8Len mid := by
  induction cs generalizing i with
  | nil => simp [skipToBrace] at h
  | cons c cs ih =>
    unfold skipToBrace at h
    split at h
    · simp only [Option.some.injEq, Prod.mk.injEq] at h
      obtain ⟨rfl, rfl⟩ := h
      exact ⟨[c], by simp, by simp [utf8Len]⟩
    · obtain ⟨mid, h1, h2⟩ := ih _ h
      exact ⟨c :: mid, by simp [h1], by simp [utf8Len, h2]; omega⟩

theorem scan_offset (inp : List Char) (i : Nat) (k : Kind) (off : Nat)
    (h : scan inp i = .found k off) :
    ∃ pre suf, inp = pre ++ suf ∧ off = i + utf8Len pre ∧
      (k = .stringEnd → ∃ t, suf = '"' :: t) := by
  fun_induction scan inp i <;> try (simp_all; done)
  case case5 c i _ c1 _ c2 cs2 _ r j hs _ ih =>
    obtain ⟨pre, suf, h1, h2, h3⟩ := ih h
    obtain ⟨mid, h4, h5⟩ := skipToBrace_split _ _ _ _ hs
    refine ⟨c :: c1 :: c2 :: (mid ++ pre), suf, by simp [h4, h1], ?_, h3⟩
    simp only [utf8Len, utf8Len_append]; omega
  case case7 c i _ c1 cs1 _ ih =>
    obtain ⟨pre, suf, h1, h2, h3⟩ := ih h
    exact ⟨c :: c1 :: pre, suf, by simp [h1], by simp only [utf8Len]; omega, h3⟩
  case case9 c i _ _ c1 cs1 _ ih =>
    obtain ⟨pre, suf, h1, h2, h3⟩ := ih h
    exact ⟨c :: c1 :: pre, suf, by simp [h1], by simp only [utf8Len]; omega, h3⟩
  case case10 c i _ hb c1 cs1 _ =>
    have hc : c = '{' := by simpa using hb
    subst hc
    have h1 : ('{' : Char).utf8Size = 1 := by decide
    simp only [Scan.found.injEq, h1] at h
    obtain ⟨rfl, rfl⟩ := h
    exact ⟨[], _, rfl, by simp [utf8Len], by simp⟩
  case case11 c cs i _ _ hq =>
    have hc : c = '"' := by simpa using hq
    subst hc
    simp only [Scan.found.injEq] at h
    obtain ⟨rfl, rfl⟩ := h
    exact ⟨[], _, rfl, by simp [utf8Len], fun _ => ⟨cs, rfl⟩⟩
  case case12 c cs i _ _ _ ih =>
    obtain ⟨pre, suf, h1, h2, h3⟩ := ih h
    exact ⟨c :: pre, suf, by simp [h1], by simp only [utf8Len]; omega, h3⟩

/-- for EVERY input the scanner's byte offset is a character boundary -/
theorem fStringPart_total (inp : List Char) :
    fStringPart inp ≠ .panic ∧
    ∀ k text rest, fStringPart inp = .part k text rest →
      (k = .intermediate → inp = text ++ rest) ∧ (k = .stringEnd → inp = text ++ '"' :: rest) := by
  unfold fStringPart
  cases hs : scan inp 0 with
  | none => simp
  | found k off =>
    obtain ⟨pre, suf, h1, h2, h3⟩ := scan_offset inp 0 k off hs
    simp only [Nat.zero_add] at h2
    subst h2
    cases k with
    | intermediate =>
      simp only [h1, splitAtByte_prefix]
      simp
    | stringEnd =>
      obtain ⟨t, rfl⟩ := h3 rfl
      have hq : splitAtByte ('"' :: t) 1 = some (['"'], t) := by
        have := splitAtByte_prefix ['"'] t
        have h1 : ('"' : Char).utf8Size = 1 := by decide
        simpa [utf8Len, h1] using this
      simp only [h1, splitAtByte_prefix, hq]
      simp

/-! ## the brace pass run on an arm given as data (`partTextWith`) -/

/-- what the documented pass does after a backslash: the next character is
    consumed whatever it is; after `u` a following `{` starts a skip to just
    past the closing `}` -/
def armDoc : List Char → Nat
  | [] => 0
  | [_] => 1
  | d :: e :: cs => if d == 'u' && e == '{' then 2 + skipCount '}' cs else 1

theorem skipCount_le (stop : Char) (cs : List Char) : skipCount stop cs ≤ cs.length := by
  induction cs with
  | nil => simp [skipCount]
  | cons c cs ih => simp only [skipCount]; split <;> simp <;> omega

theorem go_true_nil (acc : List Char) : partTextGo true [] acc = unescape acc.reverse := by
  rw [partTextGo.eq_def]

/-- inside `\u{`: everything up to and including the next `}` joins the pending piece -/
theorem go_inU (cs acc : List Char) :
    partTextGo true cs acc =
      partTextGo false (cs.drop (skipCount '}' cs)) ((cs.take (skipCount '}' cs)).reverse ++ acc) := by
  induction cs generalizing acc with
  | nil => simp [skipCount, go_true_nil, go_nil]
  | cons c cs ih =>
    rw [partTextGo.eq_def]
    by_cases h : c = '}'
    · subst h
      simp [skipCount]
    · have h1 : (c != '}') = true := by simp [h]
      have h2 : (c == '}') = false := by simp [h]
      simp only [h1, skipCount, h2, Bool.false_eq_true, if_false, List.drop_succ_cons, List.take_succ_cons,
        List.reverse_cons, List.append_assoc, List.singleton_append]
      exact ih _

theorem armDoc_le (cs : List Char) : armDoc cs ≤ cs.length := by
  match cs with
  | [] => simp [armDoc]
  | [_] => simp [armDoc]
  | d :: e :: cs =>
    simp only [armDoc]
    have := skipCount_le '}' cs
    split <;> simp <;> omega

/-- the backslash arm of the hand model, in terms of `armDoc` -/
theorem go_backslash (cs acc : List Char) :
    partTextGo false ('\\' :: cs) acc =
      partTextGo false (cs.drop (armDoc cs)) ((cs.take (armDoc cs)).reverse ++ '\\' :: acc) := by
  match cs with
  | [] => rw [partTextGo.eq_def]; simp [armDoc, go_nil]
  | [d] => rw [partTextGo.eq_def]; simp [armDoc]
  | d :: e :: cs =>
    rw [partTextGo.eq_def]
    by_cases h : (d == 'u' && e == '{') = true
    · simp only [beq_self_eq_true, if_true, h, armDoc]
      rw [go_inU]
      have : 2 + skipCount '}' cs = skipCount '}' cs + 1 + 1 := by omega
      simp [this]
    · have h' : (d == 'u' && e == '{') = false := by simpa using h
      simp [h', armDoc]

theorem partTextWith_doc_aux (n : Nat) : ∀ (raw acc : List Char), raw.length ≤ n →
    partTextWith armDoc ['{', '}'] raw acc = partTextGo false raw acc := by
  induction n with
  | zero =>
    intro raw acc h
    have : raw = [] := List.length_eq_zero_iff.mp (by omega)
    subst this
    rw [partTextWith, go_nil]
  | succ n ih =>
    intro raw acc hn
    match raw with
    | [] => rw [partTextWith, go_nil]
    | c :: cs =>
      have hlen : cs.length ≤ n := by simp at hn; omega
      rw [partTextWith]
      by_cases hb : c = '\\'
      · subst hb
        simp only [beq_self_eq_true, if_true]
        rw [go_backslash]
        exact ih _ _ (by simp only [List.length_drop]; omega)
      · have hb' : (c == '\\') = false := by simp [hb]
        simp only [hb', Bool.false_eq_true, if_false]
        by_cases hbr : (['{', '}'].contains c && cs.head? == some c) = true
        · simp only [hbr, if_true]
          obtain ⟨hc, hh⟩ := Bool.and_eq_true_iff.mp hbr
          have hc' : c = '{' ∨ c = '}' := by simpa using hc
          match cs, hh, hlen with
          | d :: S, hh, hlen =>
            have : d = c := by simpa using hh
            subst this
            rw [go_brace d S acc hc', List.tail_cons, ih S [] (by simp at hlen; omega)]
            cases unescape acc.reverse <;> cases partTextGo false S [] <;> rfl
        · have hbr' : (['{', '}'].contains c && cs.head? == some c) = false := by simpa using hbr
          simp only [hbr', Bool.false_eq_true, if_false]
          rw [ih cs (c :: acc) hlen]
          -- the hand model copies `c` as well
          symm
          match cs with
          | [] => rw [go_nil, partTextGo.eq_def]
          | [d] =>
            rw [partTextGo.eq_def]
            have : ((c == '{' || c == '}') && d == c) = false := by
              by_cases h1 : c = '{' <;> by_cases h2 : c = '}' <;> by_cases h3 : d = c <;> simp_all
            simp [hb', this]
          | d :: e :: S =>
            rw [partTextGo.eq_def]
            have : ((c == '{' || c == '}') && d == c) = false := by
              by_cases h1 : c = '{' <;> by_cases h2 : c = '}' <;> by_cases h3 : d = c <;> simp_all
            simp [hb', this]

/-- the pass run on `armDoc` and the braces `{`, `}` IS the hand model, for EVERY text -/
theorem partTextWith_doc (raw acc : List Char) :
    partTextWith armDoc ['{', '}'] raw acc = partTextGo false raw acc :=
  partTextWith_doc_aux raw.length raw acc (Nat.le_refl _)

theorem skipCount_stop (hs S : List Char) (h : ∀ c ∈ hs, c ≠ '}') :
    skipCount '}' (hs ++ '}' :: S) = hs.length + 1 := by
  induction hs with
  | nil => simp [skipCount]
  | cons c hs ih =>
    have hc : (c == '}') = false := by simpa using h c (by simp)
    simp only [List.cons_append, skipCount, hc, Bool.false_eq_true, if_false, List.length_cons]
    rw [ih (fun x hx => h x (by simp [hx]))]

/-- `\\u{…}`: the pass copies the whole escape, braces included, up to its closing `}` -/
theorem transparent_unicode (hs : List Char) (h : ∀ c ∈ hs, c ≠ '}') :
    Transparent ('\\' :: 'u' :: '{' :: (hs ++ ['}'])) := by
  intro S acc
  have e : ('\\' :: 'u' :: '{' :: (hs ++ ['}'])) ++ S = '\\' :: ('u' :: '{' :: (hs ++ '}' :: S)) := by simp
  rw [e, go_backslash]
  have ha : armDoc ('u' :: '{' :: (hs ++ '}' :: S)) = hs.length + 3 := by
    simp only [armDoc, beq_self_eq_true, Bool.and_self, if_true]
    rw [skipCount_stop hs S h]; omega
  rw [ha]
  have hd : ('u' :: '{' :: (hs ++ '}' :: S)).drop (hs.length + 3) = S := by
    simp [List.drop_append]
  have htk : ('u' :: '{' :: (hs ++ '}' :: S)).take (hs.length + 3) = 'u' :: '{' :: (hs ++ ['}']) := by
    simp [List.take_append, List.take_of_length_le]
  rw [hd, htk]
  simp

/-! ## the lexer's scanner on documented text (`ScanThrough`) -/

/-- the lexer's scanner walks over the spelling `s` and goes on behind it, whatever follows -/
def ScanThrough (s : List Char) : Prop :=
  ∀ S i, scan (s ++ S) i = scan S (i + utf8Len s)

theorem scanThrough_nil : ScanThrough [] := by
  intro S i; simp [utf8Len]

theorem scanThrough_append (a b : List Char) (ha : ScanThrough a) (hb : ScanThrough b) :
    ScanThrough (a ++ b) := by
  intro S i
  rw [List.append_assoc, ha, hb, utf8Len_append]; congr 1; omega

theorem scanThrough_plain (t : List Char) (h : ∀ c ∈ t, special c = false) : ScanThrough t :=
  fun S i => scan_plain t S i h

theorem scanThrough_lbrace : ScanThrough ['{', '{'] := by
  intro S i
  rw [show ['{', '{'] ++ S = '{' :: '{' :: S from rfl, scan.eq_def]
  simp [utf8Len]; congr 1

theorem scanThrough_esc2 (k : Char) (tail : List Char) (h1 : k ≠ 'u') (h2 : k ≠ 'U')
    (ht : ∀ c ∈ tail, special c = false) : ScanThrough ('\\' :: k :: tail) := by
  intro S i
  rw [show ('\\' :: k :: tail) ++ S = '\\' :: k :: (tail ++ S) from rfl, scan.eq_def]
  simp only [beq_self_eq_true, if_true]
  have : (k == 'u' || k == 'U') = false := by simp [h1, h2]
  simp only [this, Bool.false_eq_true, if_false]
  rw [scan_plain tail S _ ht]
  simp [utf8Len]; congr 1; omega

theorem skipToBrace_stop (hs S : List Char) (j : Nat) (h : ∀ c ∈ hs, c ≠ '}') :
    skipToBrace (hs ++ '}' :: S) j = some (S, j + utf8Len hs + ('}' : Char).utf8Size) := by
  induction hs generalizing j with
  | nil => simp [skipToBrace, utf8Len]
  | cons c hs ih =>
    have hc : (c == '}') = false := by simpa using h c (by simp)
    simp only [List.cons_append, skipToBrace, hc, Bool.false_eq_true, if_false]
    rw [ih _ (fun x hx => h x (by simp [hx]))]
    simp [utf8Len]; omega

theorem scanThrough_unicode (hs : List Char) (h : ∀ c ∈ hs, c ≠ '}') :
    ScanThrough ('\\' :: 'u' :: '{' :: (hs ++ ['}'])) := by
  intro S i
  rw [show ('\\' :: 'u' :: '{' :: (hs ++ ['}'])) ++ S = '\\' :: 'u' :: '{' :: (hs ++ '}' :: S) by simp, scan.eq_def]
  simp only [beq_self_eq_true, if_true, Bool.true_or, bne_self_eq_false, Bool.false_eq_true, if_false]
  split
  · rename_i r j hsk
    rw [skipToBrace_stop hs S _ h] at hsk
    simp only [Option.some.injEq, Prod.mk.injEq] at hsk
    obtain ⟨rfl, rfl⟩ := hsk
    congr 1
    simp [utf8Len, utf8Len_append]; omega
  · rename_i hsk
    rw [skipToBrace_stop hs S _ h] at hsk
    simp at hsk

/-- what the LEXER needs of an item -/
def Item.lexOk : Item → Prop
  | .plain c => special c = false
  | .esc s _ => ScanThrough s
  | .lbrace => True
  | .rbrace => True

theorem scanThrough_items (items : List Item) (h : ∀ it ∈ items, it.lexOk) : ScanThrough (spell items) := by
  induction items with
  | nil => exact scanThrough_nil
  | cons it items ih =>
    have hit := h it (by simp)
    have ih' := ih (fun j hj => h j (by simp [hj]))
    have : spell (it :: items) = it.spelling ++ spell items := by simp [spell]
    rw [this]
    apply scanThrough_append _ _ _ ih'
    cases it with
    | plain c => exact scanThrough_plain [c] (by intro d hd; simp at hd; subst hd; exact hit)
    | esc s v => exact hit
    | lbrace => exact scanThrough_lbrace
    | rbrace => exact scanThrough_plain ['}', '}'] (by decide)

/-- the lexer ends a documented text part exactly at the closing quote -/
theorem fStringPart_end (items : List Item) (rest : List Char) (h : ∀ it ∈ items, it.lexOk) :
    fStringPart (spell items ++ '"' :: rest) = .part .stringEnd (spell items) rest := by
  have hs := scanThrough_items items h ('"' :: rest) 0
  have hq : scan ('"' :: rest) (0 + utf8Len (spell items)) = .found .stringEnd (utf8Len (spell items)) := by
    rw [scan.eq_def]; simp
  unfold fStringPart
  rw [hs, hq]
  simp only [splitAtByte_prefix]
  have h1 : splitAtByte ('"' :: rest) 1 = some (['"'], rest) := by
    have := splitAtByte_prefix ['"'] rest
    have h1 : ('"' : Char).utf8Size = 1 := by decide
    simpa [utf8Len, h1] using this
  simp [h1]

/-- … and exactly before a hole -/
theorem fStringPart_hole (items : List Item) (c : Char) (rest : List Char) (h : ∀ it ∈ items, it.lexOk)
    (hc : c ≠ '{') :
    fStringPart (spell items ++ '{' :: c :: rest) = .part .intermediate (spell items) ('{' :: c :: rest) := by
  have hs := scanThrough_items items h ('{' :: c :: rest) 0
  have hq : scan ('{' :: c :: rest) (0 + utf8Len (spell items)) = .found .intermediate (utf8Len (spell items)) := by
    rw [scan.eq_def]
    have h1 : ('{' : Char).utf8Size = 1 := by decide
    simp [hc, h1]
  unfold fStringPart
  rw [hs, hq]
  simp only [splitAtByte_prefix]

/-- one text part up to the closing quote, through the lexer and a text decoder `pt` -/
theorem fStringP_text (pt : List Char → Option (List Char)) (items : List Item) (rest : List Char) (fuel : Nat)
    (hlex : ∀ it ∈ items, it.lexOk) (hne : spell items ≠ []) (hpt : pt (spell items) = some (meaning items)) :
    fStringP pt (fuel + 1) (spell items ++ '"' :: rest) = some [.text (meaning items)] := by
  rw [fStringP, fStringPart_end items rest hlex]
  have : (spell items).isEmpty = false := by
    cases h : spell items with
    | nil => exact absurd h hne
    | cons _ _ => rfl
  simp [this, hpt]

/-- text, hole, text, closing quote -/
theorem fStringP_text_hole_text (pt : List Char → Option (List Char)) (a b : List Item) (h rest : List Char) (c : Char)
    (fuel : Nat) (ha : ∀ it ∈ a, it.lexOk) (hb : ∀ it ∈ b, it.lexOk)
    (hna : spell a ≠ []) (hnb : spell b ≠ [])
    (hpa : pt (spell a) = some (meaning a)) (hpb : pt (spell b) = some (meaning b))
    (hc : c ≠ '{') (hh : ∀ d ∈ c :: h, d ≠ '}') :
    fStringP pt (fuel + 2) (spell a ++ '{' :: c :: (h ++ '}' :: (spell b ++ '"' :: rest))) =
      some [.text (meaning a), .hole (c :: h), .text (meaning b)] := by
  rw [fStringP, fStringPart_hole a c _ ha hc]
  have he : eatWhile (fun d => d != '}') (c :: (h ++ '}' :: (spell b ++ '"' :: rest))) =
      (c :: h, '}' :: (spell b ++ '"' :: rest)) := by
    have := eatWhile_all (fun d => d != '}') (c :: h) ('}' :: (spell b ++ '"' :: rest))
      (fun d hd => by simpa using hh d hd) (by simp [Stops])
    simpa using this
  simp only [he]
  rw [fStringP_text pt b rest fuel hb hnb hpb]
  have : (spell a).isEmpty = false := by
    cases h : spell a with
    | nil => exact absurd h hna
    | cons _ _ => rfl
  simp [this, hpa]

/-- an f-string with any number of holes: segments `text {hole}` and a last text -/
def renderSegs : List (List Item × List Char) → List Item → List Char → List Char
  | [], last, rest => spell last ++ '"' :: rest
  | (a, h) :: segs, last, rest => spell a ++ '{' :: (h ++ '}' :: renderSegs segs last rest)

def partsOf : List (List Item × List Char) → List Item → List Part
  | [], last => [.text (meaning last)]
  | (a, h) :: segs, last => .text (meaning a) :: .hole h :: partsOf segs last

/-- what is asked of a hole's source: non-empty, does not begin with `{`, no `}` inside -/
def HoleOk (h : List Char) : Prop := (∃ c t, h = c :: t ∧ c ≠ '{') ∧ ∀ d ∈ h, d ≠ '}'

theorem fStringP_segs (pt : List Char → Option (List Char)) (segs : List (List Item × List Char))
    (last : List Item) (rest : List Char) (fuel : Nat)
    (hseg : ∀ s ∈ segs, (∀ it ∈ s.1, it.lexOk) ∧ spell s.1 ≠ [] ∧ pt (spell s.1) = some (meaning s.1) ∧ HoleOk s.2)
    (hl : ∀ it ∈ last, it.lexOk) (hnl : spell last ≠ []) (hpl : pt (spell last) = some (meaning last)) :
    fStringP pt (segs.length + 1 + fuel) (renderSegs segs last rest) = some (partsOf segs last) := by
  induction segs with
  | nil =>
    simp only [List.length_nil, Nat.zero_add, renderSegs, partsOf]
    rw [Nat.add_comm]
    exact fStringP_text pt last rest fuel hl hnl hpl
  | cons s segs ih =>
    obtain ⟨a, h⟩ := s
    obtain ⟨ha, hna, hpa, ⟨c, t, rfl, hc⟩, hh⟩ := hseg (a, h) (by simp)
    have ih' := ih (fun s hs => hseg s (by simp [hs]))
    simp only [List.length_cons, renderSegs, partsOf]
    rw [show segs.length + 1 + 1 + fuel = (segs.length + 1 + fuel) + 1 by omega, fStringP]
    rw [show spell a ++ '{' :: (c :: t ++ '}' :: renderSegs segs last rest) =
      spell a ++ '{' :: c :: (t ++ '}' :: renderSegs segs last rest) by simp]
    rw [fStringPart_hole a c _ ha hc]
    have he : eatWhile (fun d => d != '}') (c :: (t ++ '}' :: renderSegs segs last rest)) =
        (c :: t, '}' :: renderSegs segs last rest) := by
      have := eatWhile_all (fun d => d != '}') (c :: t) ('}' :: renderSegs segs last rest)
        (fun d hd => by simpa using hh d hd) (by simp [Stops])
      simpa using this
    simp only [he]
    rw [ih']
    have : (spell a).isEmpty = false := by
      cases h : spell a with
      | nil => exact absurd h hna
      | cons _ _ => rfl
    simp [this, hpa]

end RotoV.FString
