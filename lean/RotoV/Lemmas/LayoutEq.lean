/-
  Lemmas/LayoutEq — C02: the generated equality function (`eqTy`) computes the
  structural equality (`veq`) of the two decoded values, for all type trees;
  zero-sized components compare equal.
-/
import RotoV.Lemmas.LayoutClone
namespace RotoV.Layout
open RotoV RotoV.LayoutStd RotoV.Gen.LayoutGen

variable (le : LeafKind → List Nat → List Nat → Bool)

theorem decodeFields_cons_some (m : Mem) (t : Ty) (ts : Tys) (bd : LayoutBuilder) (a : Nat) (vs : Vs)
    (l : Layout) (hl : layoutOf t = some l) (h : decodeFields m (.cons t ts) bd a = some vs) :
    ∃ v vs', decode m t (a + (bd.add l).2) = some v ∧ decodeFields m ts (bd.add l).1 a = some vs' ∧
      vs = .cons v vs' := by
  simp only [decodeFields, hl] at h
  split at h
  · rename_i v vs' h1 h2
    exact ⟨v, vs', h1, h2, by simpa using h.symm⟩
  · simp at h

mutual
/-- two decoded values of a zero-sized type are structurally equal -/
theorem zero_size_veq (hle0 : ∀ k, le k [] [] = true) (m : Mem) : ∀ (t : Ty) (L : Layout), layoutOf t = some L → L.size = 0 →
    ∀ (a b : Nat) (va vb : V), decode m t a = some va → decode m t b = some vb → veq le va vb = true
  | .unit, L, _, _, a, b, va, vb, ha, hb => by
    simp [decode] at ha hb; subst ha; subst hb; simp [veq]
  | .never, L, h, _, _, _, _, _, _, _ => by simp [layoutOf] at h
  | .leaf k s al, L, h, hz, a, b, va, vb, ha, hb => by
    simp [layoutOf, Layout.new] at h; subst h
    simp at hz; subst hz
    simp [decode, Mem.read] at ha hb; subst ha; subst hb
    simp [veq, hle0]
  | .record fs, L, h, hz, a, b, va, vb, ha, hb => by
    cases hbf : buildFields fs LayoutBuilder.new with
    | none => simp [layoutOf, hbf] at h
    | some bd =>
      simp [layoutOf, hbf] at h; subst h
      have hz' : bd.size = 0 := by
        have := finish_size_ge bd
        omega
      cases hda : decodeFields m fs LayoutBuilder.new a with
      | none => simp [decode, hda] at ha
      | some vas =>
        cases hdb : decodeFields m fs LayoutBuilder.new b with
        | none => simp [decode, hdb] at hb
        | some vbs =>
          simp [decode, hda] at ha; simp [decode, hdb] at hb; subst ha; subst hb
          simp only [veq]
          exact zero_size_vseq hle0 m fs _ bd hbf hz' a b vas vbs hda hdb
  | .enum vs, L, h, hz, _, _, _, _, _, _ => by
    have := enum_size_pos vs L h
    omega
theorem zero_size_vseq (hle0 : ∀ k, le k [] [] = true) (m : Mem) : ∀ (ts : Tys) (bd bd' : LayoutBuilder),
    buildFields ts bd = some bd' → bd'.size = 0 →
    ∀ (a b : Nat) (vas vbs : Vs), decodeFields m ts bd a = some vas → decodeFields m ts bd b = some vbs →
    vseq le vas vbs = true
  | .nil, bd, bd', _, _, a, b, vas, vbs, ha, hb => by
    simp [decodeFields] at ha hb; subst ha; subst hb; simp [vseq]
  | .cons t ts, bd, bd', h, hz, a, b, vas, vbs, ha, hb => by
    cases hl : layoutOf t with
    | none => simp [buildFields, hl] at h
    | some l =>
      simp [buildFields, hl] at h
      have hmono := buildFields_size_mono ts _ bd' h
      simp at hmono
      have hlz : l.size = 0 := by omega
      obtain ⟨va, vas', h1, h2, e1⟩ := decodeFields_cons_some m t ts bd a vas l hl ha
      obtain ⟨vb, vbs', h3, h4, e2⟩ := decodeFields_cons_some m t ts bd b vbs l hl hb
      subst e1; subst e2
      simp only [vseq, Bool.and_eq_true]
      exact ⟨zero_size_veq hle0 m t l hl hlz _ _ va vb h1 h3,
        zero_size_vseq hle0 m ts _ bd' h hz a b vas' vbs' h2 h4⟩
end

mutual
/-- the generated equality function computes structural equality of the two
    decoded values -/
theorem eqTy_veq (hle0 : ∀ k, le k [] [] = true) (m : Mem) : ∀ (t : Ty) (L : Layout), layoutOf t = some L →
    ∀ (a b : Nat) (va vb : V), decode m t a = some va → decode m t b = some vb →
    eqTy le m t a b = veq le va vb
  | .unit, L, _, a, b, va, vb, ha, hb => by
    simp [decode] at ha hb; subst ha; subst hb; simp [veq, eqTy]
  | .never, L, h, _, _, _, _, _, _ => by simp [layoutOf] at h
  | .leaf k s al, L, h, a, b, va, vb, ha, hb => by
    simp [decode] at ha hb; subst ha; subst hb
    simp [veq, eqTy]
  | .record fs, L, h, a, b, va, vb, ha, hb => by
    cases hbf : buildFields fs LayoutBuilder.new with
    | none => simp [layoutOf, hbf] at h
    | some bd =>
      cases hda : decodeFields m fs LayoutBuilder.new a with
      | none => simp [decode, hda] at ha
      | some vas =>
        cases hdb : decodeFields m fs LayoutBuilder.new b with
        | none => simp [decode, hdb] at hb
        | some vbs =>
          simp [decode, hda] at ha; simp [decode, hdb] at hb; subst ha; subst hb
          simp only [veq, eqTy]
          exact eqFields_vseq hle0 m fs _ bd hbf a b vas vbs hda hdb
  | .enum vs, L, h, a, b, va, vb, ha, hb => by
    cases hda : decodeVariant m vs (m a) a with
    | none => simp [decode, hda] at ha
    | some fa =>
      cases hdb : decodeVariant m vs (m b) b with
      | none => simp [decode, hdb] at hb
      | some fb =>
        simp [decode, hda] at ha; simp [decode, hdb] at hb; subst ha; subst hb
        simp only [veq, eqTy]
        by_cases htag : m a = m b
        · simp only [htag, if_true]
          rw [htag] at hda
          exact eqVariant_vseq hle0 m vs (m b) a b fa fb hda hdb
        · simp [htag]
theorem eqFields_vseq (hle0 : ∀ k, le k [] [] = true) (m : Mem) : ∀ (ts : Tys) (bd bd' : LayoutBuilder),
    buildFields ts bd = some bd' →
    ∀ (a b : Nat) (vas vbs : Vs), decodeFields m ts bd a = some vas → decodeFields m ts bd b = some vbs →
    eqFields le m ts bd a b = vseq le vas vbs
  | .nil, bd, bd', _, a, b, vas, vbs, ha, hb => by
    simp [decodeFields] at ha hb; subst ha; subst hb; simp [vseq, eqFields]
  | .cons t ts, bd, bd', h, a, b, vas, vbs, ha, hb => by
    cases hl : layoutOf t with
    | none => simp [buildFields, hl] at h
    | some l =>
      simp [buildFields, hl] at h
      obtain ⟨va, vas', h1, h2, e1⟩ := decodeFields_cons_some m t ts bd a vas l hl ha
      obtain ⟨vb, vbs', h3, h4, e2⟩ := decodeFields_cons_some m t ts bd b vbs l hl hb
      subst e1; subst e2
      have ih2 := eqFields_vseq hle0 m ts _ bd' h a b vas' vbs' h2 h4
      simp only [eqFields, hl, vseq, ih2]
      by_cases hz : noIrValue t = true
      · have hz0 : l.get_size = 0 := by
          simp only [noIrValue, sizeZero, hl, Bool.and_eq_true, beq_iff_eq] at hz
          exact hz.2
        have : veq le va vb = true := zero_size_veq le hle0 m t l hl hz0 _ _ va vb h1 h3
        simp [hz, this]
      · have ih1 := eqTy_veq hle0 m t l hl _ _ va vb h1 h3
        simp only [add_snd] at ih1
        simp [hz, ih1]
theorem eqVariant_vseq (hle0 : ∀ k, le k [] [] = true) (m : Mem) : ∀ (vs : Vars) (tag a b : Nat) (fa fb : Vs),
    decodeVariant m vs tag a = some fa → decodeVariant m vs tag b = some fb →
    eqVariant le m vs tag a b = vseq le fa fb
  | .nil, tag, a, b, fa, fb, ha, _ => by simp [decodeVariant] at ha
  | .cons v vs, 0, a, b, fa, fb, ha, hb => by
    simp only [decodeVariant] at ha hb
    cases hc : collectLayouts v with
    | none => simp [collectLayouts_none_decode m v _ _ hc] at ha
    | some ls =>
      obtain ⟨bd', hbd⟩ := buildFields_some_of_collect v variantStart ls hc
      simp only [eqVariant, hc]
      exact eqFields_vseq hle0 m v _ bd' hbd a b fa fb ha hb
  | .cons v vs, tag + 1, a, b, fa, fb, ha, hb => by
    simp only [decodeVariant] at ha hb
    simp only [eqVariant]
    exact eqVariant_vseq hle0 m vs tag a b fa fb ha hb
end

mutual
theorem veq_iff_eq (hle : ∀ k x y, le k x y = true ↔ x = y) : ∀ (a b : V), veq le a b = true ↔ a = b
  | .unit, .unit => by simp [veq]
  | .unit, .leaf _ _ => by simp [veq]
  | .unit, .rec_ _ => by simp [veq]
  | .unit, .enm _ _ => by simp [veq]
  | .leaf k x, .leaf k' y => by simp [veq, hle]
  | .leaf _ _, .unit => by simp [veq]
  | .leaf _ _, .rec_ _ => by simp [veq]
  | .leaf _ _, .enm _ _ => by simp [veq]
  | .rec_ a, .rec_ b => by simp [veq, vseq_iff_eq hle a b]
  | .rec_ _, .unit => by simp [veq]
  | .rec_ _, .leaf _ _ => by simp [veq]
  | .rec_ _, .enm _ _ => by simp [veq]
  | .enm t a, .enm u b => by
    by_cases h : t = u
    · simp [veq, h, vseq_iff_eq hle a b]
    · simp [veq, h]
  | .enm _ _, .unit => by simp [veq]
  | .enm _ _, .leaf _ _ => by simp [veq]
  | .enm _ _, .rec_ _ => by simp [veq]
theorem vseq_iff_eq (hle : ∀ k x y, le k x y = true ↔ x = y) : ∀ (a b : Vs), vseq le a b = true ↔ a = b
  | .nil, .nil => by simp [vseq]
  | .nil, .cons _ _ => by simp [vseq]
  | .cons _ _, .nil => by simp [vseq]
  | .cons a as, .cons b bs => by simp [vseq, veq_iff_eq hle a b, vseq_iff_eq hle as bs]
end

/-- the executed clone loop visits exactly the components the op-level model
    (`cloneRecordLoop`, compared with the real lowerer on every run) lists, at
    the same offsets, in the same order -/
theorem cloneFields_eq_visits : ∀ (ts : Tys) (i : Nat) (b : LayoutBuilder) (src dst : Nat) (m : Mem),
    cloneFields ts b src dst m =
      (cloneRecordLoop ts i b).foldl (fun m v => cloneTy v.2.2 (src + v.2.1) (dst + v.2.1) m) m
  | .nil, i, b, src, dst, m => by simp [cloneFields, cloneRecordLoop]
  | .cons t ts, i, b, src, dst, m => by
    cases hl : layoutOf t with
    | none => simp [cloneFields, cloneRecordLoop, hl, cloneFields_eq_visits ts (i + 1) b src dst m]
    | some l =>
      simp [cloneFields, cloneRecordLoop, hl, cloneFields_eq_visits ts (i + 1) (b.add l).1 src dst]

/-- the executed eq chain compares exactly the components `eqRecordLoop` lists -/
theorem eqFields_eq_visits (le : LeafKind → List Nat → List Nat → Bool) (m : Mem) :
    ∀ (ts : Tys) (i : Nat) (bd : LayoutBuilder) (a b : Nat),
    eqFields le m ts bd a b =
      (eqRecordLoop ts i bd).all (fun v =>
        match layoutOf v.2.2 with
        | some _ => if noIrValue v.2.2 then true else eqTy le m v.2.2 (a + v.2.1) (b + v.2.1)
        | none => true)
  | .nil, i, bd, a, b => by simp [eqFields, eqRecordLoop]
  | .cons t ts, i, bd, a, b => by
    cases hl : layoutOf t with
    | none => simp [eqFields, eqRecordLoop, hl, eqFields_eq_visits le m ts (i + 1) bd a b]
    | some l =>
      simp [eqFields, eqRecordLoop, hl, eqFields_eq_visits le m ts (i + 1) (bd.add l).1 a b]

end RotoV.Layout
