/-
  Registration (C18): the five passes of `Rt::add` as five lists of atomic
  operations.

  Every pass of `Rt::add` walks the item tree and performs, per item, one
  guarded insertion into the scope graph.  `flat leaf scope items` lists these
  operations in the order the pass performs them (`leaf` says which operations
  an item contributes in that pass); the theorems `declModules_eq`, `walk_eq`,
  `declImports_eq` say that running the list is the pass, and `add_eq` that
  `Rt::add` is the five lists run one after the other.  Everything the
  property says about *all orders* and about *exactly when* a registration
  fails is then a statement about lists (`Lemmas/RegistrationClosed.lean`).
-/
import RotoV.Lemmas.RegistrationUse

namespace RotoV.Reg

/-! ## running a list of operations -/

def runL {α : Type} (run : α → St → Res St) : List α → St → Res St
  | [], st => .ok st
  | o :: l, st =>
    match run o st with
    | .ok st' => runL run l st'
    | .err e => .err e
    | .panic s => .panic s

theorem runL_append {α : Type} (run : α → St → Res St) :
    ∀ (a b : List α) (st : St), runL run (a ++ b) st =
      match runL run a st with
      | .ok st' => runL run b st'
      | .err e => .err e
      | .panic s => .panic s
  | [], b, st => by simp [runL]
  | o :: a, b, st => by
    simp only [List.cons_append, runL]
    cases run o st with
    | ok st' => exact runL_append run a b st'
    | err e => rfl
    | panic s => rfl

theorem runL_single {α : Type} (run : α → St → Res St) (o : α) (st : St) :
    runL run [o] st = run o st := by
  simp only [runL]
  cases run o st <;> rfl

theorem runL_good {α : Type} (run : α → St → Res St)
    (hg : ∀ o st, WF st → Good st (run o st)) :
    ∀ (l : List α) (st : St), WF st → Good st (runL run l st)
  | [], st, hw => by simp [runL, Good, Ext.refl, hw]
  | o :: l, st, hw => by
    have h1 := hg o st hw
    simp only [runL]
    cases hr : run o st with
    | err e => trivial
    | panic s => rw [hr] at h1; exact h1
    | ok st1 =>
      rw [hr] at h1
      exact Good.mono h1.1 (runL_good run hg l st1 h1.2)

/-! ## the operations -/

/-- operations that declare at most one name (passes 1, 3, 4) -/
inductive DOp
  | mod (scope : ScopeId) (n : Name)
  | fn (scope : ScopeId) (n : Name) (ps : List RustTy) (r : RustTy) (tag : Nat)
  /-- the head of an impl block: its type must be registered -/
  | implCheck (ty : TyId)
  | method (ty : TyId) (n : Name) (ps : List RustTy) (r : RustTy) (tag : Nat)
  /-- a module, type or impl block inside an impl block -/
  | nested
  | const (scope : ScopeId) (n : Name) (ty : RustTy) (tag : Nat)
  | implConst (ty : TyId) (n : Name) (cty : RustTy) (tag : Nat)
  deriving DecidableEq, Repr

/-- a `type` item (pass 2) -/
structure TOp where
  scope : ScopeId
  n : Name
  id : TyId
  deriving DecidableEq, Repr

def TOp.nm (t : TOp) : RName := ⟨t.scope, t.n⟩

section
variable (lex : Name → Lex)

def DOp.run : DOp → St → Res St
  | .mod scope n, st =>
    match declareModule scope n st with
    | .ok (st', _) => .ok st'
    | .err e => .err e
    | .panic s => .panic s
  | .fn scope n ps r tag, st => declareFunction Cfg.fixed lex scope n ps r tag false st
  | .implCheck ty, st =>
    match implScope ty st with
    | .ok _ => .ok st
    | .err e => .err e
    | .panic s => .panic s
  | .method ty n ps r tag, st =>
    match implScope ty st with
    | .ok s => declareFunction Cfg.fixed lex s n ps r tag true st
    | .err e => .err e
    | .panic s => .panic s
  | .nested, _ => .err .nestedInImpl
  | .const scope n ty tag, st => declareConstant scope n ty tag st
  | .implConst ty n cty tag, st =>
    match implScope ty st with
    | .ok s => declareConstant s n cty tag st
    | .err e => .err e
    | .panic s => .panic s

def TOp.run (t : TOp) (st : St) : Res St := declareType Cfg.fixed t.scope t.n t.id st

/-- one path of a `use` item (pass 5; every import is registered at the root,
    see `use_in_module_lands_in_parent`) -/
def runImport (p : List Name) (st : St) : Res St := declareImport Cfg.fixed [] p st

theorem DOp.run_good (o : DOp) (st : St) (hw : WF st) : Good st (o.run lex st) := by
  cases o with
  | mod scope n =>
    have h := declareModule_good hw scope n
    simp only [DOp.run]
    cases hr : declareModule scope n st with
    | ok p => obtain ⟨st', ms⟩ := p; rw [hr] at h; exact ⟨h.1, h.2.1⟩
    | err e => trivial
    | panic s => rw [hr] at h; exact h
  | fn scope n ps r tag => exact declareFunction_good hw lex scope n ps r tag false
  | implCheck ty =>
    simp only [DOp.run]
    cases hs : implScope ty st with
    | ok s => exact ⟨Ext.refl st, hw⟩
    | err e => trivial
    | panic s => exact absurd hs (implScope_noPanic hw ty s)
  | method ty n ps r tag =>
    simp only [DOp.run]
    cases hs : implScope ty st with
    | ok s => exact declareFunction_good hw lex s n ps r tag true
    | err e => trivial
    | panic s => exact absurd hs (implScope_noPanic hw ty s)
  | nested => trivial
  | const scope n ty tag => exact declareConstant_good hw scope n ty tag
  | implConst ty n cty tag =>
    simp only [DOp.run]
    cases hs : implScope ty st with
    | ok s => exact declareConstant_good hw s n cty tag
    | err e => trivial
    | panic s => exact absurd hs (implScope_noPanic hw ty s)

theorem TOp.run_good (t : TOp) (st : St) (hw : WF st) : Good st (t.run st) :=
  declareType_good hw t.scope t.n t.id

theorem runImport_good (p : List Name) (st : St) (hw : WF st) : Good st (runImport p st) :=
  declareImport_good hw [] p

end

/-! ## which operations an item contributes to a pass -/

def Items.toList : Items → List Item
  | .nil => []
  | .cons i is => i :: is.toList

/-- a child of an impl block in pass 3 (`declare_methods`) -/
def methodOp (ty : TyId) : Item → List DOp
  | .function n ps r tag => [.method ty n ps r tag]
  | .impl _ _ => [.nested]
  | .type _ _ => [.nested]
  | .module _ _ => [.nested]
  | .use _ => []
  | .constant _ _ _ => []

/-- a child of an impl block in pass 4 (`declare_constants` on the children) -/
def implConstOp (ty : TyId) : Item → List DOp
  | .constant n cty tag => [.implConst ty n cty tag]
  | .module _ _ => [.nested]
  | .impl _ _ => [.nested]
  | .function _ _ _ _ => []
  | .type _ _ => []
  | .use _ => []

def methodOps (ty : TyId) (ch : Items) : List DOp := ch.toList.flatMap (methodOp ty)
def implConstOps (ty : TyId) (ch : Items) : List DOp := ch.toList.flatMap (implConstOp ty)

def leafMod : ScopeId → Item → List DOp
  | s, .module n _ => [.mod s n]
  | _, _ => []

def leafType : ScopeId → Item → List TOp
  | s, .type n id => [⟨s, n, id⟩]
  | _, _ => []

def leafFn : ScopeId → Item → List DOp
  | s, .function n ps r tag => [.fn s n ps r tag]
  | _, .impl ty ch => .implCheck ty :: methodOps ty ch
  | _, _ => []

def leafConst : ScopeId → Item → List DOp
  | s, .constant n ty tag => [.const s n ty tag]
  | _, .impl ty ch => .implCheck ty :: implConstOps ty ch
  | _, _ => []

def leafUse : ScopeId → Item → List (List Name)
  | _, .use ps => ps
  | _, _ => []

mutual
/-- the operations of one pass over an item list, in the order of the walk;
    a module's children are listed with the module's own scope -/
def flat {α : Type} (leaf : ScopeId → Item → List α) (scope : ScopeId) : Items → List α
  | .nil => []
  | .cons i is => flatItem leaf scope i ++ flat leaf scope is
def flatItem {α : Type} (leaf : ScopeId → Item → List α) (scope : ScopeId) : Item → List α
  | .module n ch => leaf scope (.module n ch) ++ flat leaf (scope ++ [n]) ch
  | .type n id => leaf scope (.type n id)
  | .function n ps r tag => leaf scope (.function n ps r tag)
  | .constant n ty tag => leaf scope (.constant n ty tag)
  | .impl ty ch => leaf scope (.impl ty ch)
  | .use ps => leaf scope (.use ps)
end

/-! ## the passes are their lists -/

theorem declareModule_scope {scope : ScopeId} {n : Name} {st st' : St} {ms : ScopeId}
    (h : declareModule scope n st = .ok (st', ms)) : ms = scope ++ [n] := by
  unfold declareModule at h
  split at h
  · cases h
  · cases h; rfl

section
variable (lex : Name → Lex)

mutual
theorem declModules_eq (parent : Option ScopeId) :
    ∀ (is : Items) (st : St),
      declModules parent is st = runL (DOp.run lex) (flat leafMod (parent.getD []) is) st
  | .nil, st => by simp [declModules, flat, runL]
  | .cons i is, st => by
    simp only [declModules, flat, runL_append]
    rw [declModulesItem_eq parent i st]
    cases runL (DOp.run lex) (flatItem leafMod (parent.getD []) i) st with
    | ok st' => exact declModules_eq parent is st'
    | err e => rfl
    | panic s => rfl
theorem declModulesItem_eq (parent : Option ScopeId) :
    ∀ (i : Item) (st : St),
      declModulesItem parent i st = runL (DOp.run lex) (flatItem leafMod (parent.getD []) i) st
  | .module n ch, st => by
    simp only [declModulesItem, flatItem, leafMod, List.singleton_append, runL, DOp.run]
    cases hr : declareModule (parent.getD []) n st with
    | ok p =>
      obtain ⟨st', ms⟩ := p
      have := declareModule_scope hr
      subst this
      exact declModules_eq (some (parent.getD [] ++ [n])) ch st'
    | err e => rfl
    | panic s => rfl
  | .type _ _, st => by simp [declModulesItem, flatItem, leafMod, runL]
  | .function _ _ _ _, st => by simp [declModulesItem, flatItem, leafMod, runL]
  | .constant _ _ _, st => by simp [declModulesItem, flatItem, leafMod, runL]
  | .impl _ _, st => by simp [declModulesItem, flatItem, leafMod, runL]
  | .use _, st => by simp [declModulesItem, flatItem, leafMod, runL]
end

theorem declareImportList_eq (scope : ScopeId) :
    ∀ (ps : List (List Name)) (st : St),
      declareImportList Cfg.fixed scope ps st = runL (declareImport Cfg.fixed scope) ps st
  | [], st => by simp [declareImportList, runL]
  | p :: ps, st => by
    simp only [declareImportList, runL]
    cases declareImport Cfg.fixed scope p st with
    | ok st' => exact declareImportList_eq scope ps st'
    | err e => rfl
    | panic s => rfl

mutual
theorem declImports_eq (scope : ScopeId) :
    ∀ (is : Items) (sc : ScopeId) (st : St),
      declImports Cfg.fixed scope is st = runL (declareImport Cfg.fixed scope) (flat leafUse sc is) st
  | .nil, sc, st => by simp [declImports, flat, runL]
  | .cons i is, sc, st => by
    simp only [declImports, flat, runL_append]
    rw [declImportsItem_eq scope i sc st]
    cases runL (declareImport Cfg.fixed scope) (flatItem leafUse sc i) st with
    | ok st' => exact declImports_eq scope is sc st'
    | err e => rfl
    | panic s => rfl
theorem declImportsItem_eq (scope : ScopeId) :
    ∀ (i : Item) (sc : ScopeId) (st : St),
      declImportsItem Cfg.fixed scope i st = runL (declareImport Cfg.fixed scope) (flatItem leafUse sc i) st
  | .use ps, sc, st => by
    simp only [declImportsItem, flatItem, leafUse]; exact declareImportList_eq scope ps st
  | .module n ch, sc, st => by
    simp only [declImportsItem, flatItem, leafUse, List.nil_append]
    exact declImports_eq scope ch (sc ++ [n]) st
  | .type _ _, sc, st => by simp [declImportsItem, flatItem, leafUse, runL]
  | .function _ _ _ _, sc, st => by simp [declImportsItem, flatItem, leafUse, runL]
  | .constant _ _ _, sc, st => by simp [declImportsItem, flatItem, leafUse, runL]
  | .impl _ _, sc, st => by simp [declImportsItem, flatItem, leafUse, runL]
end

/-! ### passes 2–4 -/

theorem implScope_ext {st st' : St} (h : Ext st st') {ty : TyId} {s : ScopeId}
    (hs : implScope ty st = .ok s) : implScope ty st' = .ok s := by
  unfold implScope at hs ⊢
  cases ht : st.types ty with
  | none => simp [ht] at hs
  | some nm =>
    simp only [ht] at hs
    rw [h.types _ _ ht]
    dsimp only
    cases hg : st.getScopeOf nm.scope nm.ident with
    | none => simp [hg] at hs
    | some s' =>
      simp only [hg] at hs
      rw [h.getScopeOf hg]
      exact hs

theorem methodOps_cons (ty : TyId) (i : Item) (is : Items) :
    methodOps ty (.cons i is) = methodOp ty i ++ methodOps ty is := by
  simp [methodOps, Items.toList, List.flatMap_cons]

theorem implConstOps_cons (ty : TyId) (i : Item) (is : Items) :
    implConstOps ty (.cons i is) = implConstOp ty i ++ implConstOps ty is := by
  simp [implConstOps, Items.toList, List.flatMap_cons]

theorem declMethods_eq (ty : TyId) (s : ScopeId) :
    ∀ (ch : Items) (st : St), WF st → implScope ty st = .ok s →
      declMethods Cfg.fixed lex s ch st = runL (DOp.run lex) (methodOps ty ch) st
  | .nil, st, _, _ => by simp [declMethods, methodOps, Items.toList, runL]
  | .cons (.function n ps r tag) is, st, hw, hs => by
    have hg := declareFunction_good hw lex s n ps r tag true
    simp only [declMethods, methodOps_cons, methodOp, List.singleton_append, runL, DOp.run, hs]
    cases hr : declareFunction Cfg.fixed lex s n ps r tag true st with
    | ok st' =>
      rw [hr] at hg
      exact declMethods_eq ty s is st' hg.2 (implScope_ext hg.1 hs)
    | err e => rfl
    | panic s => rfl
  | .cons (.impl _ _) is, st, _, _ => by
    simp [declMethods, methodOps_cons, methodOp, runL, DOp.run]
  | .cons (.type _ _) is, st, _, _ => by
    simp [declMethods, methodOps_cons, methodOp, runL, DOp.run]
  | .cons (.module _ _) is, st, _, _ => by
    simp [declMethods, methodOps_cons, methodOp, runL, DOp.run]
  | .cons (.use _) is, st, hw, hs => by
    simp only [declMethods, methodOps_cons, methodOp, List.nil_append]
    exact declMethods_eq ty s is st hw hs
  | .cons (.constant _ _ _) is, st, hw, hs => by
    simp only [declMethods, methodOps_cons, methodOp, List.nil_append]
    exact declMethods_eq ty s is st hw hs

theorem declImplConstants_eq (ty : TyId) (s : ScopeId) :
    ∀ (ch : Items) (st : St), WF st → implScope ty st = .ok s → Flat ch →
      declImplConstants s ch st = runL (DOp.run lex) (implConstOps ty ch) st
  | .nil, st, _, _, _ => by simp [declImplConstants, implConstOps, Items.toList, runL]
  | .cons (.constant n cty tag) is, st, hw, hs, hf => by
    have hg := declareConstant_good hw s n cty tag
    simp only [declImplConstants, implConstOps_cons, implConstOp, List.singleton_append, runL,
      DOp.run, hs]
    cases hr : declareConstant s n cty tag st with
    | ok st' =>
      rw [hr] at hg
      exact declImplConstants_eq ty s is st' hg.2 (implScope_ext hg.1 hs) (by simpa [Flat] using hf)
    | err e => rfl
    | panic s => rfl
  | .cons (.module _ _) _, st, _, _, hf => by simp [Flat] at hf
  | .cons (.impl _ _) _, st, _, _, hf => by simp [Flat] at hf
  | .cons (.type _ _) _, st, _, _, hf => by simp [Flat] at hf
  | .cons (.function _ _ _ _) is, st, hw, hs, hf => by
    simp only [declImplConstants, implConstOps_cons, implConstOp, List.nil_append]
    exact declImplConstants_eq ty s is st hw hs (by simpa [Flat] using hf)
  | .cons (.use _) is, st, hw, hs, hf => by
    simp only [declImplConstants, implConstOps_cons, implConstOp, List.nil_append]
    exact declImplConstants_eq ty s is st hw hs (by simpa [Flat] using hf)

theorem passLeaf_types_eq (scope : ScopeId) (i : Item) (st : St) :
    passLeaf Cfg.fixed lex .types scope i st = runL TOp.run (leafType scope i) st := by
  cases i with
  | type n id => simp only [passLeaf, leafType, runL_single, TOp.run]
  | _ => simp [passLeaf, leafType, runL]

theorem passLeaf_functions_eq (scope : ScopeId) (i : Item) (st : St) (hw : WF st) :
    passLeaf Cfg.fixed lex .functions scope i st = runL (DOp.run lex) (leafFn scope i) st := by
  cases i with
  | function n ps r tag =>
    simp only [passLeaf, leafFn, runL_single, DOp.run]
  | impl ty ch =>
    simp only [passLeaf, leafFn, runL, DOp.run, implScopeC_fixed]
    cases hs : implScope ty st with
    | ok s => exact declMethods_eq lex ty s ch st hw hs
    | err e => rfl
    | panic s => rfl
  | _ => simp [passLeaf, leafFn, runL]

theorem passLeaf_constants_eq (scope : ScopeId) (i : Item) (st : St) (hw : WF st)
    (hq : QFlat st scope i) :
    passLeaf Cfg.fixed lex .constants scope i st = runL (DOp.run lex) (leafConst scope i) st := by
  cases i with
  | constant n ty tag =>
    simp only [passLeaf, leafConst, runL_single, DOp.run]
  | impl ty ch =>
    simp only [passLeaf, leafConst, runL, DOp.run, implScopeC_fixed]
    cases hs : implScope ty st with
    | ok s => exact declImplConstants_eq lex ty s ch st hw hs (by simpa [QFlat] using hq)
    | err e => rfl
    | panic s => rfl
  | _ => simp [passLeaf, leafConst, runL]

theorem getScopeOf_path {st : St} (hw : WF st) {scope : ScopeId} {n : Name} {s : ScopeId}
    (h : st.getScopeOf scope n = some s) : s = scope ++ [n] := by
  unfold St.getScopeOf at h
  cases hd : st.decls ⟨scope, n⟩ with
  | none => simp [hd] at h
  | some d => simp only [hd] at h; exact hw.paths ⟨scope, n⟩ d s hd h

mutual
/-- passes 2–4: the walk is its list of operations (given that the modules of
    the tree are declared, which pass 1 established) -/
theorem walk_eq {α : Type} (run : α → St → Res St) (p : Pass) (leaf : ScopeId → Item → List α)
    (Qpre Q : St → ScopeId → Item → Prop) (hpre : Mono Qpre) (hQ : Mono Q)
    (hgood : ∀ scope i st, WF st → Qpre st scope i →
      Good1 st (fun st' => Q st' scope i) (passLeaf Cfg.fixed lex p scope i st))
    (hleaf : ∀ scope i st, WF st → Qpre st scope i →
      passLeaf Cfg.fixed lex p scope i st = runL run (leaf scope i) st)
    (hmod : ∀ scope n ch, leaf scope (.module n ch) = []) :
    ∀ (is : Items) (scope : ScopeId) (st : St), WF st → Holds Qpre st scope is →
      walk Cfg.fixed lex p scope is st = runL run (flat leaf scope is) st
  | .nil, scope, st, _, _ => by simp [walk, flat, runL]
  | .cons i is, scope, st, hw, hh => by
    simp only [Holds] at hh
    have h1 := walkItem_good lex p Qpre Q hpre hQ hgood i scope st hw hh.1
    simp only [walk, flat, runL_append]
    rw [← walkItem_eq run p leaf Qpre Q hpre hQ hgood hleaf hmod i scope st hw hh.1]
    cases hr : walkItem Cfg.fixed lex p scope i st with
    | ok st1 =>
      rw [hr] at h1
      exact walk_eq run p leaf Qpre Q hpre hQ hgood hleaf hmod is scope st1 h1.2.1
        (Holds.mono hpre h1.1 _ _ hh.2)
    | err e => rfl
    | panic s => rfl
theorem walkItem_eq {α : Type} (run : α → St → Res St) (p : Pass) (leaf : ScopeId → Item → List α)
    (Qpre Q : St → ScopeId → Item → Prop) (hpre : Mono Qpre) (hQ : Mono Q)
    (hgood : ∀ scope i st, WF st → Qpre st scope i →
      Good1 st (fun st' => Q st' scope i) (passLeaf Cfg.fixed lex p scope i st))
    (hleaf : ∀ scope i st, WF st → Qpre st scope i →
      passLeaf Cfg.fixed lex p scope i st = runL run (leaf scope i) st)
    (hmod : ∀ scope n ch, leaf scope (.module n ch) = []) :
    ∀ (i : Item) (scope : ScopeId) (st : St), WF st → HoldsItem Qpre st scope i →
      walkItem Cfg.fixed lex p scope i st = runL run (flatItem leaf scope i) st
  | .module n ch, scope, st, hw, hh => by
    simp only [HoldsItem] at hh
    obtain ⟨s, hs, hc⟩ := hh
    have := getScopeOf_path hw hs
    subst this
    simp only [walkItem, hs, flatItem, hmod, List.nil_append]
    exact walk_eq run p leaf Qpre Q hpre hQ hgood hleaf hmod ch _ st hw hc
  | .type n id, scope, st, hw, hh => by
    simp only [HoldsItem] at hh; simp only [walkItem, flatItem]; exact hleaf _ _ _ hw hh
  | .function n ps r tag, scope, st, hw, hh => by
    simp only [HoldsItem] at hh; simp only [walkItem, flatItem]; exact hleaf _ _ _ hw hh
  | .constant n ty tag, scope, st, hw, hh => by
    simp only [HoldsItem] at hh; simp only [walkItem, flatItem]; exact hleaf _ _ _ hw hh
  | .impl ty ch, scope, st, hw, hh => by
    simp only [HoldsItem] at hh; simp only [walkItem, flatItem]; exact hleaf _ _ _ hw hh
  | .use ps, scope, st, hw, hh => by
    simp only [HoldsItem] at hh; simp only [walkItem, flatItem]; exact hleaf _ _ _ hw hh
end

/-- the five lists of a library -/
def ops1 (items : Items) : List DOp := flat leafMod [] items
def ops2 (items : Items) : List TOp := flat leafType [] items
def ops3 (items : Items) : List DOp := flat leafFn [] items
def ops4 (items : Items) : List DOp := flat leafConst [] items
def ops5 (items : Items) : List (List Name) := flat leafUse [] items

/-- the five passes, each as the run of its list -/
def addOps (st : St) (items : Items) : Res St :=
  match runL (DOp.run lex) (ops1 items) st with
  | .ok st1 =>
    match runL TOp.run (ops2 items) st1 with
    | .ok st2 =>
      match runL (DOp.run lex) (ops3 items) st2 with
      | .ok st3 =>
        match runL (DOp.run lex) (ops4 items) st3 with
        | .ok st4 => runL runImport (ops5 items) st4
        | .err e => .err e
        | .panic s => .panic s
      | .err e => .err e
      | .panic s => .panic s
    | .err e => .err e
    | .panic s => .panic s
  | .err e => .err e
  | .panic s => .panic s

/-- **`Rt::add` is its five lists of operations**, for every library and
    every well-formed runtime. -/
theorem add_eq {st : St} (hw : WF st) (items : Items) :
    add Cfg.fixed lex st items = addOps lex st items := by
  unfold add addOps
  have h1 := declModules_good none items st hw
  rw [declModules_eq lex none items st] at h1 ⊢
  simp only [Option.getD_none] at h1 ⊢
  simp only [ops1]
  cases hr1 : runL (DOp.run lex) (flat leafMod [] items) st with
  | err e => rfl
  | panic s => rfl
  | ok st1 =>
    rw [hr1] at h1
    obtain ⟨e1, w1, m1⟩ := h1
    dsimp only
    have h2 := walk_good lex .types QTrue QTrue mono_QTrue mono_QTrue (leaf_types lex) items [] st1 w1 m1
    rw [walk_eq lex TOp.run .types leafType QTrue QTrue mono_QTrue mono_QTrue (leaf_types lex)
      (fun scope i st _ _ => passLeaf_types_eq lex scope i st) (fun _ _ _ => rfl) items [] st1 w1 m1] at h2 ⊢
    simp only [ops2]
    cases hr2 : runL TOp.run (flat leafType [] items) st1 with
    | err e => rfl
    | panic s => rfl
    | ok st2 =>
      rw [hr2] at h2
      obtain ⟨e2, w2, m2⟩ := h2
      dsimp only
      have h3 := walk_good lex .functions QTrue QFlat mono_QTrue mono_QFlat (leaf_functions lex) items [] st2 w2 m2
      rw [walk_eq lex (DOp.run lex) .functions leafFn QTrue QFlat mono_QTrue mono_QFlat (leaf_functions lex)
        (fun scope i st hw _ => passLeaf_functions_eq lex scope i st hw) (fun _ _ _ => rfl)
        items [] st2 w2 m2] at h3 ⊢
      simp only [ops3]
      cases hr3 : runL (DOp.run lex) (flat leafFn [] items) st2 with
      | err e => rfl
      | panic s => rfl
      | ok st3 =>
        rw [hr3] at h3
        obtain ⟨e3, w3, m3⟩ := h3
        dsimp only
        rw [walk_eq lex (DOp.run lex) .constants leafConst QFlat QTrue mono_QFlat mono_QTrue (leaf_constants lex)
          (fun scope i st hw hq => passLeaf_constants_eq lex scope i st hw hq) (fun _ _ _ => rfl)
          items [] st3 w3 m3]
        simp only [ops4]
        cases hr4 : runL (DOp.run lex) (flat leafConst [] items) st3 with
        | err e => rfl
        | panic s => rfl
        | ok st4 =>
          dsimp only
          exact declImports_eq [] items [] st4

end

end RotoV.Reg
