/-
  Lemmas/LayoutWrite — C02: overwriting the bytes of the component a fitting
  path names replaces exactly that component of the decoded value
  (`decode_update`).
-/
import RotoV.Lemmas.LayoutRead
namespace RotoV.Layout
open RotoV RotoV.LayoutStd RotoV.Gen.LayoutGen

/-- fields from builder state `b` on only depend on bytes at offsets ≥ `b.size` -/
theorem decodeFields_congr_from (m1 m2 : Mem) : ∀ (ts : Tys) (b b' : LayoutBuilder), buildFields ts b = some b' →
    ∀ (a : Nat), (∀ i, b.size ≤ i → i < b'.size → m1 (a + i) = m2 (a + i)) →
    decodeFields m1 ts b a = decodeFields m2 ts b a
  | .nil, b, b', _, a, _ => by simp [decodeFields]
  | .cons t ts, b, b', h, a, hag => by
    cases hl : layoutOf t with
    | none => simp [buildFields, hl] at h
    | some l =>
      simp [buildFields, hl] at h
      have hmono := buildFields_size_mono ts _ b' h
      simp at hmono
      have hge := nextMultipleOf_ge b.size l.align
      have h1 := decode_congr m1 m2 t l hl (a + (b.add l).2) (a + (b.add l).2) (by
        intro i hi
        have := hag (nextMultipleOf b.size l.align + i) (by omega) (by omega)
        simpa [Nat.add_assoc] using this)
      have h2 := decodeFields_congr_from m1 m2 ts _ b' h a (by
        intro i hi1 hi2
        simp at hi1
        exact hag i (by omega) hi2)
      simp only [decodeFields, hl, h1, h2]

/-- replacing the bytes of field `n` (anywhere inside it) replaces field `n`
    of the decoded list and nothing else -/
theorem decodeFields_set (m m' : Mem) : ∀ (ts : Tys) (b b' : LayoutBuilder) (a : Nat) (vs : Vs) (n : Nat),
    buildFields ts b = some b' → decodeFields m ts b a = some vs →
    ∀ (off : Nat) (tn : Ty) (ln : Layout), getField ts n b = .ok (off, tn) → layoutOf tn = some ln →
    ∀ (lo hi : Nat), a + off ≤ lo → hi ≤ a + off + ln.size →
    (∀ x, (x < lo ∨ hi ≤ x) → m' x = m x) →
    ∀ (new : V), decode m' tn (a + off) = some new →
    decodeFields m' ts b a = some (vs.set n new)
  | .nil, b, b', a, vs, n, _, _, off, tn, ln, hg, _, _, _, _, _, _, _, _ => by simp [getField] at hg
  | .cons t ts, b, b', a, vs, n, hb, hd, off, tn, ln, hg, hln, lo, hi, hlo, hhi, hout, new, hnew => by
    cases hl : layoutOf t with
    | none => simp [buildFields, hl] at hb
    | some l =>
      simp [buildFields, hl] at hb
      obtain ⟨v, vs', h1, h2, e⟩ := decodeFields_cons_some m t ts b a vs l hl hd
      subst e
      have hmono := buildFields_size_mono ts _ b' hb
      simp at hmono
      cases n with
      | zero =>
        simp [getField, hl] at hg
        obtain ⟨e1, e2⟩ := hg
        subst e2
        rw [hl] at hln; cases hln
        -- the remaining fields lie behind the written range
        have hrest := decodeFields_congr_from m' m ts _ b' hb a (by
          intro i hi1 hi2
          simp at hi1
          exact hout _ (by omega))
        simp only [decodeFields, hl, Vs.set]
        rw [hrest, h2]
        simp only [add_snd] at hnew ⊢
        rw [e1, hnew]
      | succ n =>
        simp [getField, hl] at hg
        have hge := getField_ge ts n _ off tn hg
        simp at hge
        -- field 0 lies in front of the written range
        have h0 : decode m' t (a + (b.add l).2) = decode m t (a + (b.add l).2) :=
          decode_congr m' m t l hl _ _ (by
            intro i hi
            exact hout _ (by simp; omega))
        have ih := decodeFields_set m m' ts _ b' a vs' n hb h2 off tn ln hg hln lo hi hlo hhi hout new hnew
        simp only [decodeFields, hl, Vs.set, h0, h1, ih]

theorem getField_get? : ∀ (ts : Tys) (n : Nat) (b : LayoutBuilder) (off : Nat) (t : Ty),
    getField ts n b = .ok (off, t) → ts.get? n = some t
  | .nil, n, b, off, t, h => by simp [getField] at h
  | .cons t' ts, n, b, off, t, h => by
    cases hl : layoutOf t' with
    | none => simp [getField, hl] at h
    | some l =>
      cases n with
      | zero => simp [getField, hl] at h; simp [Tys.get?, h.2]
      | succ n =>
        simp [getField, hl] at h
        simpa [Tys.get?] using getField_get? ts n _ off t h

theorem decodeVariant_eq (m : Mem) : ∀ (vs : Vars) (tag a : Nat) (fields : Tys),
    vs.get? tag = some fields → decodeVariant m vs tag a = decodeFields m fields variantStart a
  | .nil, tag, a, fields, h => by simp [Vars.get?] at h
  | .cons v vs, 0, a, fields, h => by simp [Vars.get?] at h; subst h; simp [decodeVariant]
  | .cons v vs, tag + 1, a, fields, h => by
    simp [Vars.get?] at h
    simpa [decodeVariant] using decodeVariant_eq m vs tag a fields h

/-- a path that fits a decoded value is a valid path of the type -/
theorem project_pathOk (m : Mem) : ∀ (p : List Proj) (t : Ty) (a : Nat) (val comp : V),
    decode m t a = some val → val.project p = some comp → ∃ tp, PathOk t p tp
  | [], t, a, val, comp, _, _ => ⟨t, .nil t⟩
  | .field n :: p, t, a, val, comp, hd, hp => by
    cases t with
    | record fs =>
      cases hdf : decodeFields m fs LayoutBuilder.new a with
      | none => simp [decode, hdf] at hd
      | some vs =>
        simp [decode, hdf] at hd; subst hd
        simp only [V.project] at hp
        cases hg : vs.get? n with
        | none => simp [hg] at hp
        | some c =>
          simp only [hg] at hp
          obtain ⟨off, tn, g, dn⟩ := decodeFields_get m fs _ a vs n c hdf hg
          obtain ⟨tp, hpo⟩ := project_pathOk m p tn (a + off) c comp dn hp
          exact ⟨tp, .field (getField_get? fs n _ off tn g) hpo⟩
    | unit => simp [decode] at hd; subst hd; simp [V.project] at hp
    | never => simp [decode] at hd
    | leaf k s al => simp [decode] at hd; subst hd; simp [V.project] at hp
    | enum vs =>
      cases hdv : decodeVariant m vs (m a) a with
      | none => simp [decode, hdv] at hd
      | some fs => simp [decode, hdv] at hd; subst hd; simp [V.project] at hp
  | .variantField v n :: p, t, a, val, comp, hd, hp => by
    cases t with
    | enum vs =>
      cases hdv : decodeVariant m vs (m a) a with
      | none => simp [decode, hdv] at hd
      | some fs =>
        simp [decode, hdv] at hd; subst hd
        simp only [V.project] at hp
        by_cases htag : m a = v
        · simp only [htag, if_true] at hp
          cases hg : fs.get? n with
          | none => simp [hg] at hp
          | some c =>
            simp only [hg] at hp
            rw [htag] at hdv
            obtain ⟨fields, hv, hdf⟩ := decodeVariant_get m vs v a fs hdv
            obtain ⟨off, tn, g, dn⟩ := decodeFields_get m fields _ a fs n c hdf hg
            obtain ⟨tp, hpo⟩ := project_pathOk m p tn (a + off) c comp dn hp
            cases hc : collectLayouts fields with
            | none => simp [collectLayouts_none_decode m fields _ _ hc] at hdf
            | some ls => exact ⟨tp, .variant hv hc (getField_get? fields n _ off tn g) hpo⟩
        · simp [htag] at hp
    | unit => simp [decode] at hd; subst hd; simp [V.project] at hp
    | never => simp [decode] at hd
    | leaf k s al => simp [decode] at hd; subst hd; simp [V.project] at hp
    | record fs =>
      cases hdf : decodeFields m fs LayoutBuilder.new a with
      | none => simp [decode, hdf] at hd
      | some vs' => simp [decode, hdf] at hd; subst hd; simp [V.project] at hp

theorem update_some_of_project : ∀ (p : List Proj) (c old new : V), c.project p = some old →
    ∃ c', c.update p new = some c'
  | [], c, old, new, _ => ⟨new, by simp [V.update]⟩
  | .field n :: p, c, old, new, h => by
    cases c with
    | rec_ fs =>
      simp only [V.project] at h
      cases hg : fs.get? n with
      | none => simp [hg] at h
      | some x =>
        simp only [hg] at h
        obtain ⟨x', hx⟩ := update_some_of_project p x old new h
        exact ⟨.rec_ (fs.set n x'), by simp [V.update, hg, hx]⟩
    | unit => simp [V.project] at h
    | leaf k b => simp [V.project] at h
    | enm t fs => simp [V.project] at h
  | .variantField v n :: p, c, old, new, h => by
    cases c with
    | enm t fs =>
      simp only [V.project] at h
      by_cases ht : t = v
      · simp only [ht, if_true] at h
        cases hg : fs.get? n with
        | none => simp [hg] at h
        | some x =>
          simp only [hg] at h
          obtain ⟨x', hx⟩ := update_some_of_project p x old new h
          exact ⟨.enm t (fs.set n x'), by simp [V.update, ht, hg, hx]⟩
      · simp [ht] at h
    | unit => simp [V.project] at h
    | leaf k b => simp [V.project] at h
    | rec_ fs => simp [V.project] at h

/-- **writes replace exactly the named component**: if the bytes of the
    component a fitting path `p` names are overwritten (nothing else changes)
    so that they now decode to `new`, the whole value decodes to
    `val.update p new` -/
theorem decode_update (m m' : Mem) : ∀ (p : List Proj) (t : Ty) (L : Layout) (a o : Nat) (val old new : V)
    (off : Nat) (tp : Ty) (lp : Layout),
    layoutOf t = some L → decode m t a = some val → val.project p = some old →
    locate t p o = .ok (some (o + off, tp)) → layoutOf tp = some lp →
    (∀ x, (x < a + off ∨ a + off + lp.size ≤ x) → m' x = m x) →
    decode m' tp (a + off) = some new →
    decode m' t a = val.update p new
  | [], t, L, a, o, val, old, new, off, tp, lp, _, _, _, hloc, _, _, hnew => by
    simp [locate] at hloc
    obtain ⟨e1, e2⟩ := hloc
    have : off = 0 := by omega
    subst this; subst e2
    simpa [V.update] using hnew
  | .field n :: p, t, L, a, o, val, old, new, off, tp, lp, hL, hd, hp, hloc, hlp, hout, hnew => by
    cases t with
    | record fs =>
      cases hdf : decodeFields m fs LayoutBuilder.new a with
      | none => simp [decode, hdf] at hd
      | some vs =>
        simp [decode, hdf] at hd; subst hd
        simp only [V.project] at hp
        cases hg : vs.get? n with
        | none => simp [hg] at hp
        | some c =>
          simp only [hg] at hp
          obtain ⟨o1, tn, g, dn⟩ := decodeFields_get m fs _ a vs n c hdf hg
          obtain ⟨o1', ln, g', hln, hcont⟩ := level_record fs L hL n tn (getField_get? fs n _ o1 tn g)
          rw [g] at g'; cases g'
          -- where the rest of the path leads inside field n
          obtain ⟨off', tp', hl', _⟩ := decode_project m p tn (a + o1) (o + o1) c old dn hp
          simp only [locate, g] at hloc
          rw [hl'] at hloc
          simp at hloc
          obtain ⟨e1, e2⟩ := hloc
          have eoff : off = o1 + off' := by omega
          subst eoff; subst e2
          obtain ⟨tp2, hpo⟩ := project_pathOk m p tn (a + o1) c old dn hp
          obtain ⟨op, lp2, hl2, hlp2, hc1, hc2⟩ := locate_ok tn p tp2 hpo ln hln (o + o1)
          rw [hl'] at hl2; simp at hl2
          obtain ⟨e3, e4⟩ := hl2
          subst e4
          rw [hlp] at hlp2; cases hlp2
          have ih := decode_update m m' p tn ln (a + o1) (o + o1) c old new off' tp' lp hln dn hp hl' hlp
            (by intro x hx; exact hout x (by omega))
            (by simpa [Nat.add_assoc] using hnew)
          cases hu : c.update p new with
          | none =>
            obtain ⟨c', hc'⟩ := update_some_of_project p c old new hp
            rw [hc'] at hu; cases hu
          | some c' =>
            rw [hu] at ih
            cases hb : buildFields fs LayoutBuilder.new with
            | none => simp [layoutOf, hb] at hL
            | some bd =>
              have := decodeFields_set m m' fs _ bd a vs n hb hdf o1 tn ln g hln
                (a + (o1 + off')) (a + (o1 + off') + lp.size) (by omega) (by omega) hout c' ih
              simp [decode, this, V.update, hg, hu]
    | unit => simp [decode] at hd; subst hd; simp [V.project] at hp
    | never => simp [decode] at hd
    | leaf k s al => simp [decode] at hd; subst hd; simp [V.project] at hp
    | enum vs =>
      cases hdv : decodeVariant m vs (m a) a with
      | none => simp [decode, hdv] at hd
      | some fs => simp [decode, hdv] at hd; subst hd; simp [V.project] at hp
  | .variantField v n :: p, t, L, a, o, val, old, new, off, tp, lp, hL, hd, hp, hloc, hlp, hout, hnew => by
    cases t with
    | enum vs =>
      cases hdv : decodeVariant m vs (m a) a with
      | none => simp [decode, hdv] at hd
      | some fs =>
        simp [decode, hdv] at hd; subst hd
        simp only [V.project] at hp
        by_cases htag : m a = v
        · simp only [htag, if_true] at hp
          cases hg : fs.get? n with
          | none => simp [hg] at hp
          | some c =>
            simp only [hg] at hp
            rw [htag] at hdv
            obtain ⟨fields, hv, hdf⟩ := decodeVariant_get m vs v a fs hdv
            obtain ⟨o1, tn, g, dn⟩ := decodeFields_get m fields _ a fs n c hdf hg
            cases hc : collectLayouts fields with
            | none => simp [collectLayouts_none_decode m fields _ _ hc] at hdf
            | some ls =>
              obtain ⟨o1', ln, hvf, g', hln, hpos, hcont⟩ :=
                level_variant vs L hL v n fields ls tn hv hc (getField_get? fields n _ o1 tn g)
              rw [g] at g'; cases g'
              obtain ⟨off', tp', hl', _⟩ := decode_project m p tn (a + o1) (o + o1) c old dn hp
              simp only [locate, hvf] at hloc
              rw [hl'] at hloc
              simp at hloc
              obtain ⟨e1, e2⟩ := hloc
              have eoff : off = o1 + off' := by omega
              subst eoff; subst e2
              obtain ⟨tp2, hpo⟩ := project_pathOk m p tn (a + o1) c old dn hp
              obtain ⟨op, lp2, hl2, hlp2, hc1, hc2⟩ := locate_ok tn p tp2 hpo ln hln (o + o1)
              rw [hl'] at hl2; simp at hl2
              obtain ⟨e3, e4⟩ := hl2
              subst e4
              rw [hlp] at hlp2; cases hlp2
              have ih := decode_update m m' p tn ln (a + o1) (o + o1) c old new off' tp' lp hln dn hp hl' hlp
                (by intro x hx; exact hout x (by omega))
                (by simpa [Nat.add_assoc] using hnew)
              obtain ⟨c', hc'⟩ := update_some_of_project p c old new hp
              rw [hc'] at ih
              obtain ⟨bd, hb⟩ := buildFields_some_of_collect fields variantStart ls hc
              have hset := decodeFields_set m m' fields _ bd a fs n hb hdf o1 tn ln g hln
                (a + (o1 + off')) (a + (o1 + off') + lp.size) (by omega) (by omega) hout c' ih
              have htag' : m' a = v := by rw [hout a (by omega)]; exact htag
              have hdv' : decodeVariant m' vs v a = some (fs.set n c') := by
                rw [decodeVariant_eq m' vs v a fields hv]; exact hset
              simp [decode, htag', hdv', V.update, htag, hg, hc']
        · simp [htag] at hp
    | unit => simp [decode] at hd; subst hd; simp [V.project] at hp
    | never => simp [decode] at hd
    | leaf k s al => simp [decode] at hd; subst hd; simp [V.project] at hp
    | record fs =>
      cases hdf : decodeFields m fs LayoutBuilder.new a with
      | none => simp [decode, hdf] at hd
      | some vs' => simp [decode, hdf] at hd; subst hd; simp [V.project] at hp

end RotoV.Layout
