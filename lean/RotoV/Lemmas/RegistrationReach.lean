/-
  Registration (C18): methods and constants of impl blocks are declared in the
  scope the *type* owns; what a script path can resolve to (only declarations
  of the table, only along their own path or along a root import); the exact
  contents of the tables after a successful registration.
-/
import RotoV.Lemmas.RegistrationDefects

namespace RotoV.Reg

/-! ## paths -/

theorem scopeAt_path {st : St} (hw : WF st) : ∀ (p : List Name) (s0 s : ScopeId),
    scopeAt st s0 p = some s → s = s0 ++ p
  | [], s0, s, h => by simp only [scopeAt, Option.some.injEq] at h; simp [h]
  | n :: rest, s0, s, h => by
    simp only [scopeAt] at h
    cases hg : st.getScopeOf s0 n with
    | none => simp [hg] at h
    | some s1 =>
      simp only [hg] at h
      have := getScopeOf_path hw hg
      subst this
      have := scopeAt_path hw rest _ s h
      simp [this]

theorem scopeAt_snoc {st : St} : ∀ (p : List Name) (s0 s : ScopeId) (n : Name) (s' : ScopeId),
    scopeAt st s0 p = some s → st.getScopeOf s n = some s' → scopeAt st s0 (p ++ [n]) = some s'
  | [], s0, s, n, s', h, hg => by
    simp only [scopeAt, Option.some.injEq] at h; subst h
    simp [scopeAt, hg]
  | m :: rest, s0, s, n, s', h, hg => by
    simp only [scopeAt, List.cons_append] at h ⊢
    cases hm : st.getScopeOf s0 m with
    | none => simp [hm] at h
    | some s1 =>
      simp only [hm] at h ⊢
      exact scopeAt_snoc rest s1 s n s' h hg

/-- the path of a declaration -/
def RName.path (k : RName) : List Name := k.scope ++ [k.ident]

theorem resolveRest_key {st : St} (hw : WF st) : ∀ (rest : List Name) (d0 : Decl) (k0 : RName) (d : Decl),
    st.decls k0 = some d0 → resolveRest st d0 rest = some d →
      ∃ k, st.decls k = some d ∧ k.path = k0.path ++ rest
  | [], d0, k0, d, h0, h => by
    simp only [resolveRest, Option.some.injEq] at h
    subst h
    exact ⟨k0, h0, by simp⟩
  | n :: rest, d0, k0, d, h0, h => by
    simp only [resolveRest] at h
    cases hs : d0.scope with
    | none => simp [hs] at h
    | some s =>
      simp only [hs] at h
      cases hd : st.decls ⟨s, n⟩ with
      | none => simp [hd] at h
      | some d1 =>
        simp only [hd] at h
        obtain ⟨k, hk, hp⟩ := resolveRest_key hw rest d1 ⟨s, n⟩ d hd h
        have := hw.paths k0 d0 s h0 hs
        refine ⟨k, hk, ?_⟩
        rw [hp]
        simp [RName.path, this]

/-- **a script path resolves only to a declaration of the table, and only
    along that declaration's own path or along an import of the root** (the
    first segment through the root's imports, every further segment among the
    members of the scope reached) -/
theorem resolvePath_key {st : St} (hw : WF st) (p : List Name) (d : Decl)
    (h : resolvePath st p = some d) :
    ∃ k, st.decls k = some d ∧
      (k.path = p ∨ ∃ n rest tgt, p = n :: rest ∧ st.decls ⟨[], n⟩ = none ∧
        st.imports [] n = some tgt ∧ k.path = tgt.path ++ rest) := by
  cases p with
  | nil => simp [resolvePath] at h
  | cons n rest =>
    simp only [resolvePath, resolveFirst] at h
    cases hd : st.decls ⟨[], n⟩ with
    | some d0 =>
      simp only [hd] at h
      obtain ⟨k, hk, hp⟩ := resolveRest_key hw rest d0 ⟨[], n⟩ d hd h
      exact ⟨k, hk, Or.inl (by simpa [RName.path] using hp)⟩
    | none =>
      simp only [hd] at h
      cases hi : st.imports [] n with
      | none => simp [hi] at h
      | some tgt =>
        simp only [hi] at h
        cases ht : st.decls tgt with
        | none => simp [ht] at h
        | some d0 =>
          simp only [ht] at h
          obtain ⟨k, hk, hp⟩ := resolveRest_key hw rest d0 tgt d ht h
          exact ⟨k, hk, Or.inr ⟨n, rest, tgt, rfl, hd, hi, hp⟩⟩

/-- imports of scopes other than the root are never consulted by a script
    path: wherever `declare_imports` registered a module's `use`, `module.name`
    could not resolve through it -/
theorem resolvePath_ignores_inner_imports (st st' : St) (hd : st'.decls = st.decls)
    (hi : st'.imports [] = st.imports []) (p : List Name) : resolvePath st' p = resolvePath st p := by
  have hrest : ∀ (rest : List Name) (d : Decl), resolveRest st' d rest = resolveRest st d rest := by
    intro rest
    induction rest with
    | nil => intro d; rfl
    | cons n rest ih =>
      intro d
      simp only [resolveRest, hd]
      cases d.scope with
      | none => rfl
      | some s =>
        dsimp only
        cases st.decls ⟨s, n⟩ with
        | none => rfl
        | some d' => exact ih d'
  cases p with
  | nil => rfl
  | cons n rest =>
    simp only [resolvePath, resolveFirst, hd, hi, hrest]

/-! ## the tables after a successful registration -/

theorem setAll_insertImport_decls (es : List (Name × RName)) (st : St) :
    (setAll (fun st k v => st.insertImport [] k v) es st).decls = st.decls ∧
    (setAll (fun st k v => st.insertImport [] k v) es st).types = st.types := by
  induction es generalizing st with
  | nil => exact ⟨rfl, rfl⟩
  | cons e es ih =>
    simp only [setAll, List.foldl_cons]
    exact ih (st.insertImport [] e.1 e.2)

/-- the declarations pass 2 makes: one per `type` item whose name is not a pre-declared primitive -/
def typeDecls (st1 : St) (l : List TOp) : List (RName × Decl) :=
  l.filterMap (fun t => match st1.decls t.nm with
    | none => some (t.nm, ⟨.type t.id, some (t.scope ++ [t.n])⟩)
    | some _ => none)

theorem foldl_apply_decls : ∀ (l : List TOp) (st : St), (l.map (·.nm)).Nodup → ∀ k d,
    ((l.foldl TOp.apply st).decls k = some d ↔ st.decls k = some d ∨ (k, d) ∈ typeDecls st l)
  | [], st, _, k, d => by simp [typeDecls]
  | t :: l, st, hnd, k, d => by
    simp only [List.map_cons, List.nodup_cons] at hnd
    have hdecls : ∀ k', (TOp.apply st t).decls k' =
        if k' = t.nm then some ((st.decls t.nm).getD ⟨.type t.id, some (t.scope ++ [t.n])⟩) else st.decls k' := by
      intro k'; rw [TOp.apply_eq]; rfl
    have htd : typeDecls (TOp.apply st t) l = typeDecls st l := by
      unfold typeDecls
      have : ∀ (l' : List TOp), (∀ t' ∈ l', t'.nm ≠ t.nm) →
          l'.filterMap (fun t' => match (TOp.apply st t).decls t'.nm with
            | none => some (t'.nm, (⟨.type t'.id, some (t'.scope ++ [t'.n])⟩ : Decl))
            | some _ => none) =
          l'.filterMap (fun t' => match st.decls t'.nm with
            | none => some (t'.nm, (⟨.type t'.id, some (t'.scope ++ [t'.n])⟩ : Decl))
            | some _ => none) := by
        intro l'
        induction l' with
        | nil => intro _; rfl
        | cons a l' ih =>
          intro hne
          have ha := hne a (List.mem_cons_self ..)
          have ih' := ih (fun t' ht' => hne t' (List.mem_cons_of_mem _ ht'))
          simp only [List.filterMap_cons]
          rw [ih', hdecls a.nm]
          simp only [ha, if_false]
      exact this l (fun t' ht' h => hnd.1 (List.mem_map.mpr ⟨t', ht', h⟩))
    simp only [List.foldl_cons]
    rw [foldl_apply_decls l (TOp.apply st t) hnd.2 k d, htd, hdecls]
    unfold typeDecls
    simp only [List.filterMap_cons]
    by_cases hk : k = t.nm
    · subst hk
      cases hs : st.decls t.nm with
      | none =>
        simp only [if_true, Option.getD_none, Option.some.injEq, List.mem_cons, Prod.mk.injEq, true_and]
        constructor
        · rintro (h | h)
          · exact Or.inr (Or.inl h.symm)
          · exact Or.inr (Or.inr h)
        · rintro (h | h | h)
          · cases h
          · exact Or.inl h.symm
          · exact Or.inr h
      | some d0 => simp
    · simp only [hk, if_false]
      cases hs : st.decls t.nm with
      | none =>
        simp only [List.mem_cons, Prod.mk.injEq]
        constructor
        · rintro (h | h)
          · exact Or.inl h
          · exact Or.inr (Or.inr h)
        · rintro (h | h | h)
          · exact Or.inl h
          · exact absurd h.1 hk
          · exact Or.inr h
      | some d0 => rfl

section
variable (lex : Name → Lex)

/-- everything the library declares: its modules, its types (unless the name is
    a pre-declared primitive), its functions and methods, its constants —
    each with the converted signature, under the name `DOp.key` gives -/
def Declared (st : St) (items : Items) : List (RName × Decl) :=
  entsL (DOp.ent lex) st (ops1 items) ++ (typeDecls (S1 lex st items) (ops2 items) ++
    (entsL (DOp.ent lex) (S2 lex st items) (ops3 items) ++
      entsL (DOp.ent lex) (S3 lex st items) (ops4 items)))

/-- everything the library imports (at the root) -/
def Imported (st : St) (items : Items) : List (Name × RName) :=
  entsL impEnt (S4 lex st items) (ops5 items)

/-- **after a successful registration the tables hold what they held before
    and what the library declares — nothing else** -/
theorem tables_exact {st : St} (items : Items) (c : Checks lex st items) :
    (∀ k d, (S5 lex st items).decls k = some d ↔ st.decls k = some d ∨ (k, d) ∈ Declared lex st items) ∧
    (∀ s n t, (S5 lex st items).imports s n = some t ↔
      st.imports s n = some t ∨ (s = [] ∧ (n, t) ∈ Imported lex st items)) ∧
    (∀ i nm, (S5 lex st items).types i = some nm ↔
      st.types i = some nm ∨ ∃ t ∈ ops2 items, t.id = i ∧ t.nm = nm) := by
  obtain ⟨c1, c2, c3, c4, c5⟩ := c
  have d5 := setAll_insertImport_decls (entsL impEnt (S4 lex st items) (ops5 items)) (S4 lex st items)
  have t4 := setAll_insertDecl_types (entsL (DOp.ent lex) (S3 lex st items) (ops4 items)) (S3 lex st items)
  have t3 := setAll_insertDecl_types (entsL (DOp.ent lex) (S2 lex st items) (ops3 items)) (S2 lex st items)
  have t1 := setAll_insertDecl_types (entsL (DOp.ent lex) st (ops1 items)) st
  refine ⟨fun k d => ?_, fun s n t => ?_, fun i nm => ?_⟩
  · show (S5 lex st items).decls k = some d ↔ _
    have e5 : (S5 lex st items).decls = (S4 lex st items).decls := d5.1
    rw [e5]
    have a4 := insertAll_decls _ (S3 lex st items) c4.2.1 c4.2.2 k d
    have a3 := insertAll_decls _ (S2 lex st items) c3.2.1 c3.2.2 k d
    have a2 := foldl_apply_decls (ops2 items) (S1 lex st items) c2.2.1 k d
    have a1 := insertAll_decls _ st c1.2.1 c1.2.2 k d
    show (applyD lex (S3 lex st items) (ops4 items) (S3 lex st items)).decls k = some d ↔ _
    unfold applyD
    rw [a4]
    show (applyD lex (S2 lex st items) (ops3 items) (S2 lex st items)).decls k = some d ∨ _ ↔ _
    unfold applyD
    rw [a3]
    show (((ops2 items).foldl TOp.apply (S1 lex st items)).decls k = some d ∨ _) ∨ _ ↔ _
    rw [a2]
    show (((applyD lex st (ops1 items) st).decls k = some d ∨ _) ∨ _) ∨ _ ↔ _
    unfold applyD
    rw [a1]
    simp only [Declared, List.mem_append, or_assoc]
  · have a5 := insertAll_imports _ (S4 lex st items) c5.2.1 c5.2.2 s n t
    show (setAll (fun st k v => st.insertImport [] k v) _ (S4 lex st items)).imports s n = some t ↔ _
    rw [a5]
    have e4 : (S4 lex st items).imports = (S3 lex st items).imports := t4.2.2
    have e3 : (S3 lex st items).imports = (S2 lex st items).imports := t3.2.2
    have e2 : (S2 lex st items).imports = (S1 lex st items).imports := by
      show ((ops2 items).foldl TOp.apply (S1 lex st items)).imports = _
      generalize S1 lex st items = s1
      induction ops2 items generalizing s1 with
      | nil => rfl
      | cons a l ih => simp only [List.foldl_cons]; rw [ih]; rw [TOp.apply_eq]; rfl
    have e1 : (S1 lex st items).imports = st.imports := t1.2.2
    rw [e4, e3, e2, e1]
    rfl
  · have e5 : (S5 lex st items).types = (S4 lex st items).types := d5.2
    have e4 : (S4 lex st items).types = (S3 lex st items).types := t4.1
    have e3 : (S3 lex st items).types = (S2 lex st items).types := t3.1
    have e1 : (S1 lex st items).types = st.types := t1.1
    rw [e5, e4, e3]
    have hfree : ∀ t ∈ ops2 items, (S1 lex st items).types t.id = none := fun t ht => (c2.2.2 t ht).1
    have a2 := foldl_apply_types (ops2 items) (S1 lex st items) c2.1 hfree i nm
    show ((ops2 items).foldl TOp.apply (S1 lex st items)).types i = some nm ↔ _
    rw [a2, e1]

/-! ## methods and constants of impl blocks -/

theorem mem_methodOps {ty : TyId} {ch : Items} {n : Name} {ps : List RustTy} {r : RustTy} {tag : Nat}
    (h : Item.function n ps r tag ∈ ch.toList) : DOp.method ty n ps r tag ∈ methodOps ty ch :=
  List.mem_flatMap.mpr ⟨_, h, by simp [methodOp]⟩

theorem mem_implConstOps {ty : TyId} {ch : Items} {n : Name} {cty : RustTy} {tag : Nat}
    (h : Item.constant n cty tag ∈ ch.toList) : DOp.implConst ty n cty tag ∈ implConstOps ty ch :=
  List.mem_flatMap.mpr ⟨_, h, by simp [implConstOp]⟩

/-- **T3 for impl blocks.** After a successful registration, for every impl
    block of the library (anywhere in the module tree) its type is registered
    under some name `nm`, and every method and every constant of the block is
    declared *in the scope that type owns* (`nm.path`, the path at which the
    type was declared — not the place where the impl block stands), with the
    item's identity and its declared signature. -/
theorem impl_items_declared {st : St} (hw : WF st) (items : Items) (c : Checks lex st items)
    {q : List Name} {ty : TyId} {ch : Items} (hi : ItemAt items q (.impl ty ch)) :
    ∃ nm, (S5 lex st items).types ty = some nm ∧
      (∀ n ps r tag, Item.function n ps r tag ∈ ch.toList →
        ∃ ps' r', convTys (S5 lex st items) ps = .ok ps' ∧ convTy (S5 lex st items) r = .ok r' ∧
          (S5 lex st items).decls ⟨nm.path, n⟩ = some ⟨.method ps' r' tag, none⟩) ∧
      (∀ n cty tag, Item.constant n cty tag ∈ ch.toList →
        ∃ ty', convTy (S5 lex st items) cty = .ok ty' ∧
          (S5 lex st items).decls ⟨nm.path, n⟩ = some ⟨.const ty' tag, none⟩) := by
  obtain ⟨⟨e1, w1⟩, ⟨e2, w2⟩, ⟨e3, w3⟩, ⟨e4, w4⟩, ⟨e5, w5⟩⟩ := checks_stages lex hw items c
  have hchk : DOp.implCheck ty ∈ ops3 items :=
    mem_flat_of_itemAt leafFn hi [] _ (by simp [leafFn])
  obtain ⟨v, hv⟩ := c.functions.1 _ hchk
  simp only [DOp.pre] at hv
  cases hs : implScope ty (S2 lex st items) with
  | err e => simp [hs] at hv
  | panic s => simp [hs] at hv
  | ok s =>
    obtain ⟨nm, hnm, rfl⟩ := implScope_ok w2 hs
    have e25 : Ext (S2 lex st items) (S5 lex st items) := e3.trans (e4.trans e5)
    have e35 : Ext (S3 lex st items) (S5 lex st items) := e4.trans e5
    refine ⟨nm, e25.types _ _ hnm, fun n ps r tag hm => ?_, fun n cty tag hm => ?_⟩
    · have ho : DOp.method ty n ps r tag ∈ ops3 items :=
        mem_flat_of_itemAt leafFn hi [] _ (by simp only [leafFn]; exact List.mem_cons_of_mem _ (mem_methodOps hm))
      obtain ⟨v, hv⟩ := c.functions.1 _ ho
      have hv' := hv
      simp only [DOp.pre, hs] at hv'
      obtain ⟨_, ps', r', h1, h2, rfl⟩ := fnPre_ok lex hv'
      have hent : DOp.ent lex (S2 lex st items) (.method ty n ps r tag) =
          some (⟨nm.scope ++ [nm.ident], n⟩, ⟨.method ps' r' tag, none⟩) := by
        simp [DOp.ent, hv]
      have hd := declared_of_mem lex c.functions ho hent
      exact ⟨ps', r', convTys_ext e25 _ _ h1, convTy_ext e25 _ _ h2, e35.decls _ _ hd⟩
    · have ho : DOp.implConst ty n cty tag ∈ ops4 items :=
        mem_flat_of_itemAt leafConst hi [] _ (by simp only [leafConst]; exact List.mem_cons_of_mem _ (mem_implConstOps hm))
      obtain ⟨v, hv⟩ := c.constants.1 _ ho
      have hs3 : implScope ty (S3 lex st items) = .ok (nm.scope ++ [nm.ident]) := implScope_ext e3 hs
      have hv' := hv
      simp only [DOp.pre, hs3] at hv'
      obtain ⟨ty', h1, rfl⟩ := constPre_ok hv'
      have hent : DOp.ent lex (S3 lex st items) (.implConst ty n cty tag) =
          some (⟨nm.scope ++ [nm.ident], n⟩, ⟨.const ty' tag, none⟩) := by
        simp only [DOp.ent, hv]
      have hd := declared_of_mem lex c.constants ho hent
      exact ⟨ty', convTy_ext e35 _ _ h1, e5.decls _ _ hd⟩

end

end RotoV.Reg
