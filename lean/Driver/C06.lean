/-
  Driver handler owned by property C06: `c06 <args…>` requests.

    c06 lex <hex utf-8 source | -> <table | ->
        table = `cp:flags,cp:flags,…` (cp hexadecimal; flags decimal: bit 0
        XID_Start, bit 1 XID_Continue, bit 2 White_Space) — the lexer's Unicode
        predicates for the characters of this input, as computed by the real
        functions on the Rust side; characters not listed have flags 0
      → `done kind,start,end;kind,start,end;…` | `panic` | `hang` | `bad-utf8`
    c06 parse <hex utf-8 source | -> <table | -> <lits | ->
        the Lean PARSER model (`Model/Parse.lean`) on the source. lits = literal
        verdicts `L:<start>:<stop>:-` (decodes) / `L:<start>:<stop>:<Kind>:<a>:<b>`
        (the decoder's error: kind, absolute location) / `L:<start>:<stop>:<Kind>:rel:<a>:<b>`
        (a string literal's escape error: the escaper's own range, relative to the content),
        `F:…` for f-string text parts (`F:<start>:<stop>:<Kind>:rel:<j>:<a>:<b>`: the escaper's
        range relative to piece `j` of the text)
      → `ok <sexp> | <spans>` | `err <Kind> <start> <end> <hint> | <spans>`
        | `need L|F <start> <stop>` (no verdict in the table for this literal)
        | `panic` | `fuel` | `bad-utf8`
    c06 parsesig <hex utf-8 source | -> <table | ->
        the model of `Parser::parse_signature` (`fn[T, …](type, …) -> type`); same answers as `parse`
        with the tree `(Signature <k> (Params type*) (Ret type)?)` (no literal is ever decoded)
    c06 fpieces <hex text>
      → `pieces p:q,p:q,…`  the pieces `unescape_f_string_part` decodes one by one, by the model
    c06 crange <hex source | -> <start> <end>
      → `ok <a> <b>` | `panic`
    c06 cycle <old|fixed> <defs> <order: i,j,… | ->
        defs = definitions separated by `;`: `O` opaque, `L` list, `F<ty>…` fields
        ty = `v<i>` | `l` | `u` | `r(<ty>…)` | `n<i>(<ty>…)`
      → `ok` | `err` | `hang`
    c06 convert <defs> <ty> <fuel>
      → `returns` | `stops` | `recursing`
-/
import RotoV.Model.Lexer
import RotoV.Model.TypeCycle
import RotoV.Model.Parse
import Driver.Util

namespace Driver.C06
open RotoV RotoV.Lex

def hexNat (s : String) : Option Nat :=
  s.toList.foldl (fun acc c => match acc, hexVal c with
    | some a, some d => some (a * 16 + d)
    | _, _ => none) (some 0)

def parseTable (s : String) : Option (List (Nat × Nat)) :=
  if s = "-" then some [] else
  (s.splitOn ",").foldr (fun e acc =>
    match acc, e.splitOn ":" with
    | some l, [cp, fl] =>
      match hexNat cp, fl.toNat? with
      | some c, some f => some ((c, f) :: l)
      | _, _ => none
    | _, _ => none) (some [])

def flagsOf (tbl : List (Nat × Nat)) (c : Char) : Nat :=
  match tbl.find? (fun e => e.1 = c.toNat) with
  | some e => e.2
  | none => 0

def mkPreds (tbl : List (Nat × Nat)) : Preds where
  xidStart c := flagsOf tbl c % 2 = 1
  xidContinue c := (flagsOf tbl c / 2) % 2 = 1
  whitespace c := (flagsOf tbl c / 4) % 2 = 1

def decode (hex : String) : Option (List Char) :=
  if hex = "-" then some [] else
  match unhex hex with
  | none => none
  | some bs =>
    match String.fromUTF8? (ByteArray.mk bs.toArray) with
    | some s => some s.toList
    | none => none

def showToks (ts : List OutTok) : String :=
  ";".intercalate (ts.map fun t => s!"{t.kind.name},{t.start},{t.stop}")

/-! parser requests -/
open RotoV.Parse in
def kindOfName : String → Option EKind
  | "EndOfInput" => some .endOfInput
  | "FailedToParseEntireInput" => some .failedToParseEntireInput
  | "InvalidToken" => some .invalidToken
  | "Expected" => some .expected
  | "InvalidLiteral" => some .invalidLiteral
  | "Custom" => some .custom
  | _ => none

open RotoV.Parse in
def kindName' : EKind → String
  | .endOfInput => "EndOfInput"
  | .failedToParseEntireInput => "FailedToParseEntireInput"
  | .invalidToken => "InvalidToken"
  | .expected => "Expected"
  | .invalidLiteral => "InvalidLiteral"
  | .custom => "Custom"
  | .needLit _ _ _ => "NeedLit"

/-- one literal verdict: (is f-string part, start, stop, error); the error's range is
ABSOLUTE (`isRel = false`: what the real parser reported) or RELATIVE to the content of
the string literal (`isRel = true`: what the escaper itself reported) -/
abbrev LitEntry := Bool × Nat × Nat × Option (RotoV.Parse.EKind × RotoV.Lex.Span × Bool × Nat)

def parseLits (s : String) : Option (List LitEntry) :=
  if s = "-" then some [] else
  (s.splitOn ",").foldr (fun e acc =>
    match acc with
    | none => none
    | some l =>
      let cls? : Option (Bool × List String) := match e.splitOn ":" with
        | "L" :: r => some (false, r)
        | "F" :: r => some (true, r)
        | _ => none
      match cls? with
      | none => none
      | some (f, [a, b, "-"]) =>
        match a.toNat?, b.toNat? with
        | some a, some b => some ((f, a, b, none) :: l)
        | _, _ => none
      | some (f, [a, b, k, x, y]) =>
        match a.toNat?, b.toNat?, kindOfName k, x.toNat?, y.toNat? with
        | some a, some b, some k, some x, some y => some ((f, a, b, some (k, (x, y), false, 0)) :: l)
        | _, _, _, _, _ => none
      | some (f, [a, b, k, "rel", x, y]) =>
        match a.toNat?, b.toNat?, kindOfName k, x.toNat?, y.toNat? with
        | some a, some b, some k, some x, some y => some ((f, a, b, some (k, (x, y), true, 0)) :: l)
        | _, _, _, _, _ => none
      | some (f, [a, b, k, "rel", j, x, y]) =>
        match a.toNat?, b.toNat?, kindOfName k, j.toNat?, x.toNat?, y.toNat? with
        | some a, some b, some k, some j, some x, some y => some ((f, a, b, some (k, (x, y), true, j)) :: l)
        | _, _, _, _, _, _ => none
      | _ => none) (some [])

/-- the literal oracle of one request: no entry = "need this verdict". The table carries
the ABSOLUTE location of a decoding error (what the real parser reports); the model wants
the escaper's range RELATIVE to the text it was given (content of a string literal, piece
`j` of an f-string text) and redoes the parser's arithmetic on it. -/
def litOracle (src : List Char) (tbl : List LitEntry) (f : Bool) (s e : Nat) :
    Option (RotoV.Parse.EKind × Nat × Nat × Nat) :=
  match tbl.find? (fun x => x.1 == f && x.2.1 == s && x.2.2.1 == e) with
  | none => some (.needLit f s e, 0, 0, 0)
  | some x =>
    match x.2.2.2 with
    | none => none
    | some (k, (a, b), true, j) => some (k, j, a, b)
    | some (k, (a, b), false, _) =>
      if f then
        let t := RotoV.Parse.textOf src (s, e)
        let ps := RotoV.Parse.pieces t
        -- the last piece that starts at or before the error
        let j := ((List.range ps.length).filter fun i => s + (ps.getD i (0, 0)).1 ≤ a).getLast?.getD 0
        let base := s + (RotoV.Parse.pieceOf t j).1
        some (k, j, a - base, b - base)
      else some (k, 0, a - (s + 1), b - (s + 1))

open RotoV.Parse in
partial def showSx : Sx → String
  | .a s => s
  | .n tag [] => "(" ++ tag ++ ")"
  | .n tag kids => "(" ++ tag ++ " " ++ " ".intercalate (kids.map showSx) ++ ")"

def showSpans (l : List RotoV.Lex.Span) : String :=
  if l.isEmpty then "-" else ",".intercalate (l.map fun sp => s!"{sp.1}:{sp.2}")

open RotoV.Parse in
def showOut : Out → String
  | .tree t sp => "ok " ++ showSx t ++ " | " ++ showSpans sp
  | .error e sp =>
    match e.kind with
    | .needLit f a b => s!"need {if f then "F" else "L"} {a} {b}"
    | k =>
      let hint := match e.hint with | some h => s!"{h.1}:{h.2}" | none => "-"
      s!"err {kindName' k} {e.span.1} {e.span.2} {hint} | " ++ showSpans sp
  | .panic => "panic"
  | .fuel => "fuel"

/-! cycle-check requests -/
open RotoV.TypeCycle in
mutual
partial def pTy : List Char → Option (RotoV.TypeCycle.Ty × List Char)
  | 'l' :: r => some (.leaf, r)
  | 'u' :: r => some (.unresolved, r)
  | 'v' :: r =>
    let (ds, r) := r.span Char.isDigit
    some (.var (String.ofList ds).toNat!, r)
  | 'r' :: '(' :: r =>
    match pTys r with
    | some (ts, ')' :: r) => some (.record ts, r)
    | _ => none
  | 'n' :: r =>
    let (ds, r) := r.span Char.isDigit
    match r with
    | '(' :: r =>
      match pTys r with
      | some (ts, ')' :: r) => some (.name (String.ofList ds).toNat! ts, r)
      | _ => none
    | _ => none
  | _ => none
partial def pTys (s : List Char) : Option (List RotoV.TypeCycle.Ty × List Char) :=
  match pTy s with
  | none => some ([], s)
  | some (t, r) =>
    match pTys r with
    | some (ts, r) => some (t :: ts, r)
    | none => none
end

open RotoV.TypeCycle in
def pDef (s : String) : Option Def :=
  match s.toList with
  | ['O'] => some .opaque
  | ['L'] => some .list
  | 'F' :: r =>
    match pTys r with
    | some (ts, []) => some (.fields ts)
    | _ => none
  | _ => none

open RotoV.TypeCycle in
def pDefs (s : String) : Option Defs :=
  (s.splitOn ";").foldr (fun e acc => match acc, pDef e with
    | some l, some d => some (d :: l)
    | _, _ => none) (some [])

def pOrder (s : String) : Option (List Nat) :=
  if s = "-" then some [] else
  (s.splitOn ",").foldr (fun e acc => match acc, e.toNat? with
    | some l, some n => some (n :: l)
    | _, _ => none) (some [])

open RotoV.TypeCycle in
def handle (args : List String) : String :=
  match args with
  | ["lex", hex, tbl] =>
    match decode hex, parseTable tbl with
    | some src, some t =>
      match tokenize (mkPreds t) src with
      | .done ts => "done " ++ showToks ts
      | .panic => "panic"
      | .hang => "hang"
    | none, _ => "bad-utf8"
    | _, none => "bad-op"
  | ["parse", hex, tbl, lits] =>
    match decode hex, parseTable tbl, parseLits lits with
    | some src, some t, some l =>
      showOut (RotoV.Parse.parse
        ⟨src, mkPreds t, litOracle src l, RotoV.Gen.ParseFacts.almostKeywords.map String.toList⟩)
    | none, _, _ => "bad-utf8"
    | _, _, _ => "bad-op"
  | ["parsesig", hex, tbl] =>
    match decode hex, parseTable tbl with
    | some src, some t =>
      showOut (RotoV.Parse.parseSignature
        ⟨src, mkPreds t, fun _ _ _ => none, RotoV.Gen.ParseFacts.almostKeywords.map String.toList⟩)
    | none, _ => "bad-utf8"
    | _, _ => "bad-op"
  | ["fpieces", hex] =>
    match decode hex with
    | some t => "pieces " ++ ",".intercalate ((RotoV.Parse.pieces t).map fun p => s!"{p.1}:{p.2}")
    | none => "bad-utf8"
  | ["crange", hex, a, b] =>
    match decode hex, a.toNat?, b.toNat? with
    | some src, some a, some b =>
      match characterRange src (a, b) with
      | .ok r => s!"ok {r.1} {r.2}"
      | .panic => "panic"
    | _, _, _ => "bad-op"
  | ["cycle", ver, defs, order] =>
    let v? : Option Version := match ver with | "old" => some .old | "fixed" => some .fixed | _ => none
    match v?, pDefs defs, pOrder order with
    | some v, some ds, some o =>
      match detect v ds 100000 [] o with
      | some (.ok _) => "ok"
      | some (.err _) => "err"
      | none => "hang"
    | _, _, _ => "bad-op"
  | ["convert", defs, ty, fuel] =>
    match pDefs defs, pTy ty.toList, fuel.toNat? with
    | some ds, some (t, []), some f =>
      match convert ds f t with
      | some true => "returns"
      | some false => "stops"
      | none => "recursing"
    | _, _, _ => "bad-op"
  | _ => "bad-op"

end Driver.C06
