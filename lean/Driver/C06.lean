/- Driver handler owned by property C06: `c06 <args…>` requests. -/
import Driver.Util

namespace Driver.C06

def handle (_args : List String) : String := "bad-op"

end Driver.C06
