/- Driver handler owned by property C15: `c15 <args…>` requests.

   `c15 facts`                         → the generated lock facts, printed
   `c15 cap <size> <required>`         → `compute_capacity` (generated): `ok:<n>` / `panic`
   `c15 run <sz> <nslots> <op> …`      → the model (`RotoV.ListM.step`) on one history
   `c15 spec <nslots> <op> …`          → the shared-vector specification on the same history
   `c15 runm <sz> <nslots> <tok> …`    → the model; one record per token: the result of an op,
                                          or for the marker `!` a dump `!<slot>/<slot>/…;<live>`
                                          (nested histories compiled to handle variables)
   `c15 pinned <sz> <nslots> <op> …`   → as `run`, but typed `==` uses the lock targets of the
                                          pinned tree (`[self, self]`)
   answer: one `|`-separated record per op: `<out>;<slot>/<slot>/…;<live>`
      out   = `u` | `n<k>` | `b0` | `b1` | `o-` | `o<k>` | `v<k,k,…>` | `t<byte,byte,…>` (a string) | `F:<fault>`
      slot  = `-` (empty) or `<len>:<cap>:<e,e,…>`   (spec: cap is `?`)
      live  = live element tokens (spec: `?`)
   ops:  n:<d>  f:<d>:<v,v,…>  c:<d>:<src>  d:<h>  p:<h>:<v>  g:<h>:<i>  l:<h>  e:<h>  k:<h>
         s:<h>:<i>:<j>  +:<d>:<a>:<b>  ?:<h>:<v>  i:<h>:<v>  =:<a>:<b> (typed)  ~:<a>:<b> (erased)
         v:<h>  it:<h>  j:<h>:<byte,byte,…> (join with that separator; element v = the string `elemStr v`)
                                          a token `for:<tmp>:<h>:<n>:<k>:<body>` is a lowered script loop (`forOps`)
   `c15 str <v>`                       → the bytes of `elemStr v` (the string the element value `v` stands for)
   `c15 runf <sz> <nslots> <op> …`     → as `run` for a `List[f64]`: element values travel as binary64 bit
                                          patterns `b`; the model's element value is `f64Base + b`
   `c15 runmf <sz> <nslots> <tok> …`   → `runm` for a `List[f64]`
   `c15 runi <sz> <nshow> <nslots> <op> …` → histories with live Rust-side iterators (`RotoV.ListM.istep`):
                                          besides the ops of `run`: in:<v>:<h> (iterator with its handle in
                                          variable v = `h.clone().into_iter()`), ix:<v> (`next`), id:<v> (drop);
                                          only the first <nshow> variables are shown; `runif` for a `List[f64]`
   `c15 feq <a> <b>`                   → `b1` / `b0`: `elemEq` of the floats with bit patterns a, b
-/
import Driver.Util
import RotoV.Model.ListM
import RotoV.Model.ListFor
import RotoV.Model.ListIter

namespace Driver.C15
open RotoV RotoV.ListM

def nat? (s : String) : Option Nat := s.toNat?

def natList? (s : String) : Option (List Nat) :=
  if s == "" then some [] else (s.splitOn ",").mapM nat?

def parseOp (tok : String) : Option Op :=
  match tok.splitOn ":" with
  | ["n", d] => (nat? d).map .new
  | ["f", d, xs] => do pure (.fromVec (← nat? d) (← natList? xs))
  | ["f", d] => do pure (.fromVec (← nat? d) [])
  | ["c", d, s] => do pure (.cloneH (← nat? d) (← nat? s))
  | ["d", h] => (nat? h).map .dropH
  | ["p", h, v] => do pure (.push (← nat? h) (← nat? v))
  | ["g", h, i] => do pure (.get (← nat? h) (← nat? i))
  | ["l", h] => (nat? h).map .len
  | ["e", h] => (nat? h).map .isEmpty
  | ["k", h] => (nat? h).map .capacity
  | ["s", h, i, j] => do pure (.swap (← nat? h) (← nat? i) (← nat? j))
  | ["+", d, a, b] => do pure (.concat (← nat? d) (← nat? a) (← nat? b))
  | ["?", h, v] => do pure (.contains (← nat? h) (← nat? v))
  | ["i", h, v] => do pure (.index (← nat? h) (← nat? v))
  | ["=", a, b] => do pure (.eq (← nat? a) (← nat? b) true)
  | ["~", a, b] => do pure (.eq (← nat? a) (← nat? b) false)
  | ["v", h] => (nat? h).map .toVec
  | ["it", h] => (nat? h).map .iter
  | ["j", h, sep] => do pure (.join (← nat? h) (← natList? sep))
  | ["j", h] => do pure (.join (← nat? h) [44])
  | _ => none

def showFault : Fault → String
  | .deadlock => "deadlock"
  | .panic => "panic"
  | .ub => "ub"
  | .badHandle => "badhandle"

def showNats (l : List Nat) : String := ",".intercalate (l.map toString)

def showOut : Out → String
  | .unit => "u"
  | .nat n => s!"n{n}"
  | .bool b => if b then "b1" else "b0"
  | .opt none => "o-"
  | .opt (some n) => s!"o{n}"
  | .vals l => s!"v{showNats l}"
  | .str l => s!"t{showNats l}"
  | .fault f => s!"F:{showFault f}"

def showSlots (s : St) : String :=
  "/".intercalate (s.slots.map fun
    | none => "-"
    | some a =>
      match s.getAlloc a with
      | none => "freed"
      | some l => s!"{l.len}:{l.cap}:{showNats l.elems}{if l.locked then ":LOCKED" else ""}")

def showSpecSlots (t : Spec) : String :=
  "/".intercalate ((List.range t.slots.length).map fun h =>
    match t.vec h with
    | none => "-"
    | some (_, xs) => s!"{xs.length}:?:{showNats xs}")

def runHist (stepf : St → Op → Out × St) : St → List Op → List String → List String
  | _, [], acc => acc.reverse
  | s, op :: rest, acc =>
    let r := stepf s op
    runHist stepf r.2 rest (s!"{showOut r.1};{showSlots r.2};{r.2.live}" :: acc)

def runSpec : Spec → List Op → List String → List String
  | _, [], acc => acc.reverse
  | t, op :: rest, acc =>
    let r := specStep t op
    runSpec r.2 rest (s!"{showOut r.1};{showSpecSlots r.2};?" :: acc)

/-- the step function with the pinned tree's typed `==` -/
def stepPinned (sz : Nat) (s : St) (op : Op) : Out × St :=
  match op with
  | .eq a b true =>
    match s.slot a, s.slot b with
    | .ok x, .ok y =>
      match typedEqAsPinned s x y with
      | .ok r => r
      | .error f => (.fault f, s)
    | _, _ => (.fault .badHandle, s)
  | op => step sz s op

/-- a token of `runm`: one operation, or a lowered script loop
    `for:<tmp>:<h>:<n>:<k>:<body op, "/" for ":">` = `forOps tmp h bodies` with `n`
    iterations whose `k`-th body is the given operation (the others are empty) -/
def expandTok (tok : String) : Option (List Op) :=
  match tok.splitOn ":" with
  | ["for", tmp, h, n, k, body] => do
    let tmp ← nat? tmp
    let h ← nat? h
    let n ← nat? n
    let k ← nat? k
    let b ← parseOp (body.replace "/" ":")
    pure (forOps tmp h ((List.range n).map fun i => if i == k then [b] else []))
  | _ => (parseOp tok).map fun op => [op]

/-- run the operations a token stands for, one record (the result) each -/
def runOps (stepf : St → Op → Out × St) (shw : Op → Out → String) : St → List Op → List String → St × List String
  | s, [], acc => (s, acc)
  | s, op :: rest, acc =>
    let r := stepf s op
    runOps stepf shw r.2 rest (shw op r.1 :: acc)

/-- `runm`: as `run`, but a record is only the operation's result; the token `!`
    is not an operation: it dumps every variable (`<slots>;<live>`) -/
def runMarked (sz : Nat) : St → List String → List String → Option (List String)
  | _, [], acc => some acc.reverse
  | s, tok :: rest, acc =>
    if tok == "!" then runMarked sz s rest (s!"!{showSlots s};{s.live}" :: acc)
    else
      match expandTok tok with
      | none => none
      | some ops =>
        let r := runOps (step sz) (fun _ o => showOut o) s ops acc
        runMarked sz r.1 rest r.2

/-- element values of a `List[f64]` history arrive as bit patterns -/
def liftOp : Op → Op
  | .fromVec d xs => .fromVec d (xs.map (· + f64Base))
  | .push h v => .push h (v + f64Base)
  | .contains h v => .contains h (v + f64Base)
  | .index h v => .index h (v + f64Base)
  | op => op

/-- … and leave as bit patterns (`index` returns a position, not an element) -/
def lowerOut (op : Op) : Out → Out
  | .opt (some v) => match op with
    | .get .. => .opt (some (v - f64Base))
    | _ => .opt (some v)
  | .vals l => .vals (l.map (· - f64Base))
  | o => o

def showSlotsF (s : St) : String :=
  "/".intercalate (s.slots.map fun
    | none => "-"
    | some a =>
      match s.getAlloc a with
      | none => "freed"
      | some l => s!"{l.len}:{l.cap}:{showNats (l.elems.map (· - f64Base))}{if l.locked then ":LOCKED" else ""}")

def runHistF (sz : Nat) : St → List Op → List String → List String
  | _, [], acc => acc.reverse
  | s, op :: rest, acc =>
    let r := step sz s (liftOp op)
    runHistF sz r.2 rest (s!"{showOut (lowerOut op r.1)};{showSlotsF r.2};{r.2.live}" :: acc)

def runMarkedF (sz : Nat) : St → List String → List String → Option (List String)
  | _, [], acc => some acc.reverse
  | s, tok :: rest, acc =>
    if tok == "!" then runMarkedF sz s rest (s!"!{showSlotsF s};{s.live}" :: acc)
    else
      match expandTok tok with
      | none => none
      | some ops =>
        let r := runOps (fun s op => step sz s (liftOp op)) (fun op o => showOut (lowerOut op o)) s ops acc
        runMarkedF sz r.1 rest r.2

def parseIOp (tok : String) : Option IOp :=
  match tok.splitOn ":" with
  | ["in", v, h] => do pure (.iterNew (← nat? v) (← nat? h))
  | ["ix", v] => (nat? v).map .iterNext
  | ["id", v] => (nat? v).map .iterDrop
  | _ => (parseOp tok).map .base

def liftIOp : IOp → IOp
  | .base op => .base (liftOp op)
  | op => op

def lowerIOut : IOp → Out → Out
  | .base op, o => lowerOut op o
  | .iterNext _, .opt (some v) => .opt (some (v - f64Base))
  | _, o => o

def showSlotsK (f64 : Bool) (k : Nat) (s : St) : String :=
  "/".intercalate ((s.slots.take k).map fun
    | none => "-"
    | some a =>
      match s.getAlloc a with
      | none => "freed"
      | some l =>
        let es := if f64 then l.elems.map (· - f64Base) else l.elems
        s!"{l.len}:{l.cap}:{showNats es}{if l.locked then ":LOCKED" else ""}")

def runHistI (sz : Nat) (f64 : Bool) (k : Nat) : ISt → List IOp → List String → List String
  | _, [], acc => acc.reverse
  | s, op :: rest, acc =>
    let r := istep sz s (if f64 then liftIOp op else op)
    let o := if f64 then lowerIOut op r.1 else r.1
    runHistI sz f64 k r.2 rest (s!"{showOut o};{showSlotsK f64 k r.2.st};{r.2.st.live}" :: acc)

def handleI (f64 : Bool) (sz k n : String) (toks : List String) : String :=
  match nat? sz, nat? k, nat? n, toks.mapM parseIOp with
  | some sz, some k, some n, some ops => "|".intercalate (runHistI sz f64 k (ISt.init n) ops [])
  | _, _, _, _ => "bad-op"

def handle (args : List String) : String :=
  match args with
  | ["facts"] =>
    s!"typedEq shortcut={Gen.ListLocks.typedEqShortcut} locksLt={repr Gen.ListLocks.typedEqLocksLt} cmpLt={repr Gen.ListLocks.typedEqCompareLt} locksGe={repr Gen.ListLocks.typedEqLocksGe} cmpGe={repr Gen.ListLocks.typedEqCompareGe}; " ++
    s!"erasedEq shortcut={Gen.ListLocks.erasedEqShortcut} locksLt={repr Gen.ListLocks.erasedEqLocksLt} cmpLt={repr Gen.ListLocks.erasedEqCompareLt} locksGe={repr Gen.ListLocks.erasedEqLocksGe} cmpGe={repr Gen.ListLocks.erasedEqCompareGe}; " ++
    s!"concat same={repr Gen.ListLocks.concatStepsSame} lt={repr Gen.ListLocks.concatStepsLt} ge={repr Gen.ListLocks.concatStepsGe}" |>.replace "\n" " "
  | ["str", v] =>
    match nat? v with
    | some v => s!"t{showNats (elemStr v)}"
    | none => "bad-op"
  | ["cap", sz, req] =>
    match nat? sz, nat? req with
    | some sz, some req =>
      match Gen.Capacity.compute_capacity true sz req with
      | .ok n => s!"ok:{n}"
      | .panic => "panic"
    | _, _ => "bad-op"
  | "run" :: sz :: n :: toks =>
    match nat? sz, nat? n, toks.mapM parseOp with
    | some sz, some n, some ops => "|".intercalate (runHist (step sz) (St.init n) ops [])
    | _, _, _ => "bad-op"
  | ["feq", a, b] =>
    match nat? a, nat? b with
    | some a, some b => if elemEq (a + f64Base) (b + f64Base) then "b1" else "b0"
    | _, _ => "bad-op"
  | "runf" :: sz :: n :: toks =>
    match nat? sz, nat? n, toks.mapM parseOp with
    | some sz, some n, some ops => "|".intercalate (runHistF sz (St.init n) ops [])
    | _, _, _ => "bad-op"
  | "runmf" :: sz :: n :: toks =>
    match nat? sz, nat? n with
    | some sz, some n =>
      match runMarkedF sz (St.init n) toks [] with
      | some recs => "|".intercalate recs
      | none => "bad-op"
    | _, _ => "bad-op"
  | "runm" :: sz :: n :: toks =>
    match nat? sz, nat? n with
    | some sz, some n =>
      match runMarked sz (St.init n) toks [] with
      | some recs => "|".intercalate recs
      | none => "bad-op"
    | _, _ => "bad-op"
  | "runi" :: sz :: k :: n :: toks => handleI false sz k n toks
  | "runif" :: sz :: k :: n :: toks => handleI true sz k n toks
  | "pinned" :: sz :: n :: toks =>
    match nat? sz, nat? n, toks.mapM parseOp with
    | some sz, some n, some ops => "|".intercalate (runHist (stepPinned sz) (St.init n) ops [])
    | _, _, _ => "bad-op"
  | "spec" :: n :: toks =>
    match nat? n, toks.mapM parseOp with
    | some n, some ops => "|".intercalate (runSpec (Spec.init n) ops [])
    | _, _ => "bad-op"
  | _ => "bad-op"

end Driver.C15
