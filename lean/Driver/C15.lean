/- Driver handler owned by property C15: `c15 <args…>` requests. -/
import Driver.Util

namespace Driver.C15

def handle (_args : List String) : String := "bad-op"

end Driver.C15
