/- Driver handler owned by property C12: `c12 <args…>` requests.

   c12 check <hex of the structured LIR dump> <hex of the variant names> (hook verif_hooks::c12::lir_dump_kinds)
       → `ok items=<n> instrs=<n> sites=<n> calls=<n> k.<Variant>=<n>…`   `Exec.acceptProg` holds for the program:
                                                       every item accepted by `Lir.accept`, every call site passes
                                                       call-local addresses to pointer-typed parameters
       → `reject <hex item name> <instr index|init> <instr text hex>`
       → `reject-call <hex item name> <instr index> <instr text hex>`
       → `bad-dump <line number>`                      not in the dump grammar (never a default)
       → `bad-kind <line number> <variant>`            variant unknown to the generated kind list, or the
                                                       hook's opcode is not the shape the variant is classified as
   c12 kinds → the generated variant names
   c12 admits <send 0|1> <sync 0|1> <bound words…>
       → `yes` / `no`: `Bounds.admits` on a bound list written as words
         (`send sync static clone partialEq other`)
   c12 intern <text>:<identifier> …   observations made on the real interner (numbers)
       → `consistent <n>` / `inconsistent`: `Intern.consistent` (equal texts ↔ equal identifiers)
-/
import Driver.Util
import RotoV.Model.Conc
import RotoV.Model.ConcExec
import RotoV.Model.ConcInstr
import RotoV.Model.ConcIntern

namespace Driver.C12
open RotoV.Conc RotoV.Conc.Lir RotoV.Conc.Classify RotoV.Gen.C12Instr

def parseVar (s : String) : Option Nat :=
  if s.startsWith "v" then (s.drop 1).toNat? else none

def parseOp (s : String) : Option Operand :=
  if s == "k" then some .konst
  else if s.startsWith "kp" then (s.drop 2).toNat?.map .kptr
  else (parseVar s).map .var

def parseOps (ws : List String) : Option (List Operand) := ws.mapM parseOp

def parseOptVar (s : String) : Option (Option Nat) :=
  if s == "-" then some none else (parseVar s).map some

def parseOptOp (s : String) : Option (Option Operand) :=
  if s == "-" then some none else (parseOp s).map some

structure Decls where
  ptr : List Nat := []     -- variables declared pointer-typed
  known : List Nat := []   -- all declared variables

def Decls.isPtr (d : Decls) (v : Nat) : Option Bool :=
  if d.known.contains v then some (d.ptr.contains v) else none

/-- hash of a hex name into a number (names only label regions) -/
def nameId (s : String) : Nat := s.foldl (fun h c => (h * 131 + c.toNat) % 1000000007) 7

/-- `names`: the items of the dump in order (a callee is referred to by its
index; an unknown callee gets an index outside the program and is rejected by
`okCallSite`). `kind`: the `lir::Instruction` variant the hook reports for this
instruction. -/
def parseInstr (d : Decls) (names : List String) (kind : Kind) : List String → Option Instr
  | ["jump"] => some .nop
  | ["switch", _] => some .nop
  | ["ret", v] => do some (.ret (← parseOptOp v))
  | ["assign", to, val, _ty] => do some (.assign (← parseVar to) (← parseOp val))
  | ["constaddr", to, name] => do some (.constAddr (← parseVar to) (nameId name))
  | ["funcaddr", to, _] => do some (.funcAddr (← parseVar to))
  | ["initstring", to] => do some (.initString (← parseVar to))
  | "call" :: name :: to :: ctx :: ret :: args => do
      let to ← parseOptVar to
      let isPtr ← match to with
        | none => some false
        | some v => d.isPtr v
      some (.call (names.idxOf name) to isPtr (← parseOptOp ctx) (← parseOptVar ret) (← parseOps args))
  | "callrt" :: _f :: args => do some (.callRt (← parseOps args))
  | "arith" :: to :: ops => do
      let v ← parseVar to
      match kind, ops with
      | .kEq, [l, r] => some (.eq v (← parseOp l) (← parseOp r))
      | .kEq, _ => none
      | _, _ => some (.arith v (← d.isPtr v))
  | ["offset", to, src, n] => do some (.offset (← parseVar to) (← parseOp src) (← n.toNat?))
  | ["initialize", to, _] => do some (.initBytes (← parseVar to))
  | ["write", to, val] => do some (.write (← parseOp to) (← parseOp val))
  | ["read", to, src, ty] => do some (.read (← parseVar to) (ty == "Pointer") (← parseOp src))
  | ["copy", to, src, n] => do some (.copy (← parseOp to) (← parseOp src) (← n.toNat?))
  | ["clone", to, src] => do some (.clone (← parseOp to) (← parseOp src))
  | ["drop", v, f] => do some (.drop (← parseOp v) (f == "1"))
  | _ => none

def isSite : Instr → Bool
  | .initString _ | .call .. | .callRt _ | .initBytes _ | .write .. | .copy .. | .clone .. => true
  | .drop _ f => f
  | _ => false

def isCall : Instr → Bool
  | .call .. => true
  | _ => false

structure ItemAcc where
  name : String
  item : Item
  texts : List String

structure Acc where
  name : String := ""
  item : Item := { slots := [], ret := none, ctx := none, params := [], instrs := [] }
  decls : Decls := {}
  texts : List String := []   -- instruction texts, reversed
  inItem : Bool := false
  done : List ItemAcc := []   -- finished items, reversed
  kinds : List String := []   -- variant names not yet consumed
  seen : List (Kind × Nat) := []

def kv (s : String) (key : String) : Option String :=
  if s.startsWith (key ++ "=") then some (s.drop (key.length + 1)).toString else none

def bumpKind (seen : List (Kind × Nat)) (k : Kind) : List (Kind × Nat) :=
  if seen.any (·.1 == k) then seen.map (fun p => if p.1 == k then (p.1, p.2 + 1) else p)
  else (k, 1) :: seen

def finishItem (a : Acc) : Acc :=
  let it := { a.item with instrs := a.item.instrs.reverse, slots := a.item.slots.reverse,
                          params := a.item.params.reverse }
  { a with inItem := false, done := { name := a.name, item := it, texts := a.texts.reverse } :: a.done }

def stepLine (names : List String) (a : Acc) (ln : Nat) (line : String) : Except String Acc :=
  let bad : Except String Acc := .error s!"bad-dump {ln}"
  match Driver.words line with
  | [] => .ok a
  | ["item", name, _kind, ctx, ret] =>
    if a.inItem then bad else
    match (kv ctx "ctx").bind parseOptVar, (kv ret "ret").bind parseOptVar with
    | some c, some r =>
      let known := (c.toList ++ r.toList)
      .ok { a with name := name, inItem := true, texts := [],
                   item := { slots := [], ret := r, ctx := c, params := [], instrs := [] },
                   decls := { ptr := known, known := known } }
    | _, _ => bad
  | ["param", v, ty] =>
    match parseVar v with
    | some v =>
      let p := ty == "Pointer"
      .ok { a with item := { a.item with params := (v, p) :: a.item.params },
                   decls := { ptr := if p then v :: a.decls.ptr else a.decls.ptr, known := v :: a.decls.known } }
    | none => bad
  | ["val", v, ty] =>
    match parseVar v with
    | some v =>
      if a.decls.known.contains v then .ok a  -- parameters are listed again among the variables
      else .ok { a with decls := { ptr := if ty == "Pointer" then v :: a.decls.ptr else a.decls.ptr,
                                   known := v :: a.decls.known } }
    | none => bad
  | ["slot", v, _, _] =>
    match parseVar v with
    | some v => .ok { a with item := { a.item with slots := v :: a.item.slots },
                             decls := { ptr := v :: a.decls.ptr, known := v :: a.decls.known } }
    | none => bad
  | ["block"] => if a.inItem then .ok a else bad
  | "i" :: rest =>
    if !a.inItem then bad else
    match a.kinds with
    | [] => .error s!"bad-kind {ln} -"
    | kname :: kinds =>
      match Kind.ofName? kname with
      | none => .error s!"bad-kind {ln} {kname}"   -- a variant the generated list does not know
      | some k =>
        match parseInstr a.decls names k rest with
        | some i =>
          -- the hook's opcode and the classification of the variant must agree
          if Shape.of i != shapeOf k then .error s!"bad-kind {ln} {kname}"
          else .ok { a with item := { a.item with instrs := i :: a.item.instrs },
                            texts := " ".intercalate rest :: a.texts, kinds := kinds,
                            seen := bumpKind a.seen k }
        | none => bad
  | ["end"] => if a.inItem then .ok (finishItem a) else bad
  | _ => bad

def hexOf (txt : String) : String :=
  String.join ((txt.toUTF8.toList).map fun b =>
    let h := "0123456789abcdef".toList
    String.ofList [h.getD (b.toNat / 16) '?', h.getD (b.toNat % 16) '?'])

/-- why `acceptProg` is false: the first offending item / instruction -/
def diagnose (prog : List Item) : List ItemAcc → String
  | [] => "reject - ? -"
  | a :: rest =>
    let cert := infer a.item
    if !okInit cert a.item then s!"reject {a.name} init -"
    else match firstBad cert a.item.instrs with
      | some idx => s!"reject {a.name} {idx} {hexOf (a.texts.getD idx "?")}"
      | none =>
        match a.item.instrs.findIdx? (fun i => !Exec.okCallSite prog cert i) with
        | some idx => s!"reject-call {a.name} {idx} {hexOf (a.texts.getD idx "?")}"
        | none => diagnose prog rest

def checkDump (text kindsText : String) : String :=
  let lines := text.splitOn "\n"
  let names := lines.filterMap (fun l =>
    match Driver.words l with
    | "item" :: name :: _ => some name
    | _ => none)
  let kinds := (kindsText.splitOn "\n").filter (fun l => l != "")
  let rec go (ls : List String) (ln : Nat) (a : Acc) : Except String Acc :=
    match ls with
    | [] => if a.inItem then .error s!"bad-dump {ln}" else .ok a
    | l :: rest =>
      match stepLine names a ln l with
      | .ok a' => go rest (ln + 1) a'
      | .error e => .error e
  match go lines 1 { kinds := kinds } with
  | .error e => e
  | .ok a =>
    if !a.kinds.isEmpty then "bad-kind 0 -" else
    let items := a.done.reverse
    let prog := items.map (·.item)
    -- exactly the hypothesis of `accepted_items_noninterfere`
    if Exec.acceptProg prog then
      let instrs := prog.foldl (fun n it => n + it.instrs.length) 0
      let sites := prog.foldl (fun n it => n + (it.instrs.filter isSite).length) 0
      let calls := prog.foldl (fun n it => n + (it.instrs.filter isCall).length) 0
      let ks := " ".intercalate (a.seen.map (fun p => s!"k.{p.1.name}={p.2}"))
      s!"ok items={prog.length} instrs={instrs} sites={sites} calls={calls} {ks}"
    else diagnose prog items

def parseBound : String → Option Bounds.Bound
  | "send" => some .send
  | "sync" => some .sync
  | "static" => some .static
  | "clone" => some .clone
  | "partialEq" => some .partialEq
  | "other" => some .other
  | _ => none

def handle (args : List String) : String :=
  match args with
  | ["check", hex, khex] =>
    match Driver.unhex hex, Driver.unhex khex with
    | some bytes, some kbytes =>
      checkDump (String.ofList (bytes.map fun b => Char.ofNat b.toNat))
        (String.ofList (kbytes.map fun b => Char.ofNat b.toNat))
    | _, _ => "bad-op"
  | ["kinds"] => " ".intercalate (kinds.map (·.name))
  | "admits" :: send :: sync :: ws =>
    match ws.mapM parseBound with
    | some bs =>
      if (send == "0" || send == "1") && (sync == "0" || sync == "1") then
        if Bounds.admits bs ⟨send == "1", sync == "1"⟩ then "yes" else "no"
      else "bad-op"
    | none => "bad-op"
  | "intern" :: ps =>
    let parse (w : String) : Option (Nat × Nat) :=
      match w.splitOn ":" with
      | [a, b] => do some ((← a.toNat?), (← b.toNat?))
      | _ => none
    match ps.mapM parse with
    | some obs => if RotoV.Conc.Intern.consistent obs then s!"consistent {obs.length}" else "inconsistent"
    | none => "bad-op"
  | _ => "bad-op"

end Driver.C12
