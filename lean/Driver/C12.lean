/- Driver handler owned by property C12: `c12 <args…>` requests. -/
import Driver.Util

namespace Driver.C12

def handle (_args : List String) : String := "bad-op"

end Driver.C12
