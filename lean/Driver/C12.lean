/- Driver handler owned by property C12: `c12 <args…>` requests.

   c12 check <hex of the structured LIR dump (hook verif_hooks::c12::lir_dump)>
       → `ok items=<n> instrs=<n> sites=<n>`          every item accepted by `Lir.accept`
       → `reject <hex item name> <instr index|init> <instr text hex>`
       → `bad-dump <line number>`                      not in the dump grammar (never a default)
   c12 admits <send 0|1> <sync 0|1> <bound words…>
       → `yes` / `no`: `Bounds.admits` on a bound list written as words
         (`send sync static clone partialEq other`)
-/
import Driver.Util
import RotoV.Model.Conc

namespace Driver.C12
open RotoV.Conc RotoV.Conc.Lir

def parseVar (s : String) : Option Nat :=
  if s.startsWith "v" then (s.drop 1).toNat? else none

def parseOp (s : String) : Option Operand :=
  if s == "k" then some .konst
  else if s.startsWith "kp" then (s.drop 2).toNat?.map .kptr
  else (parseVar s).map .var

def parseOps (ws : List String) : Option (List Operand) := ws.mapM parseOp

def parseOptVar (s : String) : Option (Option Nat) :=
  if s == "-" then some none else (parseVar s).map some

def parseOptOp (s : String) : Option (Option Operand) :=
  if s == "-" then some none else (parseOp s).map some

structure Decls where
  ptr : List Nat := []     -- variables declared pointer-typed
  known : List Nat := []   -- all declared variables

def Decls.isPtr (d : Decls) (v : Nat) : Option Bool :=
  if d.known.contains v then some (d.ptr.contains v) else none

/-- hash of a hex name into a number (names only label regions) -/
def nameId (s : String) : Nat := s.foldl (fun h c => (h * 131 + c.toNat) % 1000000007) 7

def parseInstr (d : Decls) : List String → Option Instr
  | ["jump"] => some .nop
  | ["switch", _] => some .nop
  | ["ret", _] => some .nop
  | ["assign", to, val, _ty] => do some (.assign (← parseVar to) (← parseOp val))
  | ["constaddr", to, name] => do some (.constAddr (← parseVar to) (nameId name))
  | ["funcaddr", to, _] => do some (.funcAddr (← parseVar to))
  | ["initstring", to] => do some (.initString (← parseVar to))
  | "call" :: _name :: to :: ctx :: ret :: args => do
      let to ← parseOptVar to
      let isPtr ← match to with
        | none => some false
        | some v => d.isPtr v
      some (.call to isPtr (← parseOptOp ctx) (← parseOptVar ret) (← parseOps args))
  | "callrt" :: _f :: args => do some (.callRt (← parseOps args))
  | "arith" :: to :: _ => do
      let v ← parseVar to
      some (.arith v (← d.isPtr v))
  | ["offset", to, src, n] => do some (.offset (← parseVar to) (← parseOp src) (← n.toNat?))
  | ["initialize", to, _] => do some (.initBytes (← parseVar to))
  | ["write", to, val] => do some (.write (← parseOp to) (← parseOp val))
  | ["read", to, src, ty] => do some (.read (← parseVar to) (ty == "Pointer") (← parseOp src))
  | ["copy", to, src, _] => do some (.copy (← parseOp to) (← parseOp src))
  | ["clone", to, src] => do some (.clone (← parseOp to) (← parseOp src))
  | ["drop", v, f] => do some (.drop (← parseOp v) (f == "1"))
  | _ => none

def isSite : Instr → Bool
  | .initString _ | .call .. | .callRt _ | .initBytes _ | .write .. | .copy .. | .clone .. => true
  | .drop _ f => f
  | _ => false

structure Acc where
  name : String := ""
  item : Item := { slots := [], ret := none, ctx := none, params := [], instrs := [] }
  decls : Decls := {}
  texts : List String := []   -- instruction texts, reversed
  inItem : Bool := false
  items : Nat := 0
  instrs : Nat := 0
  sites : Nat := 0

def kv (s : String) (key : String) : Option String :=
  if s.startsWith (key ++ "=") then some (s.drop (key.length + 1)).toString else none

def finishItem (a : Acc) : Except String Acc :=
  let it := { a.item with instrs := a.item.instrs.reverse, slots := a.item.slots.reverse,
                          params := a.item.params.reverse }
  let cert := infer it
  if !okInit cert it then .error s!"reject {a.name} init -"
  else match firstBad cert it.instrs with
    | some idx =>
      let txt := (a.texts.reverse.getD idx "?")
      .error s!"reject {a.name} {idx} {String.join ((txt.toUTF8.toList).map fun b =>
        let h := "0123456789abcdef".toList
        String.ofList [h.getD (b.toNat / 16) '?', h.getD (b.toNat % 16) '?'])}"
    | none =>
      if accept it then
        .ok { items := a.items + 1, instrs := a.instrs + it.instrs.length,
              sites := a.sites + (it.instrs.filter isSite).length }
      else .error s!"reject {a.name} ? -"

def stepLine (a : Acc) (ln : Nat) (line : String) : Except String Acc :=
  let bad : Except String Acc := .error s!"bad-dump {ln}"
  match Driver.words line with
  | [] => .ok a
  | ["item", name, _kind, ctx, ret] =>
    if a.inItem then bad else
    match (kv ctx "ctx").bind parseOptVar, (kv ret "ret").bind parseOptVar with
    | some c, some r =>
      let known := (c.toList ++ r.toList)
      .ok { a with name := name, inItem := true, texts := [],
                   item := { slots := [], ret := r, ctx := c, params := [], instrs := [] },
                   decls := { ptr := known, known := known } }
    | _, _ => bad
  | ["param", v, ty] =>
    match parseVar v with
    | some v =>
      let p := ty == "Pointer"
      .ok { a with item := { a.item with params := (v, p) :: a.item.params },
                   decls := { ptr := if p then v :: a.decls.ptr else a.decls.ptr, known := v :: a.decls.known } }
    | none => bad
  | ["val", v, ty] =>
    match parseVar v with
    | some v =>
      if a.decls.known.contains v then .ok a  -- parameters are listed again among the variables
      else .ok { a with decls := { ptr := if ty == "Pointer" then v :: a.decls.ptr else a.decls.ptr,
                                   known := v :: a.decls.known } }
    | none => bad
  | ["slot", v, _, _] =>
    match parseVar v with
    | some v => .ok { a with item := { a.item with slots := v :: a.item.slots },
                             decls := { ptr := v :: a.decls.ptr, known := v :: a.decls.known } }
    | none => bad
  | ["block"] => if a.inItem then .ok a else bad
  | "i" :: rest =>
    if !a.inItem then bad else
    match parseInstr a.decls rest with
    | some i => .ok { a with item := { a.item with instrs := i :: a.item.instrs },
                             texts := " ".intercalate rest :: a.texts }
    | none => bad
  | ["end"] => if a.inItem then finishItem a else bad
  | _ => bad

def checkDump (text : String) : String :=
  let lines := text.splitOn "\n"
  let rec go (ls : List String) (ln : Nat) (a : Acc) : String :=
    match ls with
    | [] => if a.inItem then s!"bad-dump {ln}" else s!"ok items={a.items} instrs={a.instrs} sites={a.sites}"
    | l :: rest =>
      match stepLine a ln l with
      | .ok a' => go rest (ln + 1) a'
      | .error e => e
  go lines 1 {}

def parseBound : String → Option Bounds.Bound
  | "send" => some .send
  | "sync" => some .sync
  | "static" => some .static
  | "clone" => some .clone
  | "partialEq" => some .partialEq
  | "other" => some .other
  | _ => none

def handle (args : List String) : String :=
  match args with
  | ["check", hex] =>
    match Driver.unhex hex with
    | some bytes => checkDump (String.ofList (bytes.map fun b => Char.ofNat b.toNat))
    | none => "bad-op"
  | "admits" :: send :: sync :: ws =>
    match ws.mapM parseBound with
    | some bs =>
      if (send == "0" || send == "1") && (sync == "0" || sync == "1") then
        if Bounds.admits bs ⟨send == "1", sync == "1"⟩ then "yes" else "no"
      else "bad-op"
    | none => "bad-op"
  | _ => "bad-op"

end Driver.C12
