/- Driver handler owned by property C17: `c17 <args…>` requests.

   Strings travel as `x<hex of the UTF-8 bytes>`; answers re-encode with the
   model's own `utf8`, so the encoder is compared with Rust's on every answer.

     c17 bytes.len|chars.len|lines.len xHEX          → N
     c17 bytes.get|chars.get|lines.get xHEX IDX      → none | some CP
     c17 bytes.slice|chars.slice|lines.slice xHEX I J → none | some xHEX | panic
     c17 bytes.list xHEX → list B…   chars.list → list CP…   lines.list → list xHEX…
     c17 spec.bytes.get|spec.chars.get xHEX I        → none | some CP
     c17 spec.lines.get xHEX N                        → none | some xHEX
     c17 spec.bytes.slice|spec.chars.slice|spec.lines.slice xHEX I J → none | some xHEX
     c17 spec.lines.len xHEX → N     spec.lines.list xHEX → list xHEX…
     c17 boundary xHEX I → none | some K
     c17 buf new|from:xHEX (c:CP | s:xHEX)*           → xHEX
     c17 bufseq new|from:xHEX (c:CP | s:xHEX | r)*    → list xHEX…  (one per read)
-/
import Driver.Util
import RotoV.Model.Strings

namespace Driver.C17
open RotoV RotoV.Strings

def hexDigit (n : Nat) : Char := "0123456789abcdef".toList.getD n '?'

def hexOf (bs : List UInt8) : String :=
  String.ofList (bs.flatMap fun b => [hexDigit (b.toNat / 16), hexDigit (b.toNat % 16)])

def encStr (s : List Char) : String := "x" ++ hexOf (utf8 s)

def decStr (w : String) : Option (List Char) :=
  match w.toList with
  | 'x' :: rest =>
    match unhex (String.ofList rest) with
    | some bs => (String.fromUTF8? ⟨bs.toArray⟩).map String.toList
    | none => none
  | _ => none

def optChar : Option Char → String
  | none => "none"
  | some c => s!"some {c.toNat}"

def optStr : Option (List Char) → String
  | none => "none"
  | some s => "some " ++ encStr s

def resOptStr : Res (Option (List Char)) → String
  | .panic => "panic"
  | .ok o => optStr o

def listOut (items : List String) : String := " ".intercalate ("list" :: items)

def bufOp (w : String) : Option BufOp :=
  match w.toList with
  | 'c' :: ':' :: rest =>
    (String.ofList rest).toNat?.bind fun n =>
      if n < 0xD800 ∨ (0xDFFF < n ∧ n < 0x110000) then some (.pushChar (Char.ofNat n)) else none
  | 's' :: ':' :: rest => (decStr (String.ofList rest)).map .pushString
  | _ => none

def bufInit (w : String) : Option (List Char) :=
  if w = "new" then some bufNew
  else match w.toList with
    | 'f' :: 'r' :: 'o' :: 'm' :: ':' :: rest => (decStr (String.ofList rest)).map bufFrom
    | _ => none

def bufEv (w : String) : Option BufEv :=
  if w = "r" then some .read else (bufOp w).map .op

def handle (args : List String) : String :=
  match args with
  | "bufseq" :: init :: evs =>
    match bufInit init, evs.mapM bufEv with
    | some st, some es => listOut ((bufTrace st es).map encStr)
    | _, _ => "bad-op"
  | "buf" :: init :: ops =>
    match bufInit init, ops.mapM bufOp with
    | some st, some log => encStr (bufRun st log)
    | _, _ => "bad-op"
  | [op, sx] =>
    match decStr sx with
    | none => "bad-op"
    | some s =>
      match op with
      | "bytes.len" => toString (bytesLen s)
      | "chars.len" => toString (charsLen s)
      | "lines.len" => toString (linesLen s)
      | "spec.lines.len" => toString (specLinesLen s)
      | "bytes.list" => listOut ((bytesList s).map fun b => toString b.toNat)
      | "chars.list" => listOut ((charsList s).map fun c => toString c.toNat)
      | "lines.list" => listOut ((linesList s).map encStr)
      | "spec.lines.list" => listOut ((specLinesList s).map encStr)
      | _ => "bad-op"
  | [op, sx, ix] =>
    match decStr sx, ix.toNat? with
    | some s, some i =>
      match op with
      | "bytes.get" => optChar (bytesGet s i)
      | "chars.get" => optChar (charsGet s i)
      | "lines.get" => optChar (linesGet s i)
      | "spec.bytes.get" => optChar (specBytesGet s i)
      | "spec.chars.get" => optChar (specCharsGet s i)
      | "spec.lines.get" => optStr (specLinesGet s i)
      | "boundary" => match boundaryIdx s i with | none => "none" | some k => s!"some {k}"
      | _ => "bad-op"
    | _, _ => "bad-op"
  | [op, sx, ix, jx] =>
    match decStr sx, ix.toNat?, jx.toNat? with
    | some s, some i, some j =>
      match op with
      | "bytes.slice" => resOptStr (bytesSlice s i j)
      | "chars.slice" => resOptStr (charsSlice s i j)
      | "lines.slice" => resOptStr (linesSlice s i j)
      | "spec.bytes.slice" => optStr (specBytesSlice s i j)
      | "spec.chars.slice" => optStr (specCharsSlice s i j)
      | "spec.lines.slice" => optStr (specLinesSlice s i j)
      | _ => "bad-op"
    | _, _, _ => "bad-op"
  | _ => "bad-op"

end Driver.C17
