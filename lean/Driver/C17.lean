/- Driver handler owned by property C17: `c17 <args…>` requests. -/
import Driver.Util

namespace Driver.C17

def handle (_args : List String) : String := "bad-op"

end Driver.C17
