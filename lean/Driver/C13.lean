/- Driver handler owned by property C13: `c13 <args…>` requests.

  c13 run G <n> module*n M <n> module*n
      G: runtime modules declared before the script (same `declare_modules` shape, parent none)
      module := ident parent+1(0 = none) nitems item*
      item   := F name tag block | C name tag | T name tag | I npaths path* | S id kind path
      block  := nimports path* nstmts stmt*
      stmt   := L name tag | B block | P id kind(0 fn, 1 const, 2 type) path | A name tag (parameter, head of a function body only)
      path   := len name*
    answer  `<base> ; <id>=<res>* ; <dotted>=<tag>* ; <scope dump>*`
      base  := ok | err:<kind> | panic:<site>      res := ok:<tag> | err:<kind> | panic:<site>
      scope dump (one token per scope, allocation order):
        <printed>|<parent printed or ->|<alias>><printed scope>.<ident>,…|<ident>:<kind>,…

  c13 discover V <n> <name>*n <entries>   (names that are not identifier-shaped)
      entries := n entry*   entry := f stem roto(0/1) | d name entries
    answer  `none` | `<moduleName>:<child>,<child>… ` per file
-/
import Driver.Util
import RotoV.Model.Scope

namespace Driver.C13
open RotoV.Scope

abbrev P := StateT (List String) Option

def tok : P String := fun s => match s with | [] => none | t :: r => some (t, r)
def nat : P Nat := do let t ← tok; (t.toNat? : Option Nat)
def expect (w : String) : P Unit := do let t ← tok; if t = w then pure () else failure

def rep {α} (p : P α) : Nat → P (List α)
  | 0 => pure []
  | n + 1 => do let a ← p; let r ← rep p n; pure (a :: r)

def path : P Path := do let n ← nat; rep nat n

def pkind : P PKind := do
  match ← nat with
  | 0 => pure .fn | 1 => pure .const | 2 => pure .ty | _ => failure

mutual
partial def block : P Block := do
  let ni ← nat
  let imps ← rep path ni
  let ns ← nat
  let stmts ← repStmt ns
  pure (.mk imps stmts)
partial def repStmt : Nat → P (List Stmt)
  | 0 => pure []
  | n + 1 => do let a ← stmt; let r ← repStmt n; pure (a :: r)
partial def stmt : P Stmt := do
  match ← tok with
  | "L" => do let x ← nat; let t ← nat; pure (.letv x t)
  | "B" => do let b ← block; pure (.block b)
  | "P" => do let id ← nat; let k ← pkind; let p ← path; pure (.probe id k p)
  | "A" => do let x ← nat; let t ← nat; pure (.param x t)
  | _ => failure
end

def item : P Item := do
  match ← tok with
  | "F" => do let n ← nat; let t ← nat; let b ← block; pure (.fn n t b)
  | "C" => do let n ← nat; let t ← nat; pure (.const n t)
  | "T" => do let n ← nat; let t ← nat; pure (.ty n t)
  | "I" => do let k ← nat; let ps ← rep path k; pure (.imports ps)
  | "S" => do let id ← nat; let k ← pkind; let p ← path; pure (.sigProbe id k p)
  | _ => failure

def module : P Module := do
  let ident ← nat
  let pp ← nat
  let n ← nat
  let items ← rep item n
  pure ⟨ident, if pp = 0 then none else some (pp - 1), items⟩

def showErr : Err → String
  | .notDefined => "notDefined" | .declaredTwice => "declaredTwice" | .tooManySuper => "tooManySuper"
  | .expectedModule => "expectedModule" | .expectedValue => "expectedValue"
  | .expectedFunction => "expectedFunction" | .expectedType => "expectedType" | .noField => "noField"

def showSite : Site → String
  | .fuel => "fuel" | .scopeIndex => "scopeIndex" | .importTarget => "importTarget"
  | .getDeclaration => "getDeclaration" | .parentNotModule => "parentNotModule"
  | .superNoScope => "superNoScope" | .emptyPath => "emptyPath" | .moduleOrder => "moduleOrder"

def showRes {α} (f : α → String) : Res α → String
  | .ok a => "ok" ++ f a
  | .err e => "err:" ++ showErr e
  | .panic s => "panic:" ++ showSite s

def showSeg : Seg → String
  | .id n => toString n
  | .fnScope n => "f" ++ toString n
  | .tyScope n => "t" ++ toString n
  | .block i => "b" ++ toString i

def showSegs (l : List Seg) : String := ".".intercalate (l.map showSeg)

def showScopeOf (g : Graph) (s : Nat) : String :=
  match printScope g s with
  | .ok l => if l.isEmpty then "@" else showSegs l
  | _ => "?"

def showKind : DKind → String
  | .module => "mod" | .ty t => s!"ty{t}" | .fn t => s!"fn{t}" | .const t => s!"const{t}" | .localv t => s!"local{t}"

def dumpScope (g : Graph) (i : Nat) (sc : Scope) : String :=
  let par := match sc.parent with | none => "-" | some p => showScopeOf g p
  let imps := sc.imports.map fun (a, t) => s!"{a}>{showScopeOf g t.scope}.{t.ident}"
  let decls := (g.decls.filter (fun d => d.name.scope = i)).map fun d => s!"{d.name.ident}:{showKind d.kind}"
  s!"{showScopeOf g i}|{par}|{",".intercalate imps}|{",".intercalate decls}"

def dumpGraph (g : Graph) : String :=
  " ".intercalate ((List.range g.scopes.length).zip g.scopes |>.map fun (i, sc) => dumpScope g i sc)

def run : P String := do
  expect "G"; let ng ← nat; let rts ← rep module ng
  expect "M"; let nm ← nat; let ms ← rep module nm
  let g0 : Res Graph := match declareModules rts [] Graph.new with
    | .ok (g, _) => .ok g
    | .err e => .err e
    | .panic s => .panic s
  match g0 with
  | .ok g0 =>
    match checkModuleTree g0 (packageRoot ms) with
    | .ok out =>
      let probes := out.probes.map fun (id, r) => s!"{id}={showRes (fun t => ":" ++ toString t) r}"
      let exports := (exportTable out.g).map fun (l, t) => s!"{showSegs l}={t}"
      pure s!"ok ; {" ".intercalate probes} ; {" ".intercalate exports} ; {dumpGraph out.g}"
    | .err e => pure s!"err:{showErr e} ; ; ;"
    | .panic s => pure s!"panic:{showSite s} ; ; ;"
  | .err e => pure s!"rt-err:{showErr e} ; ; ;"
  | .panic s => pure s!"rt-panic:{showSite s} ; ; ;"

mutual
partial def entries : P (List Entry) := do
  let n ← nat
  repEntry n
partial def repEntry : Nat → P (List Entry)
  | 0 => pure []
  | n + 1 => do let a ← entry; let r ← repEntry n; pure (a :: r)
partial def entry : P Entry := do
  match ← tok with
  | "f" => do let s ← nat; let r ← nat; pure (.file s (r = 1))
  | "d" => do let n ← nat; let es ← entries; pure (.dir n es)
  | _ => failure
end

def discover : P String := do
  -- `V <n> <name>*n`: the names that are *not* identifier-shaped
  expect "V"; let n ← nat; let bad ← rep nat n
  let es ← entries
  match directory (fun x => !bad.contains x) es with
  | none => pure "none"
  | some files =>
    pure (" ".intercalate (files.map fun f =>
      s!"{f.moduleName}:{",".intercalate (f.children.map toString)}"))

def handle (args : List String) : String :=
  match args with
  | "run" :: rest =>
    match run.run rest with
    | some (s, []) => s
    | _ => "bad-op"
  | "discover" :: rest =>
    match discover.run rest with
    | some (s, []) => s
    | _ => "bad-op"
  | _ => "bad-op"

end Driver.C13
