/- Driver handler owned by property C13: `c13 <args…>` requests. -/
import Driver.Util

namespace Driver.C13

def handle (_args : List String) : String := "bad-op"

end Driver.C13
