/- Driver handler owned by property C20: `c20 <args…>` requests.

   c20 mem <op> <op> …     run the operations on the GENERATED memory model (a panic leaves the
                           memory unchanged, like the hook's `catch_unwind`); one answer token per
                           operation:
        a<n> allocate → ptr<k>      u push frame → unit     p pop frame → pop0 | pop1
        o<p>,<off> offset → ptr<k>  r<p>,<n> read → b<hex>  w<p>,<hex> write → unit
        c<to>,<from>,<n> copy → unit    g<p> get → unit     any panic → panic
   c20 switch <x> <default> <k>:<l>,<k>:<l>,…   the generated `Switch` arm on a `u32` examinee and
                           the model of Cranelift's Switch: `<evaluator label> <jit label|dup>`
-/
import RotoV.Generated.EvalMem
import Driver.Util

namespace Driver.C20
open RotoV RotoV.Gen.EvalMem

/-- the harness is built in the debug profile -/
def dbg : Bool := true

def hexDigit (n : Nat) : Char :=
  if n < 10 then Char.ofNat (48 + n) else Char.ofNat (87 + n)

def hex (bs : List UInt8) : String :=
  String.ofList (bs.flatMap fun b => [hexDigit (b.toNat / 16), hexDigit (b.toNat % 16)])

def nums (s : String) : Option (List Nat) :=
  (s.splitOn ",").mapM String.toNat?

def step (m : Memory) (tok : String) : Memory × String :=
  let kind := tok.take 1 |>.toString
  let rest := tok.drop 1 |>.toString
  match kind with
  | "a" =>
    match rest.toNat? with
    | some n => match Memory.allocate dbg m n with
      | .ok (m', p) => (m', s!"ptr{p}")
      | .panic => (m, "panic")
    | none => (m, "bad-op")
  | "u" => match Memory.push_frame dbg m 0 none with
    | .ok m' => (m', "unit")
    | .panic => (m, "panic")
  | "p" => match Memory.pop_frame dbg m with
    | .ok (m', r) => (m', if r.isSome then "pop1" else "pop0")
    | .panic => (m, "panic")
  | "o" => match nums rest with
    | some [p, o] => match Memory.offset_by dbg m p o with
      | .ok (m', q) => (m', s!"ptr{q}")
      | .panic => (m, "panic")
    | _ => (m, "bad-op")
  | "r" => match nums rest with
    | some [p, n] => match Memory.read_slice dbg m p n with
      | .ok bs => (m, "b" ++ hex bs)
      | .panic => (m, "panic")
    | _ => (m, "bad-op")
  | "w" => match rest.splitOn "," with
    | [p, h] => match p.toNat?, unhex h with
      | some p, some bs => match Memory.write dbg m p bs with
        | .ok m' => (m', "unit")
        | .panic => (m, "panic")
      | _, _ => (m, "bad-op")
    | _ => (m, "bad-op")
  | "g" => match rest.toNat? with
    | some p => match Memory.get dbg m p with
      | .ok _ => (m, "unit")
      | .panic => (m, "panic")
    | none => (m, "bad-op")
  | "c" => match nums rest with
    | some [t, f, n] => match Memory.copy dbg m t f n with
      | .ok m' => (m', "unit")
      | .panic => (m, "panic")
    | _ => (m, "bad-op")
  | _ => (m, "bad-op")

def runMem (toks : List String) : String :=
  match Memory.default dbg with
  | .panic => "panic"
  | .ok m0 =>
    let (_, out) := toks.foldl (fun (acc : Memory × List String) t =>
      let (m', o) := step acc.1 t
      (m', o :: acc.2)) (m0, [])
    " ".intercalate out.reverse

def parseTable (s : String) : Option (List (Nat × Nat)) :=
  if s == "-" then some [] else
  (s.splitOn ",").mapM fun e =>
    match e.splitOn ":" with
    | [k, l] => do pure (← k.toNat?, ← l.toNat?)
    | _ => none

def handle (args : List String) : String :=
  match args with
  | "mem" :: toks => runMem toks
  | ["switch", x, d, tbl] =>
    match x.toNat?, d.toNat?, parseTable tbl with
    | some x, some d, some t =>
      let ev := match eval_Switch dbg (fun _ => .ok x) (.U32 ⟨BitVec.ofNat 32 x⟩) t d with
        | .ok l => toString l
        | .panic => "panic"
      let jit := match cg_Switch t with
        | .ok s => toString (s.target d x)
        | .panic => "dup"
      s!"{ev} {jit}"
    | _, _, _ => "bad-op"
  | _ => "bad-op"

end Driver.C20
