/- Driver handler owned by property C20: `c20 <args…>` requests. -/
import Driver.Util

namespace Driver.C20

def handle (_args : List String) : String := "bad-op"

end Driver.C20
