/- Driver handler owned by property C14: `c14 <args…>` requests. -/
import Driver.Util

namespace Driver.C14

def handle (_args : List String) : String := "bad-op"

end Driver.C14
