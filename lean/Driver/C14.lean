/- Driver handler owned by property C14: `c14 <args…>` requests.

   `c14 fco <kinds> <edges>`
     kinds : one char per node id (`c` constant, `f` function, `x` context, `o` other)
     edges : `k:t,t,t;k:;…` (keys ascending, targets ascending) or `-` for no keys
   answers
     `comps=<a,b;c;…> out=<ord:a,b,…|rec:n|ctx:n> valid=<0|1> cg=<log:a,b,…|panic|fuel|none> once=<0|1>`
   where `comps` is `tarjan`, `out` is `find_compilation_order`, `valid` is the
   verified checker on `comps`, `cg` the initialiser log of the codegen loop.
   A model failure is `panic` / `fuel` in the respective field.

   `c14 cert <kinds> <edges> <comps>` runs the verified checker `validOrder` on
   components computed elsewhere (the implementation's): `valid=<0|1>`.

   `c14 tie <kinds> <true edges> <collected edges>` compares the dependency
   structure a generated program is known to have with the reference graph the
   type checker collected (same node numbering): `missing=<u>v,u>v,…|-> extra=<…>`
   (`edgesMissing`; empty iff `edgesSubset`) and `out=` = `find_compilation_order`
   on the *true* structure (what the property demands of the program).

   `c14 lir <items>` runs the code generator's loop over the lowered item list:
   items `;`-separated, each `<f|cN|cu>/<funcs>/<consts>` with comma-separated
   positions (`u` = not in the list, `N` = position of the constant's drop
   function): `lir=<ok:c,c,…|panic@k> ready=<0|1>` (run order of the initialisers, or the
   number of items the loop survives; `ready` is the closed form `lirReady`). -/
import Driver.Util
import RotoV.Model.Tarjan
import RotoV.Model.TarjanLir

namespace Driver.C14
open RotoV.Tarjan

def parseKind : Char → Option Kind
  | 'c' => some .const
  | 'f' => some .func
  | 'x' => some .ctx
  | 'o' => some .other
  | _ => none

def parseNats (s : String) : Option (List Nat) :=
  if s.isEmpty then some [] else (s.splitOn ",").mapM String.toNat?

def parseEdge (s : String) : Option (Nat × List Nat) :=
  match s.splitOn ":" with
  | [k, ts] => do
    let k ← k.toNat?
    let ts ← parseNats ts
    pure (k, ts)
  | _ => none

def parseEdges (s : String) : Option (List (Nat × List Nat)) :=
  if s == "-" then some [] else ((s.splitOn ";").filter (· ≠ "")).mapM parseEdge

def parseOptNats (s : String) : Option (List (Option Nat)) :=
  if s.isEmpty then some []
  else (s.splitOn ",").mapM fun w => if w == "u" then some none else w.toNat?.map some

def parseLItem (s : String) : Option LItem :=
  match s.splitOn "/" with
  | [k, fs, cs] => do
    let fs ← parseOptNats fs
    let cs ← parseOptNats cs
    if k == "f" then pure ⟨false, none, fs, cs⟩
    else if k == "cu" then pure ⟨true, none, fs, cs⟩
    else if k.startsWith "c" then do
      let d ← (k.drop 1).toNat?
      pure ⟨true, some d, fs, cs⟩
    else none
  | _ => none

def showNats (l : List Nat) : String := ",".intercalate (l.map toString)

def showFail : Fail → String
  | .panic => "panic"
  | .outOfFuel => "fuel"

def handle (args : List String) : String :=
  match args with
  | ["fco", kinds, edges] =>
    match kinds.toList.mapM parseKind, parseEdges edges with
    | some ks, some es =>
      let g : Graph := ⟨es, fun n => ks.getD n .other⟩
      let comps := tarjan g
      let compsS := match comps with
        | .ok cs => ";".intercalate (cs.map showNats)
        | .error e => showFail e
      let validS := match comps with
        | .ok cs => if validOrder g cs then "1" else "0"
        | .error _ => "0"
      let out := findCompilationOrder g
      let outS := match out with
        | .ok (.order o) => "ord:" ++ showNats o
        | .ok (.recursive c) => s!"rec:{c}"
        | .ok (.usesContext c) => s!"ctx:{c}"
        | .error e => showFail e
      let (cgS, onceS) := match out with
        | .ok (.order o) =>
          match codegen g o with
          | .ok st => ("log:" ++ showNats st.log,
              if nodupB st.log && (g.keys.filter g.isConst).all st.log.contains then "1" else "0")
          | .error e => (showFail e, "0")
        | _ => ("none", "1")
      s!"comps={compsS} out={outS} valid={validS} cg={cgS} once={onceS}"
    | _, _ => "bad-op"
  | ["cert", kinds, edges, comps] =>
    -- the verified checker on the *implementation's* components
    match kinds.toList.mapM parseKind, parseEdges edges,
          (if comps == "-" then some [] else (comps.splitOn ";").mapM parseNats) with
    | some ks, some es, some cs =>
      let g : Graph := ⟨es, fun n => ks.getD n .other⟩
      if validOrder g cs then (if validScc g cs then "valid=1" else "valid=1-but-not-scc") else "valid=0"
    | _, _, _ => "bad-op"
  | ["tie", kinds, tedges, iedges] =>
    match kinds.toList.mapM parseKind, parseEdges tedges, parseEdges iedges with
    | some ks, some te, some ie =>
      let kind := fun n => ks.getD n .other
      let t : Graph := ⟨te, kind⟩
      let i : Graph := ⟨ie, kind⟩
      let miss := edgesMissing t i
      let missS := if miss.isEmpty then "-" else ",".intercalate (miss.map fun (u, v) => s!"{u}>{v}")
      let outS := match findCompilationOrder t with
        | .ok (.order _) => "ord"
        | .ok (.recursive c) => s!"rec:{c}"
        | .ok (.usesContext c) => s!"ctx:{c}"
        | .error e => showFail e
      let extra := edgesMissing i t
      let extraS := if extra.isEmpty then "-" else ",".intercalate (extra.map fun (u, v) => s!"{u}>{v}")
      s!"missing={missS} extra={extraS} subset={if edgesSubset t i then 1 else 0} out={outS}"
    | _, _, _ => "bad-op"
  | ["lir", items] =>
    match ((items.splitOn ";").filter (· ≠ "")).mapM parseLItem with
    | some its =>
      let readyS := if lirReady its then " ready=1" else " ready=0"
      match cgLir its with
      | .ok st => "lir=ok:" ++ showNats (st.runs.map Prod.fst) ++ readyS
      | .error _ => s!"lir=panic@{lSurvives its its.length}" ++ readyS
    | none => "bad-op"
  | _ => "bad-op"

end Driver.C14
