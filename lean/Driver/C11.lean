/- Driver handler owned by property C11: `c11 <args…>` requests.

   `c11 facts`                      → the generated facts, printed
   `c11 run <op> <op> …`            → one history, one op per token; the answer has one
                                       `|`-separated record per op (the observation after it):
        `<valid 0/1>;<calls>;<live>;<faults>;<mapped>`
      calls  = result of calling every live handle now, `,`-separated (`ok:<v>` / `uaf`)
      live   = live instance counts `R<r>:<n>` `F<r>:<n>` `S<k>.<c>:<n>` (created − released)
      faults = number of use-after-free / double-free events so far
      mapped = `C<k>:<0/1>` per compiled version
      live   also: `Z:<n>` — live zero-sized script constants, all versions together (printed when a
               version has any) —, `G<r>.<j>:<n>` for the further registered functions j = 0, 1 of runtime r
               and `GZ:<n>` for the zero-sized ones (member 2) of all runtimes together (printed when `rs` happened)
   `c11 addr <n>`                   → for a script with n constants (each followed by its readers): per baked
                                       constant address, oldest first, `1` = still valid when codegen is done
                                       (by the generated `constStore`)
   `c11 growth <n>`                 → the insertions (1-based, ≤ n) at which the model's constant table reallocates
   ops:  b:<r>  rc:<r>  rf:<r>  rs:<r>
         c:<r>:<k>:<nconst>:<nzst>:<useConst>:<useClos>:<useData>:<useSibs mask>:<value>
         (old form  c:<r>:<k>:<nconst>:<useConst>:<useClos>:<useData>:<value>  = nzst 0, mask 0)
         g:<k>  gt:<k>  ch:<i>  if:<i>  x:<i>  dh:<i>  dp:<k>  dr:<r>
-/
import Driver.Util
import RotoV.Model.Lifetime
import RotoV.Model.LifetimeKeep
import RotoV.Model.LifetimeAddr
import RotoV.Generated.Lifetime

namespace Driver.C11
open RotoV.Lifetime

def parseOp (tok : String) : Option Op :=
  match tok.splitOn ":" with
  | [op, a] =>
    match a.toNat? with
    | none => none
    | some n =>
      match op with
      | "b" => some (.buildRuntime n)
      | "rc" => some (.registerConst n)
      | "rf" => some (.registerClosure n)
      | "g" => some (.getHandle n)
      | "gt" => some (.getTest n)
      | "ch" => some (.cloneHandle n)
      | "if" => some (.intoFunc n)
      | "x" => some (.call n)
      | "dh" => some (.dropHandle n)
      | "dp" => some (.dropPackage n)
      | "dr" => some (.dropRuntime n)
      | _ => none
  | ["c", r, k, n, uc, uf, ud, v] =>
    match r.toNat?, k.toNat?, n.toNat?, uc.toNat?, uf.toNat?, ud.toNat?, v.toNat? with
    | some r, some k, some n, some uc, some uf, some ud, some v =>
      if uc ≤ 1 ∧ uf ≤ 1 ∧ ud ≤ 1 then some (.compile r k n 0 (uc == 1) (uf == 1) (ud == 1) v) else none
    | _, _, _, _, _, _, _ => none
  | _ => none

def parseTok (tok : String) : Option KOp :=
  match tok.splitOn ":" with
  | ["rs", r] => r.toNat?.map KOp.regSibs
  | ["c", r, k, n, nz, uc, uf, ud, us, v] =>
    match r.toNat?, k.toNat?, n.toNat?, nz.toNat?, uc.toNat?, uf.toNat?, ud.toNat?, us.toNat?, v.toNat? with
    | some r, some k, some n, some nz, some uc, some uf, some ud, some us, some v =>
      if uc ≤ 1 ∧ uf ≤ 1 ∧ ud ≤ 1 ∧ nz ≤ n ∧ us < 8 then
        some (.main (.compile r k n nz (uc == 1) (uf == 1) (ud == 1) v) (familyMask r us))
      else none
    | _, _, _, _, _, _, _, _, _ => none
  | _ => (parseOp tok).map (KOp.main · [])

def showCall : CallRes → String
  | .ok v => s!"ok:{v}"
  | .uaf => "uaf"

def sortNat (l : List Nat) : List Nat := (l.toArray.qsort (· < ·)).toList

def liveOf (s : St) (created : Bool) (x : Res) : Nat :=
  (if created then 1 else 0) - s.relCount x

def observe (s : St) (keepSt : KeepSt) : String :=
  let calls := (List.range s.hs.length).map fun i =>
    match s.hs[i]? with
    | some h => if sibCallOk s keepSt h.k then showCall (callRes s h.k) else "uaf"
    | none => "?"
  let rts := sortNat s.built
  let ks := sortNat s.compiled
  let live :=
    (rts.filter (s.constEver.contains ·)).map (fun r => s!"R{r}:{liveOf s true (.regConst r)}")
    ++ (rts.filter (s.closEver.contains ·)).map (fun r => s!"F{r}:{liveOf s true (.closure r)}")
    ++ (ks.map fun k => ((List.range (s.info k).nconst).filter (fun c => (s.info k).nzst ≤ c)).map fun c =>
          s!"S{k}.{c}:{liveOf s true (.scriptConst k c)}").flatten
    ++ (if ks.any (fun k => 0 < (s.info k).nzst) then
          [s!"Z:{(ks.map fun k => ((List.range (s.info k).nzst).map fun c => liveOf s true (.scriptConst k c)).sum).sum}"]
        else [])
    ++ ((sortNat keepSt.regd).map fun r =>
          [s!"G{r}.0:{if sibLive s keepSt ⟨r, 0, 0⟩ then 1 else 0}", s!"G{r}.1:{if sibLive s keepSt ⟨r, 1, 0⟩ then 1 else 0}"]).flatten
    ++ (if keepSt.regd.isEmpty then [] else
          [s!"GZ:{(keepSt.regd.filter fun r => sibLive s keepSt ⟨r, 2, 1⟩).length}"])
  let mapped := ks.map fun k => s!"C{k}:{if s.mapped k then 1 else 0}"
  s!"{",".intercalate calls};{",".intercalate live};{s.faults.length};{",".intercalate mapped}"

def runHist (F : Facts) : St × KeepSt → List KOp → List String → List String
  | _, [], acc => acc.reverse
  | p, op :: rest, acc =>
    let v := kvalid p.1 p.2 op
    let p' := kstepV F p op
    runHist F p' rest (s!"{if v then 1 else 0};{observe p'.1 p'.2}" :: acc)

def handle (args : List String) : String :=
  match args with
  | ["facts"] => toString (repr RotoV.Gen.Lifetime.facts) |>.replace "\n" " "
  | ["growth", n] =>
    match n.toNat? with
    | some n => ",".intercalate ((growthPoints n).map toString)
    | none => "bad-op"
  | ["addr", n] =>
    match n.toNat? with
    | some n => ",".intercalate ((bakedValidity RotoV.Gen.Lifetime.constStore n).map fun b => if b then "1" else "0")
    | none => "bad-op"
  | "run" :: toks =>
    match toks.mapM parseTok with
    | none => "bad-op"
    | some ops => "|".intercalate (runHist RotoV.Gen.Lifetime.facts ({}, {}) ops [])
  | _ => "bad-op"

end Driver.C11
