/- Driver handler owned by property C11: `c11 <args…>` requests. -/
import Driver.Util

namespace Driver.C11

def handle (_args : List String) : String := "bad-op"

end Driver.C11
