/-
  Driver handler owned by property C08: `c08 <args…>` requests.

    c08 run <hex sexp> <fuel> <a>,<b>,<c> [<a>,<b>,<c>]…   →  <answer> [| <answer>]…
        one call of `main(a: i32, b: i32, c: bool)` per tuple (c is 0/1), on the
        executable order specification `RotoV.TraceSpec.run`
        <answer> ::= <outcome> ; <event> <event> …
        <outcome> ::= ok <val> | fuel | stuck <why>
        <event>  ::= <fn>(<val>,<val>…)
        <val>    ::= <int> | true | false | u | s<hex> | none | some:<int> | [<int>;…]
                   | acc:<int> | rej:<int> | rec[..] | enm<k>[..] | T<int>   (a value of the host type `Tok`)
    c08 mir <hex sexp>   →  <fn 0> || <fn 1> || … (main last), each  ok <tmp_idx> | <block 0> | <block 1> …   or   outside
        the structured lowering model (`RotoV.LowerS.lowerBlock` of main's body, then `return`)
        laid out as a CFG: instructions `a <var> = <value>`, `r <var>`, `j <block>`,
        `s <var> <k> <block> <default block>` separated by `;`. `outside`: main uses a
        construct the model does not cover. The harness canonicalises this and the real
        compiler's MIR dump (hook verif_hooks::c08) the same way and compares them.

  Program s-expressions (printed by harness/src/c08/ast.rs):
    prog ::= (prog fn…)                 the last function is main
    fn   ::= (fn (x…) blk)
    blk  ::= (blk item…)    item ::= (let x e) | (do e) | (last e)
    e    ::= (int n) | (bool 0|1) | (unit) | (var x) | (host f e…) | (call f e…)
           | (bin op e e) | (eqh 0|1 e e) | (and e e) | (or e e) | (not e) | (neg e)          (eqh: ==/!= on the host type)
           | (ite e blk blk) | (if1 e blk) | (match opt|enm e arm…) | (while e blk) | (for x e blk)
           | (block blk) | (set x e) | (cset op x e) | (setf x i e) | (csetf op x i e) | (ret e) | (accept e) | (reject e)
           | (try e) | (some e) | (none) | (ctor k e…) | (record (p…) e…) | (field e i)
           | (list e…) | (fstr part…) | (concat e e)
    arm  ::= (arm pat blk) | (armg pat e blk)      pat ::= (v k x…) | (wild)
    part ::= (s x<hex>) | (e e)
-/
import Driver.Util
import RotoV.Model.TraceSpec
import RotoV.Model.LowerS

namespace Driver.C08
open RotoV RotoV.TraceSpec

inductive Sexp
  | atom (s : String)
  | list (xs : List Sexp)
  deriving Inhabited

def tokens (s : String) : List String :=
  let step (acc : List String × String) (c : Char) : List String × String :=
    let (out, cur) := acc
    let flush := if cur.isEmpty then out else cur :: out
    if c = '(' then ("(" :: flush, "")
    else if c = ')' then (")" :: flush, "")
    else if c = ' ' || c = '\n' || c = '\t' then (flush, "")
    else (out, cur.push c)
  let (out, cur) := s.foldl step ([], "")
  (if cur.isEmpty then out else cur :: out).reverse

partial def parseSexp : List String → Option (Sexp × List String)
  | [] => none
  | "(" :: rest =>
    let rec go (ts : List String) (acc : List Sexp) : Option (Sexp × List String) :=
      match ts with
      | [] => none
      | ")" :: rest => some (.list acc.reverse, rest)
      | ts => match parseSexp ts with
        | some (x, rest) => go rest (x :: acc)
        | none => none
    go rest []
  | ")" :: _ => none
  | a :: rest => some (.atom a, rest)

def parseOp : String → Option BinOp
  | "add" => some .add | "sub" => some .sub | "mul" => some .mul
  | "eq" => some .eq | "ne" => some .ne | "lt" => some .lt
  | "le" => some .le | "gt" => some .gt | "ge" => some .ge
  | _ => none

def hexString (s : String) : Option String := do
  let bytes ← unhex s
  String.fromUTF8? (ByteArray.mk bytes.toArray)

def atomNat : Sexp → Option Nat
  | .atom a => a.toNat?
  | _ => none

def natList : List Sexp → Option (List Nat)
  | [] => some []
  | x :: xs => do
    let n ← atomNat x
    let ns ← natList xs
    pure (n :: ns)

def toPat : Sexp → Option Pat
  | .list [.atom "wild"] => some .wild
  | .list (.atom "v" :: k :: bs) => do
    let k ← atomNat k
    let bs ← natList bs
    pure (.variant k bs)
  | _ => none

mutual
partial def toExpr : Sexp → Option Expr
  | .list [.atom "int", .atom n] => do
    let v ← n.toInt?
    pure (.lit (.int v))
  | .list [.atom "bool", .atom b] => if b = "1" then some (.lit (.bool true)) else if b = "0" then some (.lit (.bool false)) else none
  | .list [.atom "unit"] => some (.lit .unit)
  | .list [.atom "var", .atom x] => x.toNat?.map .var
  | .list (.atom "host" :: .atom f :: args) => do
    let f ← f.toNat?
    let as ← toExprs args
    pure (.host f as)
  | .list (.atom "call" :: .atom f :: args) => do
    let f ← f.toNat?
    let as ← toExprs args
    pure (.call f as)
  | .list [.atom "bin", .atom op, l, r] => do
    let op ← parseOp op
    let l ← toExpr l
    let r ← toExpr r
    pure (.bin op l r)
  | .list [.atom "eqh", .atom ne, l, r] => do
    let ne ← if ne = "1" then some true else if ne = "0" then some false else none
    pure (.eqH ne (← toExpr l) (← toExpr r))
  | .list [.atom "and", l, r] => do pure (.and (← toExpr l) (← toExpr r))
  | .list [.atom "or", l, r] => do pure (.or (← toExpr l) (← toExpr r))
  | .list [.atom "not", e] => do pure (.not (← toExpr e))
  | .list [.atom "neg", e] => do pure (.neg (← toExpr e))
  | .list [.atom "ite", c, t, e] => do pure (.ite (← toExpr c) (← toBlock t) (← toBlock e))
  | .list [.atom "if1", c, t] => do pure (.if1 (← toExpr c) (← toBlock t))
  | .list (.atom "match" :: .atom ty :: s :: arms) => do
    let isOpt ← if ty = "opt" then some true else if ty = "enm" then some false else none
    pure (.mtch (← toExpr s) isOpt (← toArms arms))
  | .list [.atom "while", c, b] => do pure (.while (← toExpr c) (← toBlock b))
  | .list [.atom "for", .atom x, l, b] => do pure (.for (← x.toNat?) (← toExpr l) (← toBlock b))
  | .list [.atom "block", b] => do pure (.block (← toBlock b))
  | .list [.atom "set", .atom x, e] => do pure (.assign (← x.toNat?) (← toExpr e))
  | .list [.atom "cset", .atom op, .atom x, e] => do pure (.cassign (← parseOp op) (← x.toNat?) (← toExpr e))
  | .list [.atom "setf", .atom x, .atom i, e] => do pure (.assignF (← x.toNat?) (← i.toNat?) (← toExpr e))
  | .list [.atom "csetf", .atom op, .atom x, .atom i, e] => do pure (.cassignF (← parseOp op) (← x.toNat?) (← i.toNat?) (← toExpr e))
  | .list [.atom "ret", e] => do pure (.ret (← toExpr e))
  | .list [.atom "accept", e] => do pure (.accept (← toExpr e))
  | .list [.atom "reject", e] => do pure (.reject (← toExpr e))
  | .list [.atom "try", e] => do pure (.try (← toExpr e))
  | .list [.atom "some", e] => do pure (.some (← toExpr e))
  | .list [.atom "none"] => some .none
  | .list (.atom "ctor" :: .atom k :: args) => do pure (.ctor (← k.toNat?) (← toExprs args))
  | .list (.atom "record" :: .list perm :: fs) => do pure (.record (← natList perm) (← toExprs fs))
  | .list [.atom "field", e, .atom i] => do pure (.field (← toExpr e) (← i.toNat?))
  | .list (.atom "list" :: es) => do pure (.list (← toExprs es))
  | .list (.atom "fstr" :: ps) => do pure (.fstr (← toParts ps))
  | .list [.atom "concat", l, r] => do pure (.concat (← toExpr l) (← toExpr r))
  | _ => none

partial def toExprs : List Sexp → Option Exprs
  | [] => some .nil
  | x :: xs => do pure (.cons (← toExpr x) (← toExprs xs))

partial def toItems : List Sexp → Option Block
  | [] => some .nil
  | [.list [.atom "last", e]] => do pure (.last (← toExpr e))
  | .list [.atom "let", .atom x, e] :: rest => do pure (.let_ (← x.toNat?) (← toExpr e) (← toItems rest))
  | .list [.atom "do", e] :: rest => do pure (.stmt (← toExpr e) (← toItems rest))
  | _ => none

partial def toBlock : Sexp → Option Block
  | .list (.atom "blk" :: items) => toItems items
  | _ => none

partial def toArms : List Sexp → Option Arms
  | [] => some .nil
  | .list [.atom "arm", p, b] :: rest => do pure (.arm (← toPat p) (← toBlock b) (← toArms rest))
  | .list [.atom "armg", p, g, b] :: rest => do pure (.armG (← toPat p) (← toExpr g) (← toBlock b) (← toArms rest))
  | _ => none

partial def toParts : List Sexp → Option Parts
  | [] => some .nil
  | .list [.atom "s", .atom h] :: rest => do
    let s ← hexString (h.drop 1).toString
    pure (.str s (← toParts rest))
  | .list [.atom "e", e] :: rest => do pure (.expr (← toExpr e) (← toParts rest))
  | _ => none
end

def toFn : Sexp → Option FnDef
  | .list [.atom "fn", .list ps, b] => do
    let ps ← natList ps
    let b ← toBlock b
    pure ⟨ps, b⟩
  | _ => none

def toFns : List Sexp → Option (List FnDef)
  | [] => some []
  | x :: xs => do pure ((← toFn x) :: (← toFns xs))

def toProg : Sexp → Option (List FnDef)
  | .list (.atom "prog" :: fns) => toFns fns
  | _ => none

def hexOf (s : String) : String :=
  let digit (n : Nat) : Char := if n < 10 then Char.ofNat (48 + n) else Char.ofNat (87 + n)
  s.toUTF8.toList.foldl (fun acc b => (acc.push (digit (b.toNat / 16))).push (digit (b.toNat % 16))) ""

def showInts (xs : List Int) : String := "[" ++ ";".intercalate (xs.map toString) ++ "]"

def showVal : Val → String
  | .int v => toString v
  | .bool b => if b then "true" else "false"
  | .unit => "u"
  | .str s => "s" ++ hexOf s
  | .opt none => "none"
  | .opt (some v) => "some:" ++ toString v
  | .enm k fs => s!"enm{k}" ++ showInts fs
  | .recd fs => "rec" ++ showInts fs
  | .list xs => showInts xs
  | .verdict true v => "acc:" ++ toString v
  | .verdict false v => "rej:" ++ toString v
  | .tok v => "T" ++ toString v

def showEvent (e : Event) : String :=
  toString e.fn ++ "(" ++ ",".intercalate (e.args.map showVal) ++ ")"

def showRun (r : Run) : String :=
  let o := match r.result with
    | .ok v => "ok " ++ showVal v
    | .ret v => "ok " ++ showVal v
    | .fuel => "fuel"
    | .stuck w => "stuck " ++ w.replace " " "_"
  o ++ " ;" ++ String.join (r.tr.map (fun e => " " ++ showEvent e))

def parseTuple (s : String) : Option (List Val) :=
  match s.splitOn "," with
  | [a, b, c] => do
    let a ← a.toInt?
    let b ← b.toInt?
    let c ← if c = "1" then some true else if c = "0" then some false else none
    pure [.int a, .int b, .bool c]
  | _ => none

def tuples : List String → Option (List (List Val))
  | [] => some []
  | t :: ts => do pure ((← parseTuple t) :: (← tuples ts))

def parseProg (hexs : String) : Option (List FnDef) := do
  let bytes ← unhex hexs
  let text ← String.fromUTF8? (ByteArray.mk bytes.toArray)
  let (sx, _) ← parseSexp (tokens text)
  toProg sx

/-! ### `c08 mir`: the structured lowering model as a CFG (raw blocks; the harness
    canonicalises this and the real compiler's MIR dump the same way) -/

open RotoV.LowerS in
def showVar : Var → String
  | .x n => s!"x{n}"
  | .t n => s!"t{n}"

/-- the variant a `SetDiscriminant` names, from the blank value the model carries -/
def variantName : Val → String
  | .opt (some _) => "Some"
  | .opt none => "None"
  | .verdict true _ => "Accept"
  | .verdict false _ => "Reject"
  | .enm k _ => (["A", "B", "C"][k]?).getD s!"V{k}"
  | _ => "?"

/-- record R { b: i32, c: i32, a: i32 } — positions in the declaration, which is deliberately
    neither alphabetical nor the order any literal has to use -/
def fieldName (i : Nat) : String := (["b", "c", "a"][i]?).getD s!"f{i}"

/-- the variant a `cloneProj` tag names: 0/1 = Some/None, 10+k = variant k of `E` -/
def tagName (tag : Nat) : String :=
  if tag == 0 then "Some" else if tag == 1 then "None" else (["A", "B", "C"][tag - 10]?).getD s!"V{tag}"

def opName : BinOp → String
  | .add => "Add" | .sub => "Sub" | .mul => "Mul" | .eq => "Eq" | .ne => "Ne"
  | .lt => "Lt" | .le => "Le" | .gt => "Gt" | .ge => "Ge"

def hostName (f : Nat) : String :=
  (["emit", "emit_b", "emit_u", "emit_s", "emit_o", "mix", "emit3", "emit_l", "tok", "to_string", "peek"][f]?).getD s!"host{f}"

def showLit : Val → String
  | .int v => s!"int:{v}"
  | .bool b => s!"bool:{b}"
  | .unit => "unit"
  | .str s => "str:" ++ hexOf s
  | v => "lit:" ++ showVal v

open RotoV.LowerS in
def showValue : Value → String
  | .const v => "const " ++ showLit v
  | .clone x => "clone " ++ showVar x
  | .move x => "move " ++ showVar x
  | .binop l op r => s!"binop {showVar l} {opName op} {showVar r}"
  | .eqHost l ne r => s!"binop {showVar l} {if ne then "Ne" else "Eq"} {showVar r}"
  | .not x => "not " ++ showVar x
  | .neg x => "neg " ++ showVar x
  | .callRt f args => s!"callrt {hostName f} " ++ " ".intercalate (args.map showVar)
  | .listNew => "callrt new "
  | .listGet l i => s!"callrt get {showVar l} {showVar i}"
  | .idxAdd a b => s!"binop {showVar a} Add {showVar b}"
  | .toStr x => "callrt to_string " ++ showVar x
  | .append a b => s!"callrt append {showVar a} {showVar b}"
  | .call f args => s!"call f{f} " ++ " ".intercalate (args.map showVar)
  | .disc x => "disc " ++ showVar x
  | .cloneProj x i tag => s!"clone {showVar x}.{tagName tag}#{i}"
  | .cloneField x i => s!"clone {showVar x}.{fieldName i}"

/-- CFG under construction: finished/open blocks (instructions reversed) and the current block. -/
structure Cfg where
  blocks : Array (List String) := #[[]]
  cur : Nat := 0
  /-- the variant each enum temporary was last set to (names the projection of a field assignment) -/
  variants : List (String × String) := []

namespace Cfg
def push (g : Cfg) (i : String) : Cfg := { g with blocks := g.blocks.modify g.cur (i :: ·) }
def newBlock (g : Cfg) : Cfg × Nat := ({ g with blocks := g.blocks.push [] }, g.blocks.size)
def goto (g : Cfg) (l : Nat) : Cfg := { g with cur := l }
end Cfg

open RotoV.LowerS in
mutual
partial def emitStm (g : Cfg) : Stm → Cfg
  | .assign x v => g.push s!"a {showVar x} = {showValue v}"
  | .ret x => g.push s!"r {showVar x}"
  | .setDisc x blank =>
    let g := { g with variants := (showVar x, variantName blank) :: g.variants }
    -- the empty record a record temporary starts from is the model's own (no MIR instruction)
    if variantName blank == "?" then g else g.push s!"d {showVar x} {variantName blank}"
  | .assignField x i v =>
    let vn := ((g.variants.find? (·.1 == showVar x)).map (·.2)).getD "?"
    if vn == "?" then g.push s!"a {showVar x}.{fieldName i} = {showValue v}"
    else g.push s!"a {showVar x}.{vn}#{i} = {showValue v}"
  | .iteD x k thn els =>
    -- `switch x [k => then] else default`; an empty branch is the continuation itself
    let (g, lthen) := if thn.isEmpty then (g, 0) else g.newBlock
    let (g, lelse) := if els.isEmpty then (g, 0) else g.newBlock
    let (g, lcont) := g.newBlock
    let tthen := if thn.isEmpty then lcont else lthen
    let telse := if els.isEmpty then lcont else lelse
    let g := g.push s!"s {showVar x} {k} {tthen} {telse}"
    let g := if thn.isEmpty then g else (emitCode (g.goto lthen) thn).push s!"j {lcont}"
    let g := if els.isEmpty then g else (emitCode (g.goto lelse) els).push s!"j {lcont}"
    g.goto lcont
  | .push alias _ elem u => g.push s!"a {showVar u} = callrt push {showVar alias} {showVar elem}"
  | .forL cond d body incr =>
    -- `jump cond`; increment block; condition block `switch d [0 => body] else cont`; body `jump incr`
    let (g, lincr) := g.newBlock
    let (g, lcond) := g.newBlock
    let (g, lbody) := g.newBlock
    let (g, lcont) := g.newBlock
    let g := g.push s!"j {lcond}"
    let g := (emitCode (g.goto lincr) incr).push s!"j {lcond}"
    let g := (emitCode (g.goto lcond) cond).push s!"s {showVar d} 0 {lbody} {lcont}"
    let g := (emitCode (g.goto lbody) body).push s!"j {lincr}"
    g.goto lcont
  | .mtch d chains dflt arms =>
    -- arm blocks first (so that chains can name them), then the continuation, then the chains
    let (g, armLbls) := arms.foldl (fun (acc : Cfg × List Nat) _ => let (g, l) := acc.1.newBlock; (g, acc.2 ++ [l])) (g, [])
    let (g, lcont) := g.newBlock
    let armLbl := fun (a : Nat) => (armLbls[a]?).getD 9999
    -- switch d [k => chain_k …] else default
    let (g, chainLbls) := chains.foldl (fun (acc : Cfg × List (Nat × Nat)) ch =>
      match ch with
      | .mk k _ => let (g, l) := acc.1.newBlock; (g, acc.2 ++ [(k, l)])) (g, [])
    let (g, ldflt) := if dflt.isEmpty then (g, 9999) else g.newBlock
    let branches := " ".intercalate (chainLbls.map (fun p => s!"{p.1}:{p.2}"))
    let g := g.push s!"m {showVar d} {if dflt.isEmpty then "-" else toString ldflt} {branches}"
    let g := (chains.zip chainLbls).foldl (fun g p =>
      match p.1 with
      | .mk _ steps =>
        let (g, l0) := g.newBlock
        emitChain (((g.goto p.2.2).push s!"j {l0}").goto l0) armLbl steps) g
    let g := if dflt.isEmpty then g else
      let (g, l0) := g.newBlock
      emitChain (((g.goto ldflt).push s!"j {l0}").goto l0) armLbl dflt
    let g := (arms.zip armLbls).foldl (fun g p => (emitCode (g.goto p.2) p.1).push s!"j {lcont}") g
    g.goto lcont
  | .ite x k thn els =>
    let kn := if k then 1 else 0
    let (g, lthen) := g.newBlock
    if els.isEmpty then
      -- `switch x [k => then] else cont`
      let (g, lcont) := g.newBlock
      let g := g.push s!"s {showVar x} {kn} {lthen} {lcont}"
      let g := emitCode (g.goto lthen) thn
      let g := g.push s!"j {lcont}"
      g.goto lcont
    else
      let (g, lelse) := g.newBlock
      let (g, lcont) := g.newBlock
      let g := g.push s!"s {showVar x} {kn} {lthen} {lelse}"
      let g := emitCode (g.goto lthen) thn
      let g := g.push s!"j {lcont}"
      let g := emitCode (g.goto lelse) els
      let g := g.push s!"j {lcont}"
      g.goto lcont
  | .whl cond ex body =>
    let (g, lcond) := g.newBlock
    let (g, lbody) := g.newBlock
    let (g, lcont) := g.newBlock
    let g := g.push s!"j {lcond}"
    let g := emitCode (g.goto lcond) cond
    let g := g.push s!"s {showVar ex} 1 {lbody} {lcont}"
    let g := emitCode (g.goto lbody) body
    let g := g.push s!"j {lcond}"
    g.goto lcont
partial def emitCode (g : Cfg) : List Stm → Cfg
  | [] => g
  | s :: rest => emitCode (emitStm g s) rest
/-- `match_case`: the chain's entry block jumps to the first guard block; every link is a
    block (binds; then `jump arm` or guard code + `switch g [1 => arm] else next`); the block
    after the last link is never created (label `9999`, unreachable when the match is exhaustive). -/
partial def emitChain (g : Cfg) (armLbl : Nat → Nat) : List GStep → Cfg
  | [] => g.push "j 9999"
  | .plain binds a :: rest =>
    let g := emitCode g binds
    let g := g.push s!"j {armLbl a}"
    -- later links are dead blocks: lowered (they took temporaries), not reachable
    let (g, l) := g.newBlock
    emitChain (g.goto l) armLbl rest
  | .guarded binds gcode gv a :: rest =>
    let g := emitCode g binds
    let g := emitCode g gcode
    -- `switch g [1 => arm] else guard_i_drop`; `guard_i_drop: (drops) jump guard_{i+1}`
    let (g, ldrop) := g.newBlock
    let (g, lnext) := g.newBlock
    let g := g.push s!"s {showVar gv} 1 {armLbl a} {ldrop}"
    let g := (g.goto ldrop).push s!"j {lnext}"
    emitChain (g.goto lnext) armLbl rest
end

open RotoV.LowerS in
/-- `ok <tmp_idx> | <block 0> | <block 1> …`, instructions separated by `;` — or `outside` when
    the function is not in the modelled fragment. -/
def showMir (fd : FnDef) : String :=
  match lowerBlock fd.body 0 with
  | none => "outside"
  | some (cb, xb, c) =>
    let g := emitCode {} (cb ++ [.ret xb])
    s!"ok {c} | " ++ " | ".intercalate (g.blocks.toList.map (fun b => ";".intercalate b.reverse))

def handle (args : List String) : String :=
  match args with
  | "run" :: hexs :: fuel :: ts =>
    match parseProg hexs, fuel.toNat?, tuples ts with
    | some fns, some fuel, some ts =>
      " | ".intercalate (ts.map (fun t => showRun (run fns fuel t)))
    | none, _, _ => "bad-program"
    | _, _, _ => "bad-op"
  | ["mir", hexs] =>
    -- one answer per function, in definition order (the last one is main)
    match parseProg hexs with
    | some fns => " || ".intercalate (fns.map showMir)
    | none => "bad-program"
  | _ => "bad-op"

end Driver.C08
