/- Driver handler owned by property C08: `c08 <args…>` requests. -/
import Driver.Util

namespace Driver.C08

def handle (_args : List String) : String := "bad-op"

end Driver.C08
