/- Driver handler of property C02, `c02 ctor …` requests: translation validation
   of the real lowerer's MIR for constructors against the value-semantics spec
   (`RotoV.Model.ValueCtor`).

   `c02 ctor <expr> <store> <ret-var> <n> <instr>*n`
       expr  : `l <int>` | `r <x> <n> <k>*n` | `c <n> <expr>*n` | `a <expr> <expr>`
               | `b <x> <n> <k>*n <expr> <expr>`
       value : `i <int>` | `t <n> <value>*n`          (`t 0` = `()`)
       store : `<n> <value>*n`
       var   : `u <x>` | `t <k>`
       place : `<var> <n> <k>*n`
       instr : `<place> <val>`,  val : `c <value>` | `cl <place>` | `m <var>` | `ad <var> <var>`
     → `spec=<value>|<store>;real=<value>|<store>;model=<instr>,<instr>…;ret=<var>`
       spec  = `eval` of the expression in the store,
       real  = the GIVEN instruction list (the real lowerer's MIR) run by `MS.run`,
       model = the instruction list `lowerBody true` produces for the expression. -/
import Driver.Util
import RotoV.Model.ValueCtor

namespace Driver.C02Ctor
open RotoV.ValueCtor

abbrev P := StateT (List String) Option

def tok : P String := do
  match ← get with
  | [] => failure
  | t :: r => set r; pure t

def nat : P Nat := do
  match (← tok).toNat? with
  | some n => pure n
  | none => failure

def int : P Int := do
  match (← tok).toInt? with
  | some n => pure n
  | none => failure

def times {α} (n : Nat) (p : P α) : P (List α) := do
  let mut out := []
  for _ in [0:n] do
    out := (← p) :: out
  pure out.reverse

def ofL : List V → V
  | [] => .nil
  | v :: vs => .cons v (ofL vs)

partial def pV : P V := do
  match ← tok with
  | "i" => pure (.int (← int))
  | "t" => do
    let n ← nat
    pure (ofL (← times n pV))
  | _ => failure

def toCEs : List CE → CEs
  | [] => .nil
  | c :: cs => .cons c (toCEs cs)

partial def pE : P CE := do
  match ← tok with
  | "l" => pure (.lit (.int (← int)))
  | "r" => do
    let x ← nat
    let n ← nat
    pure (.read x (← times n nat))
  | "c" => do
    let n ← nat
    pure (.ctor (toCEs (← times n pE)))
  | "a" => do
    let a ← pE
    pure (.add a (← pE))
  | "b" => do
    let x ← nat
    let n ← nat
    let p ← times n nat
    let rhs ← pE
    pure (.blk x p rhs (← pE))
  | _ => failure

def pVar : P Var := do
  match ← tok with
  | "u" => pure (.user (← nat))
  | "t" => pure (.tmp (← nat))
  | _ => failure

def pPlace : P Place := do
  let v ← pVar
  let n ← nat
  pure ⟨v, ← times n nat⟩

def pVal : P Val := do
  match ← tok with
  | "c" => pure (.const (← pV))
  | "cl" => pure (.clone (← pPlace))
  | "m" => pure (.move (← pVar))
  | "ad" => do
    let l ← pVar
    pure (.add l (← pVar))
  | _ => failure

def pInstr : P Instr := do
  let to ← pPlace
  pure ⟨to, ← pVal⟩

partial def showV : V → String
  | .int i => s!"{i}"
  | .nil => "()"
  | .cons h t =>
    let rec go : V → List String
      | .cons h t => showV h :: go t
      | .nil => []
      | other => ["!" ++ showV other]
    "(" ++ ",".intercalate (showV h :: go t) ++ ")"

def showStore (σ : Store) : String := "[" ++ ",".intercalate (σ.map showV) ++ "]"

def showVar : Var → String
  | .user x => s!"x{x}"
  | .tmp n => s!"${n}"

def showPlace (p : Place) : String := showVar p.var ++ String.join (p.proj.map fun k => s!".{k}")

def showVal : Val → String
  | .const v => s!"const {showV v}"
  | .clone p => s!"clone({showPlace p})"
  | .move x => s!"move({showVar x})"
  | .add l r => s!"{showVar l}+{showVar r}"

def showInstr (i : Instr) : String := s!"{showPlace i.to}={showVal i.val}"

def handle (args : List String) : String :=
  let p : P (CE × Store × Var × List Instr) := do
    let e ← pE
    let n ← nat
    let σ ← times n pV
    let ret ← pVar
    let k ← nat
    let code ← times k pInstr
    pure (e, σ, ret, code)
  match p.run args with
  | some ((e, σ, ret, code), []) =>
    let spec := eval e σ
    let s := MS.run ⟨σ, fun _ => .nil⟩ code
    let model := lowerBody true e
    s!"spec={showV spec.1}|{showStore spec.2};real={showV (s.var ret)}|{showStore s.users};model={",".intercalate (model.1.map showInstr)};ret={showVar model.2}"
  | _ => "bad-ctor-request"

end Driver.C02Ctor
