/-
  Driver handler owned by property C01: `c01 <args…>` requests.

    c01 run <hex sexp> <arg>… [| <arg>… ]…   →  <answer> [| <answer>]…
        <arg>    ::= <ty>:<bits>       (bits: unsigned decimal bit pattern)
        <answer> ::= ok <ty> <bits> | trap | fuel | stuck <why>
    c01 op <binop> <ty> <bits> <bits>        →  <answer>      (one operator on two operands)
    c01 un <neg|not> <ty> <bits>             →  <answer>
    c01 t5 <hex sexp> <arg>… [| <arg>… ]…    →  outside | <answer> [| <answer>]…
        the composed model of T5 (`Props/C01Lower`): the program resolved to the lowering model's
        core language (`C01Resolve.resolve`), lowered by `LowerS.lowerProg`, and the structured MIR
        of `main` executed by `C01MirRun.runMain` (operators = generated table composition).
        `outside`: the program is not in the common fragment.  <answer> ::= ok <ty> <bits> | none
    c01 t5mir <hex sexp>                     →  outside | <fn 0> || <fn 1> || …   (as `c08 mir`)
        the structured MIR of every function of the resolved program, laid out as a CFG
    c01 lir <hex text>                       →  the LIR lowering model on real MIR (see Driver/C01Lir.lean)
    c01 lirrun <hex text> <arg>… [| <arg>…]… →  outside | m=<answer> l=<answer> c=<answer> [| …]
        the semantics of Props/C01Lir on the compiler's real MIR: `main` of the MIR program run by
        `C01Lir.mRun`, and the LIR the model makes of it run by `C01Lir.lRun`, on every tuple
    c01 dce <cfg>                            →  ok <cfg> | panic | fuel
        the Lean model of `mir/dead_code.rs` (`RotoV.Dce.dce`) on a CFG skeleton:
        <cfg> ::= <block>;<block>;…     <block> ::= <label>:<ins>,<ins>,…
        <ins> ::= o | r | j<label> | s<label>.<label>…[e<label>]

  Program s-expressions (printed by harness/src/bin/c01.rs):
    prog  ::= (prog fn…)
    fn    ::= (fn name ((x ty)…) ty blk)
    blk   ::= (blk (stmt…) [expr])
    stmt  ::= (let x expr) | (do expr)
    expr  ::= (lit ty n) | (var x) | (neg e) | (not e) | (bin op e e)
            | (if e blk [blk]) | (while e blk) | (block blk) | (call f e…)
            | (set x e) | (cset op x e) | (ret [e])
            | (ctor Ty Variant e…) | (match e arm…)
    arm   ::= (arm pat [guard] blk)        pat ::= (wild) | (pat Variant x…)
  A type name that starts with a capital letter is a user-defined enum type.
  Integer literals carry their mathematical value (signed decimal), floats
  their bit pattern, bool 0/1.
-/
import Driver.Util
import RotoV.Model.Spec
import RotoV.Model.NativeFloat
import RotoV.Model.Dce
import RotoV.Model.C01Resolve
import RotoV.Model.C01MirRun
import Driver.C08
import Driver.C01Lir
import RotoV.Model.C01Cg

namespace Driver.C01
open RotoV hiding Ty BinOp
open RotoV.Spec

instance : FloatOps := nativeFloatOps

inductive Sexp
  | atom (s : String)
  | list (xs : List Sexp)
  deriving Inhabited

def tokens (s : String) : List String :=
  let step (acc : List String × String) (c : Char) : List String × String :=
    let (out, cur) := acc
    let flush := if cur.isEmpty then out else cur :: out
    if c = '(' then ("(" :: flush, "")
    else if c = ')' then (")" :: flush, "")
    else if c = ' ' || c = '\n' || c = '\t' then (flush, "")
    else (out, cur.push c)
  let (out, cur) := s.foldl step ([], "")
  (if cur.isEmpty then out else cur :: out).reverse

/-- parse one s-expression; returns it and the remaining tokens -/
partial def parseSexp : List String → Option (Sexp × List String)
  | [] => none
  | "(" :: rest =>
    let rec go (ts : List String) (acc : List Sexp) : Option (Sexp × List String) :=
      match ts with
      | [] => none
      | ")" :: rest => some (.list acc.reverse, rest)
      | ts => match parseSexp ts with
        | some (x, rest) => go rest (x :: acc)
        | none => none
    go rest []
  | ")" :: _ => none
  | a :: rest => some (.atom a, rest)

def parseITy : String → Option ITy
  | "u8" => some .u8 | "u16" => some .u16 | "u32" => some .u32 | "u64" => some .u64
  | "i8" => some .i8 | "i16" => some .i16 | "i32" => some .i32 | "i64" => some .i64
  | _ => none

def parseTy (s : String) : Option Ty :=
  match s with
  | "f32" => some .f32 | "f64" => some .f64 | "bool" => some .bool | "unit" => some .unit
  | _ =>
    match parseITy s with
    | some t => some (.int t)
    | none => if (s.front).isUpper then some (.enum s) else none   -- the built-in `T?` is written `Option`

def showITy : ITy → String
  | .u8 => "u8" | .u16 => "u16" | .u32 => "u32" | .u64 => "u64"
  | .i8 => "i8" | .i16 => "i16" | .i32 => "i32" | .i64 => "i64"

def parseOp : String → Option BinOp
  | "add" => some .add | "sub" => some .sub | "mul" => some .mul | "div" => some .div
  | "mod" => some .mod | "eq" => some .eq | "ne" => some .ne | "lt" => some .lt
  | "le" => some .le | "gt" => some .gt | "ge" => some .ge | "and" => some .and
  | "or" => some .or | _ => none

/-- a value of type `ty` from its bit pattern -/
def valOfBits (ty : Ty) (n : Nat) : Option Val :=
  match ty with
  | .int t => if n < 2 ^ t.bits then some (.int t (t.ofBits n)) else none
  | .f32 => if n < 2 ^ 32 then some (.f32 (BitVec.ofNat 32 n)) else none
  | .f64 => if n < 2 ^ 64 then some (.f64 (BitVec.ofNat 64 n)) else none
  | .bool => if n = 0 then some (.bool false) else if n = 1 then some (.bool true) else none
  | .unit => some .unit
  | .enum _ => none

def showVal : Val → String
  | .int t v => s!"{showITy t} {t.toBits v}"
  | .f32 b => s!"f32 {b.toNat}"
  | .f64 b => s!"f64 {b.toNat}"
  | .bool b => s!"bool {if b then 1 else 0}"
  | .unit => "unit 0"
  | .enum t k _ => s!"enum {t}.{k}"

def showR : R Val → String
  | .ok v => "ok " ++ showVal v
  | .ret v => "ok " ++ showVal v
  | .trap => "trap"
  | .fuel => "fuel"
  | .stuck w => "stuck " ++ w.replace " " "_"

/-- literal: ints by mathematical value (must be in range), floats by bits -/
def litVal (ty : String) (n : String) : Option Val := do
  let t ← parseTy ty
  match t with
  | .int it =>
    let v ← n.toInt?
    if it.inRange v then some (.int it v) else none
  | .unit => some .unit
  | t => valOfBits t (← n.toNat?)

def toPat : Sexp → Option Pat
  | .list [.atom "wild"] => some .wild
  | .list (.atom "pat" :: .atom k :: xs) => do
    some (.ctor k (← xs.mapM fun | .atom x => some x | _ => none))
  | _ => none

mutual
partial def toExpr : Sexp → Option Expr
  | .list [.atom "lit", .atom ty, .atom n] => (litVal ty n).map .lit
  | .list [.atom "var", .atom x] => some (.var x)
  | .list [.atom "neg", e] => (toExpr e).map .neg
  | .list [.atom "not", e] => (toExpr e).map .not
  | .list [.atom "bin", .atom op, l, r] => do
    some (.bin (← parseOp op) (← toExpr l) (← toExpr r))
  | .list [.atom "if", c, t] => do some (.ite (← toExpr c) (← toBlock t) none)
  | .list [.atom "if", c, t, e] => do some (.ite (← toExpr c) (← toBlock t) (some (← toBlock e)))
  | .list [.atom "while", c, b] => do some (.while (← toExpr c) (← toBlock b))
  | .list [.atom "block", b] => (toBlock b).map .block
  | .list (.atom "call" :: .atom f :: args) => do some (.call f (← args.mapM toExpr))
  | .list [.atom "set", .atom x, e] => (toExpr e).map (.assign x)
  | .list [.atom "cset", .atom op, .atom x, e] => do some (.cassign (← parseOp op) x (← toExpr e))
  | .list [.atom "ret"] => some (.ret none)
  | .list [.atom "ret", e] => do some (.ret (some (← toExpr e)))
  | .list (.atom "ctor" :: .atom ty :: .atom k :: args) => do some (.ctor ty k (← args.mapM toExpr))
  | .list (.atom "match" :: scrut :: arms) => do some (.match_ (← toExpr scrut) (← arms.mapM toArm))
  | _ => none
partial def toArm : Sexp → Option Arm
  | .list [.atom "arm", p, b] => do some (.mk (← toPat p) none (← toBlock b))
  | .list [.atom "arm", p, g, b] => do some (.mk (← toPat p) (some (← toExpr g)) (← toBlock b))
  | _ => none
partial def toStmt : Sexp → Option Stmt
  | .list [.atom "let", .atom x, e] => (toExpr e).map (.let_ x)
  | .list [.atom "do", e] => (toExpr e).map .expr
  | _ => none
partial def toBlock : Sexp → Option Block
  | .list [.atom "blk", .list stmts] => do some (.mk (← stmts.mapM toStmt) none)
  | .list [.atom "blk", .list stmts, e] => do some (.mk (← stmts.mapM toStmt) (some (← toExpr e)))
  | _ => none
end

def toParam : Sexp → Option (String × Ty)
  | .list [.atom x, .atom ty] => (parseTy ty).map (x, ·)
  | _ => none

def toFn : Sexp → Option FnDef
  | .list [.atom "fn", .atom name, .list ps, .atom ret, body] => do
    some { name, params := ← ps.mapM toParam, ret := ← parseTy ret, body := ← toBlock body }
  | _ => none

def toProg : Sexp → Option (List FnDef)
  | .list (.atom "prog" :: fns) => fns.mapM toFn
  | _ => none

def parseProg (hex : String) : Option (List FnDef) := do
  let bytes ← unhex hex
  let src := String.ofList (bytes.map (fun b => Char.ofNat b.toNat))
  let (sx, rest) ← parseSexp (tokens src)
  if !rest.isEmpty then none
  toProg sx

def parseArg (s : String) : Option Val :=
  match s.splitOn ":" with
  | [ty, bits] => do valOfBits (← parseTy ty) (← bits.toNat?)
  | _ => none

/-- fuel = bound on the evaluation depth; generated programs need a few
    hundred at most (loop trip counts ≤ 8, recursion depth ≤ 20). -/
def FUEL : Nat := 20000

def splitTuples (args : List String) : List (List String) :=
  let (done, cur) := args.foldl
    (fun (acc : List (List String) × List String) a =>
      if a = "|" then (acc.2.reverse :: acc.1, []) else (acc.1, a :: acc.2))
    ([], [])
  (cur.reverse :: done).reverse

/-! ### `c01 dce` -/

abbrev DInstr := Dce.Instr Unit Unit Unit

def parseIns (s : String) : Option DInstr :=
  match s.toList with
  | ['o'] => some (.other ())
  | ['r'] => some (.ret ())
  | 'j' :: rest => (String.ofList rest).toNat?.map .jump
  | 's' :: rest =>
    let body := String.ofList rest
    let (brs, dflt) := match body.splitOn "e" with
      | [b, d] => (b, some d)
      | _ => (body, none)
    let labels := (brs.splitOn ".").filter (· ≠ "")
    match labels.mapM (·.toNat?), dflt with
    | some ls, none => some (.switch () (ls.zipIdx.map fun (l, i) => (i, l)) none)
    | some ls, some d => d.toNat?.map fun d => .switch () (ls.zipIdx.map fun (l, i) => (i, l)) (some d)
    | none, _ => none
  | _ => none

def parseBlock (s : String) : Option (Dce.Block Unit Unit Unit) :=
  match s.splitOn ":" with
  | [l, is] => do
    let label ← l.toNat?
    let instrs ← ((is.splitOn ",").filter (· ≠ "")).mapM parseIns
    some { label, instrs }
  | _ => none

def showIns : DInstr → String
  | .other _ => "o"
  | .ret _ => "r"
  | .jump l => s!"j{l}"
  | .switch _ br d =>
    "s" ++ ".".intercalate (br.map fun p => toString p.2) ++ (match d with | some d => s!"e{d}" | none => "")

def showCfg (cfg : Dce.Cfg Unit Unit Unit) : String :=
  ";".intercalate (cfg.map fun b => s!"{b.label}:" ++ ",".intercalate (b.instrs.map showIns))

def handleDce (text : String) : String :=
  match ((text.splitOn ";").filter (· ≠ "")).mapM parseBlock with
  | none => "bad-cfg"
  | some cfg =>
    match Dce.dce cfg with
    | .ok cfg' => "ok " ++ showCfg cfg'
    | .panic => "panic"
    | .fuel => "fuel"

/-! ### `c01 t5`: the composed model (resolve → lowerS → table-based MIR execution) -/

def showTVal : TraceSpec.Val → String
  | .int v => s!"i32 {ITy.i32.toBits v}"
  | .bool b => s!"bool {if b then 1 else 0}"
  | .unit => "unit 0"
  | _ => "other 0"

def handleT5 (fns : List FnDef) (tuples : List (List String)) : String :=
  match C01Resolve.resolve fns with
  | none => "outside"
  | some fnsT =>
    match LowerS.lowerProg fnsT with
    | none => "nolower"
    | some P =>
      let answers := tuples.map fun tup =>
        match tup.mapM parseArg with
        | none => "bad-arg"
        | some vs =>
          match C01Resolve.encArgs vs with
          | none => "bad-arg"
          | some vs' =>
            match C01MirRun.runMain fnsT P FUEL vs' with
            | some w => "ok " ++ showTVal w
            | none => "none"
      " | ".intercalate answers

/-! ### `c01 lirrun`: the MIR / LIR semantics of the LIR layer on real MIR -/

def handleLirRun (hexText : String) (tuples : List (List String)) : String :=
  match unhex hexText with
  | none => "bad-hex"
  | some bytes =>
    match String.fromUTF8? (ByteArray.mk bytes.toArray) with
    | none => "bad-utf8"
    | some text =>
      let P := Driver.C01Lir.parseProg text
      match C01Lir.lowerProg P with
      | none => "outside"
      | some L =>
        let answers := tuples.map fun tup =>
          match tup.mapM parseArg with
          | none => "bad-arg"
          | some vs =>
            match C01Resolve.encArgs vs with
            | none => "bad-arg"
            | some vs' =>
              let show1 := fun (r : Option TraceSpec.Val) => match r with
                | some w => "ok_" ++ (showTVal w).replace " " "_"
                | none => "none"
              -- the code-generation layer (Props/C01Cg): the emitted code of the model's LIR, run on the SSA encodings
              let cres : String :=
                -- hypothesis of `cg_preserves_partial` / `mir_to_code_partial`: no call assigns the result of a
                -- function that returns nothing (checked on the LIR of every program)
                if !C01Cg.callsOk L || !C01Cg.namesOk P then "calls-not-ok" else
                match C01Cg.cgProg L, vs'.mapM C01MirRun.cvOf with
                | some C, some cs =>
                  match C01Cg.cRun C 4000 "main" cs with
                  | some (some c) => show1 (C01MirRun.decode c)
                  | some none => show1 (some .unit)
                  | none => "none"
                | none, _ => "outside"
                | _, none => "bad-arg"
              s!"m={show1 (C01Lir.mRun P 4000 "main" vs')} l={show1 (C01Lir.lRun L 4000 "main" vs')} c={cres}"
        " | ".intercalate answers

def handle (args : List String) : String :=
  match args with
  | ["dce", text] => handleDce text
  | "lirrun" :: hex :: rest => handleLirRun hex (splitTuples rest)
  | "t5" :: hex :: rest =>
    match parseProg hex with
    | none => "bad-program"
    | some fns => handleT5 fns (splitTuples rest)
  | ["lir", hex] => Driver.C01Lir.handle hex
  | ["t5mir", hex] =>
    match parseProg hex with
    | none => "bad-program"
    | some fns =>
      match C01Resolve.resolve fns with
      | none => "outside"
      | some fnsT => " || ".intercalate (fnsT.map Driver.C08.showMir)
  | "run" :: hex :: rest =>
    match parseProg hex with
    | none => "bad-program"
    | some fns =>
      let answers := (splitTuples rest).map fun tup =>
        match tup.mapM parseArg with
        | none => "bad-arg"
        | some vs => showR (run fns FUEL vs)
      " | ".intercalate answers
  | ["op", op, ty, a, b] =>
    match parseOp op, parseTy ty with
    | some op, some t =>
      match valOfBits t a.toNat!, valOfBits t b.toNat! with
      | some x, some y =>
        -- through the interpreter, so `&&`/`||` take the short-circuit path
        showR ((evalExpr [] 10 [] (.bin op (.lit x) (.lit y))).bind (fun p => .ok p.2))
      | _, _ => "bad-arg"
    | _, _ => "bad-op"
  | ["un", op, ty, a] =>
    match parseTy ty with
    | some t =>
      match valOfBits t a.toNat! with
      | some x =>
        match op with
        | "neg" => showR (negate x)
        | "not" => showR (lnot x)
        | _ => "bad-op"
      | none => "bad-arg"
    | none => "bad-op"
  | _ => "bad-op"

end Driver.C01
