/- Driver handler owned by property C01: `c01 <args…>` requests. -/
import Driver.Util

namespace Driver.C01

def handle (_args : List String) : String := "bad-op"

end Driver.C01
