/- Driver handler owned by property C18: `c18 <args…>` requests. -/
import Driver.Util

namespace Driver.C18

def handle (_args : List String) : String := "bad-op"

end Driver.C18
