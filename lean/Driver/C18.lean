/- Driver handler owned by property C18: `c18 <args…>` requests.

  c18 session <cfg> L <n> <lexcode>*n  P <k> (<name> <tyid>)*k  O <k> <name>*k
              A <nadds> <items>*nadds  Q <nq> (<len> <name>*len)*nq

  cfg      4 bits `walkFromStart emptyPathPanics ignoreSpan primRecursive` (e.g. 0000 = Cfg.fixed), optionally a
           fifth `implAtSite` and a sixth `inPlace` (1 = the passes run on the runtime itself and a rejected add
           leaves what it had inserted: `RotoV.Reg.sessionIP`; default: all or nothing, `RotoV.Reg.session`)
  lexcode  first + 8*more + 16*whole, first: 0 end-of-input, 1 lexer error, 2 ident, 3 keyword, 4 other token
  items    <k> item*k ;  item = M name items | T name id | F name np ty*np ty tag
           | C name ty tag | I id items | U np (len name*len)*np
  ty       u | r id | o ty | l ty | v ty ty | e ty ty

  answer   `<outcome>*` (one per add — the history goes on after a rejected add, with the runtime that add
           left — until the first panic: ok / err:<kind> / panic:<site>)
           `|` `<resolution>*nq` (in the runtime after the last add; `-` after a panic)

  c18 flatten <tree>     the paths `library!` must emit for a `use` declaration (`RotoV.Use.flattenSpec`;
                         the function generated from the source is proved equal to it in Props/C18.lean,
                         so this handler does not depend on the extraction succeeding)
  tree     P <ident> <tree> | N <ident> | R <ident> <ident> | S | G <k> <tree>*k
  answer   `none` (compile error) or `some <path>*` with path = idents joined by `.`
-/
import Driver.Util
import RotoV.Model.Registration
import RotoV.Model.RegistrationSession
import RotoV.Model.UseTree

namespace Driver.C18
open RotoV.Reg

abbrev P := StateT (List String) Option

def tok : P String := fun s => match s with | [] => none | t :: r => some (t, r)
def nat : P Nat := do let t ← tok; (t.toNat? : Option Nat)
def expect (w : String) : P Unit := do let t ← tok; if t = w then pure () else failure

def rep {α} (p : P α) : Nat → P (List α)
  | 0 => pure []
  | n + 1 => do let a ← p; let r ← rep p n; pure (a :: r)

partial def ty : P RustTy := do
  match ← tok with
  | "u" => pure .unit
  | "r" => do pure (.reg (← nat))
  | "o" => do pure (.option (← ty))
  | "l" => do pure (.list (← ty))
  | "v" => do let a ← ty; let r ← ty; pure (.verdict a r)
  | "e" => do let a ← ty; let r ← ty; pure (.result a r)
  | _ => failure

def path : P (List Name) := do let n ← nat; rep nat n

def ofList : List Item → Items
  | [] => .nil
  | i :: is => .cons i (ofList is)

mutual
partial def items : P Items := do
  let k ← nat
  let l ← repItem k
  pure (ofList l)
partial def repItem : Nat → P (List Item)
  | 0 => pure []
  | n + 1 => do let a ← item; let r ← repItem n; pure (a :: r)
partial def item : P Item := do
  match ← tok with
  | "M" => do let n ← nat; let ch ← items; pure (.module n ch)
  | "T" => do let n ← nat; let id ← nat; pure (.type n id)
  | "F" => do
    let n ← nat; let np ← nat; let ps ← rep ty np; let r ← ty; let tag ← nat
    pure (.function n ps r tag)
  | "C" => do let n ← nat; let t ← ty; let tag ← nat; pure (.constant n t tag)
  | "I" => do let id ← nat; let ch ← items; pure (.impl id ch)
  | "U" => do let np ← nat; let ps ← rep path np; pure (.use ps)
  | _ => failure
end

def lexOf (c : Nat) : Lex :=
  let f := c % 8
  { first := match f with
      | 0 => none | 1 => some none | 2 => some (some .ident)
      | 3 => some (some .keyword) | _ => some (some .other),
    more := (c / 8) % 2 = 1,
    whole := (c / 16) % 2 = 1 }

def cfgOf (s : String) : Option (Cfg × Bool) :=
  match s.toList with
  | [a, b, c, d] => some (⟨a = '1', b = '1', c = '1', d = '1', false⟩, true)
  | [a, b, c, d, e] => some (⟨a = '1', b = '1', c = '1', d = '1', e = '1'⟩, true)
  | [a, b, c, d, e, f] => some (⟨a = '1', b = '1', c = '1', d = '1', e = '1'⟩, f ≠ '1')
  | _ => none

def showErr : Err → String
  | .invalidName => "invalidName" | .nameTaken => "nameTaken" | .typeTwice => "typeTwice"
  | .unregistered => "unregistered" | .nestedInImpl => "nestedInImpl"
  | .noScope => "noScope" | .emptyPath => "emptyPath"

def showSite : Site → String
  | .moduleScope => "moduleScope" | .implScope => "implScope" | .emptyPath => "emptyPath"
  | .importTarget => "importTarget" | .nestedUnreachable => "nestedUnreachable"

def showScope (s : List Name) : String := ".".intercalate (s.map toString)

partial def showTy : RotoTy → String
  | .unit => "()"
  | .name n => s!"{showScope (n.scope ++ [n.ident])}"
  | .option t => s!"Option[{showTy t}]"
  | .list t => s!"List[{showTy t}]"
  | .verdict a r => s!"Verdict[{showTy a},{showTy r}]"
  | .result a r => s!"Result[{showTy a},{showTy r}]"

def showDecl : Option Decl → String
  | none => "none"
  | some d => match d.kind with
    | .module => "mod"
    | .type id => s!"type:{id}"
    | .prim => "prim"
    | .function ps r tag => s!"fn:{tag}:({",".intercalate (ps.map showTy)})->{showTy r}"
    | .method ps r tag => s!"meth:{tag}:({",".intercalate (ps.map showTy)})->{showTy r}"
    | .const t tag => s!"const:{tag}:{showTy t}"
    | .other => "other"

def showOutcome : Outcome → String
  | .ok => "ok"
  | .err e => "err:" ++ showErr e
  | .panic s => "panic:" ++ showSite s

def session : P String := do
  let (cfg, atomic) ← (do let t ← tok; (cfgOf t : Option (Cfg × Bool)))
  expect "L"; let n ← nat; let codes ← rep nat n
  expect "P"; let k ← nat; let prims ← rep (do let a ← nat; let b ← nat; pure (a, b)) k
  expect "O"; let k ← nat; let others ← rep nat k
  expect "A"; let na ← nat; let libs ← rep items na
  expect "Q"; let nq ← nat; let qs ← rep path nq
  let arr := codes.toArray
  let lex : Name → Lex := fun i => lexOf (arr.getD i 0)
  let (fin, outs) := sessionSrc cfg lex atomic (St.init prims others) libs
  let isPanic : Outcome → Bool := fun o => match o with | .panic _ => true | _ => false
  let panicked := outs.any isPanic
  -- the history up to and including the first panic (the host does not survive it)
  let outs := if panicked then outs.takeWhile (fun o => !isPanic o) ++ (outs.filter isPanic).take 1 else outs
  let res := if panicked then ["-"] else qs.map (fun q => showDecl (resolvePath fin q))
  pure (" ".intercalate (outs.map showOutcome) ++ " | " ++ " ".intercalate res)

mutual
partial def useTree : P RotoV.Use.UseTree := do
  match ← tok with
  | "P" => do let i ← nat; let t ← useTree; pure (.path i t)
  | "N" => do pure (.name (← nat))
  | "R" => do let a ← nat; let b ← nat; pure (.rename a b)
  | "S" => pure .glob
  | "G" => do let k ← nat; let l ← useTrees k; pure (.group (RotoV.Use.UseTrees.ofList l))
  | _ => failure
partial def useTrees : Nat → P (List RotoV.Use.UseTree)
  | 0 => pure []
  | n + 1 => do let a ← useTree; let r ← useTrees n; pure (a :: r)
end

def flatten : P String := do
  let t ← useTree
  match RotoV.Use.flattenSpec t with
  | none => pure "none"
  | some ps => pure (" ".intercalate ("some" :: ps.map (fun p => ".".intercalate (p.map toString))))

def handle (args : List String) : String :=
  match args with
  | "flatten" :: rest =>
    match flatten.run rest with
    | some (s, []) => s
    | _ => "bad-op"
  | "session" :: rest =>
    match session.run rest with
    | some (s, []) => s
    | _ => "bad-op"
  | _ => "bad-op"

end Driver.C18
