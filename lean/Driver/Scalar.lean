/-
  Driver handlers for the scalar core (C01 / C10 / C20): run the *generated*
  definitions on concrete operands with native floats.

  Requests (space separated; values are unsigned bit patterns in decimal):
    scalar eval <Instr> <dbg:0|1> [<cmp>] <ty> <bits> [<ty> <bits>]   → ok <ty> <bits> | panic
    scalar jit  <Instr> [<cmp>|<signed:0|1>] <ty> <bits> [<ty> <bits>] → ok <cty> <bits> | trap | none
    scalar lower <BinOp> <Prim>                                        → instruction text | panic
    scalar literal <Prim> <i64 as signed decimal>                      → ok <ty> <bits> | panic
-/
import RotoV.Generated.OpTables
import RotoV.Generated.EvalArms
import RotoV.Model.NativeFloat
import RotoV.Model.Repr
import Driver.Util

namespace Driver.Scalar
open RotoV RotoV.Gen

instance : FloatOps := nativeFloatOps

def mkVal (ty : String) (n : Nat) : Option IrValue :=
  match ty with
  | "bool" => if n = 0 then some (.Bool false) else if n = 1 then some (.Bool true) else none
  | "u8" => some (.U8 ⟨BitVec.ofNat 8 n⟩) | "u16" => some (.U16 ⟨BitVec.ofNat 16 n⟩)
  | "u32" => some (.U32 ⟨BitVec.ofNat 32 n⟩) | "u64" => some (.U64 ⟨BitVec.ofNat 64 n⟩)
  | "i8" => some (.I8 ⟨BitVec.ofNat 8 n⟩) | "i16" => some (.I16 ⟨BitVec.ofNat 16 n⟩)
  | "i32" => some (.I32 ⟨BitVec.ofNat 32 n⟩) | "i64" => some (.I64 ⟨BitVec.ofNat 64 n⟩)
  | "f32" => some (.F32 ⟨BitVec.ofNat 32 n⟩) | "f64" => some (.F64 ⟨BitVec.ofNat 64 n⟩)
  | "char" => some (.Char ⟨BitVec.ofNat 32 n⟩) | "asn" => some (.Asn ⟨BitVec.ofNat 32 n⟩)
  | "ptr" => some (.Pointer ⟨BitVec.ofNat 64 n⟩)
  | _ => none

def showVal : IrValue → String
  | .Bool b => s!"bool {if b then 1 else 0}"
  | .U8 x => s!"u8 {x.bv.toNat}" | .U16 x => s!"u16 {x.bv.toNat}"
  | .U32 x => s!"u32 {x.bv.toNat}" | .U64 x => s!"u64 {x.bv.toNat}"
  | .I8 x => s!"i8 {x.bv.toNat}" | .I16 x => s!"i16 {x.bv.toNat}"
  | .I32 x => s!"i32 {x.bv.toNat}" | .I64 x => s!"i64 {x.bv.toNat}"
  | .F32 x => s!"f32 {x.bits.toNat}" | .F64 x => s!"f64 {x.bits.toNat}"
  | .Char x => s!"char {x.bv.toNat}" | .Asn x => s!"asn {x.bv.toNat}"
  | .Pointer x => s!"ptr {x.bv.toNat}"

def showRes (r : Res IrValue) : String :=
  match r with
  | .ok v => "ok " ++ showVal v
  | .panic => "panic"

def parseIntCmp : String → Option IntCmp
  | "eq" => some .Eq | "ne" => some .Ne | "ult" => some .ULt | "ule" => some .ULe
  | "ugt" => some .UGt | "uge" => some .UGe | "slt" => some .SLt | "sle" => some .SLe
  | "sgt" => some .SGt | "sge" => some .SGe | _ => none
def parseFloatCmp : String → Option FloatCmp
  | "eq" => some .Eq | "ne" => some .Ne | "lt" => some .Lt | "le" => some .Le
  | "gt" => some .Gt | "ge" => some .Ge | _ => none

def parseBinOp : String → Option BinOp
  | "And" => some .And | "Or" => some .Or | "Eq" => some .Eq | "Ne" => some .Ne
  | "Lt" => some .Lt | "Le" => some .Le | "Gt" => some .Gt | "Ge" => some .Ge
  | "Add" => some .Add | "Sub" => some .Sub | "Mul" => some .Mul | "Div" => some .Div
  | "Mod" => some .Mod | _ => none

def parsePrim : String → Option Primitive
  | "u8" => some (.Int .Unsigned .I8) | "u16" => some (.Int .Unsigned .I16)
  | "u32" => some (.Int .Unsigned .I32) | "u64" => some (.Int .Unsigned .I64)
  | "i8" => some (.Int .Signed .I8) | "i16" => some (.Int .Signed .I16)
  | "i32" => some (.Int .Signed .I32) | "i64" => some (.Int .Signed .I64)
  | "f32" => some (.Float .F32) | "f64" => some (.Float .F64)
  | "String" => some .String | "char" => some .Char | "bool" => some .Bool
  | "asn" => some .Asn | "IpAddr" => some .IpAddr | "Prefix" => some .Prefix
  | _ => none

def showCTy : CTy → String
  | .I8 => "i8" | .I16 => "i16" | .I32 => "i32" | .I64 => "i64" | .F32 => "f32" | .F64 => "f64"

def showC (r : Res CVal) : String :=
  match r with
  | .ok v => s!"ok {showCTy v.ty} {v.bits}"
  | .panic => "trap"

def instrStr : Instruction → String
  | .IntCmp t c l r => s!"IntCmp {repr' t} {reprStr c} {reprStr l} {reprStr r}"
  | .FloatCmp t c l r => s!"FloatCmp {repr' t} {reprStr c} {reprStr l} {reprStr r}"
  | .Add t l r => s!"Add {repr' t} {reprStr l} {reprStr r}"
  | .Sub t l r => s!"Sub {repr' t} {reprStr l} {reprStr r}"
  | .Mul t l r => s!"Mul {repr' t} {reprStr l} {reprStr r}"
  | .Div t l r s => s!"Div {repr' t} {reprStr l} {reprStr r} signed={s}"
  | .Mod t l r s => s!"Mod {repr' t} {reprStr l} {reprStr r} signed={s}"
  | .FDiv t l r => s!"FDiv {repr' t} {reprStr l} {reprStr r}"
  | .CallEq n l r => s!"CallEq negate={n} {reprStr l} {reprStr r}"
where
  repr' (t : IrType) : String := reprStr t
  reprStr {α} [Repr α] (a : α) : String := (Std.Format.pretty (Repr.reprPrec a 0)).replace "RotoV." ""

def dbgOf : String → Bool := fun s => s == "1"

def handle (args : List String) : String :=
  match args with
  | ["eval", "IntCmp", d, c, t1, b1, t2, b2] =>
    match parseIntCmp c, mkVal t1 b1.toNat!, mkVal t2 b2.toNat! with
    | some c, some l, some r => showRes (EvalArms.eval_IntCmp (dbgOf d) c l r)
    | _, _, _ => "bad-op"
  | ["eval", "FloatCmp", d, c, t1, b1, t2, b2] =>
    match parseFloatCmp c, mkVal t1 b1.toNat!, mkVal t2 b2.toNat! with
    | some c, some l, some r => showRes (EvalArms.eval_FloatCmp (dbgOf d) c l r)
    | _, _, _ => "bad-op"
  | ["eval", i, d, t1, b1] =>
    match mkVal t1 b1.toNat! with
    | some v =>
      match i with
      | "Not" => showRes (EvalArms.eval_Not (dbgOf d) v)
      | "Negate" => showRes (EvalArms.eval_Negate (dbgOf d) v)
      | _ => "bad-op"
    | none => "bad-op"
  | ["eval", i, d, t1, b1, t2, b2] =>
    match mkVal t1 b1.toNat!, mkVal t2 b2.toNat! with
    | some l, some r =>
      let dbg := dbgOf d
      match i with
      | "Add" => showRes (EvalArms.eval_Add dbg l r)
      | "Sub" => showRes (EvalArms.eval_Sub dbg l r)
      | "Mul" => showRes (EvalArms.eval_Mul dbg l r)
      | "Div" => showRes (EvalArms.eval_Div dbg l r)
      | "FDiv" => showRes (EvalArms.eval_FDiv dbg l r)
      | "Mod" => showRes (EvalArms.eval_Mod dbg l r)
      | _ => "bad-op"
    | _, _ => "bad-op"
  | ["jit", "IntCmp", c, t1, b1, t2, b2] =>
    match parseIntCmp c, (mkVal t1 b1.toNat!).bind jitRepr, (mkVal t2 b2.toNat!).bind jitRepr with
    | some c, some l, some r => showC (OpTables.cg_IntCmp false c l r)
    | _, _, _ => "none"
  | ["jit", "FloatCmp", c, t1, b1, t2, b2] =>
    match parseFloatCmp c, (mkVal t1 b1.toNat!).bind jitRepr, (mkVal t2 b2.toNat!).bind jitRepr with
    | some c, some l, some r => showC (OpTables.cg_FloatCmp false c l r)
    | _, _, _ => "none"
  | ["jit", i, t1, b1] =>
    match (mkVal t1 b1.toNat!).bind jitRepr with
    | some v =>
      match i with
      | "Not" => showC (OpTables.cg_Not false v)
      | "Negate" => showC (OpTables.cg_Negate false v)
      | _ => "bad-op"
    | none => "none"
  | ["jit", i, t1, b1, t2, b2] =>
    match (mkVal t1 b1.toNat!).bind jitRepr, (mkVal t2 b2.toNat!).bind jitRepr with
    | some l, some r =>
      match i with
      | "Add" => showC (OpTables.cg_Add false l r)
      | "Sub" => showC (OpTables.cg_Sub false l r)
      | "Mul" => showC (OpTables.cg_Mul false l r)
      | "FDiv" => showC (OpTables.cg_FDiv false l r)
      | _ => "bad-op"
    | _, _ => "none"
  | ["jit", i, s, t1, b1, t2, b2] =>
    match (mkVal t1 b1.toNat!).bind jitRepr, (mkVal t2 b2.toNat!).bind jitRepr with
    | some l, some r =>
      match i with
      | "Div" => showC (OpTables.cg_Div false (dbgOf s) l r)
      | "Mod" => showC (OpTables.cg_Mod false (dbgOf s) l r)
      | _ => "bad-op"
    | _, _ => "none"
  | ["lower", op, prim] =>
    match parseBinOp op, parsePrim prim with
    | some op, some p =>
      match OpTables.lower_binop false op (.Primitive p) with
      | .ok i => instrStr i
      | .panic => "panic"
    | _, _ => "bad-op"
  | ["literal", prim, n] =>
    match parsePrim prim, n.toInt? with
    | some (.Int k s), some n => showRes (OpTables.literal_int false (RInt.ofInt true 64 n) k s)
    | _, _ => "bad-op"
  | _ => "bad-op"

end Driver.Scalar
