/- Driver handler owned by property C10: `c10 <args…>` requests. -/
import Driver.Util

namespace Driver.C10

def handle (_args : List String) : String := "bad-op"

end Driver.C10
