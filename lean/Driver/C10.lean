/-
  Driver handler owned by property C10: `c10 <usize bits> <builtin> <args…>`
  answers what the *generated* bindings (Generated/C10Builtins.lean, i.e. the
  transliterated Rust) together with the model vocabulary (Model/Builtins.lean)
  compute: a canonical value, `none`, `panic`, or `limit`.

  Canonical values (the harness prints the same): `n:<int>`, `b:0|1`, `c:<code
  point>`, `s:<hex utf-8>`, `some(v)`, `none`, `[v,v,…]`, `ip4:<u32>`,
  `ip6:<u128>`.  Strings arrive as `x<hex>` (so that the empty string is a token).
-/
import RotoV.Generated.C10Builtins
import RotoV.Generated.C10VTable
import Driver.Util

namespace Driver.C10
open RotoV RotoV.Gen.C10Builtins

def hexDigit (n : Nat) : Char := if n < 10 then Char.ofNat (48 + n) else Char.ofNat (87 + n)

def hexOfBytes (b : ByteArray) : String :=
  String.ofList (b.toList.foldr (fun x acc => hexDigit (x.toNat / 16) :: hexDigit (x.toNat % 16) :: acc) [])

def parseStr (tok : String) : Option Str :=
  match tok.toList with
  | 'x' :: rest =>
    match Driver.unhex (String.ofList rest) with
    | some bytes =>
      match String.fromUTF8? (ByteArray.mk bytes.toArray) with
      | some s => some ⟨s.toList⟩
      | none => none
    | none => none
  | _ => none

def showStr (s : Str) : String := "s:" ++ hexOfBytes (String.ofList s.chars).toUTF8
def showChar (c : Char) : String := s!"c:{c.toNat}"
def showOpt {α} (f : α → String) : Option α → String
  | some a => s!"some({f a})"
  | none => "none"
def showList {α} (f : α → String) (l : List α) : String := "[" ++ ",".intercalate (l.map f) ++ "]"
def showBool (b : Bool) : String := if b then "b:1" else "b:0"
def showRes {α} (f : α → String) : Res α → String
  | .ok a => f a
  | .panic => "panic"
def showLim {α} (f : α → String) : Lim α → String
  | .val a => f a
  | .limit => "limit"
def showIp : IpAddr → String
  | .v4 a => s!"ip4:{a.toNat}"
  | .v6 a => s!"ip6:{a.toNat}"
def showNat (n : Nat) : String := s!"n:{n}"

def u64 (t : String) : U64 := ⟨BitVec.ofNat 64 t.toNat!⟩

def parseIp (fam addr : String) : Option IpAddr :=
  match fam with
  | "4" => some (.v4 (BitVec.ofNat 32 addr.toNat!))
  | "6" => some (.v6 (BitVec.ofNat 128 addr.toNat!))
  | _ => none

/-- the list `mk(n)` of the harness scripts: elements `0, 10, 20, …` -/
def mkList (n : Nat) : List Nat := (List.range n).map (· * 10)

def swapAt (l : List Nat) (i j : Nat) : List Nat :=
  match l[i]?, l[j]? with
  | some a, some b => (l.set i b).set j a
  | _, _ => l

def rawList [Target] (size n : Nat) : RawListS :=
  ⟨RInt.ofInt _ _ size, RInt.ofInt _ _ n, RInt.ofInt _ _ (listCapacityAfter size n)⟩

def decimal (ty : String) (bits : Nat) : String :=
  let w := match ty with | "u8" | "i8" => 8 | "u16" | "i16" => 16 | "u32" | "i32" => 32 | _ => 64
  if ty.startsWith "i" && bits ≥ 2 ^ (w - 1) then s!"-{2 ^ w - bits}" else s!"{bits}"


/-! ### lists built by the host (`c10 <pw> hl <op> <list> <args…>`): `lu:1,2,3`,
    `ls:x61,x,x62` (elements hex, `x` = the empty string), `lc:97,233`; the
    empty list is `lu:` / `ls:` / `lc:` -/

def listItems (rest : List Char) : List String :=
  ((String.ofList rest).splitOn ",").filter (fun t => t ≠ "")

/-- index validation goes through the generated `list_get_lookup` / `bind_ErasedList_swap`
    (size-`size` elements), the element itself comes from the list -/
def hlOps [Target] {α : Type} [BEq α] (showE : α → String) (parseE : String → Option α) (size : Nat)
    (l : List α) (op : String) (args : List String) : String :=
  let n := l.length
  match op, args with
  | "len", [] => showNat n
  | "capacity", [] => showNat (listCapacityAfter size n)
  | "is_empty", [] => showBool (n == 0)
  | "get", [i] =>
    showRes (showOpt (fun (o : USz) => match l[o.toNat / size]? with | some e => showE e | none => "out-of-range"))
      (list_get_lookup false (rawList size n) (u64 i))
  | "swap", [i, j] =>
    match bind_ErasedList_swap false (rawList size n) (u64 i) (u64 j) with
    | .panic => "panic"
    | .ok none => showList showE l
    | .ok (some (oi, oj)) =>
      match l[oi.toNat / size]?, l[oj.toNat / size]? with
      | some a, some b => showList showE ((l.set (oi.toNat / size) b).set (oj.toNat / size) a)
      | _, _ => "out-of-range"
  | "index", [x] =>
    match parseE x with
    | some e => showOpt showNat (l.idxOf? e)
    | none => "bad-op"
  | "contains", [x] =>
    match parseE x with
    | some e => showBool (l.contains e)
    | none => "bad-op"
  | "push", [x] =>
    match parseE x with
    | some e => showList showE (l ++ [e])
    | none => "bad-op"
  | _, _ => "bad-op"

def parseLU (tok : String) : Option (List Nat) :=
  match tok.toList with
  | 'l' :: 'u' :: ':' :: rest => some ((listItems rest).map String.toNat!)
  | _ => none
def parseLS (tok : String) : Option (List Str) :=
  match tok.toList with
  | 'l' :: 's' :: ':' :: rest => (listItems rest).mapM parseStr
  | _ => none
def parseLC (tok : String) : Option (List Char) :=
  match tok.toList with
  | 'l' :: 'c' :: ':' :: rest => some ((listItems rest).map (fun t => Char.ofNat t.toNat!))
  | _ => none

instance : BEq Str := ⟨fun a b => a.chars == b.chars⟩

def handleHL [Target] (args : List String) : String :=
  match args with
  | op :: tok :: rest =>
    match parseLU tok, parseLS tok, parseLC tok with
    | some l, _, _ =>
      match op, rest with
      | "forsum", [] => showNat (l.foldl (fun a x => a + x % 1000) 0)
      | "concat", [m] => match parseLU m with | some m => showList showNat (l ++ m) | none => "bad-op"
      | "eq", [m] => match parseLU m with | some m => showBool (l == m) | none => "bad-op"
      | _, _ => hlOps showNat (fun t => t.toNat?) 8 l op rest
    | _, some l, _ =>
      match op, rest with
      | "join", [sep] =>
        match parseStr sep with
        | some sep => showRes showStr (bind_ErasedList_join false l sep)
        | none => "bad-op"
      | "concat", [m] => match parseLS m with | some m => showList showStr (l ++ m) | none => "bad-op"
      | "eq", [m] => match parseLS m with | some m => showBool (l == m) | none => "bad-op"
      | _, _ => hlOps showStr parseStr 16 l op rest
    | _, _, some l =>
      match op, rest with
      | "from_chars", [] => showStr ⟨l⟩
      | _, _ => hlOps showChar (fun t => t.toNat?.map Char.ofNat) 4 l op rest
    | _, _, _ => "bad-op"
  | _ => "bad-op"

/-! ### lists of any element-type class created by compiled code
    (`c10 <pw> el <size class> <needs_clone> <needs_drop> <op> <codes> <args…>`)

Elements travel as codes (`lu:` token: equal iff same code).  The vtable such a list
carries is the one `Lowerer::call_runtime` writes (Generated/C10VTable.lean): if a
callback the operation reaches — as list.rs uses it — is a null word, the answer is
`segv`; otherwise the result on the codes (index validation through the generated
`list_get_lookup` / `bind_ErasedList_swap` at the given element size). -/

open RotoV.VTableFill RotoV.Gen.C10VTable in
def cbSegv (τ : ElemTy) (c : Callback) : Bool :=
  let vt := lowered vtableFields lowerWrites τ
  listUses.any fun (c', k) => c' == c && useOutcome vt c k == .segv

open RotoV.VTableFill in
def handleEL [Target] (pw : Nat) (args : List String) : String :=
  match args with
  | size :: nc :: nd :: op :: tok :: rest =>
    match parseLU tok with
    | none => "bad-op"
    | some l =>
      let sz := size.toNat!
      let τ : ElemTy := ⟨sz != 0, nc == "1", nd == "1"⟩
      let other : Option (List Nat) := match rest with | [m] => parseLU m | _ => none
      let eqCalls : Nat := match op, rest with
        | "contains", [x] => eqCallsFind l x.toNat!
        | "index", [x] => eqCallsFind l x.toNat!
        | "eq", [_] => (other.map (eqCallsEq l)).getD 0
        | "ne", [_] => (other.map (eqCallsEq l)).getD 0
        | "nested_index", [_] => (other.map (fun m => eqCallsEq l m + (if l == m then 0 else eqCallsEq m m))).getD 0
        | _, _ => 0
      let cloneCalls : Nat := match op, rest with
        | "get", [i] => if i.toNat! < l.length then 1 else 0
        | "concat", [_] => l.length + (other.map List.length).getD 0
        | "codes", [] => l.length
        | "push", [_] => l.length + 1
        | "swap", [_, _] => l.length
        | _, _ => 0
      let dropCalls : Nat := match op with
        | "nested_index" => l.length + (other.map List.length).getD 0
        | "push" => l.length + 1
        | _ => l.length
      if (eqCalls > 0 && cbSegv τ .eq) || (cloneCalls > 0 && cbSegv τ .clone) || (dropCalls > 0 && cbSegv τ .drop) then "segv"
      else
        match op, rest with
        | "capacity", [] => if sz == 0 then showNat (2 ^ pw - 1) else showNat (listCapacityAfter sz l.length)
        | "codes", [] => showList showNat l
        | "eq_alias", [] => showBool true   -- `Arc::ptr_eq` answers before any element is compared
        | "concat", [_] => match other with | some m => showList showNat (l ++ m) | none => "bad-op"
        | "eq", [_] => match other with | some m => showBool (l == m) | none => "bad-op"
        | "ne", [_] => match other with | some m => showBool (l != m) | none => "bad-op"
        | "nested_index", [_] => match other with | some m => showOpt showNat (some (if l == m then 0 else 1)) | none => "bad-op"
        | _, _ => hlOps showNat (fun t => t.toNat?) sz l op rest
  | _ => "bad-op"

def handleT [Target] (args : List String) : String :=
  match args with
  | "hl" :: rest => handleHL rest
  | [f, x] =>
    match f, parseStr x with
    | "bytes_len", some s => showRes (fun v => showNat v.toNat) (bind_StringBytes_len false s)
    | "chars_len", some s => showRes (fun v => showNat v.toNat) (bind_StringChars_len false s)
    | "lines_len", some s => showRes (fun v => showNat v.toNat) (bind_StringLines_len false s)
    | "bytes_list", some s => showList (fun (b : UInt8) => showNat b.toNat) (String.ofList s.chars).toUTF8.toList
    | "chars_list", some s => showList showChar s.chars
    | "lines_list", some s => showList showStr (Str.lines s)
    | "from_chars", some s => showStr s
    | "sb_eq_alias", some _ => showBool true   -- the same buffer: `Arc::ptr_eq` answers before any lock
    | _, _ =>
      match f with
      | "list_len" => showNat x.toNat!
      | "list_is_empty" => showBool (x.toNat! == 0)
      | "list_capacity" => showNat (listCapacityAfter 8 x.toNat!)
      | "list_build" => showList showNat (mkList x.toNat!)
      | "char_to_string" => showStr ⟨[Char.ofNat x.toNat!]⟩
      | _ => "bad-op"
  | ["int_to_string", ty, v] => showStr ⟨(decimal ty v.toNat!).toList⟩
  | [f, a, b] =>
    match f, parseStr a with
    | "bytes_get", some s => showRes (showOpt showChar) (bind_StringBytes_get false s (u64 b))
    | "chars_get", some s => showRes (showOpt showChar) (bind_StringChars_get false s (u64 b))
    | "lines_get", some s => showRes (showOpt showChar) (bind_StringLines_get false s (u64 b))
    | "repeat", some s => showRes (showLim showStr) (bind_RotoString_repeat false s (u64 b))
    | "stringbuf", some s => showStr ⟨s.chars ++ [Char.ofNat b.toNat!] ++ s.chars⟩   -- from(s); push_char(c); push_string(s)
    | _, some s =>
      match parseStr b with
      | some t =>
        match f with
        | "contains" => showRes showBool (bind_RotoString_contains false s t)
        | "starts_with" => showRes showBool (bind_RotoString_starts_with false s t)
        | "ends_with" => showRes showBool (bind_RotoString_ends_with false s t)
        | "eq" => showBool (s.chars == t.chars)
        -- `a == b` on two buffers, and not equal after `b += s; a += n` unless s = n
        | "sb_eq" => showBool (s.chars == t.chars && !((s.chars ++ t.chars == t.chars ++ s.chars) && s.chars != t.chars))
        | "append" => showStr (Str.append s t)
        | "strip_prefix" => showRes (showOpt showStr) (bind_RotoString_strip_prefix false s t)
        | "strip_suffix" => showRes (showOpt showStr) (bind_RotoString_strip_suffix false s t)
        | "split" => showRes (showList showStr) (bind_RotoString_split false s t)
        | "lines_join" => showRes showStr (bind_ErasedList_join false (Str.lines s) t)
        | _ => "bad-op"
      | none => "bad-op"
    | _, none =>
      let (n, i) := (a.toNat!, b.toNat!)
      match f with
      | "list_get" =>
        showRes (showOpt (fun (o : USz) => showNat (o.toNat / 8 * 10))) (list_get_lookup false (rawList 8 n) (u64 b))
      | "list_get_s" =>
        showRes (showOpt (fun (o : USz) => showStr ⟨(toString (o.toNat / 16 * 10)).toList⟩)) (list_get_lookup false (rawList 16 n) (u64 b))
      | "list_index" => showOpt showNat ((mkList n).idxOf? i)
      | "list_contains" => showBool ((mkList n).contains i)
      | "list_concat" => showList showNat (mkList n ++ mkList i)
      | _ => "bad-op"
  | [f, a, b, c] =>
    match f, parseStr a with
    | "bytes_slice", some s => showRes (showOpt showStr) (bind_StringBytes_slice false s (u64 b) (u64 c))
    | "chars_slice", some s => showRes (showOpt showStr) (bind_StringChars_slice false s (u64 b) (u64 c))
    | "lines_slice", some s => showRes (showOpt showStr) (bind_StringLines_slice false s (u64 b) (u64 c))
    | "splitn", some s =>
      match parseStr c with
      | some sep => showRes (showList showStr) (bind_RotoString_splitn false s (u64 b) sep)
      | none => "bad-op"
    | "rsplitn", some s =>
      match parseStr c with
      | some sep => showRes (showList showStr) (bind_RotoString_rsplitn false s (u64 b) sep)
      | none => "bad-op"
    | "splitn_join", some s =>
      match parseStr c with
      | some sep2 =>
        match bind_RotoString_splitn false s (u64 b) ⟨[',']⟩ with
        | .ok l => showRes showStr (bind_ErasedList_join false l sep2)
        | .panic => "panic"
      | none => "bad-op"
    | "split_join", some s =>
      match parseStr b, parseStr c with
      | some sep, some sep2 => showStr (Str.join (Str.split s sep) sep2)
      | _, _ => "bad-op"
    | _, some _ => "bad-op"
    | _, none =>
      match f with
      | "list_swap" | "list_swap_s" =>
        let size := if f == "list_swap" then 8 else 16
        let n := a.toNat!
        let shown (l : List Nat) : String :=
          if f == "list_swap" then showList showNat l else showList (fun k => showStr ⟨(toString k).toList⟩) l
        match bind_ErasedList_swap false (rawList size n) (u64 b) (u64 c) with
        | .panic => "panic"
        | .ok none => shown (mkList n)
        | .ok (some (oi, oj)) => shown (swapAt (mkList n) (oi.toNat / size) (oj.toNat / size))
      | _ =>
        match parseIp a b with
        | some ip =>
          let len : U8 := ⟨BitVec.ofNat 8 c.toNat!⟩
          match f with
          | "prefix_new_addr" | "prefix_addr" | "prefix_min_addr" =>
            showRes (fun p => showIp p.addr) (bind_Prefix_new false ip len)
          | "prefix_max_addr" => showRes (fun p => showIp p.max_addr) (bind_Prefix_new false ip len)
          | "prefix_new_len" => showRes (fun p => showNat p.len) (bind_Prefix_new false ip len)
          | _ => "bad-op"
        | none => "bad-op"
  | _ => "bad-op"

def handle (args : List String) : String :=
  match args with
  | pw :: rest =>
    match pw.toNat? with
    | some n =>
      let _ : Target := ⟨n⟩
      match rest with
      | "el" :: rest => handleEL n rest
      | _ => handleT rest
    | none => "bad-op"
  | _ => "bad-op"

end Driver.C10
