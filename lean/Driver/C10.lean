/-
  Driver handler owned by property C10: `c10 <usize bits> <builtin> <args…>`
  answers what the *generated* bindings (Generated/C10Builtins.lean, i.e. the
  transliterated Rust) together with the model vocabulary (Model/Builtins.lean)
  compute: a canonical value, `none`, `panic`, or `limit`.

  Canonical values (the harness prints the same): `n:<int>`, `b:0|1`, `c:<code
  point>`, `s:<hex utf-8>`, `some(v)`, `none`, `[v,v,…]`, `ip4:<u32>`,
  `ip6:<u128>`.  Strings arrive as `x<hex>` (so that the empty string is a token).
-/
import RotoV.Generated.C10Builtins
import Driver.Util

namespace Driver.C10
open RotoV RotoV.Gen.C10Builtins

def hexDigit (n : Nat) : Char := if n < 10 then Char.ofNat (48 + n) else Char.ofNat (87 + n)

def hexOfBytes (b : ByteArray) : String :=
  String.ofList (b.toList.foldr (fun x acc => hexDigit (x.toNat / 16) :: hexDigit (x.toNat % 16) :: acc) [])

def parseStr (tok : String) : Option Str :=
  match tok.toList with
  | 'x' :: rest =>
    match Driver.unhex (String.ofList rest) with
    | some bytes =>
      match String.fromUTF8? (ByteArray.mk bytes.toArray) with
      | some s => some ⟨s.toList⟩
      | none => none
    | none => none
  | _ => none

def showStr (s : Str) : String := "s:" ++ hexOfBytes (String.ofList s.chars).toUTF8
def showChar (c : Char) : String := s!"c:{c.toNat}"
def showOpt {α} (f : α → String) : Option α → String
  | some a => s!"some({f a})"
  | none => "none"
def showList {α} (f : α → String) (l : List α) : String := "[" ++ ",".intercalate (l.map f) ++ "]"
def showBool (b : Bool) : String := if b then "b:1" else "b:0"
def showRes {α} (f : α → String) : Res α → String
  | .ok a => f a
  | .panic => "panic"
def showLim {α} (f : α → String) : Lim α → String
  | .val a => f a
  | .limit => "limit"
def showIp : IpAddr → String
  | .v4 a => s!"ip4:{a.toNat}"
  | .v6 a => s!"ip6:{a.toNat}"
def showNat (n : Nat) : String := s!"n:{n}"

def u64 (t : String) : U64 := ⟨BitVec.ofNat 64 t.toNat!⟩

def parseIp (fam addr : String) : Option IpAddr :=
  match fam with
  | "4" => some (.v4 (BitVec.ofNat 32 addr.toNat!))
  | "6" => some (.v6 (BitVec.ofNat 128 addr.toNat!))
  | _ => none

/-- the list `mk(n)` of the harness scripts: elements `0, 10, 20, …` -/
def mkList (n : Nat) : List Nat := (List.range n).map (· * 10)

def swapAt (l : List Nat) (i j : Nat) : List Nat :=
  match l[i]?, l[j]? with
  | some a, some b => (l.set i b).set j a
  | _, _ => l

def rawList [Target] (size n : Nat) : RawListS :=
  ⟨RInt.ofInt _ _ size, RInt.ofInt _ _ n, RInt.ofInt _ _ (listCapacityAfter size n)⟩

def decimal (ty : String) (bits : Nat) : String :=
  let w := match ty with | "u8" | "i8" => 8 | "u16" | "i16" => 16 | "u32" | "i32" => 32 | _ => 64
  if ty.startsWith "i" && bits ≥ 2 ^ (w - 1) then s!"-{2 ^ w - bits}" else s!"{bits}"

def handleT [Target] (args : List String) : String :=
  match args with
  | [f, x] =>
    match f, parseStr x with
    | "bytes_len", some s => showRes (fun v => showNat v.toNat) (bind_StringBytes_len false s)
    | "chars_len", some s => showRes (fun v => showNat v.toNat) (bind_StringChars_len false s)
    | "lines_len", some s => showRes (fun v => showNat v.toNat) (bind_StringLines_len false s)
    | "bytes_list", some s => showList (fun (b : UInt8) => showNat b.toNat) (String.ofList s.chars).toUTF8.toList
    | "chars_list", some s => showList showChar s.chars
    | "lines_list", some s => showList showStr (Str.lines s)
    | "from_chars", some s => showStr s
    | _, _ =>
      match f with
      | "list_len" => showNat x.toNat!
      | "list_is_empty" => showBool (x.toNat! == 0)
      | "list_capacity" => showNat (listCapacityAfter 8 x.toNat!)
      | "list_build" => showList showNat (mkList x.toNat!)
      | "char_to_string" => showStr ⟨[Char.ofNat x.toNat!]⟩
      | _ => "bad-op"
  | ["int_to_string", ty, v] => showStr ⟨(decimal ty v.toNat!).toList⟩
  | [f, a, b] =>
    match f, parseStr a with
    | "bytes_get", some s => showRes (showOpt showChar) (bind_StringBytes_get false s (u64 b))
    | "chars_get", some s => showRes (showOpt showChar) (bind_StringChars_get false s (u64 b))
    | "lines_get", some s => showRes (showOpt showChar) (bind_StringLines_get false s (u64 b))
    | "repeat", some s => showRes (showLim showStr) (bind_RotoString_repeat false s (u64 b))
    | _, some s =>
      match parseStr b with
      | some t =>
        match f with
        | "contains" => showBool (Str.contains s t)
        | "starts_with" => showBool (Str.starts_with s t)
        | "ends_with" => showBool (Str.ends_with s t)
        | "eq" => showBool (s.chars == t.chars)
        | "append" => showStr (Str.append s t)
        | "strip_prefix" => showOpt showStr (Str.strip_prefix s t)
        | "strip_suffix" => showOpt showStr (Str.strip_suffix s t)
        | "split" => showList showStr (Str.split s t)
        | _ => "bad-op"
      | none => "bad-op"
    | _, none =>
      let (n, i) := (a.toNat!, b.toNat!)
      match f with
      | "list_get" =>
        showRes (showOpt (fun (o : USz) => showNat (o.toNat / 8 * 10))) (list_get_lookup false (rawList 8 n) (u64 b))
      | "list_get_s" =>
        showRes (showOpt (fun (o : USz) => showStr ⟨(toString (o.toNat / 16 * 10)).toList⟩)) (list_get_lookup false (rawList 16 n) (u64 b))
      | "list_index" => showOpt showNat ((mkList n).idxOf? i)
      | "list_contains" => showBool ((mkList n).contains i)
      | "list_concat" => showList showNat (mkList n ++ mkList i)
      | _ => "bad-op"
  | [f, a, b, c] =>
    match f, parseStr a with
    | "bytes_slice", some s => showRes (showOpt showStr) (bind_StringBytes_slice false s (u64 b) (u64 c))
    | "chars_slice", some s => showRes (showOpt showStr) (bind_StringChars_slice false s (u64 b) (u64 c))
    | "lines_slice", some s => showRes (showOpt showStr) (bind_StringLines_slice false s (u64 b) (u64 c))
    | "splitn", some s =>
      match parseStr c with
      | some sep => showRes (showList showStr) (bind_RotoString_splitn false s (u64 b) sep)
      | none => "bad-op"
    | "rsplitn", some s =>
      match parseStr c with
      | some sep => showRes (showList showStr) (bind_RotoString_rsplitn false s (u64 b) sep)
      | none => "bad-op"
    | "split_join", some s =>
      match parseStr b, parseStr c with
      | some sep, some sep2 => showStr (Str.join (Str.split s sep) sep2)
      | _, _ => "bad-op"
    | _, some _ => "bad-op"
    | _, none =>
      match f with
      | "list_swap" | "list_swap_s" =>
        let size := if f == "list_swap" then 8 else 16
        let n := a.toNat!
        let shown (l : List Nat) : String :=
          if f == "list_swap" then showList showNat l else showList (fun k => showStr ⟨(toString k).toList⟩) l
        match bind_ErasedList_swap false (rawList size n) (u64 b) (u64 c) with
        | .panic => "panic"
        | .ok none => shown (mkList n)
        | .ok (some (oi, oj)) => shown (swapAt (mkList n) (oi.toNat / size) (oj.toNat / size))
      | _ =>
        match parseIp a b with
        | some ip =>
          let len : U8 := ⟨BitVec.ofNat 8 c.toNat!⟩
          match f with
          | "prefix_new_addr" | "prefix_addr" | "prefix_min_addr" =>
            showRes (fun p => showIp p.addr) (bind_Prefix_new false ip len)
          | "prefix_max_addr" => showRes (fun p => showIp p.max_addr) (bind_Prefix_new false ip len)
          | "prefix_new_len" => showRes (fun p => showNat p.len) (bind_Prefix_new false ip len)
          | _ => "bad-op"
        | none => "bad-op"
  | _ => "bad-op"

def handle (args : List String) : String :=
  match args with
  | pw :: rest =>
    match pw.toNat? with
    | some n => let _ : Target := ⟨n⟩; handleT rest
    | none => "bad-op"
  | _ => "bad-op"

end Driver.C10
