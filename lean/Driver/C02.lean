/- Driver handler owned by property C02: `c02 <args…>` requests. -/
import Driver.Util

namespace Driver.C02

def handle (_args : List String) : String := "bad-op"

end Driver.C02
