/- Driver handler owned by property C02: `c02 <args…>` requests.

   `c02 type <tystr> <fixed 0/1> [<path>,<path>…]`
       tystr: `U` | `N` | `L<kind>.<size>.<align>` | `R[t,…]` | `E[V[t,…]V[…]…]`
       path:  steps joined by `/`, step = `f<i>` | `v<v>.<i>`
     → `lay=…;ref=…;nc=…;nd=…;lt=…;paths=…;clone=…;drop=…;eq=…`
   `c02 spec <program>` → see `RotoV.Model.ValueSpec` (behavioural oracle)
   `c02 ctor <expr> <store> <ret> <n> <instr>*n` → see `Driver.C02Ctor` (the real lowerer's MIR of a
       constructor, run against the value-semantics spec `RotoV.Model.ValueCtor`)
-/
import Driver.Util
import RotoV.Model.LayoutOps
import RotoV.Model.ValueSpec
import Driver.C02Ctor
import Driver.C02Mir

namespace Driver.C02
open RotoV
open RotoV.Layout
open RotoV.Gen.LayoutGen

def kindName : LeafKind → String
  | .int => "int" | .float => "float" | .string => "string" | .copyRef => "copyRef"
  | .list => "list" | .rtCopy => "rtCopy" | .rtClone => "rtClone"

def kindOf : String → Option LeafKind
  | "int" => some .int | "float" => some .float | "string" => some .string
  | "copyRef" => some .copyRef | "list" => some .list | "rtCopy" => some .rtCopy
  | "rtClone" => some .rtClone | _ => none

mutual
partial def showTy : Ty → String
  | .unit => "U"
  | .never => "N"
  | .leaf k s a => s!"L{kindName k}.{s}.{a}"
  | .record fs => "R[" ++ ",".intercalate (showTys fs) ++ "]"
  | .enum vs => "E[" ++ String.join (showVars vs) ++ "]"
partial def showTys : Tys → List String
  | .nil => []
  | .cons t ts => showTy t :: showTys ts
partial def showVars : Vars → List String
  | .nil => []
  | .cons v vs => ("V[" ++ ",".intercalate (showTys v) ++ "]") :: showVars vs
end

/-- take the characters up to (not including) the first of `stops` -/
def takeUntil (stops : List Char) : List Char → List Char × List Char
  | [] => ([], [])
  | c :: cs => if stops.contains c then ([], c :: cs) else
    let (a, b) := takeUntil stops cs
    (c :: a, b)

mutual
partial def parseTy : List Char → Option (Ty × List Char)
  | 'U' :: r => some (.unit, r)
  | 'N' :: r => some (.never, r)
  | 'L' :: r =>
    let (body, rest) := takeUntil [',', ']'] r
    match (String.ofList body).splitOn "." with
    | [k, s, a] =>
      match kindOf k, s.toNat?, a.toNat? with
      | some k, some s, some a => some (.leaf k s a, rest)
      | _, _, _ => none
    | _ => none
  | 'R' :: '[' :: r =>
    match parseTys r with
    | some (ts, rest) => some (.record (Tys.ofList ts), rest)
    | none => none
  | 'E' :: '[' :: r =>
    match parseVars r with
    | some (vs, rest) => some (.enum (Vars.ofList vs), rest)
    | none => none
  | _ => none
/-- comma separated types up to and including the closing `]` -/
partial def parseTys : List Char → Option (List Ty × List Char)
  | ']' :: r => some ([], r)
  | cs =>
    match parseTy cs with
    | none => none
    | some (t, ',' :: r) =>
      match parseTys r with
      | some (ts, rest) => some (t :: ts, rest)
      | none => none
    | some (t, ']' :: r) => some ([t], r)
    | some _ => none
partial def parseVars : List Char → Option (List Tys × List Char)
  | ']' :: r => some ([], r)
  | 'V' :: '[' :: r =>
    match parseTys r with
    | none => none
    | some (ts, rest) =>
      match parseVars rest with
      | some (vs, rest') => some (Tys.ofList ts :: vs, rest')
      | none => none
  | _ => none
end

def parseStep (s : String) : Option Proj :=
  match s.toList with
  | 'f' :: r => (String.ofList r).toNat?.map Proj.field
  | 'v' :: r =>
    match (String.ofList r).splitOn "." with
    | [v, i] =>
      match v.toNat?, i.toNat? with
      | some v, some i => some (.variantField v i)
      | _, _ => none
    | _ => none
  | _ => none

def parsePath (s : String) : Option (List Proj) :=
  (s.splitOn "/").mapM parseStep

def baseName : Base → String
  | .val => "val" | .ret => "ret" | .left => "left" | .right => "right"

def showOp : Op → String
  | .read b off size => s!"read {baseName b}+{off} {size}"
  | .write b off => s!"write {baseName b}+{off} t"
  | .copy off size => s!"copy ret+{off} val+{off} {size}"
  | .clone off => s!"clone ret+{off} val+{off}"
  | .callClone off t => s!"call clone ret+{off} val+{off} {showTy t}"
  | .drop off => s!"drop val+{off}"
  | .callDrop off t => s!"call drop val+{off} {showTy t}"
  | .eq off => s!"eq left+{off} right+{off}"
  | .callEq off t => s!"call eq left+{off} right+{off} {showTy t}"
  | .icmp => "icmp"
  | .fcmp => "fcmp"
  | .ret b => s!"ret {b}"

def showOps : Res (List Op) → String
  | .panic => "panic"
  | .ok ops => "|".intercalate (ops.map showOp)

def isAggregate : Ty → Bool
  | .record _ | .enum _ => true
  | _ => false

def answerType (t : Ty) (fixed : Bool) (paths : List (List Proj)) : String :=
  let lay := match layoutOf t with
    | none => "none"
    | some l => s!"{l.size}.{l.align}"
  let rf := match isReferenceType t with
    | none => "none" | some true => "t" | some false => "f"
  let lt := match lowerType t with
    | .panic => "panic" | .ok none => "none" | .ok (some .pointer) => "ptr"
    | .ok (some (.int n)) => s!"{n}" | .ok (some (.float n)) => s!"{n}"
  let ps := paths.map fun p =>
    match locate t p 0 with
    | .panic => "panic" | .ok none => "none" | .ok (some (o, _)) => s!"{o}"
  let agg := isAggregate t
  let c := if agg then showOps (cloneOps t) else "-"
  let d := if agg then showOps (dropOps t) else "-"
  let e := if agg then showOps (eqOps fixed t) else "-"
  s!"lay={lay};ref={rf};nc={if needsClone t then 1 else 0};nd={if needsDrop t then 1 else 0};lt={lt};paths={",".intercalate ps};clone={c};drop={d};eq={e}"

def handle (args : List String) : String :=
  match args with
  | "type" :: ts :: fixed :: rest =>
    match parseTy ts.toList with
    | some (t, []) =>
      let paths := match rest with
        | [] => some []
        | p :: _ => (p.splitOn ",").mapM parsePath
      match paths with
      | some ps => answerType t (fixed == "1") ps
      | none => "bad-path"
    | _ => "bad-type"
  | "spec" :: rest => RotoV.ValueSpec.handle rest
  | "ctor" :: rest => Driver.C02Ctor.handle rest
  | "mirmatch" :: rest => Driver.C02Mir.handle rest
  | _ => "bad-op"

end Driver.C02
