/- Small parsing/printing helpers shared by the driver's handlers. -/
namespace Driver

def words (s : String) : List String :=
  (s.trimAscii.toString.splitOn " ").filter (· ≠ "")

def hexVal (c : Char) : Option Nat :=
  if '0' ≤ c ∧ c ≤ '9' then some (c.toNat - '0'.toNat)
  else if 'a' ≤ c ∧ c ≤ 'f' then some (c.toNat - 'a'.toNat + 10)
  else none

/-- decode a hex string into bytes -/
def unhex (s : String) : Option (List UInt8) :=
  let rec go : List Char → List UInt8 → Option (List UInt8)
    | [], acc => some acc.reverse
    | a :: b :: rest, acc =>
      match hexVal a, hexVal b with
      | some x, some y => go rest (UInt8.ofNat (x * 16 + y) :: acc)
      | _, _ => none
    | _, _ => none
  go s.toList []

end Driver
