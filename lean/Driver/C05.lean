/- Driver handler owned by property C05: `c05 <args…>` requests.

   Types are written in prefix notation, one token per node:
     `p <prim>` | `u` | `v <size> <align>` | `o T` | `r T E` | `d A R` | `l T`
   host layouts `H` are ten comma-separated numbers
     char.size,char.align,string.size,string.align,ipaddr…,prefix…,list…
   `cfg` is `current` (generated from the source) or `pinned`.

     c05 layout H T            → rust S A roto S A isref B lower X offs R… / U… asparam X
     c05 sig H cfg RET ; P1 ; P2 …
                                → roto <IrTypes> retptr B ret X rotoabi <…> -> X rustabi <…> -> X agree B
     c05 call H cfg RET ; P…   → callsite <…> -> X callee <…> -> X agree B
     c05 rtcall H cfg RET ; P… → roto <…> rust <…> agree B
     c05 tags                  → Some=0 None=1 … | script Some=0 …
     c05 place H T ; <value>   → rust <off:cell,…> roto <off:cell,…>
     c05 roundtrip <shape> <value> → ok|bad  (untransform∘transform and scriptView∘transform)
     c05 gate <R> | <S>        → gate B wf B declared B
        `check_roto_type` of `Model/BoundaryGate.lean` (the generated arms) on a Rust type
        `R` = `p <prim>` | `u` | `v <registered name>` | `o R` | `l R` | `r R R` | `d R R` and a signature
        type as the hook `verif_c05_signature_types` prints it:
        `S` = `unit` | `other` | `name <g|s> <ident> <decl> <n> <S>…` with `decl` =
        `prim:<p>` | `runtime:<name>` | `enum:<g|s>:<ident>` | `record:<g|s>:<ident>` | `list:<g|s>:<ident>`;
        `wf` = `STy.WF` (what the theorems assume of name resolution), `declared` = mentions a script declaration
     c05 prov F1 | F2 | …  → ok <n functions> <n functions whose certificate lists a parameter> | bad <function id> <instruction index> <its certificate>
        with F = `<id> <param vars…> ; I1 ; I2 …`: the provenance check of `Model/BoundaryStore.lean`
        (`checkProg` with the whole-program certificate `certify`) on the lowered items of one script;
        variables are numbers local to the function, `0` is the context pointer; operands are
        `v<N>` / `l`, `-` = absent:
        `as to op` `ca to` `of to op` `rd to op` `wr dst val` `cp dst src` `cl dst src`
        `rt to|- op…` `cm to op…` `cs to|- ctx callee-id|- retptr|- op…` `dr op` `re op|-` `ct`
     c05 defuse <initial vars…> | B0 | B1 | …  → ok <n blocks> | bad <block> <instruction index|succ> <var|block>
        with B = `<successor block indices…> ; I1 ; I2 …` and I = `<vars read…> > <var defined|->`:
        the definite-assignment check of `Model/BoundaryDefUse.lean` (`Cfg.check` with the certificate
        `certify`) on the blocks of one lowered function, entry block first
-/
import Driver.Util
import RotoV.Model.Boundary
import RotoV.Model.BoundaryStore
import RotoV.Model.BoundaryDefUse
import RotoV.Model.BoundaryGate

namespace Driver.C05
open RotoV RotoV.Boundary RotoV.Gen.BoundaryTables

def primOf : String → Option Primitive
  | "u8" => some (.Int .Unsigned .I8) | "u16" => some (.Int .Unsigned .I16)
  | "u32" => some (.Int .Unsigned .I32) | "u64" => some (.Int .Unsigned .I64)
  | "i8" => some (.Int .Signed .I8) | "i16" => some (.Int .Signed .I16)
  | "i32" => some (.Int .Signed .I32) | "i64" => some (.Int .Signed .I64)
  | "f32" => some (.Float .F32) | "f64" => some (.Float .F64)
  | "bool" => some .Bool | "char" => some .Char | "Asn" => some .Asn
  | "String" => some .String | "IpAddr" => some .IpAddr | "Prefix" => some .Prefix
  | _ => none

/-- parse one type from the token list (fuel = number of tokens) -/
def parseTy : Nat → List String → Option (BTy × List String)
  | 0, _ => none
  | _ + 1, "u" :: rest => some (.unit, rest)
  | _ + 1, "p" :: n :: rest => (primOf n).map fun p => (.prim p, rest)
  | _ + 1, "v" :: s :: a :: rest =>
    match s.toNat?, a.toNat? with
    | some s, some a => some (.val ⟨s, a⟩, rest)
    | _, _ => none
  | f + 1, "o" :: rest => (parseTy f rest).map fun (t, r) => (.option t, r)
  | f + 1, "l" :: rest => (parseTy f rest).map fun (t, r) => (.list t, r)
  | f + 1, "r" :: rest =>
    (parseTy f rest).bind fun (t, r) => (parseTy f r).map fun (e, r2) => (.result t e, r2)
  | f + 1, "d" :: rest =>
    (parseTy f rest).bind fun (t, r) => (parseTy f r).map fun (e, r2) => (.verdict t e, r2)
  | _, _ => none

def parseTyAll (ts : List String) : Option BTy :=
  match parseTy (ts.length + 1) ts with
  | some (t, []) => some t
  | _ => none

def parseHost (s : String) : Option HostLayouts :=
  match (s.splitOn ",").map String.toNat? with
  | [some a, some b, some c, some d, some e, some f, some g, some i, some j, some k] =>
    some { char := ⟨a, b⟩, string := ⟨c, d⟩, ipaddr := ⟨e, f⟩, prefix_ := ⟨g, i⟩, list := ⟨j, k⟩ }
  | _ => none

def parseCfg : String → Option Cfg
  | "current" => some Cfg.current
  | "pinned" => some Cfg.pinned
  | _ => none

/-- split a token list on `;` -/
def splitSemi (ts : List String) : List (List String) :=
  let (cur, acc) := ts.foldl (fun (p : List String × List (List String)) t =>
    if t == ";" then ([], p.1.reverse :: p.2) else (t :: p.1, p.2)) ([], [])
  (cur.reverse :: acc).reverse

def parseSig (ts : List String) : Option BSig :=
  match splitSemi ts with
  | [] => none
  | r :: ps =>
    match parseTyAll r, ps.mapM parseTyAll with
    | some r, some ps => some ⟨ps, r⟩
    | _, _ => none

def showIr : IrType → String
  | .Bool => "Bool" | .U8 => "U8" | .U16 => "U16" | .U32 => "U32" | .U64 => "U64"
  | .I8 => "I8" | .I16 => "I16" | .I32 => "I32" | .I64 => "I64" | .F32 => "F32" | .F64 => "F64"
  | .Char => "Char" | .Asn => "Asn" | .Pointer => "Pointer"
def showAbi : AbiTy → String
  | .I8 => "i8" | .I16 => "i16" | .I32 => "i32" | .I64 => "i64" | .F32 => "f32" | .F64 => "f64"
def showOpt {α} (f : α → String) : Option α → String
  | some a => f a | none => "none"
def commas (xs : List String) : String := if xs.isEmpty then "-" else ",".intercalate xs
def showB (b : Bool) : String := if b then "1" else "0"
def showOB : Option Bool → String
  | some b => showB b | none => "-"
def showAbiSig (s : AbiSig) : String := s!"{commas (s.params.map showAbi)} -> {showOpt showAbi s.ret}"
def showRes {α} (f : α → String) : Res α → String
  | .ok a => f a | .panic => "panic"

/-- payload offsets per variant with exactly one field: Roto's `VariantField` offset and the
    closed-form Rust offset -/
def offsets (h : HostLayouts) (t : BTy) : String :=
  match toMTy t, t with
  | .enum vs, _ =>
    let roto := vs.map fun fs => match fs with
      | [_] => showOpt toString (variantFieldOffset h fs 0)
      | _ => "-"
    let rust : List String := match t with
      | .option a => (instVariants ⟨0, 1⟩ rotoOptionVariants [rustLayout h a]).map fun fs =>
          match fs with | [l] => toString (payloadOffset l) | _ => "-"
      | .result a b => (instVariants ⟨0, 1⟩ rotoResultVariants [rustLayout h a, rustLayout h b]).map fun fs =>
          match fs with | [l] => toString (payloadOffset l) | _ => "-"
      | .verdict a b => (instVariants ⟨0, 1⟩ verdictVariants [rustLayout h a, rustLayout h b]).map fun fs =>
          match fs with | [l] => toString (payloadOffset l) | _ => "-"
      | _ => []
    s!"{commas roto} / {commas rust}"
  | _, _ => "- / -"

def doLayout (h : HostLayouts) (t : BTy) : String :=
  let r := rustLayout h t
  let ro := rotoLayout h t
  let m := toMTy t
  s!"rust {r.size} {r.align} roto {showOpt (fun (l : Layout) => s!"{l.size} {l.align}") ro} isref {showOB (isReferenceType Cfg.current h m)} lower {showRes (showOpt showIr) (lowerType Cfg.current h m)} offs {offsets h t} asparam {showRes (showOpt showAbi) (asParamAbi t)}"

def doSig (c : Cfg) (h : HostLayouts) (s : BSig) : String :=
  let irs := keepArgs c h c.sigFilter (s.params.map toMTy)
  let rr := returnRule c h (toMTy s.ret)
  let roto := rotoSig c h s
  let rptr := match roto with | .ok (_, b) => b | .panic => false
  let rust := rustSig h s rptr
  let agree := match roto, rust with
    | .ok (a, _), .ok b => decide (a = b)
    | _, _ => false
  s!"roto {showRes (fun xs => commas (xs.map showIr)) irs} retptr {showRes (fun (p : Option IrType × Bool) => showB p.2) rr} ret {showRes (fun (p : Option IrType × Bool) => showOpt showIr p.1) rr} rotoabi {showRes (fun (p : AbiSig × Bool) => showAbiSig p.1) roto} rustabi {showRes showAbiSig rust} agree {showB agree}"

def doCall (c : Cfg) (h : HostLayouts) (s : BSig) : String :=
  let site := rotoCallSite c h s
  let callee := rotoSig c h s
  let agree := match site, callee with
    | .ok a, .ok (b, _) => decide (a = b)
    | _, _ => false
  s!"callsite {showRes showAbiSig site} callee {showRes (fun (p : AbiSig × Bool) => showAbiSig p.1) callee} agree {showB agree}"

def doRtCall (c : Cfg) (h : HostLayouts) (s : BSig) : String :=
  let roto := rotoRuntimeCall c h s
  let rust := rustTrampoline s
  let irs := keepArgs c h c.callRuntimeFilter (s.params.map toMTy)
  let agree := match roto, rust with
    | .ok a, .ok b => decide (a = b)
    | _, _ => false
  s!"params {showRes (fun xs => commas (xs.map showIr)) irs} roto {showRes showAbiSig roto} rust {showRes showAbiSig rust} agree {showB agree}"

def showV : VName → String
  | .Some => "Some" | .None => "None" | .Ok => "Ok" | .Err => "Err" | .Accept => "Accept" | .Reject => "Reject"

def doTags : String :=
  let f (tbls : EnumOf → List (VName × List Nat)) : String :=
    " ".intercalate ([EnumOf.option, .result, .verdict].flatMap fun e =>
      (tbls e).zipIdx.map fun (v, i) => s!"{showV v.1}={i}")
  s!"{f rustTables} | script {f scriptTables} | question {questionMarkContinue} for {forBodyDiscriminant} listget {listGetSome} {listGetNone} {listGetProvisional}"

/-- shapes: `f` leaf | `u` | `o S` | `r S S` | `d S S` | `l S` -/
def parseShape : Nat → List String → Option (Shape × List String)
  | 0, _ => none
  | _ + 1, "f" :: rest => some (.leaf, rest)
  | _ + 1, "u" :: rest => some (.unit, rest)
  | f + 1, "o" :: rest => (parseShape f rest).map fun (t, r) => (.option t, r)
  | f + 1, "l" :: rest => (parseShape f rest).map fun (t, r) => (.list t, r)
  | f + 1, "r" :: rest =>
    (parseShape f rest).bind fun (t, r) => (parseShape f r).map fun (e, r2) => (.result t e, r2)
  | f + 1, "d" :: rest =>
    (parseShape f rest).bind fun (t, r) => (parseShape f r).map fun (e, r2) => (.verdict t e, r2)
  | _, _ => none

mutual
/-- values: `<n>` leaf | `u` | `S v` | `N` | `O v` | `E v` | `A v` | `R v` | `L <k> v1 … vk` -/
partial def parseVal : List String → Option (RVal × List String)
  | "u" :: rest => some (.unit, rest)
  | "N" :: rest => some (.none, rest)
  | "S" :: rest => (parseVal rest).map fun (v, r) => (.some v, r)
  | "O" :: rest => (parseVal rest).map fun (v, r) => (.ok v, r)
  | "E" :: rest => (parseVal rest).map fun (v, r) => (.err v, r)
  | "A" :: rest => (parseVal rest).map fun (v, r) => (.accept v, r)
  | "R" :: rest => (parseVal rest).map fun (v, r) => (.reject v, r)
  | "L" :: k :: rest => (k.toNat?).bind fun k => (parseVals k rest).map fun (vs, r) => (.list vs, r)
  | n :: rest => (n.toNat?).map fun n => (.leaf n, rest)
  | [] => none
partial def parseVals : Nat → List String → Option (List RVal × List String)
  | 0, rest => some ([], rest)
  | k + 1, rest => (parseVal rest).bind fun (v, r) => (parseVals k r).map fun (vs, r2) => (v :: vs, r2)
end

partial def showVal : RVal → String
  | .leaf n => toString n
  | .unit => "u"
  | .none => "N"
  | .some v => s!"S {showVal v}"
  | .ok v => s!"O {showVal v}"
  | .err v => s!"E {showVal v}"
  | .accept v => s!"A {showVal v}"
  | .reject v => s!"R {showVal v}"
  | .list vs => s!"L {vs.length}" ++ String.join (vs.map fun v => " " ++ showVal v)

partial def showT : TVal → String
  | .leaf n => toString n
  | .unit => "u"
  | .tagged d none => s!"#{d}"
  | .tagged d (some p) => s!"#{d}({showT p})"
  | .list vs => "[" ++ " ".intercalate (vs.map showT) ++ "]"

def doRoundtrip (ts : List String) : String :=
  match parseShape (ts.length + 1) ts with
  | some (sh, rest) =>
    match parseVal rest with
    | some (v, []) =>
      match transform v with
      | none => "no-transform"
      | some t =>
        s!"t {showT t} | un {showOpt showVal (untransform sh t)} | script {showOpt showVal (scriptView sh t)}"
    | _ => "bad-op"
  | none => "bad-op"

def showCells (cs : Option (List (Nat × Cell))) : String :=
  match cs with
  | none => "none"
  | some cs => commas (cs.map fun (o, c) => match c with
      | .tag d => s!"{o}:t{d}"
      | .leaf _ => s!"{o}:l"
      | .handle => s!"{o}:h")

/-- `c05 place H T ; <value>` → where the tags and leaves of `transform value` lie, on both sides -/
def doPlace (h : HostLayouts) (ts : List String) : String :=
  match splitSemi ts with
  | [ty, val] =>
    match parseTyAll ty, parseVal val with
    | some t, some (v, []) =>
      match transform v with
      | some tv => s!"rust {showCells (rustPlace h t tv 0)} roto {showCells (rotoPlace h t tv 0)}"
      | none => "no-transform"
    | _, _ => "bad-op"
  | _ => "bad-op"

-- ------------------------------------------------------------------ provenance check

open RotoV.BoundaryStore in
def parseOperand (s : String) : Option Operand :=
  if s = "l" then some (.lit 0)
  else if s.startsWith "v" then (s.drop 1).toNat?.map .var
  else none

open RotoV.BoundaryStore in
def parseOptOperand (s : String) : Option (Option Operand) :=
  if s = "-" then some none else (parseOperand s).map some

def parseOptVar (s : String) : Option (Option Nat) :=
  if s = "-" then some none else s.toNat?.map some

open RotoV.BoundaryStore in
def parseInstr : List String → Option Instr
  | ["as", t, o] => do some (.assign (← t.toNat?) (← parseOperand o))
  | ["ca", t] => do some (.constAddr (← t.toNat?) 0)
  | ["of", t, o] => do some (.offset (← t.toNat?) (← parseOperand o) 0)
  | ["rd", t, o] => do some (.read (← t.toNat?) (← parseOperand o))
  | ["wr", d, v] => do some (.write (← parseOperand d) (← parseOperand v))
  | ["cp", d, f] => do some (.copy (← parseOperand d) (← parseOperand f) 0)
  | ["cl", d, f] => do some (.clone (← parseOperand d) (← parseOperand f))
  | "rt" :: t :: ops => do some (.callRt (← parseOptVar t) (← ops.mapM parseOperand))
  | "cm" :: t :: ops => do some (.compute (← t.toNat?) (← ops.mapM parseOperand))
  | "cs" :: t :: c :: f :: r :: ops =>
    do some (.call (← parseOptVar t) (← parseOperand c) ((← parseOptVar f).getD 1000000000)
              (← ops.mapM parseOperand) (← parseOptOperand r))
  | ["dr", o] => do some (.drop (← parseOperand o))
  | ["re", o] => do some (.ret (← parseOptOperand o))
  | ["ct"] => some .control
  | _ => none

/-- split a token list at the `sep` tokens -/
def splitAt (sep : String) (ws : List String) : List (List String) :=
  let (cur, acc) := ws.foldl (fun (st : List String × List (List String)) w =>
    if w = sep then ([], st.1.reverse :: st.2) else (w :: st.1, st.2)) ([], [])
  (cur.reverse :: acc).reverse

open RotoV.BoundaryStore in
def parseFunc (ws : List String) : Option Func :=
  match splitAt ";" ws with
  | (id :: params) :: instrs => do
    let body ← (instrs.filter (· ≠ [])).mapM parseInstr
    some { id := (← id.toNat?), params := (← params.mapM (·.toNat?)), ctxVar := 0, body := body, taint := [] }
  | _ => none

open RotoV.BoundaryStore in
def doProv (ws : List String) : String :=
  match (splitAt "|" ws).mapM parseFunc with
  | some P0 =>
    let P := certify P0
    if checkProg P then s!"ok {P.length} {(P.filter fun f => f.params.any f.taint.contains).length}"
    else
      match P.find? (fun f => !f.check P) with
      | some f =>
        let ts := " ".intercalate (f.taint.map toString)
        match (f.body.zipIdx).find? (fun p => !Instr.ok P f.taint p.1) with
        | some p => s!"bad {f.id} {p.2} {ts}"
        | none => s!"bad {f.id} ctx {ts}"
      | none => "bad"
  | none => "bad-op"

-- ------------------------------------------------------------------ definite assignment

open RotoV.BoundaryDefUse in
def parseIns (ws : List String) : Option Ins :=
  match splitAt ">" ws with
  | [uses, [d]] => do
    let us ← uses.mapM (·.toNat?)
    if d = "-" then some { uses := us, defs := none } else some { uses := us, defs := some (← d.toNat?) }
  | _ => none

open RotoV.BoundaryDefUse in
def parseBlock (ws : List String) : Option Block :=
  match splitAt ";" ws with
  | succs :: instrs => do
    some { succs := (← succs.mapM (·.toNat?)), instrs := (← (instrs.filter (· ≠ [])).mapM parseIns) }
  | [] => none

open RotoV.BoundaryDefUse in
/-- the first instruction of a block that reads a variable outside the set -/
def firstBadRead : List Ins → List Nat → Nat → Option (Nat × Nat)
  | [], _, _ => none
  | i :: rest, s, k =>
    match i.uses.find? (fun u => !s.contains u) with
    | some u => some (k, u)
    | none => firstBadRead rest (match i.defs with | some d => d :: s | none => s) (k + 1)

open RotoV.BoundaryDefUse in
def doDefUse (ws : List String) : String :=
  match splitAt "|" ws with
  | init :: blocks =>
    match init.mapM (·.toNat?), blocks.mapM parseBlock with
    | some initial, some bs =>
      let g := certify { blocks := bs, initial := initial, entrySets := [] }
      if g.check then s!"ok {bs.length}"
      else
        match (g.blocks.zipIdx).find? (fun p => !g.blockOk p.2 p.1) with
        | some (blk, b) =>
          match firstBadRead blk.instrs (g.entrySet b) 0 with
          | some (k, u) => s!"bad {b} {k} {u}"
          | none => s!"bad {b} succ"
        | none => "bad entry"
    | _, _ => "bad-op"
  | [] => "bad-op"

/-! ### `c05 gate` -/

def nameId (s : String) : Nat := s.hash.toNat

def headOf : String → Option GateHead
  | "Option" => some .option | "Result" => some .result | "Verdict" => some .verdict | "List" => some .list
  | _ => none

def parseRTy : Nat → List String → Option (RTy × List String)
  | 0, _ => none
  | _ + 1, "u" :: rest => some (.unit, rest)
  | _ + 1, "p" :: n :: rest => (primOf n).map fun p => (.prim p, rest)
  | _ + 1, "v" :: n :: rest => some (.val (nameId n) ⟨0, 1⟩, rest)
  | f + 1, "o" :: rest => (parseRTy f rest).map fun (t, r) => (.option t, r)
  | f + 1, "l" :: rest => (parseRTy f rest).map fun (t, r) => (.list t, r)
  | f + 1, "r" :: rest =>
    (parseRTy f rest).bind fun (t, r) => (parseRTy f r).map fun (e, r2) => (.result t e, r2)
  | f + 1, "d" :: rest =>
    (parseRTy f rest).bind fun (t, r) => (parseRTy f r).map fun (e, r2) => (.verdict t e, r2)
  | _, _ => none

def scopeOf : String → Option NScope
  | "g" => some .global | "s" => some (.other 1) | _ => none

def identOf (s : String) : TIdent :=
  match headOf s, primOf s with
  | some h, _ => .generic h
  | _, some p => .prim p
  | _, _ => .other (nameId s)

/-- what the hook says a name denotes; a declaration is a built-in exactly when its OWN name is
    the global one of a generic built-in (scripts cannot declare into the global scope) -/
def declOf (s : String) : Option TyDecl :=
  match s.splitOn ":" with
  | ["prim", p] => (primOf p).map .prim
  | ["runtime", n] => some (.runtime (nameId n))
  | ["enum", "g", i] =>
    match headOf i with
    | some .list => some (.scriptEnum [])
    | some h => some (.builtin h)
    | none => some (.scriptEnum [])
  | ["enum", "s", _] => some (.scriptEnum [])
  | ["record", _, _] => some (.scriptRecord [])
  | ["list", "g", "List"] => some (.builtin .list)
  | ["list", _, _] => some (.scriptRecord [])
  | _ => none

def parseSTy : Nat → List String → Option (STy × List String)
  | 0, _ => none
  | _ + 1, "unit" :: rest => some (.unit, rest)
  | _ + 1, "other" :: rest => some (.other, rest)
  | f + 1, "name" :: sc :: i :: d :: n :: rest =>
    match scopeOf sc, declOf d, n.toNat? with
    | some sc, some d, some 0 => some (.name0 sc (identOf i) d, rest)
    | some sc, some d, some 1 => (parseSTy f rest).map fun (a, r) => (.name1 sc (identOf i) d a, r)
    | some sc, some d, some 2 =>
      (parseSTy f rest).bind fun (a, r) => (parseSTy f r).map fun (b, r2) => (.name2 sc (identOf i) d a b, r2)
    | some sc, some d, some (k + 3) =>
      -- the arguments are skipped: the gate refuses every name of more than two arguments
      let rec skip : Nat → Nat → List String → Option (List String)
        | 0, _, r => some r
        | _, 0, _ => none
        | m + 1, g + 1, r => (parseSTy f r).bind fun (_, r2) => skip m g r2
      (skip (k + 3) (k + 3) rest).map fun r => (.nameN sc (identOf i) d k, r)
    | _, _, _ => none
  | _, _ => none

def doGate (args : List String) : String :=
  match args.splitOn "|" with
  | [r, s] =>
    match parseRTy (r.length + 1) r, parseSTy (s.length + 1) s with
    | some (r, []), some (s, []) =>
      s!"gate {gate gateArms r s} wf {s.WF} declared {s.mentionsDeclared}"
    | _, _ => "bad-op"
  | _ => "bad-op"

def handle (args : List String) : String :=
  match args with
  | "prov" :: rest => doProv rest
  | "gate" :: rest => doGate rest
  | "defuse" :: rest => doDefUse rest
  | "layout" :: h :: ty =>
    match parseHost h, parseTyAll ty with
    | some h, some t => doLayout h t
    | _, _ => "bad-op"
  | "sig" :: h :: c :: rest =>
    match parseHost h, parseCfg c, parseSig rest with
    | some h, some c, some s => doSig c h s
    | _, _, _ => "bad-op"
  | "call" :: h :: c :: rest =>
    match parseHost h, parseCfg c, parseSig rest with
    | some h, some c, some s => doCall c h s
    | _, _, _ => "bad-op"
  | "rtcall" :: h :: c :: rest =>
    match parseHost h, parseCfg c, parseSig rest with
    | some h, some c, some s => doRtCall c h s
    | _, _, _ => "bad-op"
  | "place" :: h :: rest =>
    match parseHost h with
    | some h => doPlace h rest
    | none => "bad-op"
  | ["tags"] => doTags
  | "roundtrip" :: rest => doRoundtrip rest
  | _ => "bad-op"

end Driver.C05
