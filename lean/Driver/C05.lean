/- Driver handler owned by property C05: `c05 <args…>` requests. -/
import Driver.Util

namespace Driver.C05

def handle (_args : List String) : String := "bad-op"

end Driver.C05
