/- Driver handler owned by property C19: `c19 <args…>` requests.

   Names travel as hex of their bytes (`-` = empty); the model sees one `Char`
   per byte, so its order is exactly Rust's byte-wise `String` order.
   A table entry is `<hexkey>:<s><v>` with `s` ∈ `t` (fn() -> Verdict[(),()]),
   `e` (fn()), `o` (anything else) and `v` ∈ `A` (accept) / `R` (reject).

   c19 keys <hexkey>*                      ↦ ok <hexkey>*            (get_tests_keys)
   c19 tests <dbg> <entry>*                ↦ ok <hexname>:<hexkey>* | panic   (get_tests)
   c19 run <dbg> <entry>*                  ↦ <Ok|Err|panic> <hexkey>*         (run_tests; keys of bodies run, in order)
   c19 getfn <t|e|o> <hexname> <entry>*    ↦ ok <hexkey> | missing | mistyped   (generated Package::get_function)
   c19 cli <check|test|run|doc|print> <dbg> <hasCtx> <read> <parse> <type> <hexfn> <entry>*
                                           ↦ <SUCCESS|FAILURE|panic> [T:<hexkey> | E:<hexkey> | S:<n>]*
-/
import Driver.Util
import RotoV.Generated.TestRunner

namespace Driver.C19
open RotoV RotoV.TR RotoV.Gen.TestRunner

def decName (s : String) : Option Name :=
  if s = "-" then some [] else (Driver.unhex s).map (fun bs => bs.map (fun b => Char.ofNat b.toNat))

def hexDigit (n : Nat) : Char := if n < 10 then Char.ofNat (48 + n) else Char.ofNat (87 + n)

def encName (n : Name) : String :=
  if n.isEmpty then "-" else String.ofList (n.flatMap (fun c => [hexDigit (c.toNat / 16 % 16), hexDigit (c.toNat % 16)]))

def sigOf (c : Char) : Option Sig :=
  if c = 't' then some testSig else if c = 'e' then some entrySig else if c = 'o' then some ⟨[.other 1], .other 0⟩ else none

def verdictOf (c : Char) : Option (Verdict Unit Unit) :=
  if c = 'A' then some (.Accept ()) else if c = 'R' then some (.Reject ()) else none

def decEntry (s : String) : Option (Name × FnInfo) :=
  match s.splitOn ":" with
  | [k, sv] =>
    match sv.toList with
    | [sc, vc] => do
      let k ← decName k
      let sg ← sigOf sc
      let v ← verdictOf vc
      pure (k, ⟨sg, v⟩)
    | _ => none
  | _ => none

def decTable (xs : List String) : Option Table := xs.mapM decEntry

def bool? (s : String) : Option Bool := if s = "1" then some true else if s = "0" then some false else none

def showEvents (l : List Event) : String :=
  " ".intercalate (l.map (fun e => match e with
    | .ranTest k => "T:" ++ encName k
    | .calledEntry k => "E:" ++ encName k
    | .stage n => "S:" ++ toString n))

def handle (args : List String) : String :=
  match args with
  | "keys" :: ks =>
    match ks.mapM decName with
    | some ks =>
      let t : Table := ks.map (fun k => (k, ⟨testSig, .Accept ()⟩))
      " ".intercalate ("ok" :: (get_tests_keys ⟨t⟩).map encName)
    | none => "bad-op"
  | "tests" :: dbg :: es =>
    match bool? dbg, decTable es with
    | some dbg, some t =>
      match get_tests dbg ⟨t⟩ with
      | .ok cs => " ".intercalate ("ok" :: cs.map (fun c => encName c.name ++ ":" ++ encName c.func.key))
      | .panic => "panic"
    | _, _ => "bad-op"
  | "run" :: dbg :: es =>
    match bool? dbg, decTable es with
    | some dbg, some t =>
      let (o, log) := (run_tests (ε := Unit) dbg ⟨t⟩ ()) []
      let keys := log.filterMap (fun e => match e with | .ranTest k => some (encName k) | _ => none)
      let r := match o with
        | .ok (.Ok ()) => "Ok"
        | .ok (.Err ()) => "Err"
        | .err _ => "throw"
        | .panic => "panic"
      " ".intercalate (r :: keys)
    | _, _ => "bad-op"
  | "getfn" :: sg :: name :: es =>
    match sg.toList, decName name, decTable es with
    | [c], some name, some t =>
      match sigOf c with
      | some want =>
        match Package_get_function ⟨⟨t⟩⟩ want name with
        | .Ok f => "ok " ++ encName f.key
        | .Err .doesNotExist => "missing"
        | .Err .typeMismatch => "mistyped"
      | none => "bad-op"
    | _, _, _ => "bad-op"
  | "cli" :: cmd :: dbg :: hasCtx :: r :: p :: t :: fn :: es =>
    match bool? dbg, bool? hasCtx, bool? r, bool? p, bool? t, decName fn, decTable es with
    | some dbg, some hasCtx, some r, some p, some t, some fn, some tb =>
      let W : World := ⟨hasCtx, r, p, t, tb⟩
      let c : Option Command :=
        if cmd = "check" then some (.Check ⟨⟩) else if cmd = "test" then some (.Test ⟨⟩)
        else if cmd = "run" then some (.Run ⟨⟩ fn) else if cmd = "doc" then some (.Doc ⟨⟩)
        else if cmd = "print" then some (.Print ⟨⟩) else none
      match c with
      | some c =>
        let (o, log) := (cli dbg W ⟨c⟩ W.runtime) []
        let code := match o with
          | .ok c => if c.failed then "FAILURE" else "SUCCESS"
          | .err _ => "throw"
          | .panic => "panic"
        (code ++ " " ++ showEvents log).trimAscii.toString
      | none => "bad-op"
    | _, _, _, _, _, _, _ => "bad-op"
  | _ => "bad-op"

end Driver.C19
