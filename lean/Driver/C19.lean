/- Driver handler owned by property C19: `c19 <args…>` requests. -/
import Driver.Util

namespace Driver.C19

def handle (_args : List String) : String := "bad-op"

end Driver.C19
