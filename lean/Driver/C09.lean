/- Driver handler owned by property C09: `c09 <args…>` requests.

   c09 pratt <tok>*      model of binop_expr on tokens (`a<n>`, `!`, operator names; `Sub` is the hyphen;
                         postfix forms `?`, `f<n>` = `.name`, `c<n>` = an argument list)
   c09 ref <tok>*        reference grammar on the same (well-formed) token list
   c09 rel <A> <B>       generated relative_associativity
   c09 num|hex|asn|ipv4|str|chr|fstr|fstrgen|fpart|kw <hex of UTF-8 source>
                         (fstrgen: f-string parts with the brace pass run on the GENERATED backslash arm)
   c09 prefix4 a b c d len
   c09 la <gen|old> <sym>*   look-ahead / lexer-mode model of atom, block, record, separated,
                         f_string on a symbol list: `{ } ( ) [ ] , : ; = . let id lit f" op`,
                         `T<k>` (f-string text up to a hole), `E<k>` (text up to the closing quote);
                         `gen` = generated look-ahead facts, `old` = no stop token
-/
import Driver.Util
import RotoV.Model.Pratt
import RotoV.Model.Literal
import RotoV.Model.FString
import RotoV.Generated.Precedence
import RotoV.Model.LookAhead
import RotoV.Generated.LookAhead
import RotoV.Generated.C09FStrText
import RotoV.Model.IdentScan
import RotoV.Generated.C09IdentScan

namespace Driver.C09
open RotoV RotoV.Pratt RotoV.Literal RotoV.FString

def rel (a b : BinOp) : Res Assoc := RotoV.Gen.Precedence.relative_associativity false a b

def readTok (s : String) : Option Tok :=
  if s == "!" then some .bang
  else if s == "?" then some (.post .try_)
  else if s.startsWith "a" then (s.drop 1).toNat?.map Tok.atom
  else if s.startsWith "f" then (s.drop 1).toNat?.map (fun n => Tok.post (.field n))
  else if s.startsWith "c" then (s.drop 1).toNat?.map (fun n => Tok.post (.call n))
  else (BinOp.ofName s).map Tok.op

def assocName : Assoc → String
  | .Left => "Left" | .Right => "Right" | .Not => "Not"

def showPRes : PRes → String
  | .ok t [] => s!"ok {t.sexp}"
  | .ok t _ => s!"partial {t.sexp}"
  | .chained o p => s!"err chained {BinOp.name o} {BinOp.name p}"
  | .unexpected => "err unexpected"
  | .panic => "panic"
  | .fuel => "fuel"

/-- read a well-formed token list back into `x0 (op x)*` -/
def readOperand : List Tok → List UnOp → Option (Operand × List Tok)
  | .bang :: r, acc => readOperand r (.not :: acc)
  | .op .Sub :: r, acc => readOperand r (.neg :: acc)
  | .atom n :: r, acc =>
    let ps := r.takeWhile (fun t => match t with | .post _ => true | _ => false)
    let r' := r.dropWhile (fun t => match t with | .post _ => true | _ => false)
    some (⟨acc.reverse, n, ps.filterMap (fun t => match t with | .post p => some p | _ => none)⟩, r')
  | _, _ => none

partial def readTail (ts : List Tok) (acc : Tail) : Option Tail :=
  match ts with
  | [] => some acc.reverse
  | .op o :: r =>
    match readOperand r [] with
    | some (x, r') => readTail r' ((o, x) :: acc)
    | none => none
  | _ => none

def hexOf (bs : List UInt8) : String :=
  let d (n : Nat) : Char := if n < 10 then Char.ofNat (48 + n) else Char.ofNat (87 + n)
  String.ofList (bs.flatMap fun b => [d (b.toNat / 16), d (b.toNat % 16)])

def hexStr (cs : List Char) : String :=
  let h := hexOf (String.ofList cs).toUTF8.toList
  if h.isEmpty then "-" else h

def unhexStr (s : String) : Option (List Char) :=
  if s == "-" then some [] else
  match unhex s with
  | some bs => (String.fromUTF8? (ByteArray.mk bs.toArray)).map String.toList
  | none => none

def asciiAlpha (c : Char) : Bool := (65 ≤ c.toNat && c.toNat ≤ 90) || (97 ≤ c.toNat && c.toNat ≤ 122)
/-- the driver instantiates the XID predicates on ASCII only (the generator
    keeps non-ASCII text away from numeric literals) -/
def xidStartA (c : Char) : Bool := asciiAlpha c
def xidContA (c : Char) : Bool := asciiAlpha c || isDigit c || c == '_'

def showLit : Option Lit → String
  | some (.int n s) => s!"int {n} {hexStr s}"
  | some (.float b s) => s!"float {b} {hexStr s}"
  | some (.asn n) => s!"asn {n}"
  | some (.ipv4 a b c d) => s!"ipv4 {a} {b} {c} {d}"
  | none => "err"

def showParts (ps : List Part) : String :=
  " ".intercalate (ps.map fun
    | .text s => "T" ++ hexStr s
    | .hole s => "H" ++ hexStr s)

def readSym (w : String) : Option LookAhead.Sym :=
  match w with
  | "{" => some (.n .lcurly) | "}" => some (.n .rcurly)
  | "(" => some (.n .lparen) | ")" => some (.n .rparen)
  | "[" => some (.n .lsquare) | "]" => some (.n .rsquare)
  | "," => some (.n .comma) | ":" => some (.n .colon) | ";" => some (.n .semi)
  | "=" => some (.n .eq) | "." => some (.n .period) | "let" => some (.n .kwLet)
  | "id" => some (.n .ident) | "lit" => some (.n .lit) | "f\"" => some (.n .fstart)
  | "op" => some (.n .binop)
  | _ =>
    if w.startsWith "T" then (w.drop 1).toNat?.map LookAhead.Sym.ftext
    else if w.startsWith "E" then (w.drop 1).toNat?.map LookAhead.Sym.fend
    else none

mutual
partial def laSexp : LookAhead.T → String
  | .id => "id" | .lit => "lit" | .unit => "unit"
  | .paren e => laSexp e
  | .bin l r => s!"(bin {laSexp l} {laSexp r})"
  | .field e => s!"(field {laSexp e})"
  | .call f a => s!"(call {laSexp f}{laSeq a})"
  | .fstr ps => s!"(fstr{laSeq ps})"
  | .list xs => s!"(list{laSeq xs})"
  | .recd fs => s!"(rec{laSeq fs})"
  | .trec p fs => s!"(trec {laSexp p}{laSeq fs})"
  | .block items => s!"(block{laSeq items})"
  | _ => "?"
/-- a sequence (items, f-string parts, block items), each element preceded by a blank -/
partial def laSeq : LookAhead.T → String
  | .cons h t => s!" {laSexp h}{laSeq t}"
  | .part k e rest => (if k == 0 then "" else " (text)") ++ s!" (hole {laSexp e}){laSeq rest}"
  | .fin k => if k == 0 then "" else " (text)"
  | .slet e rest => s!" (let {laSexp e}){laSeq rest}"
  | .stmt e rest => s!" (stmt {laSexp e}){laSeq rest}"
  | .last e => s!" (last {laSexp e})"
  | _ => ""
end

/-- `identscan cp:flags,…` — the scan of `keyword_or_ident` on the GENERATED
    character tests; the XID predicates are the table sent along (bit 0 =
    `is_xid_start`, bit 1 = `is_xid_continue`, from the unicode-ident crate).
    Answer: `none` or `some <byte length of the word>`. -/
def identScanReq (spec : String) : String :=
  let items := if spec == "-" then [] else spec.splitOn ","
  let parsed : Option (List (Char × Nat)) := items.mapM (fun it =>
    match it.splitOn ":" with
    | [h, f] =>
      (match h.toNat?, f.toNat? with
       | some cp, some fl => some (Char.ofNat cp, fl)
       | _, _ => none)
    | _ => none)
  match parsed with
  | none => "bad-op"
  | some tbl =>
    let look (bit : Nat) (c : Char) : Bool :=
      match tbl.find? (fun p => p.1 == c) with
      | some (_, fl) => (fl / bit) % 2 == 1
      | none => false
    match RotoV.IdentScan.scanWith RotoV.Gen.C09IdentScan.identFirst RotoV.Gen.C09IdentScan.identRest
        (look 1) (look 2) (tbl.map (·.1)) with
    | none => "none"
    | some (w, _) => s!"some {utf8Len w}"

def handle (args : List String) : String :=
  match args with
  | ["identscan", spec] => identScanReq spec
  | "la" :: mode :: syms =>
    match syms.mapM readSym with
    | none => "bad-op"
    | some src =>
      let cfg : LookAhead.Cfg :=
        if mode == "old" then LookAhead.cfgUnguarded
        else ⟨RotoV.Gen.LookAhead.peekStops, RotoV.Gen.LookAhead.recordWindows⟩
      match LookAhead.parseAll cfg src with
      | .ok t _ => s!"ok {laSexp t}"
      | .err => "err"
      | .panic => "panic"
      | .fuel => "fuel"
  | "pratt" :: toks =>
    match toks.mapM readTok with
    | some ts => showPRes (parseExpr rel ts)
    | none => "bad-op"
  | "ref" :: toks =>
    match toks.mapM readTok with
    | some ts =>
      match readOperand ts [] with
      | some (x0, r) =>
        match readTail r [] with
        | some tl => (match reference x0 tl with | some t => s!"ok {t.sexp}" | none => "err")
        | none => "malformed"
      | none => "malformed"
    | none => "bad-op"
  | ["rel", a, b] =>
    match BinOp.ofName a, BinOp.ofName b with
    | some a, some b => (match rel a b with | .ok r => assocName r | .panic => "panic")
    | _, _ => "bad-op"
  | ["prefix4", a, b, c, d, l] =>
    match a.toNat?, b.toNat?, c.toNat?, d.toNat?, l.toNat? with
    | some a, some b, some c, some d, some l =>
      (match prefixV4 a b c d l with | some (addr, len) => s!"ok {addr} {len}" | none => "err")
    | _, _, _, _, _ => "bad-op"
  | [kind, h] =>
    match unhexStr h with
    | none => "bad-op"
    | some cs =>
      match kind with
      | "num" => showLit (decodeNumber xidStartA xidContA cs)
      | "hex" => (match decodeHex cs with | some n => s!"int {n} -" | none => "err")
      | "asn" => showLit ((decodeAsn cs).map Lit.asn)
      | "ipv4" => showLit (decodeIpv4 cs)
      | "str" => (match unescape cs with | some s => s!"ok {hexStr s}" | none => "err")
      | "chr" => (match unescapeChar cs with | some c => s!"ok {hexStr [c]}" | none => "err")
      | "fstr" => (match fString (cs.length + 2) cs with | some ps => s!"ok {showParts ps}" | none => "err")
      | "fstrgen" =>
        -- the same with the brace pass run on the GENERATED backslash arm / brace characters
        let pt := fun raw => partTextWith
          (armConsumed RotoV.Gen.C09FStrText.backslashConds RotoV.Gen.C09FStrText.backslashSkipStop)
          RotoV.Gen.C09FStrText.braceChars raw []
        (match fStringP pt (cs.length + 2) cs with | some ps => s!"ok {showParts ps}" | none => "err")
      | "fpart" =>
        (match fStringPart cs with
         | .part .intermediate t r => s!"I {hexStr t} {utf8Len r}"
         | .part .stringEnd t r => s!"E {hexStr t} {utf8Len r}"
         | .none => "none"
         | .panic => "panic")
      | "kw" =>
        let s := String.ofList cs
        if RotoV.Gen.Precedence.keywords.contains s then "kw"
        else if RotoV.Gen.Precedence.boolWords.contains s then "bool" else "no"
      | _ => "bad-op"
  | _ => "bad-op"

end Driver.C09
