/- Driver handler owned by property C09: `c09 <args…>` requests. -/
import Driver.Util

namespace Driver.C09

def handle (_args : List String) : String := "bad-op"

end Driver.C09
