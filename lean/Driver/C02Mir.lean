/- Driver handler of property C02, `c02 mirmatch <num>*` requests: the structured dump of one MIR item
   of the REAL lowerer (hook `verif_hooks::c03::dump`, field `nums`) is decoded, flattened to its
   control-flow graph and handed to the verified checker `RotoV.ValueMir.graphOk`
   (`matchIsOnCopy`; soundness: `RotoV.C02.match_bindings_read_the_switched_value_mir`).
   and to the second verified checker `argumentsAreConsumed` (soundness:
   `RotoV.C02.call_arguments_are_consumed_mir`).
     → `ok;nodes=<n>;binds=<b>;discr=<d>;args=<k>` | `bad;var=<v>;node=<a>;nodes=<n>` |
       `badarg;var=<v>;node=<a>;nodes=<n>` | `undecodable` -/
import Driver.Util
import RotoV.Model.ValueMir

namespace Driver.C02Mir
open RotoV.ValueMir

def handle (args : List String) : String :=
  match args.mapM String.toNat? with
  | none => "undecodable"
  | some nums =>
    match decodeItem nums with
    | none => "undecodable"
    | some it =>
      let g := flatten it
      if !matchIsOnCopy it then
        match firstOffence g with
        | some (v, a) => s!"bad;var={v};node={a};nodes={g.size}"
        | none => s!"bad;var=?;node=?;nodes={g.size}"
      else if !argumentsAreConsumed it then
        match firstArgOffence g with
        | some (v, a) => s!"badarg;var={v};node={a};nodes={g.size}"
        | none => s!"badarg;var=?;node=?;nodes={g.size}"
      else s!"ok;nodes={g.size};binds={countBinds g};discr={countDiscr g};args={countHands g}"

end Driver.C02Mir
