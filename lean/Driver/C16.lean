/- Driver handler owned by property C16: `c16 <args…>` requests.

   `c16 facts`                               → the generated lock-scope facts
   `c16 enum <facts> <lists> <progs>`        → every maximal schedule of the model with its
                                               predicted observation, `|`-separated `sched:obs`
   `c16 run <facts> <lists> <progs> <sched>` → the observation of one schedule (`invalid@k` if
                                               step k is not enabled)

   `c16 ienum <facts> <lists> <iprogs>`      → the same for ADAPTIVE programs (a thread may drive a
                                               Rust-side iterator: `I<l>` `h.clone().into_iter()`, `N` `it.next()`,
                                               `Q` drop the iterator; what `next` decides is the generated
                                               `Gen.ListIter`): every maximal schedule with the observation of the
                                               step model on the operations issued (`N` = the `get` at the cursor);
                                               `not-following` if the issued programs are not `Follows`
   `c16 irun <facts> <lists> <iprogs> <sched>`   → the observation of one schedule of adaptive programs
   `c16 iprogs <facts> <lists> <iprogs> <sched>` → the static programs issued along `sched`

   facts : `gen` (regenerated from the source) or four digits `<get><ffiGet><eq><concat>` (1 = clone under guard / `==` locks in address order / concat holds both operands)
   lists : `L1.2.3;L;L4`        progs : threads `;`-separated, ops `,`-separated:
           g<l>.<i> get   f<l>.<i> ffi get   p<l>.<v> push   c<a>.<b> concat   h<l>.<v> contains
           s<l>.<i>.<j> swap   n<l> len   k<l> clone   d<l> drop   e<a>.<b> ==
           x<l>.<v> index   y<l> is_empty   t<l> to_vec
   sched : thread ids as digits
   obs   : `<steps>;<end>;<results>;<lists>;<spans>`
           steps   `,`-separated `<tid><events>~<blocked tids before the step>`,
                   events P obtained, O outside lock, U use, S stale use, F use finished, R realloc, D free
           end     `ok` | `dl` (deadlock)
           results threads `/`-separated, results `,`-separated: u | o<v> | o- | b0 | b1 | n<k> | l<e.e.e> | X (stale use)
           spans   the completed operations in completion order, `<tid>:<first step>-<last step>`
           lists   final contents, `/`-separated (`-` = every handle dropped; nothing after a deadlock)
-/
import Driver.Util
import RotoV.Model.ListConc
import RotoV.Model.ListConcIter
import RotoV.Generated.C16Facts

namespace Driver.C16
open RotoV.ListConc

def nats (s : String) (sep : String) : Option (List Nat) :=
  if s.isEmpty then some [] else (s.splitOn sep).mapM String.toNat?

def parseOp (tok : String) : Option Op :=
  if tok.isEmpty then none else
  let k := tok.front
  match k, nats (tok.drop 1).toString "." with
  | 'g', some [l, i] => some (.get l i)
  | 'f', some [l, i] => some (.ffiGet l i)
  | 'p', some [l, v] => some (.push l v)
  | 'c', some [a, b] => some (.concat a b)
  | 'h', some [l, v] => some (.contains l v)
  | 's', some [l, i, j] => some (.swap l i j)
  | 'n', some [l] => some (.len l)
  | 'k', some [l] => some (.clone l)
  | 'd', some [l] => some (.drop l)
  | 'e', some [a, b] => some (.eq a b)
  | 'x', some [l, v] => some (.index l v)
  | 'y', some [l] => some (.isEmpty l)
  | 't', some [l] => some (.toVec l)
  | _, _ => none

def parseIOp (tok : String) : Option IOp :=
  if tok == "N" then some .iterNext
  else if tok == "Q" then some .iterDrop
  else if tok.front == 'I' then
    match nats (tok.drop 1).toString "." with
    | some [l] => some (.iterNew l)
    | _ => none
  else (parseOp tok).map .base

def parseIProgs (s : String) : Option (List (List IOp)) :=
  (s.splitOn ";").mapM fun th =>
    if th.isEmpty then some [] else (th.splitOn ",").mapM parseIOp

def parseProgs (s : String) : Option (List (List Op)) :=
  (s.splitOn ";").mapM fun th =>
    if th.isEmpty then some [] else (th.splitOn ",").mapM parseOp

def parseLists (s : String) : Option (List (List Nat)) :=
  (s.splitOn ";").mapM fun l =>
    if l.startsWith "L" then nats (l.drop 1).toString "." else none

def parseFacts (s : String) : Option Facts :=
  match s with
  | "gen" => some RotoV.Gen.C16.facts
  | _ =>
    match s.toList with
    | [g, f, e, c] =>
      if [g, f, e, c].all (fun x => x == '0' || x == '1') then
        some ⟨g == '1', f == '1', e == '1', c == '1'⟩
      else none
    | _ => none

def parseSched (s : String) : Option (List Nat) :=
  s.toList.mapM fun c => if c.isDigit then some (c.toNat - '0'.toNat) else none

def showEv : Ev → String
  | .obtained => "P" | .outside => "O" | .use => "U" | .stale => "S"
  | .finished => "F" | .realloc => "R" | .free => "D"

def dots (l : List Nat) : String := ".".intercalate (l.map toString)

def showRes : Res → String
  | .unit => "u"
  | .opt none => "o-"
  | .opt (some v) => s!"o{v}"
  | .bool b => if b then "b1" else "b0"
  | .nat n => s!"n{n}"
  | .list l => "l" ++ dots l
  | .uaf => "X"

/-- run a schedule collecting, per step, events and the threads blocked before it -/
def runObs (F : Facts) (n : Nat) : State → List Nat → Nat → List String → Except String (State × List String)
  | s, [], _, acc => .ok (s, acc.reverse)
  | s, t :: rest, k, acc =>
    let bl := blocked F n s
    match step F t s with
    | none => .error s!"invalid@{k}"
    | some s' =>
      let evs := match s'.trace.getLast? with
        | some (_, e) => String.join (e.map showEv)
        | none => ""
      runObs F n s' rest (k + 1) (s!"{t}{evs}~{String.join (bl.map toString)}" :: acc)

def observe (F : Facts) (lists : List (List Nat)) (progs : List (List Op)) (sched : List Nat) : String :=
  let n := progs.length
  match runObs F n (init lists progs) sched 0 [] with
  | .error e => e
  | .ok (s, steps) =>
    let fin := if deadlocked F n s then "dl" else "ok"
    let res := "/".intercalate ((resultsOf s n).map fun rs => ",".intercalate (rs.map showRes))
    let ls := if fin == "ok" then
        "/".intercalate ((List.range lists.length).map fun l =>
          if (s.cells l).rc = 0 then "-" else dots (abs s l)) else ""
    let sp := ",".intercalate ((s.hist.zip s.spans).map fun (d, p) => s!"{d.tid}:{p.1}-{p.2}")
    s!"{",".intercalate steps};{fin};{res};{ls};{sp}"

def showOp : Op → String
  | .get l i => s!"g{l}.{i}" | .ffiGet l i => s!"f{l}.{i}" | .push l v => s!"p{l}.{v}"
  | .concat a b => s!"c{a}.{b}" | .contains l v => s!"h{l}.{v}" | .swap l i j => s!"s{l}.{i}.{j}"
  | .len l => s!"n{l}" | .clone l => s!"k{l}" | .drop l => s!"d{l}" | .eq a b => s!"e{a}.{b}"
  | .index l v => s!"x{l}.{v}" | .isEmpty l => s!"y{l}" | .toVec l => s!"t{l}"

/-- the observation of one schedule of adaptive programs: that of the step
    model on the operations issued, provided they `Follows` the adaptive ones -/
def iobserve (F : Facts) (lists : List (List Nat)) (iprogs : List (List IOp)) (sched : List Nat) : String :=
  match idrive F lists iprogs sched with
  | none => "invalid"
  | some progs =>
    match run F (init lists progs) sched with
    | none => "invalid"
    | some s =>
      if (List.range iprogs.length).all fun t =>
          decide (Follows (iprogs.getD t []) (progs.getD t []) (s.threads t).results) then
        observe F lists progs sched
      else "not-following"

def handle (args : List String) : String :=
  match args with
  | ["facts"] =>
    let f := RotoV.Gen.C16.facts
    s!"get={f.getUnderGuard} ffiGet={f.ffiGetUnderGuard} eqOrdered={f.eqOrdered} concatAtomic={f.concatAtomic}"
  | ["enum", f, ls, ps] =>
    match parseFacts f, parseLists ls, parseProgs ps with
    | some F, some lists, some progs =>
      let scheds := allSchedules F progs.length (fuelFor progs) (init lists progs)
      "|".intercalate (scheds.map fun sc =>
        s!"{String.join (sc.map toString)}:{observe F lists progs sc}")
    | _, _, _ => "bad-op"
  | ["ienum", f, ls, ps] =>
    match parseFacts f, parseLists ls, parseIProgs ps with
    | some F, some lists, some iprogs =>
      let scheds := iallSchedules F lists iprogs (ifuelFor iprogs) []
      "|".intercalate (scheds.map fun sc =>
        s!"{String.join (sc.map toString)}:{iobserve F lists iprogs sc}")
    | _, _, _ => "bad-op"
  | ["irun", f, ls, ps, sc] =>
    match parseFacts f, parseLists ls, parseIProgs ps, parseSched sc with
    | some F, some lists, some iprogs, some sched => iobserve F lists iprogs sched
    | _, _, _, _ => "bad-op"
  | ["iprogs", f, ls, ps, sc] =>
    match parseFacts f, parseLists ls, parseIProgs ps, parseSched sc with
    | some F, some lists, some iprogs, some sched =>
      match idrive F lists iprogs sched with
      | some progs => ";".intercalate (progs.map fun p => ",".intercalate (p.map showOp))
      | none => "invalid"
    | _, _, _, _ => "bad-op"
  | ["run", f, ls, ps, sc] =>
    match parseFacts f, parseLists ls, parseProgs ps, parseSched sc with
    | some F, some lists, some progs, some sched => observe F lists progs sched
    | _, _, _, _ => "bad-op"
  | _ => "bad-op"

end Driver.C16
