/- Driver handler owned by property C16: `c16 <args…>` requests. -/
import Driver.Util

namespace Driver.C16

def handle (_args : List String) : String := "bad-op"

end Driver.C16
