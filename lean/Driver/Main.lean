/-
  rotov-driver: the model's executable definitions behind a line protocol.
  One request per line on stdin (`<handler> <args…>`), one answer per line on
  stdout.  Unknown or malformed requests answer `bad-op` — never a default.
  `scalar …` is shared by C01/C10/C20; `cXX …` goes to `Driver/CXX.lean`.
-/
import Driver.Util
import Driver.Scalar
import Driver.C01
import Driver.C02
import Driver.C03
import Driver.C04
import Driver.C05
import Driver.C06
import Driver.C07
import Driver.C08
import Driver.C09
import Driver.C10
import Driver.C11
import Driver.C12
import Driver.C13
import Driver.C14
import Driver.C15
import Driver.C16
import Driver.C17
import Driver.C18
import Driver.C19
import Driver.C20

def dispatch (line : String) : String :=
  match Driver.words line with
  | "scalar" :: rest => Driver.Scalar.handle rest
  | "c01" :: rest => Driver.C01.handle rest
  | "c02" :: rest => Driver.C02.handle rest
  | "c03" :: rest => Driver.C03.handle rest
  | "c04" :: rest => Driver.C04.handle rest
  | "c05" :: rest => Driver.C05.handle rest
  | "c06" :: rest => Driver.C06.handle rest
  | "c07" :: rest => Driver.C07.handle rest
  | "c08" :: rest => Driver.C08.handle rest
  | "c09" :: rest => Driver.C09.handle rest
  | "c10" :: rest => Driver.C10.handle rest
  | "c11" :: rest => Driver.C11.handle rest
  | "c12" :: rest => Driver.C12.handle rest
  | "c13" :: rest => Driver.C13.handle rest
  | "c14" :: rest => Driver.C14.handle rest
  | "c15" :: rest => Driver.C15.handle rest
  | "c16" :: rest => Driver.C16.handle rest
  | "c17" :: rest => Driver.C17.handle rest
  | "c18" :: rest => Driver.C18.handle rest
  | "c19" :: rest => Driver.C19.handle rest
  | "c20" :: rest => Driver.C20.handle rest
  | "ping" :: _ => "pong"
  | _ => "bad-op"

partial def loop (h : IO.FS.Stream) (out : IO.FS.Stream) : IO Unit := do
  let line ← h.getLine
  if line.isEmpty then return ()
  out.putStrLn (dispatch line)
  out.flush
  loop h out

def main : IO Unit := do loop (← IO.getStdin) (← IO.getStdout)
