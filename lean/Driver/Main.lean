/-
  rotov-driver: the model's executable definitions behind a line protocol.
  One request per line on stdin (`<handler> <args…>`), one answer per line on
  stdout.  Unknown or malformed requests answer `bad-op` — never a default.
-/
import Driver.Util
import Driver.Scalar

def dispatch (line : String) : String :=
  match Driver.words line with
  | "scalar" :: rest => Driver.Scalar.handle rest
  | "ping" :: _ => "pong"
  | _ => "bad-op"

partial def loop (h : IO.FS.Stream) (out : IO.FS.Stream) : IO Unit := do
  let line ← h.getLine
  if line.isEmpty then return ()
  out.putStrLn (dispatch line)
  out.flush
  loop h out

def main : IO Unit := do loop (← IO.getStdin) (← IO.getStdout)
