/- Driver handler owned by property C04: `c04 <args…>` requests.

   `c04 get <hex>` — `<hex>` is the hex encoding of the s-expression
     (get (env (rt SCOPE #ident ID)…) (fns ITEM…) #name (rust (R…) R))
   with ITEM ::= (fn #key (T…) T) | (fm #key (T…) S S) | (test #modpath #ident) | (const #modpath #ident T)
               | (type #modpath #ident) | (import #modpath #ident) | (helper #key)
   — the declarations of the script and the generated helpers; the table `get_function`
   consults is what the modelled compiler pipeline (`RotoV.GateTab.Pipeline.table` over the
   generated `Gen.GateTab.pipeline`) makes of them —
   where `fm` is a filtermap given by what its body does with the accept and
   the reject side, S ::= unused | T (the payload type; `unit` for a bare
   `accept`), whose signature the model derives (`filtermapSignature`),
   with script types
     T ::= unit | never | intvar | floatvar | (var N) | (record N) | (n SCOPE #ident T…)
     SCOPE ::= g | N
   and Rust types (registry descriptions)
     R ::= (leaf #rustname) | (oleaf N) | (option R) | (list R) | (result R R)
         | (verdict R R) | (val N) | unknown
   Identifiers are `#` followed by the hex of their UTF-8 bytes.
   Answer: `<model> <spec>` where `<model>` is the outcome of the modelled
   `get_function` over the *generated* gate
     ok | dne | arity E G | arg I | ret | panic
   and `<spec>` is `spec-ok` / `spec-no`: the right-hand side of
   `RotoV.C04.get_function_iff`, computed with the documented `mapping`.
-/
import Driver.Util
import RotoV.Model.Gate
import RotoV.Model.GateTab
import RotoV.Generated.Gate
import RotoV.Generated.GateTab
import RotoV.Model.GateUF
import RotoV.Generated.GateUF

namespace Driver.C04
open RotoV.Gate RotoV.GateTab

inductive Sexp
  | atom (s : String)
  | list (xs : List Sexp)
  deriving Inhabited

def tokens (s : String) : List String :=
  let rec go : List Char → String → List String → List String
    | [], cur, acc => (if cur.isEmpty then acc else cur :: acc).reverse
    | c :: cs, cur, acc =>
      let flush := if cur.isEmpty then acc else cur :: acc
      if c == '(' then go cs "" ("(" :: flush)
      else if c == ')' then go cs "" (")" :: flush)
      else if c == ' ' || c == '\n' then go cs "" flush
      else go cs (cur.push c) acc
  go s.toList "" []

mutual
partial def parseOne : List String → Option (Sexp × List String)
  | [] => none
  | "(" :: rest => do
    let (xs, rest) ← parseMany rest []
    pure (.list xs, rest)
  | ")" :: _ => none
  | a :: rest => some (.atom a, rest)
partial def parseMany : List String → List Sexp → Option (List Sexp × List String)
  | [], _ => none
  | ")" :: rest, acc => some (acc.reverse, rest)
  | toks, acc => do
    let (x, rest) ← parseOne toks
    parseMany rest (x :: acc)
end

def identOf (s : String) : Option Ident := do
  guard (s.startsWith "#")
  let bytes ← unhex (s.drop 1).toString
  let str ← String.fromUTF8? (ByteArray.mk bytes.toArray)
  pure (ident str)

def scopeOf (s : String) : Option ScopeRef :=
  if s == "g" then some .GLOBAL else s.toNat?.map .other

partial def rotoTy : Sexp → Option RotoTy
  | .atom "unit" => some .unit
  | .atom "never" => some .never
  | .atom "intvar" => some .intVar
  | .atom "floatvar" => some .floatVar
  | .list [.atom "var", .atom n] => n.toNat?.map .var
  | .list [.atom "record", .atom n] => n.toNat?.map .record
  | .list (.atom "n" :: .atom sc :: .atom i :: args) => do
    let sc ← scopeOf sc
    let i ← identOf i
    let args ← args.mapM rotoTy
    pure (.name ⟨sc, i⟩ args)
  | _ => none

partial def rustTy : Sexp → Option RustTy
  | .atom "unknown" => some .unknown
  | .list [.atom "leaf", .atom n] => (identOf n).map (fun i => .leaf (.prim i))
  | .list [.atom "oleaf", .atom n] => n.toNat?.map (fun k => .leaf (.opaque k))
  | .list [.atom "val", .atom n] => n.toNat?.map (fun k => .val (.opaque k))
  | .list [.atom "option", r] => (rustTy r).map .option
  | .list [.atom "list", r] => (rustTy r).map .list
  | .list [.atom "result", a, b] => do pure (.result (← rustTy a) (← rustTy b))
  | .list [.atom "verdict", a, b] => do pure (.verdict (← rustTy a) (← rustTy b))
  | _ => none

def envOf (xs : List Sexp) : Option TypeInfo := do
  let entries ← xs.mapM (fun
    | .list [.atom "rt", .atom sc, .atom i, .atom id] => do
      pure ((⟨← scopeOf sc, ← identOf i⟩ : ResolvedName), ← id.toNat?)
    | _ => none)
  pure ⟨fun n =>
    match entries.find? (fun e => e.1 == n) with
    | some e => .runtime n (.opaque e.2)
    | none => .enum⟩

/-- what a filtermap body does with a side: `unused`, or the payload type -/
def sideOf : Sexp → Option (Option RotoTy)
  | .atom "unused" => some none
  | t => (rotoTy t).map some

/-- One item of the `(fns …)` list: a declaration of the script, or a generated helper.
    `(fn #key (T…) T)`, `(fm #key (T…) S S)`: a function / filtermap given by its whole key;
    `(test #modpath #ident)`, `(const #modpath #ident T)`, `(type #modpath #ident)`,
    `(import #modpath #ident)`: a declaration by module path and identifier — the key it
    is known under, and whether it enters the table at all, is the model's business
    (`Pipeline.entry` over the stages as the source has them);
    `(helper #key)`: a generated helper, split into the prefix the source knows and the rest. -/
def itemOf : Sexp → Option (Sum Decl (Ident × Ident))
  | .list [.atom "fn", .atom k, .list ps, ret] => do
    pure (.inl ⟨.function, [], ← identOf k, ⟨← ps.mapM rotoTy, ← rotoTy ret⟩⟩)
  | .list [.atom "fm", .atom k, .list ps, a, r] => do
    -- the signature `filter_map_type` + `force_filtermap_types` leave behind
    let sig ← filtermapSignature (ident "Verdict") (← ps.mapM rotoTy) (← sideOf a) (← sideOf r)
    pure (.inl ⟨.filterMap, [], ← identOf k, sig⟩)
  | .list [.atom "test", .atom m, .atom i] => do
    pure (.inl ⟨.test, ← identOf m, ← identOf i, testSignature (ident "Verdict")⟩)
  | .list [.atom "const", .atom m, .atom i, t] => do
    pure (.inl ⟨.const, ← identOf m, ← identOf i, ⟨[], ← rotoTy t⟩⟩)
  | .list [.atom "type", .atom m, .atom i] => do
    pure (.inl ⟨.record, ← identOf m, ← identOf i, ⟨[], .unit⟩⟩)
  | .list [.atom "import", .atom m, .atom i] => do
    pure (.inl ⟨.import, ← identOf m, ← identOf i, ⟨[], .unit⟩⟩)
  | .list [.atom "helper", .atom k] => do
    let k ← identOf k
    let known := RotoV.Gen.GateTab.pipeline.helperItems.map (·.1)
    match known.find? (fun p => p.isPrefixOf k) with
    | some p => pure (.inr (p, k.drop p.length))
    | none => pure (.inr ([], k))
  | _ => none

/-- the table the compiler builds for the listed items (`Pipeline.table`) -/
def fnsOf (xs : List Sexp) : Option Functions := do
  let items ← xs.mapM itemOf
  let decls := items.filterMap (fun | .inl d => some d | .inr _ => none)
  let helpers := items.filterMap (fun | .inr h => some h | .inl _ => none)
  pure (RotoV.Gen.GateTab.pipeline.table decls helpers)

def hexOf (i : Ident) : String :=
  String.join ((Ident.toString i).toUTF8.toList.map (fun b =>
    let d := fun (n : Nat) => Char.ofNat (if n < 10 then 48 + n else 87 + n)
    String.ofList [d (b.toNat / 16), d (b.toNat % 16)]))

def showGet : GetRes → String
  | .ok => "ok"
  | .doesNotExist => "dne"
  | .incorrectNumberOfArguments e g => s!"arity {e} {g}"
  | .argMismatch i => s!"arg {i}"
  | .retMismatch => "ret"
  | .panic => "panic"

/-- the right-hand side of `get_function_iff`, decided -/
def specOk (ti : TypeInfo) (fns : Functions) (name : Ident) (f : RustFn) : Bool :=
  match lookupFn fns (pkgPrefix ++ name) with
  | some (some sig) =>
    sig.parameter_types.length == f.args.length
      && (sig.parameter_types.zip f.args).all (fun p => mapping ti p.1 == some p.2)
      && mapping ti sig.return_type == some f.ret
  | _ => false

def handleGet (hex : String) : Option String := do
  let bytes ← unhex hex
  let str ← String.fromUTF8? (ByteArray.mk bytes.toArray)
  let (sx, _) ← parseOne (tokens str)
  match sx with
  | .list [.atom "get", .list (.atom "env" :: env), .list (.atom "fns" :: fns), .atom name,
           .list [.atom "rust", .list args, ret]] =>
    let ti ← envOf env
    let fns ← fnsOf fns
    let name ← identOf name
    let f : RustFn := ⟨← args.mapM rustTy, ← rustTy ret⟩
    let model := getFunction (RotoV.Gen.Gate.checkRotoType ti) fns name f
    let spec := specOk ti fns name f
    pure s!"{showGet model} {if spec then "spec-ok" else "spec-no"}"
  | _ => none

/-- `c04 table <hex of (fns …)>`: the modelled table, `#key+` (entry with a signature) /
    `#key-` (entry without), in table order -/
def handleTable (hex : String) : Option String := do
  let bytes ← unhex hex
  let str ← String.fromUTF8? (ByteArray.mk bytes.toArray)
  let (sx, _) ← parseOne (tokens str)
  match sx with
  | .list (.atom "fns" :: fns) =>
    let t ← fnsOf fns
    pure (" ".intercalate (t.map (fun e => s!"#{hexOf e.1}{if e.2.isSome then "+" else "-"}")))
  | _ => none

/-! `c04 uf SLOT…` — a dumped union-find table (`UnionFind::inner` of a real package), SLOT ::=
   `V<k><index>` (k = v | i | f | r | e: Var, IntVar, FloatVar, RecordVar, ExplicitVar) | `T<n>` (any other
   type, `n` an opaque number). The modelled `find` (kinds as generated from the source) is run for every index
   in turn **on one table** (each lookup sees what the earlier ones compressed). Answer: the answers in order
   (`panic` where the model says the real code panics), `|`, the table left. -/
section uf
open RotoV.GateUF

def ufSlot (s : String) : Option (Slot Nat) :=
  match s.toList with
  | 'T' :: ds => (String.ofList ds).toNat?.map Slot.ty
  | 'V' :: k :: ds => do
    let kind ← match k with
      | 'v' => some VarKind.var | 'i' => some VarKind.intVar | 'f' => some VarKind.floatVar
      | 'r' => some VarKind.recordVar | 'e' => some VarKind.explicitVar | _ => none
    let i ← (String.ofList ds).toNat?
    pure (Slot.var kind i)
  | _ => none

def showSlot : Slot Nat → String
  | .ty n => s!"T{n}"
  | .var k i =>
    let c := match k with
      | .var => "v" | .intVar => "i" | .floatVar => "f" | .recordVar => "r" | .explicitVar => "e"
    s!"V{c}{i}"

def handleUf (toks : List String) : Option String := do
  let table ← toks.mapM ufSlot
  let fuel := table.length + 1
  let ff := followsOf RotoV.Gen.GateUF.findFollows
  let (tb, acc) := (List.range table.length).foldl (fun (st : List (Slot Nat) × List String) i =>
    match find ff fuel st.1 i with
    | none => (st.1, "panic" :: st.2)
    | some (t, tb') => (tb', showSlot t :: st.2)) (table, [])
  -- the read-only lookup on the table the history left: must give the same answers
  let refs := (List.range tb.length).map (fun i =>
    match findRef (followsOf RotoV.Gen.GateUF.findRefFollows) fuel tb i with
    | none => "panic" | some t => showSlot t)
  pure (" ".intercalate acc.reverse ++ " | " ++ " ".intercalate (tb.map showSlot) ++ " | " ++ " ".intercalate refs)
end uf

def handle (args : List String) : String :=
  match args with
  | ["get", hex] => (handleGet hex).getD "bad-op"
  | "uf" :: toks => (handleUf toks).getD "bad-op"
  | ["table", hex] => (handleTable hex).getD "bad-op"
  | ["tables"] =>
    -- the generated tables, for the evidence file
    let names := RotoV.Gen.Gate.leafNames.map (fun p => Ident.toString p.2)
    s!"arities={RotoV.Gen.Gate.funcArities} steps={RotoV.Gen.Gate.getFunctionSteps} leaves={names}"
  | _ => "bad-op"

end Driver.C04
