/- Driver handler owned by property C04: `c04 <args…>` requests. -/
import Driver.Util

namespace Driver.C04

def handle (_args : List String) : String := "bad-op"

end Driver.C04
