/-
  Driver handler owned by property C07: `c07 <args…>` requests.

    c07 prog <sexp>            → ok | err <rule> | bad-parse
        the declarative checker `RotoV.Typing.checkProg` on a program printed by
        harness/src/bin/c07.rs:
          prog ::= (prog decl…)
          decl ::= (fn N ((x ty)…) ty blk) | (const N ty expr)
                 | (rec N ((f ty)…)) | (enum N ((k ty…)…))
          ty   ::= u8|…|i64|f32|f64|bool|str|unit|char|ip|prefix|asn
                 | (opt ty) | (list ty) | (t N) | (verdict ty ty)
          blk  ::= (blk (stmt…) [expr])
          stmt ::= (let x ty|_ expr) | (do expr)
          expr ::= (int suf|_) | (float f32|f64|_) | (bool) | (str) | (unitlit)
                 | (var x) | (const c) | (field e f) | (neg e) | (not e) | (bin op l r)
                 | (if c blk [blk]) | (while c blk) | (for x e blk) | (block blk)
                 | (call f e…) | (mcall e m e…) | (set 0|1 x (p…) e) | (cset op 0|1 x (p…) e)
                 | (ret ret|accept|reject [e]) | (record T (f e)…) | (list e…)
                 | (ctor T K e…) | (some e) | (none) | (try e) | (match e arm…) | (fstr e…)
          arm  ::= (arm pat expr|_ blk)
          pat  ::= _ | (p some|none|K n) | (p some|none|K b x…)
    c07 infer <sexp>           → ok | ok unsolved | err <class> | ice | stuck | bad-parse
        the model of the inference pass `RotoV.TcInfer.checkProgM` on the same program text
    c07 op <op> <l> <r>        → ok <t> | rej     (`TcRules.binopReal`)
    c07 opdoc <op> <l> <r>     → ok | rej         (documented rule `Typing.binopTy`)
    c07 neg <t> / c07 not <t>  → ok <t> | rej
    c07 assign <0|1> <local|constant|context> → ok | rej   (`TcRules.assignAccepts`; 1 = compound)
    c07 tostr none | c07 tostr <ret> <param>…  → ok | rej   (`TcBuiltin.fstringPartAccepts`: the `to_string` a part's type has; types 0 = the part's type, 1 = String, others)
    c07 match <v:arity,…> <arm,…>   → ok | err <kind> ; doc ok | doc err <kind>
        arm ::= _[g] | NAME:n[g] | NAME:b<k>[:dup][g]   (NAME = some|none|K<i>)
    c07 unify <sexp>           → same output format as the hook
        `roto::verif_hooks::c07::unify_script`
    c07 decl <scope:id:kind,…> → ok | err <index of the rejected insertion>
    c07 compat <t:u,…|never>        → typable | untypable   (all pairs `Typing.compat`)
    c07 rec fits <fields> <fields>  → typable | untypable   (`Typing.recLitFits`: record literal vs record type)
    c07 rec field <fields> <f> <ty> → typable | untypable   (`Typing.recFieldFits`)
    c07 lit <n> <stmt,…>            → typable | untypable   (`Typing.ltypable`)
    c07 cyc <kinds> <edges>         → comps=<a,b;c;…> out=<ord:a,b,…|rec:n|ctx:n> valid=<0|1> rule=<0|1>
        reference graph (`c`/`f`/`x`/`o` per node id; edges `k:t,t;k:;…` or `-`): `tarjan` and
        `find_compilation_order` as written (Model/Tarjan.lean), the verified certificate checker on
        the components, and the documented rule `TcValueCycle.ruleRejects` (a constant on a cycle)
    c07 scope (q (mods (mod N P|- (id…) (path…))…) (enums (T K…)…) (uses (use M ((path…)…) path)…))
                                    → wf=<0|1> imports=<0|1> | <verdict> ; <verdict> …
        the scoping rules for packages of several modules (`Model/TcModules.lean`): per use
        `ok module:i` | `ok item:m:id` | `ok variant:m:t:k` | `err import` | `err scope`;
        id ::= super | pkg | m<N> | f<N> | C<N> | T<N> | K<N>,  path ::= (id…)
    c07 cyccert <kinds> <edges> <comps> → valid=<0|1>   (`Tarjan.validOrder` on components computed by the real code)
-/
import Driver.Util
import RotoV.Model.Typing
import RotoV.Model.UnifyTc
import RotoV.Model.TcRules
import RotoV.Model.TcInfer
import RotoV.Model.TcInferSem
import RotoV.Model.TcValueCycle
import RotoV.Model.TcModules
import RotoV.Model.TcBuiltin

namespace Driver.C07
open RotoV RotoV.Typing

inductive Sexp
  | atom (s : String)
  | list (xs : List Sexp)
  deriving Inhabited

def tokens (s : String) : List String :=
  let step (acc : List String × String) (c : Char) : List String × String :=
    let (out, cur) := acc
    let flush := if cur.isEmpty then out else cur :: out
    if c = '(' then ("(" :: flush, "")
    else if c = ')' then (")" :: flush, "")
    else if c = ' ' || c = '\n' || c = '\t' then (flush, "")
    else (out, cur.push c)
  let (out, cur) := s.foldl step ([], "")
  (if cur.isEmpty then out else cur :: out).reverse

partial def parseSexp : List String → Option (Sexp × List String)
  | [] => none
  | "(" :: rest =>
    let rec go (ts : List String) (acc : List Sexp) : Option (Sexp × List String) :=
      match ts with
      | [] => none
      | ")" :: rest => some (.list acc.reverse, rest)
      | ts => match parseSexp ts with
        | some (x, rest) => go rest (x :: acc)
        | none => none
    go rest []
  | ")" :: _ => none
  | a :: rest => some (.atom a, rest)

def parseITy : String → Option ITy
  | "u8" => some .u8 | "u16" => some .u16 | "u32" => some .u32 | "u64" => some .u64
  | "i8" => some .i8 | "i16" => some .i16 | "i32" => some .i32 | "i64" => some .i64
  | _ => none

partial def parseTy : Sexp → Option Ty
  | .atom "f32" => some .f32 | .atom "f64" => some .f64 | .atom "bool" => some .bool
  | .atom "str" => some .string | .atom "unit" => some .unit
  | .atom "char" => some (.prim 0) | .atom "ip" => some (.prim 1)
  | .atom "prefix" => some (.prim 2) | .atom "asn" => some (.prim 3)
  | .atom s => (parseITy s).map .int
  | .list [.atom "opt", t] => (parseTy t).map .opt
  | .list [.atom "list", t] => (parseTy t).map .list
  | .list [.atom "t", .atom n] => n.toNat?.map .named
  | .list [.atom "verdict", a, r] => do pure (.verdict (← parseTy a) (← parseTy r))
  | _ => none

def parseOp : String → Option BinOp
  | "add" => some .add | "sub" => some .sub | "mul" => some .mul | "div" => some .div
  | "mod" => some .mod | "eq" => some .eq | "ne" => some .ne | "lt" => some .lt
  | "le" => some .le | "gt" => some .gt | "ge" => some .ge | "and" => some .and
  | "or" => some .or | _ => none

def parseNat : Sexp → Option Nat
  | .atom s => s.toNat?
  | _ => none

def parsePatName : Sexp → Option PatName
  | .atom "some" => some .some
  | .atom "none" => some .none
  | .atom s => s.toNat?.map .user
  | _ => none

def parsePat : Sexp → Option Pat
  | .atom "_" => some .wild
  | .list (.atom "p" :: n :: .atom "n" :: []) => do pure (.variant (← parsePatName n) none)
  | .list (.atom "p" :: n :: .atom "b" :: xs) => do
    pure (.variant (← parsePatName n) (some (← xs.mapM parseNat)))
  | _ => none

mutual
partial def parseExpr : Sexp → Option Expr
  | .list [.atom "int", .atom "_"] => some (.intLit none)
  | .list [.atom "int", .atom s] => (parseITy s).map fun t => .intLit (some t)
  | .list [.atom "float", .atom "_"] => some (.floatLit none)
  | .list [.atom "float", .atom "f32"] => some (.floatLit (some false))
  | .list [.atom "float", .atom "f64"] => some (.floatLit (some true))
  | .list [.atom "bool"] => some .boolLit
  | .list [.atom "str"] => some .strLit
  | .list [.atom "unitlit"] => some .unitLit
  | .list [.atom "var", x] => (parseNat x).map .var
  | .list [.atom "const", x] => (parseNat x).map .const
  | .list [.atom "field", e, f] => do pure (.field (← parseExpr e) (← parseNat f))
  | .list [.atom "neg", e] => (parseExpr e).map .neg
  | .list [.atom "not", e] => (parseExpr e).map .not
  | .list [.atom "bin", .atom op, l, r] => do
    pure (.bin (← parseOp op) (← parseExpr l) (← parseExpr r))
  | .list [.atom "if", c, t] => do pure (.ite (← parseExpr c) (← parseBlock t) none)
  | .list [.atom "if", c, t, e] => do
    pure (.ite (← parseExpr c) (← parseBlock t) (some (← parseBlock e)))
  | .list [.atom "while", c, b] => do pure (.while (← parseExpr c) (← parseBlock b))
  | .list [.atom "for", x, e, b] => do
    pure (.for (← parseNat x) (← parseExpr e) (← parseBlock b))
  | .list [.atom "block", b] => (parseBlock b).map .block
  | .list (.atom "call" :: f :: args) => do pure (.call (← parseNat f) (← args.mapM parseExpr))
  | .list (.atom "mcall" :: e :: m :: args) => do
    pure (.mcall (← parseExpr e) (← parseNat m) (← args.mapM parseExpr))
  | .list [.atom "set", .atom c, x, .list path, e] => do
    pure (.assign (c == "1") (← parseNat x) (← path.mapM parseNat) (← parseExpr e))
  | .list [.atom "cset", .atom op, .atom c, x, .list path, e] => do
    pure (.cassign (← parseOp op) (c == "1") (← parseNat x) (← path.mapM parseNat) (← parseExpr e))
  | .list [.atom "ret", .atom k] => do pure (.ret (← parseKind k) none)
  | .list [.atom "ret", .atom k, e] => do pure (.ret (← parseKind k) (some (← parseExpr e)))
  | .list (.atom "record" :: t :: fields) => do
    pure (.record (← parseNat t) (← fields.mapM parseField))
  | .list (.atom "list" :: es) => do pure (.listLit (← es.mapM parseExpr))
  | .list (.atom "ctor" :: t :: k :: args) => do
    pure (.ctor (← parseNat t) (← parseNat k) (← args.mapM parseExpr))
  | .list [.atom "some", e] => (parseExpr e).map .some
  | .list [.atom "none"] => some .none
  | .list [.atom "try", e] => (parseExpr e).map .try
  | .list (.atom "match" :: e :: arms) => do
    pure (.match (← parseExpr e) (← arms.mapM parseArm))
  | .list (.atom "fstr" :: es) => do pure (.fstr (← es.mapM parseExpr))
  | _ => none

partial def parseKind : String → Option RetKind
  | "ret" => some .ret | "accept" => some .accept | "reject" => some .reject | _ => none

partial def parseField : Sexp → Option Field
  | .list [f, e] => do pure (.mk (← parseNat f) (← parseExpr e))
  | _ => none

partial def parseArm : Sexp → Option Arm
  | .list [.atom "arm", p, .atom "_", b] => do pure (.mk (← parsePat p) none (← parseBlock b))
  | .list [.atom "arm", p, g, b] => do
    pure (.mk (← parsePat p) (some (← parseExpr g)) (← parseBlock b))
  | _ => none

partial def parseStmt : Sexp → Option Stmt
  | .list [.atom "let", x, .atom "_", e] => do pure (.let_ (← parseNat x) none (← parseExpr e))
  | .list [.atom "let", x, t, e] => do
    pure (.let_ (← parseNat x) (some (← parseTy t)) (← parseExpr e))
  | .list [.atom "do", e] => (parseExpr e).map .expr
  | _ => none

partial def parseBlock : Sexp → Option Block
  | .list [.atom "blk", .list stmts] => do pure (.mk (← stmts.mapM parseStmt) none)
  | .list [.atom "blk", .list stmts, e] => do
    pure (.mk (← stmts.mapM parseStmt) (some (← parseExpr e)))
  | _ => none
end

def parseBinding : Sexp → Option (Nat × Ty)
  | .list [x, t] => do pure (← parseNat x, ← parseTy t)
  | _ => none

def parseVariant : Sexp → Option (Nat × List Ty)
  | .list (k :: tys) => do pure (← parseNat k, ← tys.mapM parseTy)
  | _ => none

def parseDecl : Sexp → Option Decl
  | .list [.atom "fn", n, .list ps, rt, body] => do
    pure (.fn (← parseNat n) (← ps.mapM parseBinding) (← parseTy rt) (← parseBlock body))
  | .list [.atom "const", n, t, e] => do pure (.const (← parseNat n) (← parseTy t) (← parseExpr e))
  | .list [.atom "rec", n, .list fs] => do pure (.type (← parseNat n) (.record (← fs.mapM parseBinding)))
  | .list [.atom "enum", n, .list vs] => do pure (.type (← parseNat n) (.enum (← vs.mapM parseVariant)))
  | _ => none

def parseProg : Sexp → Option Prog
  | .list (.atom "prog" :: ds) => do pure ⟨← ds.mapM parseDecl⟩
  | _ => none

def handleProg (text : String) : String :=
  match parseSexp (tokens text) with
  | some (sx, []) =>
    match parseProg sx with
    | some p => match checkProg p with
      | .ok _ => "ok"
      | .error e => s!"err {e}"
    | none => "bad-parse"
  | _ => "bad-parse"

/-- `c07 infer <sexp>`: the model of the inference pass (`TcInfer.checkProgM`) -/
def handleInfer (text : String) : String :=
  match parseSexp (tokens text) with
  | some (sx, []) =>
    match parseProg sx with
    | some p => match TcInfer.checkProgM p with
      | .ok _ st =>
        -- the premise of `infer_sound_partial`: the store left behind has a solution
        if TcInfer.satB (TcInfer.solve st.store) st.store then "ok" else "ok unsolved"
      | .err e => s!"err {e.show}"
      | .ice => "ice"
      | .stuck => "stuck"
    | none => "bad-parse"
  | _ => "bad-parse"

/-! operator table -/
open RotoV.TcRules in
def parseOTy : String → Option OTy
  | "f32" => some .f32 | "f64" => some .f64 | "bool" => some .bool | "str" => some .string
  | "char" => some .char | "ip" => some .ipAddr | "prefix" => some .prefix | "asn" => some .asn
  | "unit" => some .unit | "listi32" => some .listI32 | "liststr" => some .listStr
  | "opti32" => some .optI32 | "record" => some .record
  | "intvar" => some (.intVar false) | "sintvar" => some (.intVar true) | "floatvar" => some .floatVar
  | s => (parseITy s).map .int

def showITy : ITy → String
  | .u8 => "u8" | .u16 => "u16" | .u32 => "u32" | .u64 => "u64"
  | .i8 => "i8" | .i16 => "i16" | .i32 => "i32" | .i64 => "i64"

open RotoV.TcRules in
def showOTy : OTy → String
  | .int t => showITy t | .f32 => "f32" | .f64 => "f64" | .bool => "bool" | .string => "str"
  | .char => "char" | .ipAddr => "ip" | .prefix => "prefix" | .asn => "asn" | .unit => "unit"
  | .listI32 => "listi32" | .listStr => "liststr" | .optI32 => "opti32" | .record => "record"
  | .intVar false => "intvar" | .intVar true => "sintvar" | .floatVar => "floatvar"

def showRes (r : Option TcRules.OTy) : String :=
  match r with | some t => s!"ok {showOTy t}" | none => "rej"

/-! match bookkeeping -/
def parsePatNameStr (s : String) : Option PatName :=
  if s == "some" then some .some else if s == "none" then some .none
  else if s.startsWith "K" then (s.drop 1).toString.toNat?.map .user else none

def stripGuard (s : String) : String × Bool :=
  if s.endsWith "g" && s != "g" then ((s.dropEnd 1).toString, true) else (s, false)

/-- `_`, `_g`, `NAME:n`, `NAME:ng`, `NAME:b<k>`, `NAME:b<k>:dup` (two equal binders), each optionally ending in `g` -/
def parseArmHead (s : String) : Option ArmHead :=
  let (body, guarded) := stripGuard s
  if body == "_" then some ⟨.wild, guarded⟩ else
  match body.splitOn ":" with
  | [n, "n"] => do pure ⟨.variant (← parsePatNameStr n) none, guarded⟩
  | [n, b] =>
    if b.startsWith "b" then do
      let k ← (b.drop 1).toString.toNat?
      pure ⟨.variant (← parsePatNameStr n) (some (List.range k)), guarded⟩
    else none
  | [n, b, "dup"] =>
    if b.startsWith "b" then do
      let k ← (b.drop 1).toString.toNat?
      pure ⟨.variant (← parsePatNameStr n) (some ((List.range k).map fun i => if i == 1 then 0 else i)), guarded⟩
    else none
  | _ => none

def parseVariantSpec (s : String) : Option (PatName × Nat) :=
  match s.splitOn ":" with
  | [n, k] => do pure (← parsePatNameStr n, ← k.toNat?)
  | _ => none

def showMatchErr : TcRules.MatchErr → String
  | .unreachableAfterDefault => "unreachable" | .unknownVariant => "unknown-variant"
  | .variantHasNoFields => "no-fields" | .patternArity => "arity"
  | .needArguments => "need-arguments" | .declaredTwice => "declared-twice"
  | .nonExhaustive => "non-exhaustive"
  | .unreachableDuplicate => "unreachable"

def csv (s : String) : List String := (s.splitOn ",").filter (· ≠ "")

def handleMatch (vs arms : String) : String :=
  match (csv vs).mapM parseVariantSpec, (if arms == "-" then some [] else (csv arms).mapM parseArmHead) with
  | some vs, some arms =>
    let real := match TcRules.matchReal vs arms with
      | none => "ok" | some e => s!"err {showMatchErr e}"
    let docVs := vs.map fun (n, k) => (n, List.replicate k Ty.unknown)
    let doc := match matchHeads docVs arms [] false with
      | none =>
        -- duplicate binders are a redeclaration under the documented rules
        if arms.any (fun h => match h.pat with | .variant _ (some xs) => hasDup xs | _ => false)
        then "doc err redeclared" else "doc ok"
      | some e => s!"doc err {e}"
    s!"{real} ; {doc}"
  | _, _ => "bad-op"

/-! unification scripts -/
open RotoV.Unify

partial def parseMTy : Sexp → Option MTy
  | .atom "unit" => some .unit
  | .atom "never" => some .never
  | .list [.atom "v", n] => (parseNat n).map .var
  | .list [.atom "e", n] => (parseNat n).map .explicitVar
  | .list [.atom "iv", n, s] => do pure (.intVar (← parseNat n) ((← parseNat s) == 1))
  | .list [.atom "fv", n] => (parseNat n).map .floatVar
  | .list (.atom "rv" :: n :: fs) => do pure (.recordVar (← parseNat n) (← fs.mapM parseMField))
  | .list (.atom "rec" :: fs) => do pure (.record (← fs.mapM parseMField))
  | .list [.atom "fn", .list ps, r] => do pure (.func (← ps.mapM parseMTy) (← parseMTy r))
  | .list (.atom "n" :: n :: args) => do pure (.name (← parseNat n) (← args.mapM parseMTy))
  | _ => none
where
  parseMField : Sexp → Option (Nat × MTy)
    | .list [f, t] => do pure (← parseNat f, ← parseMTy t)
    | _ => none

partial def showMTy : MTy → String
  | .var n => s!"(v {n})"
  | .explicitVar n => s!"(e {n})"
  | .intVar n s => s!"(iv {n} {if s then 1 else 0})"
  | .floatVar n => s!"(fv {n})"
  | .recordVar n fs => s!"(rv {n}{showFields fs})"
  | .unit => "unit"
  | .never => "never"
  | .record fs => s!"(rec{showFields fs})"
  | .func ps r => s!"(fn ({" ".intercalate (ps.map showMTy)}) {showMTy r})"
  | .name n args => s!"(n {n}{String.join (args.map fun a => " " ++ showMTy a)})"
where
  showFields (fs : List (Nat × MTy)) : String :=
    String.join (fs.map fun (f, t) => s!" ({f} {showMTy t})")

def builtinDef (n : Nat) : TDef :=
  if n < 4 then .int false else if n < 8 then .int true else if n < 10 then .float else .other

def mkDefs (user : List (Nat × List (Nat × MTy))) : Defs := fun n =>
  match user.lookup n with
  | some fs => .record fs
  | none => builtinDef n

structure UState where
  store : Store
  out : List String
  dead : Option String   -- `ice` / `stuck` ends the script

def runOp (d : Defs) (st : UState) (op : Sexp) : UState :=
  if st.dead.isSome then st else
  match op with
  | .list [.atom "fresh", .atom k] =>
    let (t, s) := fresh st.store fun n =>
      if k == "i" then .intVar n false else if k == "f" then .floatVar n else .var n
    { st with store := s, out := st.out ++ ["T" ++ showMTy t] }
  | .list (.atom "freshrec" :: fs) =>
    match fs.mapM parseMTy.parseMField with
    | some fs =>
      let (t, s) := fresh st.store fun n => .recordVar n fs
      { st with store := s, out := st.out ++ ["T" ++ showMTy t] }
    | none => { st with dead := some "bad-op" }
  | .list [.atom "unify", a, b] =>
    match parseMTy a, parseMTy b with
    | some a, some b =>
      match unify d defaultFuel st.store a b with
      | .ok _ s => { st with store := s, out := st.out ++ ["ok"] }
      | .fail s => { st with store := s, out := st.out ++ ["fail"] }
      | .ice => { st with dead := some "ice" }
      | .stuck => { st with dead := some "stuck" }
    | _, _ => { st with dead := some "bad-op" }
  | .list [.atom "unifytop", a, b] =>
    match parseMTy a, parseMTy b with
    | some a, some b =>
      match unifyTop d defaultFuel st.store a b with
      | .ok _ s => { st with store := s, out := st.out ++ ["ok"] }
      | .fail s => { st with store := s, out := st.out ++ ["fail"] }
      | .ice => { st with dead := some "ice" }
      | .stuck => { st with dead := some "stuck" }
    | _, _ => { st with dead := some "bad-op" }
  | .list [.atom "mark", a] =>
    match parseMTy a with
    | some a => { st with store := markSigned st.store a, out := st.out ++ ["m"] }
    | none => { st with dead := some "bad-op" }
  | _ => { st with dead := some "bad-op" }

def handleUnify (text : String) : String :=
  match parseSexp (tokens text) with
  | some (.list (.atom "script" :: items), []) =>
    let defs : List (Nat × List (Nat × MTy)) := items.flatMap fun
      | .list (.atom "defs" :: ds) => ds.filterMap fun
        | .list (n :: fs) => do pure (← parseNat n, ← fs.mapM parseMTy.parseMField)
        | _ => none
      | _ => []
    let ops : List Sexp := items.flatMap fun
      | .list (.atom "ops" :: os) => os
      | _ => []
    let d := mkDefs defs
    let st := ops.foldl (runOp d) ⟨[], [], none⟩
    match st.dead with
    | some why => why
    | none =>
      let finds := (List.range st.store.length).map fun i =>
        match find st.store (st.store.length + 1) i with
        | some t => showMTy t
        | none => "stuck"
      " ".intercalate (st.out ++ ["|"] ++ finds)
  | _ => "bad-op"

/-! declarations -/
def parseDKind : String → Option TcRules.DKind
  | "local" => some .valueLocal | "const" => some (.valueConst true) | "conststub" => some (.valueConst false)
  | "fn" => some (.function true) | "fnstub" => some (.function false)
  | "method" => some (.method true) | "methodstub" => some (.method false)
  | "module" => some .module | "variant" => some (.enumVariant true) | "variantstub" => some (.enumVariant false)
  | "typeparam" => some .typeParam
  | s =>
    if s.startsWith "typestub" then (s.drop 8).toString.toNat?.map (.type true)
    else if s.startsWith "type" then (s.drop 4).toString.toNat?.map (.type false)
    else none

def handleDecl (spec : String) : String :=
  let items := (csv spec).mapM fun s => match s.splitOn ":" with
    | [sc, id, k] => do pure ((← sc.toNat?, ← id.toNat?), ← parseDKind k)
    | _ => none
  match items with
  | none => "bad-op"
  | some items =>
    let rec go (t : TcRules.Table) (i : Nat) : List (TcRules.Key × TcRules.DKind) → String
      | [] => "ok"
      | (k, d) :: rest => match TcRules.insertDecl t k d with
        | some t' => go t' (i + 1) rest
        | none => s!"err {i}"
    go [] 0 items

/-! literal variables: `c07 lit <n> <stmt>,<stmt>,…` with
    `stmt ::= l<x> | f<x> | a<x>=<y> | n<x> | u<x>:<ty> | c<x>:<y>` -/
def parseScalarTy (s : String) : Option Ty :=
  match s with
  | "f32" => some .f32 | "f64" => some .f64
  | s => (parseITy s).map .int

def parseLStmt (s : String) : Option LStmt :=
  let rest := (s.drop 1).toString
  if s.startsWith "l" then rest.toNat?.map fun x => .lit x false
  else if s.startsWith "f" then rest.toNat?.map fun x => .lit x true
  else if s.startsWith "n" then rest.toNat?.map .neg
  else if s.startsWith "a" then match rest.splitOn "=" with
    | [x, y] => do pure (.alias (← x.toNat?) (← y.toNat?))
    | _ => none
  else if s.startsWith "u" then match rest.splitOn ":" with
    | [x, t] => do pure (.use (← x.toNat?) (← parseScalarTy t))
    | _ => none
  else if s.startsWith "c" then match rest.splitOn ":" with
    | [x, y] => do pure (.cmp (← x.toNat?) (← y.toNat?))
    | _ => none
  else none

/-! anonymous records: fields `name:ty,…` with `ty ::= int_ | float_ | bool | str | u8 | … | f32 | f64` -/
def parseLitTy (s : String) : Option Ty :=
  match s with
  | "int_" => some (.anyInt false) | "float_" => some .anyFloat | "bool" => some .bool | "str" => some .string
  | "unit" => some .unit
  | s => parseScalarTy s

def parseFieldsSpec (s : String) : Option (List (Nat × Ty)) :=
  if s == "-" then some [] else
  (csv s).mapM fun f => match f.splitOn ":" with
    | [n, t] => do pure (← n.toNat?, ← parseLitTy t)
    | _ => none

def yn (b : Bool) : String := if b then "typable" else "untypable"

def cycKind : Char → Option RotoV.Tarjan.Kind
  | 'c' => some .const
  | 'f' => some .func
  | 'x' => some .ctx
  | 'o' => some .other
  | _ => none

def cycNats (s : String) : Option (List Nat) :=
  if s.isEmpty then some [] else (s.splitOn ",").mapM String.toNat?

def cycEdges (s : String) : Option (List (Nat × List Nat)) :=
  if s == "-" then some [] else
  ((s.splitOn ";").filter (· ≠ "")).mapM fun e => match e.splitOn ":" with
    | [k, ts] => do pure (← k.toNat?, ← cycNats ts)
    | _ => none

/-- `c07 cyc <kinds> <edges>`: value_cycle.rs as written + the documented rule -/
def handleCyc (kinds edges : String) : String :=
  match kinds.toList.mapM cycKind, cycEdges edges with
  | some ks, some es =>
    let g : RotoV.Tarjan.Graph := ⟨es, fun n => ks.getD n .other⟩
    let showNats := fun (l : List Nat) => ",".intercalate (l.map toString)
    let showFail : RotoV.Tarjan.Fail → String := fun | .panic => "panic" | .outOfFuel => "fuel"
    let comps := RotoV.Tarjan.tarjan g
    let compsS := match comps with
      | .ok cs => ";".intercalate (cs.map showNats)
      | .error e => showFail e
    let validS := match comps with
      | .ok cs => if RotoV.Tarjan.validOrder g cs then "1" else "0"
      | .error _ => "0"
    let outS := match RotoV.Tarjan.findCompilationOrder g with
      | .ok (.order o) => "ord:" ++ showNats o
      | .ok (.recursive c) => s!"rec:{c}"
      | .ok (.usesContext c) => s!"ctx:{c}"
      | .error e => showFail e
    let ruleS := if RotoV.TcValueCycle.ruleRejects g then "1" else "0"
    s!"comps={compsS} out={outS} valid={validS} rule={ruleS}"
  | _, _ => "bad-op"

/-- `c07 cyccert <kinds> <edges> <comps>`: the verified certificate checker on components computed elsewhere -/
def handleCycCert (kinds edges comps : String) : String :=
  match kinds.toList.mapM cycKind, cycEdges edges,
        (if comps == "-" then some [] else (comps.splitOn ";").mapM cycNats) with
  | some ks, some es, some cs =>
    let g : RotoV.Tarjan.Graph := ⟨es, fun n => ks.getD n .other⟩
    if RotoV.Tarjan.validOrder g cs then "valid=1" else "valid=0"
  | _, _, _ => "bad-op"

/-! ### `c07 scope`: the module layer of the oracle (`Model/TcModules.lean`) -/

def parseIdent (s : String) : Option TcModules.Ident :=
  if s == "super" then some .sup
  else if s == "pkg" then some .pkg
  else
    let n := (s.drop 1).toNat?
    match s.toList.head? with
    | some 'm' => n.map .mod
    | some 'f' => n.map .fn
    | some 'C' => n.map .const
    | some 'T' => n.map .ty
    | some 'K' => n.map .variant
    | _ => none

def showIdent : TcModules.Ident → String
  | .sup => "super" | .pkg => "pkg" | .mod n => s!"m{n}" | .fn n => s!"f{n}"
  | .const n => s!"C{n}" | .ty n => s!"T{n}" | .variant n => s!"K{n}"

def parsePath : Sexp → Option TcModules.Path
  | .list xs => xs.mapM fun x => match x with
    | .atom a => parseIdent a
    | _ => none
  | _ => none

def parseModule : Sexp → Option TcModules.Module
  | .list [.atom "mod", .atom n, .atom par, .list items, .list imps] => do
    let parent ← if par == "-" then some none else par.toNat?.map some
    pure ⟨← n.toNat?, parent, ← parsePath (.list items), ← imps.mapM parsePath⟩
  | _ => none

def parseUse : Sexp → Option TcModules.Use
  | .list [.atom "use", .atom m, .list frames, path] => do
    let fs ← frames.mapM fun f => match f with
      | .list ps => ps.mapM parsePath
      | _ => none
    pure ⟨← m.toNat?, fs, ← parsePath path⟩
  | _ => none

def showVerdict : TcModules.Verdict → String
  | .ok (.module i) => s!"ok module:{i}"
  | .ok (.item m x) => s!"ok item:{m}:{showIdent x}"
  | .ok (.variant m t k) => s!"ok variant:{m}:{t}:{k}"
  | .badImport => "err import"
  | .notInScope => "err scope"

def handleScope (text : String) : String :=
  match parseSexp (tokens text) with
  | some (.list [.atom "q", .list (.atom "mods" :: ms), .list (.atom "enums" :: es), .list (.atom "uses" :: us)], []) =>
    let parsed : Option (TcModules.Pkg × List TcModules.Use) := do
      let mods ← ms.mapM parseModule
      let enums ← es.mapM fun e => match e with
        | .list (t :: ks) => do pure (← parseNat t, ← ks.mapM parseNat)
        | _ => none
      pure (⟨mods, enums⟩, ← us.mapM parseUse)
    match parsed with
    | some (p, uses) =>
      let b (x : Bool) := if x then "1" else "0"
      s!"wf={b (TcModules.wfPkg p)} imports={b (TcModules.pkgImportsOk p)} | " ++
        " ; ".intercalate (uses.map fun u => showVerdict (TcModules.checkUse p u))
    | none => "bad-parse"
  | _ => "bad-parse"

def handle (args : List String) : String :=
  match args with
  | ["cyc", kinds, edges] => handleCyc kinds edges
  | ["cyccert", kinds, edges, comps] => handleCycCert kinds edges comps
  | ["compat", pairs] =>
    -- every listed pair of (possibly flexible) types must be compatible (`Typing.compat`)
    if pairs == "never" then "untypable" else
    let ps := (csv pairs).mapM fun s => match s.splitOn ":" with
      | [a, b] => do pure (← parseLitTy a, ← parseLitTy b)
      | _ => none
    match ps with
    | some ps => yn (ps.all fun p => compat p.1 p.2)
    | none => "bad-op"
  | ["rec", "fits", lit, target] =>
    match parseFieldsSpec lit, parseFieldsSpec target with
    | some l, some t => yn (recLitFits l t)
    | _, _ => "bad-op"
  | ["rec", "field", lit, f, ty] =>
    match parseFieldsSpec lit, f.toNat?, parseLitTy ty with
    | some l, some f, some ty => yn (recFieldFits l f ty)
    | _, _, _ => "bad-op"
  | ["lit", n, prog] =>
    match n.toNat?, (csv prog).mapM parseLStmt with
    | some n, some prog => if n ≤ 4 then (if ltypable n prog then "typable" else "untypable") else "bad-op"
    | _, _ => "bad-op"
  | "prog" :: rest => handleProg (" ".intercalate rest)
  | "scope" :: rest => handleScope (" ".intercalate rest)
  | "infer" :: rest => handleInfer (" ".intercalate rest)
  | ["op", op, l, r] =>
    match parseOp op, parseOTy l, parseOTy r with
    | some op, some l, some r => showRes (TcRules.binopReal op l r)
    | _, _, _ => "bad-op"
  | ["opdoc", op, l, r] =>
    match parseOp op, parseOTy l, parseOTy r with
    | some op, some l, some r =>
      if op == .div && l == .ipAddr then
        (if compat r.toTy (.int .u8) then "ok" else "rej")
      else (match binopTy op l.toTy r.toTy with | some _ => "ok" | none => "rej")
    | _, _, _ => "bad-op"
  | ["assign", c, k] =>
    let kind : Option TcRules.VKind := match k with
      | "local" => some .local | "constant" => some .constant | "context" => some .context | _ => none
    match kind with
    | some kind => if TcRules.assignAccepts (c == "1") kind then "ok" else "rej"
    | none => "bad-op"
  | ["tostr", "none"] =>
    if TcBuiltin.fstringPartAccepts (none : Option (TcBuiltin.Sig Nat)) 0 1 then "ok" else "rej"
  | "tostr" :: ret :: ps =>
    -- `c07 tostr <ret> <param>…`: the found `to_string` signature over ground types 0 = the part's type,
    -- 1 = String, others; `TcBuiltin.fstringPartAccepts` (resolve_obligations as written)
    if TcBuiltin.fstringPartAccepts (some ⟨ps.map String.toNat!, ret.toNat!⟩) 0 1 then "ok" else "rej"
  | ["neg", t] => match parseOTy t with
    | some t => showRes (TcRules.negateReal t) | none => "bad-op"
  | ["not", t] => match parseOTy t with
    | some t => showRes (TcRules.notReal t) | none => "bad-op"
  | ["match", vs, arms] => handleMatch vs arms
  | "unify" :: rest => handleUnify (" ".intercalate rest)
  | ["decl", spec] => handleDecl spec
  | _ => "bad-op"

end Driver.C07
