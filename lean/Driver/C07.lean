/- Driver handler owned by property C07: `c07 <args…>` requests. -/
import Driver.Util

namespace Driver.C07

def handle (_args : List String) : String := "bad-op"

end Driver.C07
