/-
  Driver handler for the LIR layer of C01: `c01 lir <hex text>`.

  The text (printed by harness/src/c01/lirtie.rs from the hook `verif_hooks::c01::stage_pairs`) lists
  the MIR functions of one program:
      fn <name> <tmp_idx> <returns value 0|1>
      params <var>…
      types <var>:<I32|Bool>…
      block <label>
      <MIR instruction>         (the hook's vocabulary: `a <to> const int <n>`, `a <to> clone <w>`, …)
      end
  The answer is the LIR of every function as `RotoV.C01Lir.lowerProg` makes it, in the hook's LIR
  vocabulary, functions separated by ` || `, lines by ` ; `:
      fn <name> ; tmps <var>:<ty>… ; block <label> ; <LIR instruction> ; …     or     outside <name>
-/
import Driver.Util
import RotoV.Model.C01Lir

namespace Driver.C01Lir
open RotoV RotoV.C01Lir

def parseName (s : String) : Option Name :=
  match s.toList with
  | 't' :: rest => (String.ofList rest).toNat?.map Name.t
  | 'e' :: rest =>
    let body := String.ofList rest
    match body.splitOn "." with
    | [id, sc] => sc.toNat?.map (Name.e id)
    | _ => none
  | _ => none

def showName : Name → String
  | .e id sc => s!"e{id}.{sc}"
  | .t i => s!"t{i}"

def parseTy : String → Option LTy
  | "I32" => some .i32
  | "Bool" => some .bool
  | _ => none

def showTy : LTy → String
  | .i32 => "I32"
  | .bool => "Bool"

def parseOp : String → Option BinOp
  | "Add" => some .Add | "Sub" => some .Sub | "Mul" => some .Mul | "Div" => some .Div | "Mod" => some .Mod
  | "Eq" => some .Eq | "Ne" => some .Ne | "Lt" => some .Lt | "Le" => some .Le | "Gt" => some .Gt | "Ge" => some .Ge
  | "And" => some .And | "Or" => some .Or
  | _ => none

def parseBrs (s : String) : Option (List (Nat × Nat)) :=
  if s = "-" then some [] else
  (s.splitOn ",").mapM fun p =>
    match p.splitOn ":" with
    | [k, l] => do pure (← k.toNat?, ← l.toNat?)
    | _ => none

def parseIns (types : List (Name × LTy)) (line : String) : MIns :=
  let w := (line.splitOn " ").filter (· ≠ "")
  let r : Option MIns :=
    match w with
    | ["j", l] => l.toNat?.map .jump
    | ["r", x] => (parseName x).map .ret
    | ["d", x] => (parseName x).map .drop
    | ["s", x, brs, d] => do
      let x ← parseName x
      let brs ← parseBrs brs
      let d ← if d = "-" then some none else d.toNat?.map some
      pure (.switch x brs d)
    | ["a", to, "const", "int", n] => do pure (.assign (← parseName to) (.constInt (← n.toInt?)))
    | ["a", to, "const", "bool", b] => do pure (.assign (← parseName to) (.constBool (b = "1")))
    | ["a", to, "const", "unit"] => do pure (.assign (← parseName to) .constUnit)
    | ["a", to, "clone", x] => do pure (.assign (← parseName to) (.clone (← parseName x)))
    | ["a", to, "move", x] => do pure (.assign (← parseName to) (.move (← parseName x)))
    | ["a", to, "not", x] => do pure (.assign (← parseName to) (.not (← parseName x)))
    | ["a", to, "neg", x] => do pure (.assign (← parseName to) (.neg (← parseName x)))
    | ["a", to, "binop", l, op, r] => do
      let l ← parseName l
      -- the operands' type: the type of the left operand in the variable table
      let ty ← tyOf types l
      pure (.assign (← parseName to) (.binop l (← parseOp op) ty (← parseName r)))
    | "a" :: to :: "call" :: f :: args => do pure (.assign (← parseName to) (.call f (← args.mapM parseName)))
    | _ => none
  r.getD .other

structure Acc where
  done : List MFn := []
  cur : Option MFn := none
  curBlock : Option (Nat × List MIns) := none

def flushBlock (a : Acc) : Acc :=
  match a.cur, a.curBlock with
  | some fn, some (l, ins) => { a with cur := some { fn with blocks := fn.blocks ++ [(l, ins.reverse)] }, curBlock := none }
  | _, _ => a

def flushFn (a : Acc) : Acc :=
  let a := flushBlock a
  match a.cur with
  | some fn => { a with done := a.done ++ [fn], cur := none }
  | none => a

def step (a : Acc) (line : String) : Acc :=
  let w := (line.splitOn " ").filter (· ≠ "")
  match w with
  | ["fn", name, tmp, rv] =>
    let a := flushFn a
    { a with cur := some { name, params := [], tmpIdx := tmp.toNat!, types := [], retVal := rv = "1", blocks := [] } }
  | "params" :: ps =>
    match a.cur with
    | some fn => { a with cur := some { fn with params := ps.filterMap parseName } }
    | none => a
  | "types" :: ts =>
    match a.cur with
    | some fn =>
      let tys := ts.filterMap fun p =>
        match p.splitOn ":" with
        | [v, t] => do pure (← parseName v, ← parseTy t)
        | _ => none
      { a with cur := some { fn with types := tys } }
    | none => a
  | ["block", l] => { flushBlock a with curBlock := some (l.toNat!, []) }
  | ["end"] => flushFn a
  | [] => a
  | _ =>
    match a.cur, a.curBlock with
    | some fn, some (l, ins) => { a with curBlock := some (l, parseIns fn.types line :: ins) }
    | _, _ => a

def parseProg (text : String) : List MFn :=
  (flushFn ((text.splitOn "\n").foldl step {})).done

def showOp : LOp → String
  | .var x => showName x
  | .int n => s!"#I32({n})"
  | .bool b => s!"#Bool({b})"

def showCmp : IntCmp → String
  | .Eq => "Eq" | .Ne => "Ne" | .ULt => "ULt" | .ULe => "ULe" | .UGt => "UGt" | .UGe => "UGe"
  | .SLt => "SLt" | .SLe => "SLe" | .SGt => "SGt" | .SGe => "SGe"

def showBrs (brs : List (Nat × Nat)) : String :=
  if brs.isEmpty then "-" else ",".intercalate (brs.map fun p => s!"{p.1}:{p.2}")

def showLIns : LIns → String
  | .assign to v ty => s!"a {showName to} {showOp v} {showTy ty}"
  | .instr to i l r =>
    match i with
    | .IntCmp _ cmp _ _ => s!"intcmp {showName to} {showCmp cmp} {showOp l} {showOp r}"
    | .CallEq neg _ _ => s!"intcmp {showName to} {if neg then "Ne" else "Eq"} {showOp l} {showOp r}"
    | .Add .. => s!"add {showName to} {showOp l} {showOp r}"
    | .Sub .. => s!"sub {showName to} {showOp l} {showOp r}"
    | .Mul .. => s!"mul {showName to} {showOp l} {showOp r}"
    | _ => "other instr"
  | .not to v => s!"not {showName to} {showOp v}"
  | .neg to v => s!"neg {showName to} {showOp v}"
  | .call to f args =>
    let t := match to with
      | some (x, ty) => s!"{showName x}:{showTy ty}"
      | none => "-"
    s!"call {t} $ctx - {f}" ++ String.join (args.map fun a => " " ++ showOp a)
  | .jump l => s!"j {l}"
  | .switch x brs d => s!"s {showOp x} {showBrs brs} {d}"
  | .ret none => "r -"
  | .ret (some v) => s!"r {showOp v}"

def showLFn (fn : LFn) : String :=
  let tmps := " ".intercalate (fn.newTmps.map fun p => s!"{showName p.1}:{showTy p.2}")
  let blocks := fn.blocks.map fun b => s!"block {b.1}" ++ String.join (b.2.map fun i => " ; " ++ showLIns i)
  s!"fn {fn.name} ; params" ++ String.join (fn.params.map fun p => " " ++ showName p) ++ s!" ; tmps {tmps} ; " ++ " ; ".intercalate blocks

def handle (hexText : String) : String :=
  match unhex hexText with
  | none => "bad-hex"
  | some bytes =>
    match String.fromUTF8? (ByteArray.mk bytes.toArray) with
    | none => "bad-utf8"
    | some text =>
      let P := parseProg text
      let ri := retInfoOf P
      " || ".intercalate (P.map fun fn =>
        match lowerFn ri fn with
        | some l => showLFn l
        | none => s!"outside {fn.name}")

end Driver.C01Lir
