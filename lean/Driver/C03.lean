/- Driver handler owned by property C03: `c03 <args…>` requests. -/
import Driver.Util

namespace Driver.C03

def handle (_args : List String) : String := "bad-op"

end Driver.C03
