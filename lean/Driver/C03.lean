/- Driver handler owned by property C03: `c03 <args…>` requests.

   `c03 check <nums…>`  → `ok <blocks>` | `reject <block> <reason> <var> <def-block> <status> <is-aggregate-temp> <is-call-argument>` | `bad-dump`
        (both verified checkers: `ownCheck`, then `varCheck`; a rejection of the second has the reason
        `variant-read`, the variable read through a variant, and the status `V<variant read>/<variant known or ->`)
   `c03 vcert <nums…>`  → the certificate of known variants proposed by the untrusted search (one line)
   `c03 lean <nums…>`   → the item as a Lean term (one line)
   `c03 exec <fuel> <oracle,…> <nums…>` → concrete run of the token semantics from
        `initC` (all parameter variants 0): `done <var>` | `fail <err>` | `running <label>`
   The numeric grammar is documented in `src/verif_hooks/c03.rs`.

   `c03 glue-check <nums…>` (grammar in `harness/src/c03/glue.rs`): run the drop / clone glue
        model — the loops as extracted from the current source — on the last declared type with
        every enum inside in variant `sel mod #variants`, `sel = 0..3`, against the reference placement:
        `ok <types> <runs>` | `mismatch <decl> <sel> drop=<addr:id,…> leaves=<addr:id,…> clone=<src>dst:id,…>` | `bad-dump`
   `c03 glue-shallow <nums…>` → per declared type the events of its own drop function, one
        group per variant (nested generated functions not inlined): `D<decl> v<k>: off/kind …`, and of
        its clone function: `C<decl> v<k>: v<src>>r<dst>/kind | v<src>>r<dst>#<memcpy size> …`
   `c03 lir-expect <nums…>` → the clone / drop calls the LIR of every block of the item must
        contain: the ownership events of the MIR block (`MirLower.blockOwnEvs`, the events the
        token semantics `cInstr` performs — `Props/C03Lower`, S1–S4), in block order:
        `B<label>: C<root var | -> D<root var> … ; B…`.  By `block_lowering_keeps_events`
        (checked on every run over `Generated/MirLower`) this is what `MirLower.blockEvs` of the
        lowering extracted from the current source emits, for every block.  The driver does NOT
        import `Generated/MirLower`: when the source leaves the translated subset (extraction
        failure) or the theorem stops checking, the driver still builds and the harness compares
        the real LIR with what the property demands, which finds the failing input. -/
import Driver.Util
import RotoV.Model.Mir
import RotoV.Model.MirVariant
import RotoV.Model.Glue
import RotoV.Generated.GlueLoopsDrv
import RotoV.Model.MirLower

namespace Driver.C03
open RotoV.Mir

abbrev P := StateT (List Nat) Option

def nat : P Nat := do
  match (← get) with
  | n :: rest => set rest; pure n
  | [] => failure

partial def many {α} (n : Nat) (p : P α) : P (List α) :=
  if n = 0 then pure [] else do
    let x ← p
    let xs ← many (n - 1) p
    pure (x :: xs)

def counted {α} (p : P α) : P (List α) := do
  let n ← nat
  many n p

def pType : P TyDef := do
  let nd ← nat
  let tag ← nat
  match tag with
  | 0 => pure ⟨nd != 0, .opaque⟩
  | 1 => do let fs ← counted nat; pure ⟨nd != 0, .record fs⟩
  | 2 => do let vs ← counted (counted nat); pure ⟨nd != 0, .enum vs⟩
  | _ => failure

def pProj : P Proj := do
  match (← nat) with
  | 0 => do pure (.fld (← nat))
  | 1 => do let v ← nat; let i ← nat; pure (.vfld v i)
  | _ => failure

def pPlace : P Place := do
  let v ← nat
  let ps ← counted pProj
  pure ⟨v, ps⟩

def pVal : P Val := do
  match (← nat) with
  | 0 => pure .lit
  | 1 => pure .global
  | 2 => do pure (.clone (← pPlace))
  | 3 => do pure (.move (← nat))
  | 4 => do pure (.read (← counted nat))
  | 5 => do pure (.call (← counted (do let v ← nat; let t ← nat; pure (v, t))))
  | 6 => do pure (.disc (← nat))
  | _ => failure

def pInstr : P Instr := do
  match (← nat) with
  | 0 => do let to ← pPlace; let ty ← nat; let v ← pVal; pure (.assign to ty v)
  | 1 => do let v ← nat; let ty ← nat; let k ← nat; pure (.setDisc v ty k)
  | 2 => do let p ← pPlace; let ty ← nat; pure (.drop p ty)
  | _ => failure

def pTerm : P Term := do
  match (← nat) with
  | 0 => do pure (.jump (← nat))
  | 1 => do
    let v ← nat
    let brs ← counted (do let k ← nat; let l ← nat; pure (k, l))
    let has ← nat
    if has = 0 then pure (.switch v brs none) else do pure (.switch v brs (some (← nat)))
  | 2 => do pure (.ret (← nat))
  | _ => failure

def pBlock : P Block := do
  let l ← nat
  let is ← counted pInstr
  let t ← pTerm
  pure ⟨l, is, t⟩

def pItem : P Item := do
  let types ← counted pType
  let vars ← counted nat
  let params ← counted nat
  let retTy ← nat
  let blocks ← counted pBlock
  pure ⟨types, vars, params, retTy, blocks⟩

def parseItem (ws : List String) : Option Item := do
  let ns ← ws.mapM String.toNat?
  match pItem.run ns with
  | some (it, []) => some it
  | _ => none

def oneLine (s : String) : String :=
  String.ofList (s.toList.map (fun c => if c = '\n' then ' ' else c))

def showSt : ASt → String
  | .un => "-"
  | .whole => "W"
  | .empty => "e"
  | .part d fs => s!"P{d}{fs}"
  | .holed p => s!"H{p.length}"

/-- debugging aid: abstract states instruction by instruction for one block -/
def traceBlock (it : Item) (a : AState) (is : List Instr) : String :=
  let rec go (a : AState) (is : List Instr) (n : Nat) (acc : String) : String :=
    match is with
    | [] => acc
    | i :: rest =>
      match aInstr it a i with
      | .ok a' => go a' rest (n + 1) (acc ++ s!" | {n}:" ++ String.join (a'.map showSt))
      | .error e => acc ++ s!" | {n}: ERR {errName e} at {oneLine (toString (repr i))}"
  go a is 0 (String.join (a.map showSt))

/-- the variable an abstract instruction error is about (diagnostics only) -/
def culprit (it : Item) (a : AState) : Instr → Nat
  | .drop p _ => p.var
  | .setDisc v _ _ => v
  | .assign to _ (.move w) => if aget a w = .whole ∨ aget a w = .empty then to.var else w
  | .assign to _ (.clone p) => if aget a p.var = .whole ∨ aget a p.var = .empty then to.var else p.var
  | .assign to _ (.call args) =>
    match args.find? (fun (w, pty) => it.ndB pty && !(aget a w = .whole ∨ aget a w = .empty)) with
    | some (w, _) => w
    | none => to.var
  | .assign to _ _ => to.var

/-- label of the first block that writes variable `v` -/
def defBlock (it : Item) (v : Nat) : Nat :=
  match it.blocks.find? (fun b => b.instrs.any fun
      | .assign to _ _ => to.var = v
      | .setDisc w _ _ => w = v
      | _ => false) with
  | some b => b.label
  | none => 999999

/-- `<var> <defining block> <status>` of the variable a rejection is about -/
def detail (it : Item) (l : Nat) (reason : String) (a other : AState) : String :=
  let isAgg (v : Nat) : Bool := it.blocks.any fun b => b.instrs.any fun
    | .assign to _ _ => to.var = v && !to.proj.isEmpty
    | .setDisc w _ _ => w = v
    | _ => false
  let isArg (v : Nat) : Bool := it.blocks.any fun b => b.instrs.any fun
    | .assign _ _ (.call args) => args.any (fun p => p.1 = v)
    | _ => false
  let fmt (v : Nat) (st : String) :=
    s!"{v} {defBlock it v} {st} {if isAgg v then 1 else 0} {if isArg v then 1 else 0}"
  if reason = "join" then
    match (List.range a.length).find? (fun v => (joinSt (aget a v) (aget other v)).isNone) with
    | some v => fmt v (showSt (aget a v) ++ "/" ++ showSt (aget other v))
    | none => "- - - 0 0"
  else match it.findBlock l with
    | none => "- - - 0 0"
    | some b =>
      let rec go (a : AState) : List Instr → String
        | [] =>
          -- the terminator failed: a leak at return
          let rv := match b.term with | .ret v => some v | _ => none
          match (List.range a.length).find? (fun v => some v ≠ rv ∧ aget a v ≠ .un ∧ aget a v ≠ .empty) with
          | some v => fmt v (showSt (aget a v))
          | none => match rv with
            | some v => fmt v (showSt (aget a v))
            | none => "- - - 0 0"
        | i :: rest =>
          match aInstr it a i with
          | .ok a' => go a' rest
          | .error _ => let v := culprit it a i; fmt v (showSt (aget a v))
      go a b.instrs

/-! ### drop / clone glue -/

open RotoV.Glue in
def gtysOfList : List GTy → GTys
  | [] => .nil
  | t :: ts => .cons t (gtysOfList ts)

open RotoV.Glue in
def gvarsOfList : List GTys → GVars
  | [] => .nil
  | v :: vs => .cons v (gvarsOfList vs)

open RotoV.Glue in
/-- `ty := 0 size align droppable | 1 declIndex` (leaf id = size * 2 + droppable, enough to tell
    the leaves of one run apart) -/
def pGTy (decls : Array GTy) : P GTy := do
  match (← nat) with
  | 0 => do
    let s ← nat; let a ← nat; let d ← nat
    pure (.leaf (s * 2 + d) s a (d != 0))
  | 1 => do
    let i ← nat
    match decls[i]? with
    | some t => pure t
    | none => failure
  | _ => failure

open RotoV.Glue in
partial def pDecls (n : Nat) (acc : Array GTy) : P (Array GTy) :=
  if n = 0 then pure acc else do
    match (← nat) with
    | 0 => do
      let fs ← counted (pGTy acc)
      pDecls (n - 1) (acc.push (.record (gtysOfList fs)))
    | 1 => do
      let vs ← counted (counted (pGTy acc))
      pDecls (n - 1) (acc.push (.enum (gvarsOfList (vs.map gtysOfList))))
    | _ => failure

open RotoV.Glue in
def parseDecls (ws : List String) : Option (Array GTy) := do
  let ns ← ws.mapM String.toNat?
  match (do let n ← nat; pDecls n #[]).run ns with
  | some (ds, []) => some ds
  | _ => none

open RotoV.Glue in
def gtysToList : GTys → List GTy
  | .nil => []
  | .cons t ts => t :: gtysToList ts

open RotoV.Glue in
def gvarsToList : GVars → List GTys
  | .nil => []
  | .cons v vs => v :: gvarsToList vs

instance : Inhabited RotoV.Glue.GTy := ⟨.leaf 0 0 1 false⟩

open RotoV.Glue in
mutual
/-- the discriminant bytes of the value of type `t` at `a` in which every enum takes variant
    `sel mod #variants` (reference placement) -/
partial def discs (sel : Nat) : GTy → Nat → List (Nat × Nat)
  | .leaf _ _ _ _, _ => []
  | .record fs, a => discsFields sel a (gtysToList fs) Builder.new
  | .enum vs, a =>
    let vl := gvarsToList vs
    if vl.isEmpty then [] else
      let k := sel % vl.length
      (a, k) :: discsFields sel a (gtysToList (vl.getD k .nil)) (Builder.new.add tagLayout)
partial def discsFields (sel a : Nat) : List GTy → Builder → List (Nat × Nat)
  | [], _ => []
  | t :: ts, b => discs sel t (a + b.addOff (layoutOf t)) ++ discsFields sel a ts (b.add (layoutOf t))
end

def memOf (ds : List (Nat × Nat)) : Nat → Nat := fun a =>
  match ds.find? (fun p => p.1 = a) with
  | some p => p.2
  | none => 0

open RotoV.Glue in
def showEvs (es : List Ev) : String :=
  ",".intercalate (es.map fun
    | .drop a id => s!"{a}:{id}"
    | .clone s d id => s!"{s}>{d}:{id}"
    | .copy s d n => s!"copy{s}>{d}#{n}"
    | .tag s d => s!"tag{s}>{d}"
    | .stuck => "stuck")

open RotoV.Glue RotoV.Gen.GlueLoops in
def glueCheck (ds : Array GTy) : String := Id.run do
  let mut runs := 0
  -- the value the program builds is one of the last declared type (the others occur inside it)
  for i in [ds.size - 1:ds.size] do
    let t := ds[i]!
    for sel in [0:4] do
      -- the source at 4096, the copy at 1048576 with the same discriminants
      let (s, d) := (4096, 1048576)
      let dsS := discs sel t s
      let ρ := memOf (dsS ++ dsS.map (fun p => (p.1 - s + d, p.2)))
      let want := leaves ρ t s
      let dropEv := dropTy prog ρ t s
      let cl := cloneTy prog ρ t s d
      let okDrop := dropEv == want.map (fun p => Ev.drop p.1 p.2)
      let okClone := cloned cl == leaves2 ρ t s d && cl.all (fun e => !e.isStuck)
        && dropped (dropTy prog ρ t d) == (cloned cl).map (fun x => (x.2.1, x.2.2))
      runs := runs + 1
      if !(okDrop && okClone) then
        let rel (es : List Ev) := es.map fun
          | .drop a id => Ev.drop (a - s) id
          | .clone x y id => Ev.clone (x - s) (y - d) id
          | e => e
        return s!"mismatch {i} {sel} drop={showEvs (rel dropEv)} leaves={showEvs (rel (want.map (fun p => Ev.drop p.1 p.2)))} clone={showEvs (rel (cl.filter (fun e => match e with | .clone _ _ _ => true | .stuck => true | _ => false)))}"
  return s!"ok {ds.size} {runs}"

open RotoV.Glue RotoV.Gen.GlueLoops in
/-- the drop function of one declared type on its own: per variant the `(offset, kind)` of
    what it emits, `r` = runtime drop function, `g` = call of a generated drop function -/
def glueShallow (ds : Array GTy) : String :=
  -- what `call_drop_of` emits for a field, from its extracted statements
  let one (t : GTy) (a : Nat) : List Ev :=
    (callActs prog.dropCall (callEnv t)).flatMap fun
      | .runtime => [.drop a 0]
      | .callGen => [.drop a 1]
      | .enqueue => []
      | _ => [.stuck]
  let fields (steps : List Step) (bound : Bool) (fs : List GTy) (b0 : Builder) : String :=
    let rec go (fs : List GTy) (b : Builder) (acc : List Ev) : List Ev :=
      match fs with
      | [] => acc
      | t :: ts =>
        let s := runSteps (layoutOf t) (needsDrop t) 0 0
          (fun p => one t p) (fun _ _ => [.stuck])
          steps (Iter.start b (layoutOf t) bound)
        go ts s.b (acc ++ s.out)
    " ".intercalate ((go fs b0 []).map fun
      | .drop a k => s!"{a}/{if k = 0 then "r" else "g"}"
      | _ => "stuck")
  -- the clone function: source addresses from 0 (`val`), destination from `R` (`$return`)
  let R := 1000000
  let addr (a : Nat) : String := if a ≥ R then s!"r{a - R}" else s!"v{a}"
  let cfields (steps : List Step) (bound : Bool) (fs : List GTy) (b0 : Builder) : String :=
    let rec cgo (fs : List GTy) (b : Builder) (acc : List Ev) : List Ev :=
      match fs with
      | [] => acc
      | t :: ts =>
        let s := runSteps (layoutOf t) (needsDrop t) 0 R (fun _ => [.stuck])
          (fun p q => (callActs prog.cloneCall (callEnv t)).flatMap fun
              | .runtime => [.clone p q 0]
              | .callGen => [.clone p q 1]
              | .enqueue => []
              | .memcpy n => [.copy p q n]
              | .stuck => [.stuck])
          steps (Iter.start b (layoutOf t) bound)
        cgo ts s.b (acc ++ s.out)
    " ".intercalate ((cgo fs b0 []).map fun
      | .clone p q k => s!"{addr p}>{addr q}/{if k = 0 then "r" else "g"}"
      | .copy p q n => s!"{addr p}>{addr q}#{n}"
      | _ => "stuck")
  " ; ".intercalate ((List.range ds.size).map fun i =>
    match ds[i]! with
    | .record fs =>
      s!"D{i} v0: {fields prog.dropRecord false (gtysToList fs) Builder.new} ; C{i} v0: {cfields prog.cloneRecord false (gtysToList fs) Builder.new}"
    | .enum vs =>
      let vl := gvarsToList vs
      " ; ".intercalate ((List.range vl.length).map fun k =>
        s!"D{i} v{k}: {fields prog.dropEnum true (gtysToList (vl.getD k .nil)) (runPre prog.dropEnumPre Builder.new)} ; C{i} v{k}: {cfields prog.cloneEnum true (gtysToList (vl.getD k .nil)) (runPre prog.cloneEnumPre Builder.new)}")
    | _ => s!"D{i} leaf")

def lirExpect (it : Item) : String :=
  " ; ".intercalate (it.blocks.map fun b =>
    s!"B{b.label}:" ++ String.join ((RotoV.MirLower.blockOwnEvs it.ndB b).map fun e =>
        match e with
        | .clone (some r) _ _ => s!" C{r}"
        | .clone none _ _ => " C-"
        | .drop r _ _ => s!" D{r}"))

def handle (args : List String) : String :=
  match args with
  | "lir-expect" :: ws =>
    match parseItem ws with
    | none => "bad-dump"
    | some it => lirExpect it
  | "glue-check" :: ws =>
    match parseDecls ws with
    | none => "bad-dump"
    | some ds => glueCheck ds
  | "glue-shallow" :: ws =>
    match parseDecls ws with
    | none => "bad-dump"
    | some ds => glueShallow ds
  | "check" :: ws =>
    match parseItem ws with
    | none => "bad-dump"
    | some it =>
      match analyse it with
      | .ok cert =>
        match vanalyse it with
        | .ok _ => s!"ok {cert.length}"
        | .reject l x v kn =>
          let known := match kn with | some k => toString k | none => "-"
          s!"reject {l} variant-read {x} {defBlock it x} V{v}/{known} 0 0"
      | .reject l r a o => s!"reject {l} {r} {detail it l r a o}"
  | "vcert" :: ws =>
    match parseItem ws with
    | none => "bad-dump"
    | some it =>
      match vanalyse it with
      | .ok cert => oneLine (toString (repr cert))
      | .reject _ _ _ _ => "[]"
  | "trace" :: ws =>
    match parseItem ws with
    | none => "bad-dump"
    | some it =>
      match propagate it (8 * edgeCount it) [(entryLabel it, initA it)] [] with
      | .ok cert => "ok " ++ " ;; ".intercalate (cert.reverse.map fun (l, a) =>
          match it.findBlock l with
          | some b => s!"B{l}: " ++ traceBlock it a b.instrs
          | none => s!"B{l}: ?")
      | .reject l r a _ => s!"reject {l} {r} :: " ++
          (match it.findBlock l with
           | some b => traceBlock it a b.instrs
           | none => "?")
  | "cert" :: ws =>
    match parseItem ws with
    | none => "bad-dump"
    | some it =>
      match analyse it with
      | .ok cert => oneLine (toString (repr cert))
      | .reject _ _ _ _ => "[]"
  | "lean" :: ws =>
    match parseItem ws with
    | none => "bad-dump"
    | some it => oneLine (toString (repr it))
  | "exec" :: fuel :: orc :: ws =>
    match parseItem ws, fuel.toNat?, (orc.splitOn ",").mapM String.toNat? with
    | some it, some n, some os =>
      let ω : Oracle := fun i => os.getD i 0
      match runN it ω n (entryLabel it) (initC it (fun _ => 0)) with
      | .done _ v => s!"done {v}"
      | .fail e => s!"fail {errName e}"
      | .running l _ => s!"running {l}"
    | _, _, _ => "bad-dump"
  | _ => "bad-op"

end Driver.C03
