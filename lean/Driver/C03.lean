/- Driver handler owned by property C03: `c03 <args…>` requests.

   `c03 check <nums…>`  → `ok <blocks>` | `reject <block> <reason> <var> <def-block> <status> <is-aggregate-temp> <is-call-argument>` | `bad-dump`
   `c03 lean <nums…>`   → the item as a Lean term (one line)
   `c03 exec <fuel> <oracle,…> <nums…>` → concrete run of the token semantics from
        `initC` (all parameter variants 0): `done <var>` | `fail <err>` | `running <label>`
   The numeric grammar is documented in `src/verif_hooks/c03.rs`. -/
import Driver.Util
import RotoV.Model.Mir

namespace Driver.C03
open RotoV.Mir

abbrev P := StateT (List Nat) Option

def nat : P Nat := do
  match (← get) with
  | n :: rest => set rest; pure n
  | [] => failure

partial def many {α} (n : Nat) (p : P α) : P (List α) :=
  if n = 0 then pure [] else do
    let x ← p
    let xs ← many (n - 1) p
    pure (x :: xs)

def counted {α} (p : P α) : P (List α) := do
  let n ← nat
  many n p

def pType : P TyDef := do
  let nd ← nat
  let tag ← nat
  match tag with
  | 0 => pure ⟨nd != 0, .opaque⟩
  | 1 => do let fs ← counted nat; pure ⟨nd != 0, .record fs⟩
  | 2 => do let vs ← counted (counted nat); pure ⟨nd != 0, .enum vs⟩
  | _ => failure

def pProj : P Proj := do
  match (← nat) with
  | 0 => do pure (.fld (← nat))
  | 1 => do let v ← nat; let i ← nat; pure (.vfld v i)
  | _ => failure

def pPlace : P Place := do
  let v ← nat
  let ps ← counted pProj
  pure ⟨v, ps⟩

def pVal : P Val := do
  match (← nat) with
  | 0 => pure .lit
  | 1 => pure .global
  | 2 => do pure (.clone (← pPlace))
  | 3 => do pure (.move (← nat))
  | 4 => do pure (.read (← counted nat))
  | 5 => do pure (.call (← counted (do let v ← nat; let t ← nat; pure (v, t))))
  | 6 => do pure (.disc (← nat))
  | _ => failure

def pInstr : P Instr := do
  match (← nat) with
  | 0 => do let to ← pPlace; let ty ← nat; let v ← pVal; pure (.assign to ty v)
  | 1 => do let v ← nat; let ty ← nat; let k ← nat; pure (.setDisc v ty k)
  | 2 => do let p ← pPlace; let ty ← nat; pure (.drop p ty)
  | _ => failure

def pTerm : P Term := do
  match (← nat) with
  | 0 => do pure (.jump (← nat))
  | 1 => do
    let v ← nat
    let brs ← counted (do let k ← nat; let l ← nat; pure (k, l))
    let has ← nat
    if has = 0 then pure (.switch v brs none) else do pure (.switch v brs (some (← nat)))
  | 2 => do pure (.ret (← nat))
  | _ => failure

def pBlock : P Block := do
  let l ← nat
  let is ← counted pInstr
  let t ← pTerm
  pure ⟨l, is, t⟩

def pItem : P Item := do
  let types ← counted pType
  let vars ← counted nat
  let params ← counted nat
  let retTy ← nat
  let blocks ← counted pBlock
  pure ⟨types, vars, params, retTy, blocks⟩

def parseItem (ws : List String) : Option Item := do
  let ns ← ws.mapM String.toNat?
  match pItem.run ns with
  | some (it, []) => some it
  | _ => none

def oneLine (s : String) : String :=
  String.ofList (s.toList.map (fun c => if c = '\n' then ' ' else c))

def showSt : ASt → String
  | .un => "-"
  | .whole => "W"
  | .empty => "e"
  | .part d fs => s!"P{d}{fs}"
  | .holed p => s!"H{p.length}"

/-- debugging aid: abstract states instruction by instruction for one block -/
def traceBlock (it : Item) (a : AState) (is : List Instr) : String :=
  let rec go (a : AState) (is : List Instr) (n : Nat) (acc : String) : String :=
    match is with
    | [] => acc
    | i :: rest =>
      match aInstr it a i with
      | .ok a' => go a' rest (n + 1) (acc ++ s!" | {n}:" ++ String.join (a'.map showSt))
      | .error e => acc ++ s!" | {n}: ERR {errName e} at {oneLine (toString (repr i))}"
  go a is 0 (String.join (a.map showSt))

/-- the variable an abstract instruction error is about (diagnostics only) -/
def culprit (it : Item) (a : AState) : Instr → Nat
  | .drop p _ => p.var
  | .setDisc v _ _ => v
  | .assign to _ (.move w) => if aget a w = .whole ∨ aget a w = .empty then to.var else w
  | .assign to _ (.clone p) => if aget a p.var = .whole ∨ aget a p.var = .empty then to.var else p.var
  | .assign to _ (.call args) =>
    match args.find? (fun (w, pty) => it.ndB pty && !(aget a w = .whole ∨ aget a w = .empty)) with
    | some (w, _) => w
    | none => to.var
  | .assign to _ _ => to.var

/-- label of the first block that writes variable `v` -/
def defBlock (it : Item) (v : Nat) : Nat :=
  match it.blocks.find? (fun b => b.instrs.any fun
      | .assign to _ _ => to.var = v
      | .setDisc w _ _ => w = v
      | _ => false) with
  | some b => b.label
  | none => 999999

/-- `<var> <defining block> <status>` of the variable a rejection is about -/
def detail (it : Item) (l : Nat) (reason : String) (a other : AState) : String :=
  let isAgg (v : Nat) : Bool := it.blocks.any fun b => b.instrs.any fun
    | .assign to _ _ => to.var = v && !to.proj.isEmpty
    | .setDisc w _ _ => w = v
    | _ => false
  let isArg (v : Nat) : Bool := it.blocks.any fun b => b.instrs.any fun
    | .assign _ _ (.call args) => args.any (fun p => p.1 = v)
    | _ => false
  let fmt (v : Nat) (st : String) :=
    s!"{v} {defBlock it v} {st} {if isAgg v then 1 else 0} {if isArg v then 1 else 0}"
  if reason = "join" then
    match (List.range a.length).find? (fun v => (joinSt (aget a v) (aget other v)).isNone) with
    | some v => fmt v (showSt (aget a v) ++ "/" ++ showSt (aget other v))
    | none => "- - - 0 0"
  else match it.findBlock l with
    | none => "- - - 0 0"
    | some b =>
      let rec go (a : AState) : List Instr → String
        | [] =>
          -- the terminator failed: a leak at return
          let rv := match b.term with | .ret v => some v | _ => none
          match (List.range a.length).find? (fun v => some v ≠ rv ∧ aget a v ≠ .un ∧ aget a v ≠ .empty) with
          | some v => fmt v (showSt (aget a v))
          | none => match rv with
            | some v => fmt v (showSt (aget a v))
            | none => "- - - 0 0"
        | i :: rest =>
          match aInstr it a i with
          | .ok a' => go a' rest
          | .error _ => let v := culprit it a i; fmt v (showSt (aget a v))
      go a b.instrs

def handle (args : List String) : String :=
  match args with
  | "check" :: ws =>
    match parseItem ws with
    | none => "bad-dump"
    | some it =>
      match analyse it with
      | .ok cert => s!"ok {cert.length}"
      | .reject l r a o => s!"reject {l} {r} {detail it l r a o}"
  | "trace" :: ws =>
    match parseItem ws with
    | none => "bad-dump"
    | some it =>
      match propagate it (8 * edgeCount it) [(entryLabel it, initA it)] [] with
      | .ok cert => "ok " ++ " ;; ".intercalate (cert.reverse.map fun (l, a) =>
          match it.findBlock l with
          | some b => s!"B{l}: " ++ traceBlock it a b.instrs
          | none => s!"B{l}: ?")
      | .reject l r a _ => s!"reject {l} {r} :: " ++
          (match it.findBlock l with
           | some b => traceBlock it a b.instrs
           | none => "?")
  | "cert" :: ws =>
    match parseItem ws with
    | none => "bad-dump"
    | some it =>
      match analyse it with
      | .ok cert => oneLine (toString (repr cert))
      | .reject _ _ _ _ => "[]"
  | "lean" :: ws =>
    match parseItem ws with
    | none => "bad-dump"
    | some it => oneLine (toString (repr it))
  | "exec" :: fuel :: orc :: ws =>
    match parseItem ws, fuel.toNat?, (orc.splitOn ",").mapM String.toNat? with
    | some it, some n, some os =>
      let ω : Oracle := fun i => os.getD i 0
      match runN it ω n (entryLabel it) (initC it (fun _ => 0)) with
      | .done _ v => s!"done {v}"
      | .fail e => s!"fail {errName e}"
      | .running l _ => s!"running {l}"
    | _, _, _ => "bad-dump"
  | _ => "bad-op"

end Driver.C03
