//! A transliterator from a declared subset of Rust to Lean 4 (shallow
//! embedding over `RotoV.Model.RustStd`).
//!
//! Two modes:
//!  * `m(e)`  — a Lean term of type `Res T` (monadic);
//!  * `v(e)`  — a Lean term of type `T` valid inside a `do` block; fallible
//!              sub-terms are written `(← …)`.
//!
//! Anything outside the subset is an `Err`, which the caller turns into a
//! broken obligation (never a silent default).

use quote::ToTokens;
use std::collections::HashMap;
use syn::{BinOp, Expr, Lit, Pat, Stmt, UnOp};

pub type R = Result<String, String>;

/// How a method call is given meaning.
#[derive(Clone)]
pub enum Meth {
    /// `recv.m(args)` ↦ `recv`
    Identity,
    /// `recv.m(args)` ↦ `(f recv args…)`, pure
    Pure(String),
    /// `recv.m(args)` ↦ `(← f recv args…)`
    Fallible(String),
    /// as `Fallible` but `dbg` is passed first
    FallibleDbg(String),
}

pub struct Cx {
    /// Rust path (segments joined by `::`) ↦ Lean name, for constructors,
    /// constants and functions. Tried on the full path, then on the last two
    /// segments, then on the last segment.
    pub paths: HashMap<String, String>,
    /// Function paths that are fallible: `(← f args)` (and receive `dbg` if
    /// the bool is set).
    pub fallible_fns: HashMap<String, (String, bool)>,
    pub methods: HashMap<String, Meth>,
    /// Rust type name ↦ Lean type name (for `as` casts and ascriptions)
    pub types: HashMap<String, String>,
    /// Call rewrites on the printed callee, e.g. `eval_operand` ↦ second arg
    pub call_rewrites: HashMap<String, CallRw>,
    /// Macros that mean "panic"
    pub panic_macros: Vec<String>,
}

#[derive(Clone)]
pub enum CallRw {
    /// replace the call by its n-th argument
    Arg(usize),
}

fn path_str(p: &syn::Path) -> String {
    p.segments
        .iter()
        .map(|s| s.ident.to_string())
        .collect::<Vec<_>>()
        .join("::")
}

impl Default for Cx {
    fn default() -> Self {
        let mut types = HashMap::new();
        for (r, l) in [
            ("u8", "U8"), ("u16", "U16"), ("u32", "U32"), ("u64", "U64"),
            ("usize", "Usize"), ("i8", "I8"), ("i16", "I16"), ("i32", "I32"),
            ("i64", "I64"), ("f32", "F32"), ("f64", "F64"), ("bool", "Bool"),
        ] {
            types.insert(r.to_string(), l.to_string());
        }
        let mut methods = HashMap::new();
        for m in ["clone", "into", "as_ref", "iter", "to_owned", "borrow"] {
            methods.insert(m.to_string(), Meth::Identity);
        }
        Cx {
            paths: HashMap::new(),
            fallible_fns: HashMap::new(),
            methods,
            types,
            call_rewrites: HashMap::new(),
            panic_macros: ["panic", "todo", "unreachable", "ice", "unimplemented"]
                .iter()
                .map(|s| s.to_string())
                .collect(),
        }
    }
}

impl Cx {
    pub fn map_path(&self, p: &syn::Path) -> String {
        let full = path_str(p);
        if let Some(x) = self.paths.get(&full) {
            return x.clone();
        }
        let segs: Vec<String> =
            p.segments.iter().map(|s| s.ident.to_string()).collect();
        if segs.len() >= 2 {
            let two = segs[segs.len() - 2..].join("::");
            if let Some(x) = self.paths.get(&two) {
                return x.clone();
            }
        }
        let last = segs.last().cloned().unwrap_or_default();
        if segs.len() < 2 || matches!(last.as_str(), "None" | "Some") {
            if let Some(x) = self.paths.get(&last) {
                return x.clone();
            }
        }
        match last.as_str() {
            "None" => return "none".into(),
            "Some" => return "some".into(),
            "true" => return "true".into(),
            "false" => return "false".into(),
            _ => {}
        }
        // default: `A::B` ↦ `A.B` on the last two segments
        if segs.len() >= 2 {
            format!("{}.{}", segs[segs.len() - 2], segs[segs.len() - 1])
        } else {
            lean_ident(&last)
        }
    }

    pub fn ty(&self, t: &syn::Type) -> R {
        let s = t.to_token_stream().to_string().replace(' ', "");
        self.types
            .get(&s)
            .cloned()
            .ok_or_else(|| format!("unsupported type in cast/ascription: {s}"))
    }

    // ---------------------------------------------------------------- patterns
    pub fn pat(&self, p: &Pat) -> R {
        Ok(match p {
            Pat::Wild(_) => "_".into(),
            Pat::Rest(_) => "..".into(),
            Pat::Ident(i) => {
                if i.subpat.is_some() {
                    return Err("unsupported: @ pattern".into());
                }
                let name = i.ident.to_string();
                if name.chars().next().is_some_and(|c| c.is_uppercase()) {
                    // a unit variant / constant brought in by `use`
                    let p: syn::Path = syn::parse_str(&name).unwrap();
                    self.map_path(&p)
                } else {
                    lean_ident(&name)
                }
            }
            Pat::Path(pp) => self.map_path(&pp.path),
            Pat::Lit(l) => self.lit(&l.lit)?,
            Pat::Reference(r) => self.pat(&r.pat)?,
            Pat::Paren(pp) => format!("({})", self.pat(&pp.pat)?),
            Pat::Tuple(t) => {
                let xs: Result<Vec<_>, _> =
                    t.elems.iter().map(|x| self.pat(x)).collect();
                format!("({})", xs?.join(", "))
            }
            Pat::TupleStruct(ts) => {
                let xs: Result<Vec<_>, _> =
                    ts.elems.iter().map(|x| self.pat(x)).collect();
                format!("({} {})", self.map_path(&ts.path), xs?.join(" "))
            }
            Pat::Or(o) => {
                let xs: Result<Vec<_>, _> =
                    o.cases.iter().map(|x| self.pat(x)).collect();
                xs?.join(" | ")
            }
            Pat::Struct(s) => {
                // `T { a, b, .. }` ↦ anonymous-constructor-free form: only
                // supported when every field is a plain binding; emitted as
                // a named-argument pattern.
                let mut fields = vec![];
                for f in &s.fields {
                    let name = f.member.to_token_stream().to_string();
                    let pat = self.pat(&f.pat)?;
                    fields.push(format!("({} := {})", lean_ident(&name), pat));
                }
                format!("({} {})", self.map_path(&s.path), fields.join(" "))
            }
            other => {
                return Err(format!(
                    "unsupported pattern: {}",
                    other.to_token_stream()
                ));
            }
        })
    }

    fn lit(&self, l: &Lit) -> R {
        Ok(match l {
            Lit::Int(i) => {
                let digits = i.base10_digits().to_string();
                match i.suffix() {
                    "" => digits,
                    suf => {
                        let t = self
                            .types
                            .get(suf)
                            .ok_or_else(|| format!("bad int suffix {suf}"))?;
                        format!("(RInt.lit {digits} : {t})")
                    }
                }
            }
            Lit::Bool(b) => b.value.to_string(),
            Lit::Str(s) => format!("{:?}", s.value()),
            Lit::Char(c) => format!("{:?}", c.value()),
            other => {
                return Err(format!(
                    "unsupported literal: {}",
                    other.to_token_stream()
                ));
            }
        })
    }

    // ------------------------------------------------------------ value mode
    pub fn v(&self, e: &Expr) -> R {
        Ok(match e {
            Expr::Lit(l) => self.lit(&l.lit)?,
            Expr::Path(p) => self.map_path(&p.path),
            Expr::Paren(p) => format!("({})", self.v(&p.expr)?),
            Expr::Group(p) => self.v(&p.expr)?,
            Expr::Reference(r) => self.v(&r.expr)?,
            Expr::Unary(u) => match u.op {
                UnOp::Deref(_) => self.v(&u.expr)?,
                UnOp::Not(_) => format!("(← RNot.not {})", self.v(&u.expr)?),
                UnOp::Neg(_) => {
                    format!("(← RNeg.neg dbg {})", self.v(&u.expr)?)
                }
                _ => return Err("unsupported unary op".into()),
            },
            Expr::Binary(b) => {
                let l = self.v(&b.left)?;
                let r = self.v(&b.right)?;
                let f = match b.op {
                    BinOp::Add(_) => "RArith.add dbg",
                    BinOp::Sub(_) => "RArith.sub dbg",
                    BinOp::Mul(_) => "RArith.mul dbg",
                    BinOp::Div(_) => "RArith.div dbg",
                    BinOp::Rem(_) => "RRem.rem dbg",
                    BinOp::Lt(_) => "ROrd.lt",
                    BinOp::Le(_) => "ROrd.le",
                    BinOp::Gt(_) => "ROrd.gt",
                    BinOp::Ge(_) => "ROrd.ge",
                    BinOp::Eq(_) => "REq.eq",
                    BinOp::Ne(_) => {
                        return Ok(format!("(!(← REq.eq {l} {r}))"));
                    }
                    BinOp::And(_) => {
                        let rm = self.m(&b.right)?;
                        return Ok(format!(
                            "(← (if {l} then {rm} else (pure false : Res Bool)))"
                        ));
                    }
                    BinOp::Or(_) => {
                        let rm = self.m(&b.right)?;
                        return Ok(format!(
                            "(← (if {l} then (pure true : Res Bool) else {rm}))"
                        ));
                    }
                    _ => {
                        return Err(format!(
                            "unsupported binary op: {}",
                            b.op.to_token_stream()
                        ));
                    }
                };
                format!("(← {f} {l} {r})")
            }
            Expr::Cast(c) => {
                let t = self.ty(&c.ty)?;
                format!("(RCast.cast {} : {t})", self.v(&c.expr)?)
            }
            Expr::Tuple(t) => {
                if t.elems.is_empty() {
                    "()".into()
                } else {
                    let xs: Result<Vec<_>, _> =
                        t.elems.iter().map(|x| self.v(x)).collect();
                    format!("({})", xs?.join(", "))
                }
            }
            Expr::Field(f) => {
                let base = self.v(&f.base)?;
                let m = f.member.to_token_stream().to_string();
                // tuple fields `.0` ↦ `.1`
                if let Ok(n) = m.parse::<usize>() {
                    format!("{base}.{}", n + 1)
                } else {
                    format!("{base}.{}", lean_ident(&m))
                }
            }
            Expr::Call(c) => {
                let callee = match &*c.func {
                    Expr::Path(p) => p.path.clone(),
                    other => {
                        return Err(format!(
                            "unsupported callee: {}",
                            other.to_token_stream()
                        ));
                    }
                };
                let cs = path_str(&callee);
                let last = callee
                    .segments
                    .last()
                    .map(|s| s.ident.to_string())
                    .unwrap_or_default();
                if let Some(rw) = self
                    .call_rewrites
                    .get(&cs)
                    .or_else(|| self.call_rewrites.get(&last))
                {
                    match rw {
                        CallRw::Arg(n) => {
                            let a = c.args.iter().nth(*n).ok_or("arg rewrite out of range")?;
                            return self.v(a);
                        }
                    }
                }
                let args: Result<Vec<_>, _> =
                    c.args.iter().map(|x| self.v(x)).collect();
                let args = args?;
                let argstr = if args.is_empty() {
                    String::new()
                } else {
                    format!(" {}", args.join(" "))
                };
                if let Some((f, d)) = self
                    .fallible_fns
                    .get(&cs)
                    .or_else(|| self.fallible_fns.get(&last))
                {
                    let d = if *d { " dbg" } else { "" };
                    format!("(← {f}{d}{argstr})")
                } else {
                    format!("({}{argstr})", self.map_path(&callee))
                }
            }
            Expr::MethodCall(mc) => {
                let name = mc.method.to_string();
                let recv = self.v(&mc.receiver)?;
                let args: Result<Vec<_>, _> =
                    mc.args.iter().map(|x| self.v(x)).collect();
                let args = args?;
                let argstr = if args.is_empty() {
                    String::new()
                } else {
                    format!(" {}", args.join(" "))
                };
                match self.methods.get(&name) {
                    Some(Meth::Identity) => recv,
                    Some(Meth::Pure(f)) => format!("({f} {recv}{argstr})"),
                    Some(Meth::Fallible(f)) => {
                        format!("(← {f} {recv}{argstr})")
                    }
                    Some(Meth::FallibleDbg(f)) => {
                        format!("(← {f} dbg {recv}{argstr})")
                    }
                    None => {
                        return Err(format!("unsupported method: .{name}()"));
                    }
                }
            }
            Expr::Struct(s) => {
                if let Some(rest) = &s.rest {
                    // (added for C20) `T { f: v, ..rest }` ↦ `{ rest with f := v }`
                    let rest = self.v(rest)?;
                    let mut fields = vec![];
                    for f in &s.fields {
                        let name = f.member.to_token_stream().to_string();
                        fields.push(format!(
                            "{} := {}",
                            lean_ident(&name),
                            self.v(&f.expr)?
                        ));
                    }
                    return Ok(format!("{{ {rest} with {} }}", fields.join(", ")));
                }
                let mut fields = vec![];
                for f in &s.fields {
                    let name = f.member.to_token_stream().to_string();
                    fields.push(format!(
                        "({} := {})",
                        lean_ident(&name),
                        self.v(&f.expr)?
                    ));
                }
                format!("({} {})", self.map_path(&s.path), fields.join(" "))
            }
            // (tolerance) `matches!(e, P)` ↦ `(match e with | P => true | _ => false)`:
            // the same Lean term as the `if let P = e { true } else { false }` spelling
            Expr::Macro(mac) if macro_name(&mac.mac) == "matches" => {
                let (scrut, pat) = self.matches_parts(&mac.mac)?;
                format!("(match {scrut} with | {pat} => true | _ => false)")
            }
            Expr::If(_) | Expr::Match(_) | Expr::Block(_) | Expr::Macro(_) => {
                format!("(← {})", self.m(e)?)
            }
            // (added for C20) `xs[i]` ↦ `(← RIndex.index xs i)` (out of range panics);
            // `xs[a..b]` ↦ `(← RIndex.slice xs a b)` (start > end or end > len panics)
            Expr::Index(ix) => {
                let base = self.v(&ix.expr)?;
                match &*ix.index {
                    Expr::Range(r) => {
                        if !matches!(r.limits, syn::RangeLimits::HalfOpen(_)) {
                            return Err("unsupported: inclusive range index".into());
                        }
                        let a = match &r.start {
                            Some(a) => self.v(a)?,
                            None => "0".into(),
                        };
                        let b = match &r.end {
                            Some(b) => self.v(b)?,
                            None => format!("(Vec.len {base})"),
                        };
                        format!("(← RIndex.slice {base} {a} {b})")
                    }
                    idx => format!("(← RIndex.index {base} {})", self.v(idx)?),
                }
            }
            // (added for C19) `[a, b, c]` ↦ a Lean list literal
            Expr::Array(a) => {
                let xs: Result<Vec<_>, _> =
                    a.elems.iter().map(|x| self.v(x)).collect();
                format!("[{}]", xs?.join(", "))
            }
            // (added for C19) `|x, y| body` ↦ `(fun x y => body)`; the body
            // must be pure (a `(← …)` cannot be lifted over the binder)
            Expr::Closure(c) => {
                let mut ps = vec![];
                for p in &c.inputs {
                    match p {
                        Pat::Ident(_) | Pat::Wild(_) => ps.push(self.pat(p)?),
                        // (added for C20) `|(a, b)| …` ↦ `fun (a, b) => …`
                        Pat::Tuple(t)
                            if t.elems.iter().all(|x| {
                                matches!(x, Pat::Ident(_) | Pat::Wild(_))
                            }) =>
                        {
                            ps.push(self.pat(p)?)
                        }
                        other => {
                            return Err(format!(
                                "unsupported closure parameter: {}",
                                other.to_token_stream()
                            ));
                        }
                    }
                }
                let mut body: &Expr = &c.body;
                while let Expr::Block(b) = body {
                    match b.block.stmts.as_slice() {
                        [Stmt::Expr(e, None)] => body = e,
                        _ => break,
                    }
                }
                let b = self.v(body)?;
                if b.contains("(←") {
                    return Err(format!(
                        "unsupported: fallible expression inside a closure: {}",
                        c.body.to_token_stream()
                    ));
                }
                format!("(fun {} => {b})", ps.join(" "))
            }
            other => {
                return Err(format!(
                    "unsupported expression: {}",
                    other.to_token_stream()
                ));
            }
        })
    }

    // ---------------------------------------------------------- monadic mode
    pub fn m(&self, e: &Expr) -> R {
        Ok(match e {
            Expr::Paren(p) => self.m(&p.expr)?,
            Expr::Group(p) => self.m(&p.expr)?,
            Expr::Macro(mac) => {
                let name = mac
                    .mac
                    .path
                    .segments
                    .last()
                    .map(|s| s.ident.to_string())
                    .unwrap_or_default();
                if self.panic_macros.contains(&name) {
                    "Res.panic".into()
                } else {
                    return Err(format!("unsupported macro: {name}!"));
                }
            }
            Expr::Return(r) => match &r.expr {
                Some(x) => format!("(do return {})", self.v(x)?),
                None => "(do return ())".into(),
            },
            Expr::Block(b) => self.block(&b.block.stmts)?,
            Expr::If(i) => {
                if let Expr::Let(l) = &*i.cond {
                    // `if let P = E { A } else { B }`
                    let scrut = self.v(&l.expr)?;
                    let pat = self.pat(&l.pat)?;
                    let then = self.block(&i.then_branch.stmts)?;
                    let els = match &i.else_branch {
                        Some((_, e)) => self.m(e)?,
                        None => "(pure ())".into(),
                    };
                    format!(
                        "(do match {scrut} with\n | {pat} => {then}\n | _ => {els})"
                    )
                } else {
                    let c = self.v(&i.cond)?;
                    let then = self.block(&i.then_branch.stmts)?;
                    let els = match &i.else_branch {
                        Some((_, e)) => self.m(e)?,
                        None => "(pure ())".into(),
                    };
                    format!("(do if {c} then {then} else {els})")
                }
            }
            // (tolerance) `match b { true => A, false => B }` (either order) is the
            // same Lean term as `if b { A } else { B }`
            Expr::Match(mm) if bool_match(mm).is_some() => {
                let (t, f) = bool_match(mm).unwrap();
                let c = self.v(&mm.expr)?;
                format!("(do if {c} then {} else {})", self.m(t)?, self.m(f)?)
            }
            Expr::Match(mm) => {
                let scrut = self.v(&mm.expr)?;
                let arms: Vec<&syn::Arm> = mm.arms.iter().collect();
                let body = self.arms("scrut__", &arms)?;
                format!("(do\n let scrut__ := {scrut}\n {body})")
            }
            other => format!("(do pure {})", self.v(other)?),
        })
    }

    /// First-match semantics with guards: a guarded arm falls through to the
    /// remaining arms when its guard is false. The remainder is bound once as
    /// a local thunk, so the output stays linear in the number of arms.
    fn arms(&self, scrut: &str, arms: &[&syn::Arm]) -> R {
        if arms.is_empty() {
            // unreachable in well-formed Rust (exhaustiveness); make it loud
            return Ok("Res.panic".into());
        }
        let first_guard = arms.iter().position(|a| a.guard.is_some());
        let mut out = String::new();
        match first_guard {
            None => {
                out.push_str(&format!("(do match {scrut} with"));
                for a in arms {
                    out.push_str(&format!(
                        "\n | {} => {}",
                        self.pat(&a.pat)?,
                        self.m(&a.body)?
                    ));
                }
                out.push(')');
            }
            Some(i) => {
                let depth = arms.len();
                let rest = self.arms(scrut, &arms[i + 1..])?;
                out.push_str(&format!(
                    "(let rest__{depth} := fun (_ : Unit) => {rest};\n (do match {scrut} with"
                ));
                for a in &arms[..i] {
                    out.push_str(&format!(
                        "\n | {} => {}",
                        self.pat(&a.pat)?,
                        self.m(&a.body)?
                    ));
                }
                let a = arms[i];
                let g = self.v(&a.guard.as_ref().unwrap().1)?;
                out.push_str(&format!(
                    "\n | {} => (do if {g} then {} else rest__{depth} ())\n | _ => rest__{depth} ()))",
                    self.pat(&a.pat)?,
                    self.m(&a.body)?
                ));
            }
        }
        Ok(out)
    }

    pub fn block(&self, stmts: &[Stmt]) -> R {
        if stmts.is_empty() {
            return Ok("(pure ())".into());
        }
        self.stmts(stmts)
    }

    fn stmts(&self, stmts: &[Stmt]) -> R {
        let (first, rest) = stmts.split_first().unwrap();
        let rest_s = |this: &Self| -> R {
            if rest.is_empty() {
                Ok("(pure ())".into())
            } else {
                this.stmts(rest)
            }
        };
        Ok(match first {
            Stmt::Local(l) => {
                let init = l
                    .init
                    .as_ref()
                    .ok_or("unsupported: let without initialiser")?;
                let (pat_inner, ty) = match &l.pat {
                    Pat::Type(pt) => (&*pt.pat, Some(self.ty(&pt.ty)?)),
                    p => (p, None),
                };
                let pat = self.pat(pat_inner)?;
                let val = self.v(&init.expr)?;
                let val = match ty {
                    Some(t) => format!("({val} : {t})"),
                    None => val,
                };
                if let Some((_, els)) = &init.diverge {
                    let els = self.m(els)?;
                    format!(
                        "(do match {val} with\n | {pat} => {}\n | _ => {els})",
                        rest_s(self)?
                    )
                } else if matches!(pat_inner, Pat::Ident(_) | Pat::Wild(_)) {
                    format!("(do\n let {pat} := {val}\n {})", rest_s(self)?)
                } else {
                    format!(
                        "(do match {val} with\n | {pat} => {})",
                        rest_s(self)?
                    )
                }
            }
            Stmt::Expr(Expr::If(i), _)
                if !rest.is_empty()
                    && i.else_branch.is_none()
                    && diverges(&i.then_branch.stmts) =>
            {
                let then = self.block(&i.then_branch.stmts)?;
                let els = rest_s(self)?;
                if let Expr::Let(l) = &*i.cond {
                    let scrut = self.v(&l.expr)?;
                    let pat = self.pat(&l.pat)?;
                    format!(
                        "(do match {scrut} with\n | {pat} => {then}\n | _ => {els})"
                    )
                } else {
                    let c = self.v(&i.cond)?;
                    format!("(do if {c} then {then} else {els})")
                }
            }
            // (tolerance) a non-final `if` / `match` / block statement some of whose
            // branches leave the function (`return`, panic) and others fall through:
            // the remainder of the block is bound once as a local thunk and every
            // branch that falls through continues with it.  (Without this a nested
            // `return` would be bound by `let _ ←` and silently dropped.)
            Stmt::Expr(e @ (Expr::If(_) | Expr::Match(_) | Expr::Block(_)), _)
                if !rest.is_empty() && contains_return(e) =>
            {
                let n = rest.len();
                let k = format!("k__{n} ()");
                let body = self.with_cont(e, &k)?;
                format!(
                    "(let k__{n} := fun (_ : Unit) => {};\n {body})",
                    rest_s(self)?
                )
            }
            Stmt::Expr(e, semi) => {
                if rest.is_empty() && semi.is_none() {
                    self.m(e)?
                } else if rest.is_empty() {
                    // trailing `expr;` — keep the effect, result is unit
                    match e {
                        Expr::Return(_) | Expr::Macro(_) => self.m(e)?,
                        _ => format!("(do\n let _ ← {}\n pure ())", self.m(e)?),
                    }
                } else {
                    match e {
                        Expr::Return(_) => self.m(e)?,
                        _ => format!(
                            "(do\n let _ ← {}\n {})",
                            self.m(e)?,
                            rest_s(self)?
                        ),
                    }
                }
            }
            Stmt::Macro(mac) => {
                let name = mac
                    .mac
                    .path
                    .segments
                    .last()
                    .map(|s| s.ident.to_string())
                    .unwrap_or_default();
                if self.panic_macros.contains(&name) {
                    "Res.panic".into()
                } else if name == "assert" || name == "assert_eq" || name == "assert_ne" {
                    // (added for C20) `assert!(c, …)` ↦ `if c then rest else panic`
                    use syn::punctuated::Punctuated;
                    let args = mac
                        .mac
                        .parse_body_with(
                            Punctuated::<Expr, syn::Token![,]>::parse_terminated,
                        )
                        .map_err(|e| format!("cannot parse {name}! arguments: {e}"))?;
                    let args: Vec<&Expr> = args.iter().collect();
                    let cond = match (name.as_str(), args.as_slice()) {
                        ("assert", [c, ..]) => self.v(c)?,
                        ("assert_eq", [a, b, ..]) => {
                            format!("(← REq.eq {} {})", self.v(a)?, self.v(b)?)
                        }
                        ("assert_ne", [a, b, ..]) => {
                            format!("(!(← REq.eq {} {}))", self.v(a)?, self.v(b)?)
                        }
                        _ => return Err(format!("{name}!: too few arguments")),
                    };
                    format!("(do\n if {cond} then {} else Res.panic)", rest_s(self)?)
                } else if name == "trace" || name == "debug" || name == "log" {
                    rest_s(self)?
                } else {
                    return Err(format!("unsupported statement macro: {name}!"));
                }
            }
            Stmt::Item(i) => match i {
                syn::Item::Use(_) => rest_s(self)?,
                _ => return Err("unsupported: nested item".into()),
            },
        })
    }
}

impl Cx {
    fn matches_parts(&self, mac: &syn::Macro) -> Result<(String, String), String> {
        struct Parts(Expr, Pat);
        impl syn::parse::Parse for Parts {
            fn parse(input: syn::parse::ParseStream) -> syn::Result<Self> {
                let e: Expr = input.parse()?;
                input.parse::<syn::Token![,]>()?;
                let p = Pat::parse_multi_with_leading_vert(input)?;
                if input.peek(syn::Token![if]) {
                    return Err(input.error("matches! with a guard"));
                }
                let _ = input.parse::<Option<syn::Token![,]>>()?;
                Ok(Parts(e, p))
            }
        }
        let Parts(e, p) = mac
            .parse_body::<Parts>()
            .map_err(|e| format!("unsupported matches!: {e}"))?;
        Ok((self.v(&e)?, self.pat(&p)?))
    }

    /// `e` (an `if` / `match` / block in statement position) followed by the
    /// continuation `k` in every branch that falls through.
    fn with_cont(&self, e: &Expr, k: &str) -> R {
        Ok(match e {
            Expr::Block(b) => self.stmts_then(&b.block.stmts, k)?,
            Expr::If(i) => {
                let then = self.stmts_then(&i.then_branch.stmts, k)?;
                let els = match &i.else_branch {
                    Some((_, e)) => self.with_cont(e, k)?,
                    None => k.to_string(),
                };
                if let Expr::Let(l) = &*i.cond {
                    let scrut = self.v(&l.expr)?;
                    let pat = self.pat(&l.pat)?;
                    format!("(do match {scrut} with\n | {pat} => {then}\n | _ => {els})")
                } else {
                    let c = self.v(&i.cond)?;
                    format!("(do if {c} then {then} else {els})")
                }
            }
            Expr::Match(mm) => {
                if mm.arms.iter().any(|a| a.guard.is_some()) {
                    return Err("unsupported: guarded arms in a non-final match statement with return".into());
                }
                let scrut = self.v(&mm.expr)?;
                let mut out = format!("(do match {scrut} with");
                for a in &mm.arms {
                    out.push_str(&format!(
                        "\n | {} => {}",
                        self.pat(&a.pat)?,
                        self.with_cont(&a.body, k)?
                    ));
                }
                out.push(')');
                out
            }
            Expr::Return(_) => self.m(e)?,
            Expr::Macro(mac) if self.panic_macros.contains(&macro_name(&mac.mac)) => self.m(e)?,
            Expr::Paren(p) => self.with_cont(&p.expr, k)?,
            other => format!("(do\n let _ ← {}\n {k})", self.m(other)?),
        })
    }

    /// The statements, then `k` (unless they leave the function).
    fn stmts_then(&self, stmts: &[Stmt], k: &str) -> R {
        if stmts.is_empty() {
            return Ok(k.to_string());
        }
        if diverges(stmts) {
            return self.block(stmts);
        }
        // append the continuation as a final expression statement
        let cont: Expr = syn::parse_str("__cont__()").unwrap();
        let mut all: Vec<Stmt> = stmts.to_vec();
        if let Some(Stmt::Expr(_, semi)) = all.last_mut() {
            if semi.is_none() {
                *semi = Some(Default::default());
            }
        }
        all.push(Stmt::Expr(cont, None));
        let s = self.stmts(&all)?;
        if !s.contains("(__cont__)") {
            return Err("internal: continuation marker lost".into());
        }
        Ok(s.replace("(do pure (__cont__))", k).replace("(__cont__)", k))
    }
}

pub fn macro_name(m: &syn::Macro) -> String {
    m.path.segments.last().map(|s| s.ident.to_string()).unwrap_or_default()
}

/// `match b { true => A, false => B }` in either order (also `_` for the second arm).
fn bool_match(mm: &syn::ExprMatch) -> Option<(&Expr, &Expr)> {
    if mm.arms.len() != 2 || mm.arms.iter().any(|a| a.guard.is_some()) {
        return None;
    }
    let lit = |p: &Pat| match p {
        Pat::Lit(l) => match &l.lit {
            Lit::Bool(b) => Some(b.value),
            _ => None,
        },
        _ => None,
    };
    let (a, b) = (&mm.arms[0], &mm.arms[1]);
    match (lit(&a.pat), lit(&b.pat)) {
        (Some(true), Some(false)) => Some((&a.body, &b.body)),
        (Some(false), Some(true)) => Some((&b.body, &a.body)),
        (Some(true), None) if matches!(b.pat, Pat::Wild(_)) => Some((&a.body, &b.body)),
        (Some(false), None) if matches!(b.pat, Pat::Wild(_)) => Some((&b.body, &a.body)),
        _ => None,
    }
}

/// Does the expression contain a `return` (or a panic macro) below statement level?
pub fn contains_return(e: &Expr) -> bool {
    struct V(bool);
    impl<'a> syn::visit::Visit<'a> for V {
        fn visit_expr_return(&mut self, _: &'a syn::ExprReturn) {
            self.0 = true;
        }
        fn visit_expr_closure(&mut self, _: &'a syn::ExprClosure) {}
    }
    let mut v = V(false);
    syn::visit::Visit::visit_expr(&mut v, e);
    v.0
}

/// Does this statement list always leave the function (return / panic)?
pub fn diverges(stmts: &[Stmt]) -> bool {
    match stmts.last() {
        Some(Stmt::Expr(Expr::Return(_), _)) => true,
        Some(Stmt::Expr(Expr::Macro(m), _)) => m
            .mac
            .path
            .segments
            .last()
            .is_some_and(|s| ["panic", "ice", "todo", "unreachable"].contains(&s.ident.to_string().as_str())),
        Some(Stmt::Macro(m)) => m
            .mac
            .path
            .segments
            .last()
            .is_some_and(|s| ["panic", "ice", "todo", "unreachable"].contains(&s.ident.to_string().as_str())),
        _ => false,
    }
}

pub fn lean_ident(s: &str) -> String {
    const RESERVED: &[&str] = &[
        "from", "to", "at", "end", "in", "fun", "do", "then", "else", "if",
        "let", "have", "show", "open", "namespace", "section", "def",
        "theorem", "match", "with", "where", "by", "type", "Type", "instance",
        "class", "structure", "inductive", "deriving", "local", "private",
        "variable", "universe", "export", "import", "mutual", "macro", "syntax",
        "notation", "prefix", "infix", "postfix", "attribute", "val",
    ];
    if RESERVED.contains(&s) {
        format!("{s}_")
    } else {
        s.to_string()
    }
}

/// If `e` is `Ctor(match …)` (possibly through parens), push the constructor
/// into every arm that does not diverge with `return`. Needed for the common
/// Rust idiom `Some(match x { … , _ => return None })`.
pub fn push_ctor_into_match(e: &Expr) -> Expr {
    if let Expr::Call(c) = e {
        if c.args.len() == 1 {
            if let Expr::Match(m) = &c.args[0] {
                let mut m = m.clone();
                for arm in m.arms.iter_mut() {
                    if matches!(*arm.body, Expr::Return(_)) {
                        if let Expr::Return(r) = &*arm.body {
                            if let Some(x) = &r.expr {
                                arm.body = x.clone();
                            }
                        }
                        continue;
                    }
                    let mut call = c.clone();
                    call.args = std::iter::once((*arm.body).clone()).collect();
                    arm.body = Box::new(Expr::Call(call));
                }
                return Expr::Match(m);
            }
        }
    }
    e.clone()
}
