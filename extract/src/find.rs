//! Locating items inside roto's sources with `syn`.

use quote::ToTokens;
use std::path::Path;
use syn::visit::Visit;

pub fn parse(repo: &Path, rel: &str) -> Result<syn::File, String> {
    let p = repo.join(rel);
    let s = std::fs::read_to_string(&p)
        .map_err(|e| format!("cannot read {}: {e}", p.display()))?;
    syn::parse_file(&s).map_err(|e| format!("cannot parse {rel}: {e}"))
}

/// A function body: its signature and block, free or inside an `impl`.
#[derive(Clone)]
pub struct FnBody {
    pub sig: syn::Signature,
    pub block: syn::Block,
    pub impl_of: Option<String>,
}

struct FnFinder<'a> {
    name: &'a str,
    impl_ty: Option<&'a str>,
    cur_impl: Option<String>,
    found: Vec<FnBody>,
}

impl<'ast> Visit<'ast> for FnFinder<'_> {
    fn visit_item_fn(&mut self, i: &'ast syn::ItemFn) {
        if i.sig.ident == self.name && self.impl_ty.is_none() {
            self.found.push(FnBody {
                sig: i.sig.clone(),
                block: (*i.block).clone(),
                impl_of: None,
            });
        }
        syn::visit::visit_item_fn(self, i);
    }
    fn visit_item_impl(&mut self, i: &'ast syn::ItemImpl) {
        let ty = i.self_ty.to_token_stream().to_string().replace(' ', "");
        let tr = i
            .trait_
            .as_ref()
            .map(|(_, p, _)| p.to_token_stream().to_string().replace(' ', ""));
        let label = match tr {
            Some(t) => format!("{t} for {ty}"),
            None => ty,
        };
        let old = self.cur_impl.replace(label);
        syn::visit::visit_item_impl(self, i);
        self.cur_impl = old;
    }
    fn visit_impl_item_fn(&mut self, i: &'ast syn::ImplItemFn) {
        if i.sig.ident == self.name {
            let ok = match (self.impl_ty, &self.cur_impl) {
                (None, _) => true,
                (Some(want), Some(have)) => {
                    have == want
                        || have.starts_with(&format!("{want}<"))
                        || have.ends_with(&format!(" for {want}"))
                        || have.contains(&format!(" for {want}<"))
                }
                _ => false,
            };
            if ok {
                self.found.push(FnBody {
                    sig: i.sig.clone(),
                    block: i.block.clone(),
                    impl_of: self.cur_impl.clone(),
                });
            }
        }
        syn::visit::visit_impl_item_fn(self, i);
    }
}

/// Find the unique function `name` (inside `impl impl_ty` if given; the impl
/// label is `Type` or `Trait for Type`, generics stripped by prefix match).
pub fn func(
    file: &syn::File,
    name: &str,
    impl_ty: Option<&str>,
) -> Result<FnBody, String> {
    let mut f = FnFinder {
        name,
        impl_ty,
        cur_impl: None,
        found: vec![],
    };
    f.visit_file(file);
    match f.found.len() {
        1 => Ok(f.found.pop().unwrap()),
        0 => Err(format!("function {name} (impl {impl_ty:?}) not found")),
        n => Err(format!("function {name} (impl {impl_ty:?}) ambiguous: {n}")),
    }
}

struct MatchFinder {
    scrut: String,
    found: Vec<syn::ExprMatch>,
}
impl<'ast> Visit<'ast> for MatchFinder {
    fn visit_expr_match(&mut self, m: &'ast syn::ExprMatch) {
        let s = m.expr.to_token_stream().to_string().replace(' ', "");
        if s == self.scrut {
            self.found.push(m.clone());
        }
        syn::visit::visit_expr_match(self, m);
    }
}

/// All `match <scrut> { … }` expressions in a block, in source order.
pub fn matches_on(block: &syn::Block, scrut: &str) -> Vec<syn::ExprMatch> {
    let mut f = MatchFinder {
        scrut: scrut.replace(' ', ""),
        found: vec![],
    };
    f.visit_block(block);
    f.found
}

/// The arm of `m` whose pattern's head path ends with `variant`
/// (e.g. `Instruction::Add { .. }` for `"Add"`).
pub fn arm_for<'a>(
    m: &'a syn::ExprMatch,
    variant: &str,
) -> Result<&'a syn::Arm, String> {
    let mut hits = vec![];
    for a in &m.arms {
        let head = match &a.pat {
            syn::Pat::Struct(s) => Some(&s.path),
            syn::Pat::TupleStruct(s) => Some(&s.path),
            syn::Pat::Path(p) => Some(&p.path),
            _ => None,
        };
        if let Some(p) = head {
            if p.segments.last().map(|s| s.ident == variant).unwrap_or(false) {
                hits.push(a);
            }
        }
    }
    match hits.len() {
        1 => Ok(hits[0]),
        0 => Err(format!("no arm for variant {variant}")),
        n => Err(format!("{n} arms for variant {variant}")),
    }
}

pub fn enum_variants(file: &syn::File, name: &str) -> Result<Vec<String>, String> {
    struct F<'a>(&'a str, Vec<Vec<String>>);
    impl<'ast> Visit<'ast> for F<'_> {
        fn visit_item_enum(&mut self, e: &'ast syn::ItemEnum) {
            if e.ident == self.0 {
                self.1
                    .push(e.variants.iter().map(|v| v.ident.to_string()).collect());
            }
        }
    }
    let mut f = F(name, vec![]);
    f.visit_file(file);
    match f.1.len() {
        1 => Ok(f.1.pop().unwrap()),
        n => Err(format!("enum {name}: {n} definitions found")),
    }
}

pub fn struct_fields(
    file: &syn::File,
    name: &str,
) -> Result<Vec<(String, String)>, String> {
    struct F<'a>(&'a str, Vec<Vec<(String, String)>>);
    impl<'ast> Visit<'ast> for F<'_> {
        fn visit_item_struct(&mut self, s: &'ast syn::ItemStruct) {
            if s.ident == self.0 {
                self.1.push(
                    s.fields
                        .iter()
                        .enumerate()
                        .map(|(i, f)| {
                            (
                                f.ident
                                    .as_ref()
                                    .map(|x| x.to_string())
                                    .unwrap_or(i.to_string()),
                                f.ty.to_token_stream().to_string().replace(' ', ""),
                            )
                        })
                        .collect(),
                );
            }
        }
    }
    let mut f = F(name, vec![]);
    f.visit_file(file);
    match f.1.len() {
        1 => Ok(f.1.pop().unwrap()),
        n => Err(format!("struct {name}: {n} definitions found")),
    }
}

/// The tail expression of a block (no trailing semicolon).
pub fn tail_expr(b: &syn::Block) -> Result<&syn::Expr, String> {
    match b.stmts.last() {
        Some(syn::Stmt::Expr(e, None)) => Ok(e),
        _ => Err("block has no tail expression".into()),
    }
}
