//! Translator targets owned by property C07.
//!
//!  * `C07Facts.lean`: the decision structure of the type checker's operator,
//!    assignment, match, unification and declaration logic, read off the
//!    source of src/typechecker/{expr,mod,scope}.rs:
//!      - the arms of the final `match op` of `TypeChecker::binop` (operators,
//!        whether the expression is unified with `bool`, whether the operands
//!        are checked against `bool` or against a fresh variable, which
//!        predicate guards the left operand), and the special cases tried
//!        first (`IpAddr / u8`, String `+`, List `+`);
//!      - what `Negate`, `Not`, `Assign`, `CompoundAssign` test;
//!      - the predicates of the `IntVar × Name` and `FloatVar × Name` arms of
//!        `unify_inner`;
//!      - the tests of `match_expr` and of `insert_declaration`.
//!    The Lean models in `Model/TcRules.lean` / `Model/Unify.lean` are
//!    *parameterised* by these facts, so a changed arm is a changed Lean
//!    definition and the theorems are re-checked against it.
#[allow(unused_imports)]
use super::{Gen, Target};
use crate::find;
use quote::ToTokens;
use std::path::Path;

pub const TARGETS: &[Target] = &[("c07facts", "C07Facts", c07facts as Gen)];

fn norm(t: impl ToTokens) -> String {
    t.to_token_stream().to_string().replace([' ', '\n'], "")
}

fn lean_op(name: &str) -> Result<&'static str, String> {
    Ok(match name {
        "Add" => ".add",
        "Sub" => ".sub",
        "Mul" => ".mul",
        "Div" => ".div",
        "Mod" => ".mod",
        "Eq" => ".eq",
        "Ne" => ".ne",
        "Lt" => ".lt",
        "Le" => ".le",
        "Gt" => ".gt",
        "Ge" => ".ge",
        "And" => ".and",
        "Or" => ".or",
        other => return Err(format!("unknown binary operator `{other}` in binop")),
    })
}

fn pat_idents(p: &syn::Pat, out: &mut Vec<String>) -> Result<(), String> {
    match p {
        syn::Pat::Or(o) => {
            for c in &o.cases {
                pat_idents(c, out)?;
            }
            Ok(())
        }
        syn::Pat::Ident(i) => {
            out.push(i.ident.to_string());
            Ok(())
        }
        syn::Pat::Path(p) => {
            out.push(p.path.segments.last().unwrap().ident.to_string());
            Ok(())
        }
        other => Err(format!("unsupported operator pattern `{}`", norm(other))),
    }
}

/// the constructor names of a pattern like `(IntVar(b, s), Name(name)) | (Name(name), IntVar(b, s))`:
/// one pair per alternative, sorted — so neither the order of the alternatives
/// nor the names of the bound variables matter
fn ctor_pairs(p: &syn::Pat) -> Vec<(String, String)> {
    fn head(p: &syn::Pat) -> String {
        match p {
            syn::Pat::TupleStruct(t) => t.path.segments.last().map(|s| s.ident.to_string()).unwrap_or_default(),
            syn::Pat::Path(t) => t.path.segments.last().map(|s| s.ident.to_string()).unwrap_or_default(),
            syn::Pat::Ident(i) => match &i.subpat {
                Some((_, sub)) => head(sub),
                None => {
                    // a bare identifier: a constructor such as `Never`, or a binder
                    let n = i.ident.to_string();
                    if n.chars().next().map(|c| c.is_uppercase()).unwrap_or(false) { n } else { "_".into() }
                }
            },
            syn::Pat::Reference(r) => head(&r.pat),
            _ => "_".into(),
        }
    }
    let mut out = Vec::new();
    let alts: Vec<&syn::Pat> = match p {
        syn::Pat::Or(o) => o.cases.iter().collect(),
        other => vec![other],
    };
    for a in alts {
        if let syn::Pat::Tuple(t) = a {
            if t.elems.len() == 2 {
                out.push((head(&t.elems[0]), head(&t.elems[1])));
            }
        }
    }
    out.sort();
    out
}

/// the text between `start` and the matching close of the brace that `start` ends with
fn braced_after<'a>(s: &'a str, start: &str) -> Option<&'a str> {
    let i = s.find(start)? + start.len();
    let bytes = s.as_bytes();
    let mut depth = 1;
    let mut j = i;
    while j < bytes.len() {
        match bytes[j] {
            b'{' => depth += 1,
            b'}' => {
                depth -= 1;
                if depth == 0 {
                    return Some(&s[i..j]);
                }
            }
            _ => {}
        }
        j += 1;
    }
    None
}

fn b(x: bool) -> &'static str {
    if x { "true" } else { "false" }
}

fn pred_name(p: &str) -> Result<&'static str, String> {
    Ok(match p {
        "is_int" => ".isInt",
        "is_signed_int" => ".isSignedInt",
        "is_float" => ".isFloat",
        other => return Err(format!("unknown TypeDefinition predicate `{other}` in unify_inner")),
    })
}

/// `type_def.<pred>()` right after `prefix`
fn pred_after(s: &str, prefix: &str) -> Option<String> {
    let i = s.find(prefix)? + prefix.len();
    let rest = &s[i..];
    let j = rest.find("()")?;
    let name = &rest[..j];
    if name.chars().all(|c| c.is_ascii_alphanumeric() || c == '_') { Some(name.to_string()) } else { None }
}

fn c07facts(repo: &Path) -> Result<String, String> {
    let expr_rs = find::parse(repo, "src/typechecker/expr.rs")?;
    let mod_rs = find::parse(repo, "src/typechecker/mod.rs")?;
    let scope_rs = find::parse(repo, "src/typechecker/scope.rs")?;
    let mut out = String::new();
    out.push_str("/- GENERATED by /verif/extract from src/typechecker/expr.rs, mod.rs, scope.rs — do not edit. -/\nimport RotoV.Model.Typing\nnamespace RotoV.Gen.C07Facts\nopen RotoV.Typing\n\n");
    out.push_str("/-- which predicate must hold of the (resolved) left operand -/\ninductive Guard | none | numeric | int\n  deriving DecidableEq, Repr\n\n");
    out.push_str("/-- one arm of the final `match op` of `TypeChecker::binop` -/\nstructure OpArm where\n  ops : List BinOp\n  /-- the expression's type is unified with `bool` (otherwise with the operands' type) -/\n  resultBool : Bool\n  /-- both operands are checked against `bool` (otherwise: left against a fresh variable, right against the left's type) -/\n  operandsBool : Bool\n  guard : Guard\n  deriving Repr\n\n");

    // ---- binop
    let binop = find::func(&expr_rs, "binop", Some("TypeChecker"))?;
    let ms = find::matches_on(&binop.block, "op");
    if ms.len() != 1 {
        return Err(format!("expected one `match op` in binop, found {}", ms.len()));
    }
    let mut arms = Vec::new();
    for arm in &ms[0].arms {
        if arm.guard.is_some() {
            return Err("guarded arm in binop's `match op`".into());
        }
        let mut names = Vec::new();
        pat_idents(&arm.pat, &mut names)?;
        let ops: Vec<&str> = names.iter().map(|n| lean_op(n)).collect::<Result<_, _>>()?;
        let body = norm(&arm.body);
        // what the expression's type is unified with: `bool`, or a local variable
        // holding the operands' type (whatever it is called)
        let result_bool = body.contains("self.unify(&ctx.expected_type,&Type::bool(),span,None)?");
        let result_operand = body.match_indices("self.unify(&ctx.expected_type,&").any(|(i, m)| {
            let rest = &body[i + m.len()..];
            let name: String = rest.chars().take_while(|c| c.is_ascii_alphanumeric() || *c == '_').collect();
            !name.is_empty() && rest[name.len()..].starts_with(",span,None)?")
        });
        if result_bool == result_operand {
            return Err(format!("arm {names:?} of binop: cannot tell what the expression's type is unified with"));
        }
        let operands_bool = body.contains("letctx=ctx.with_type(Type::bool());");
        let numeric = body.contains("ifself.type_info.is_numeric_type(&");
        let int = body.contains("ifself.type_info.is_int_type(&");
        if numeric && int {
            return Err(format!("arm {names:?} of binop tests both is_numeric_type and is_int_type"));
        }
        if (numeric || int) && !(body.contains("}else{Err(self.error_expected_numeric_value(") || body.contains("}else{Err(self.error_expected_int_value(")) {
            return Err(format!("arm {names:?} of binop: the guard's else branch is not an error"));
        }
        // both operands must be checked
        if body.matches("self.expr(scope,&").count() < 1 {
            return Err(format!("arm {names:?} of binop does not check its operands"));
        }
        let guard = if numeric { ".numeric" } else if int { ".int" } else { ".none" };
        arms.push(format!("  ⟨[{}], {}, {}, {guard}⟩", ops.join(", "), b(result_bool), b(operands_bool)));
    }
    out.push_str("/-- the arms of `match op` in source order -/\ndef binopArms : List OpArm := [\n");
    out.push_str(&arms.join(",\n"));
    out.push_str("\n]\n\n");
    // special cases tried before the match
    let whole = norm(&binop.block);
    let div = braced_after(&whole, "ifletDiv=op{").ok_or("binop: no `if let Div = op` block")?;
    let div_special = div.contains("ifType::ip_addr()==resolved{")
        && div.contains("letctx_right=ctx.with_type(Type::u8());")
        && div.contains("self.unify(&ctx.expected_type,&Type::prefix(),span,None)?");
    let add = braced_after(&whole, "ifletAdd=op{").ok_or("binop: no `if let Add = op` block")?;
    let add_string = add.contains("ifType::string()==resolved{") && add.contains("self.unify(&ctx.expected_type,&Type::string(),span,None)?");
    let add_list = add.contains("ifn.name==list_name{") && add.contains("ident:\"List\".into()") && add.contains("self.unify(&ctx.expected_type,&var,span,None)?");
    out.push_str(&format!("/-- `IpAddr / u8` builds a `Prefix` (tried before the general arms) -/\ndef divIpPrefix : Bool := {}\n", b(div_special)));
    out.push_str(&format!("/-- `String + String` appends -/\ndef addString : Bool := {}\n", b(add_string)));
    out.push_str(&format!("/-- `List[T] + List[T]` concatenates -/\ndef addList : Bool := {}\n\n", b(add_list)));

    // ---- Negate / Not / Assign / CompoundAssign arms of `TypeChecker::expr`
    let expr_fn = find::func(&expr_rs, "expr", Some("TypeChecker"))?;
    let em = find::matches_on(&expr_fn.block, "&expr.node");
    if em.len() != 1 {
        return Err(format!("expected one `match &expr.node` in expr, found {}", em.len()));
    }
    let neg = norm(&find::arm_for(&em[0], "Negate")?.body);
    let negate_rejects_unsigned = neg.contains("IntKind::Unsigned") && neg.contains("ifis_unsigned{returnErr(");
    let negate_requires_numeric = neg.contains("ifself.type_info.is_numeric_type(&operand_ty){") && neg.contains("}else{Err(self.error_expected_numeric_value(");
    let negate_marks_signed = neg.contains("ifletType::IntVar(i,MustBeSigned::No)=&operand_ty{") && neg.contains("Type::IntVar(*i,MustBeSigned::Yes)");
    let not = norm(&find::arm_for(&em[0], "Not")?.body);
    let not_bool = not.contains("self.unify(&ctx.expected_type,&Type::bool(),id,None)?") && not.contains("self.expr(scope,&ctx.with_type(Type::bool()),e)");
    let local_test = "ifpath_value.kind!=ValueKind::Local{returnErr(";
    let assign = norm(&find::arm_for(&em[0], "Assign")?.body);
    let cassign = norm(&find::arm_for(&em[0], "CompoundAssign")?.body);
    out.push_str(&format!("def negateRejectsUnsigned : Bool := {}\ndef negateRequiresNumeric : Bool := {}\ndef negateMarksSigned : Bool := {}\ndef notOperandBool : Bool := {}\n", b(negate_rejects_unsigned), b(negate_requires_numeric), b(negate_marks_signed), b(not_bool)));
    out.push_str(&format!("/-- `Assign` rejects a path whose root is not a local variable -/\ndef assignRequiresLocal : Bool := {}\ndef compoundAssignRequiresLocal : Bool := {}\n\n", b(assign.contains(local_test)), b(cassign.contains(local_test))));

    // ---- unify_inner
    let unify = find::func(&mod_rs, "unify_inner", Some("TypeChecker"))?;
    let um = find::matches_on(&unify.block, "(a,b)");
    if um.len() != 1 {
        return Err(format!("expected one `match (a, b)` in unify_inner, found {}", um.len()));
    }
    let mut int_arm = None;
    let mut float_arm = None;
    let mut never_arms = 0;
    let mut pats = Vec::new();
    for arm in &um[0].arms {
        let p = norm(&arm.pat);
        let pairs = ctor_pairs(&arm.pat);
        let is = |x: &str, y: &str| pairs == vec![(x.to_string(), y.to_string()), (y.to_string(), x.to_string())];
        if is("IntVar", "Name") {
            int_arm = Some(norm(&arm.body));
        }
        if is("FloatVar", "Name") {
            float_arm = Some(norm(&arm.body));
        }
        if pairs.iter().any(|(a, b)| (a == "Never") != (b == "Never")) && arm.guard.is_none() {
            never_arms += 1;
        }
        pats.push(p);
    }
    // the never type: is there an arm that lets `Never` unify with anything inside
    // `unify_inner` (i.e. also in nested positions, in both directions)?
    let never_arm = never_arms > 0;
    let int_arm = int_arm.ok_or("unify_inner: IntVar × Name arm not found")?;
    let float_arm = float_arm.ok_or("unify_inner: FloatVar × Name arm not found")?;
    let args_test = "if!name.arguments.is_empty(){returnNone;}";
    let (yes, no) = if let Some(y) = pred_after(&int_arm, "letcorrect=ifs==MustBeSigned::Yes{type_def.") {
        let n = pred_after(&int_arm, "}else{type_def.").ok_or("unify_inner: IntVar arm: no else predicate")?;
        (y, n)
    } else if let Some(p) = pred_after(&int_arm, "letcorrect=type_def.") {
        (p.clone(), p)
    } else {
        return Err("unify_inner: IntVar × Name arm: cannot find the predicate that decides `correct`".into());
    };
    if !int_arm.contains("if!correct{returnNone;}") {
        return Err("unify_inner: IntVar × Name arm does not reject when `correct` is false".into());
    }
    let fpred = pred_after(&float_arm, "if!type_def.").ok_or("unify_inner: FloatVar × Name arm: no predicate")?;
    out.push_str("/-- predicates of `TypeDefinition` the unification arms ask -/\ninductive Pred | isInt | isSignedInt | isFloat\n  deriving DecidableEq, Repr\n\n");
    out.push_str(&format!("/-- `IntVar(_, MustBeSigned::Yes)` × `Name`: the named type must satisfy … -/\ndef intVarYesPred : Pred := {}\n/-- `IntVar(_, MustBeSigned::No)` × `Name` -/\ndef intVarNoPred : Pred := {}\ndef intVarRejectsArgs : Bool := {}\n", pred_name(&yes)?, pred_name(&no)?, b(int_arm.contains(args_test))));
    out.push_str(&format!("def floatVarPred : Pred := {}\ndef floatVarRejectsArgs : Bool := {}\n", pred_name(&fpred)?, b(float_arm.contains(args_test))));
    let uints = find::func(&mod_rs, "unify_intvars", Some("TypeChecker"))?;
    let ui = norm(&uints.block);
    let yes_priority = ui.contains("ifa_signed==MustBeSigned::Yes&&b_signed==MustBeSigned::No{self.type_info.unionfind.set(b,Type::IntVar(a,a_signed));Type::IntVar(a,a_signed)}else{self.type_info.unionfind.set(a,Type::IntVar(b,b_signed));Type::IntVar(b,b_signed)}");
    out.push_str(&format!("/-- `unify_intvars`: `Yes` has priority over `No` (b ↦ a exactly when a is Yes and b is No, else a ↦ b) -/\ndef intVarsYesPriority : Bool := {}\n", b(yes_priority)));
    out.push_str(&format!("/-- number of arms of `match (a, b)` -/\ndef unifyArmCount : Nat := {}\n", pats.len()));
    let unify_fn = find::func(&mod_rs, "unify", Some("TypeChecker"))?;
    let ub = norm(&unify_fn.block);
    let found_never = ub.starts_with("{ifletType::Never=self.resolve_type(b){returnOk(self.resolve_type(a));}");
    out.push_str(&format!("/-- `unify_inner` has the arm `(Never, x) | (x, Never) => x` (never unifies with anything, both ways, also nested) -/\ndef unifyInnerNeverArm : Bool := {}\n/-- `unify(expected, found)` accepts a found `!` for any expected type before calling `unify_inner` -/\ndef unifyFoundNeverFitsAll : Bool := {}\n\n", b(never_arm), b(found_never)));

    // ---- match_expr
    let mexpr = find::func(&expr_rs, "match_expr", Some("TypeChecker"))?;
    let mb = norm(&mexpr.block);
    let after_default = mb.contains("ifdefault_arm{returnErr(self.error_unreachable_expression(body));}");
    let exhaustive = mb.contains("if!default_arm&&used_variants.len()<variants.len(){");
    let guarded_not_used = mb.contains("ifletSome(guard)=guard{letctx=ctx.with_type(Type::bool());self.expr(arm_scope,&ctx,guard)?;}elseif!variant_already_used{used_variants.push(variant.node);}");
    let wild_default = mb.contains("ifletSome(guard)=guard{letctx=ctx.with_type(Type::bool());self.expr(arm_scope,&ctx,guard)?;}else{default_arm=true;}");
    let duplicate_is_error = !mb.contains("ifvariant_already_used{println!(");
    out.push_str(&format!("def matchRejectsAfterDefault : Bool := {}\ndef matchCountsUsedVariants : Bool := {}\ndef matchGuardedArmNotUsed : Bool := {}\ndef matchUnguardedWildIsDefault : Bool := {}\n/-- a repeated variant is an error (on this tree: only a printed warning) -/\ndef matchDuplicateVariantIsError : Bool := {}\n\n", b(after_default), b(exhaustive), b(guarded_not_used), b(wild_default), b(duplicate_is_error)));

    // ---- insert_declaration and its callers
    let ins = find::func(&scope_rs, "insert_declaration", Some("ScopeGraph"))?;
    let ib = norm(&ins.block);
    let occupied = ib.contains("Entry::Occupied(entry)=>{letold=entry.into_mut();ifupdate_if(&old.kind){old.kind=kind;Ok(old)}else{Err(old.id)}}");
    let vacant = ib.contains("Entry::Vacant(entry)=>{");
    out.push_str(&format!("/-- `insert_declaration`: an occupied entry is replaced only if `update_if(old)`, else `Err` -/\ndef insertOccupiedAsksUpdateIf : Bool := {}\ndef insertVacantInserts : Bool := {}\n", b(occupied), b(vacant)));
    let never = |name: &str| -> Result<bool, String> {
        let f = find::func(&scope_rs, name, Some("ScopeGraph"))?;
        Ok(norm(&f.block).contains("|_|false"))
    };
    out.push_str(&format!("/-- `insert_var` / `insert_module` never replace an existing declaration -/\ndef insertVarNeverUpdates : Bool := {}\ndef insertModuleNeverUpdates : Bool := {}\n", b(never("insert_var")?), b(never("insert_module")?)));
    let stub_only = |name: &str, needle: &str| -> Result<bool, String> {
        let f = find::func(&scope_rs, name, Some("ScopeGraph"))?;
        Ok(norm(&f.block).contains(needle))
    };
    out.push_str(&format!(
        "/-- `insert_const` / `insert_function` / `insert_method` replace only their own forward stub -/\ndef insertConstUpdatesStubOnly : Bool := {}\ndef insertFunctionUpdatesStubOnly : Bool := {}\ndef insertMethodUpdatesStubOnly : Bool := {}\n",
        b(stub_only("insert_const", "matches!(kind,DeclarationKind::Value(ValueKind::Constant,None))")?),
        b(stub_only("insert_function", "matches!(kind,DeclarationKind::Function(None))")?),
        b(stub_only("insert_method", "matches!(kind,DeclarationKind::Method(None))")?),
    ));
    out.push_str("\nend RotoV.Gen.C07Facts\n");
    Ok(out)
}
