//! Translator targets owned by property C07.
//!
//!  * `C07Facts.lean`: the decision structure of the type checker's operator,
//!    assignment, match, unification and declaration logic, read off the
//!    source of src/typechecker/{expr,mod,scope}.rs:
//!      - the arms of the final `match op` of `TypeChecker::binop` (operators,
//!        whether the expression is unified with `bool`, whether the operands
//!        are checked against `bool` or against a fresh variable, which
//!        predicate guards the left operand), and the special cases tried
//!        first (`IpAddr / u8`, String `+`, List `+`);
//!      - what `Negate`, `Not`, `Assign`, `CompoundAssign` test;
//!      - the predicates of the `IntVar × Name` and `FloatVar × Name` arms of
//!        `unify_inner`;
//!      - the tests of `match_expr` and of `insert_declaration`.
//!    The Lean models in `Model/TcRules.lean` / `Model/Unify.lean` are
//!    *parameterised* by these facts, so a changed arm is a changed Lean
//!    definition and the theorems are re-checked against it.
//!  * `C07Arms.lean` (target `c07arms`, `mod arms` below): the call skeleton of
//!    `TypeChecker::expr` & co., arm by arm; `Model/TcInferPinned.lean` pins the
//!    copy `Model/TcInfer.lean` was written from (refresh: tools/c07_pin_arms.py).
#[allow(unused_imports)]
use super::{Gen, Target};
use crate::find;
use quote::ToTokens;
use std::path::Path;

pub const TARGETS: &[Target] = &[
    ("c07facts", "C07Facts", c07facts as Gen),
    ("c07arms", "C07Arms", arms::c07arms as Gen),
    ("c07cycle", "C07Cycle", arms::c07cycle as Gen),
];

fn norm(t: impl ToTokens) -> String {
    t.to_token_stream().to_string().replace([' ', '\n'], "")
}

fn lean_op(name: &str) -> Result<&'static str, String> {
    Ok(match name {
        "Add" => ".add",
        "Sub" => ".sub",
        "Mul" => ".mul",
        "Div" => ".div",
        "Mod" => ".mod",
        "Eq" => ".eq",
        "Ne" => ".ne",
        "Lt" => ".lt",
        "Le" => ".le",
        "Gt" => ".gt",
        "Ge" => ".ge",
        "And" => ".and",
        "Or" => ".or",
        other => return Err(format!("unknown binary operator `{other}` in binop")),
    })
}

fn pat_idents(p: &syn::Pat, out: &mut Vec<String>) -> Result<(), String> {
    match p {
        syn::Pat::Or(o) => {
            for c in &o.cases {
                pat_idents(c, out)?;
            }
            Ok(())
        }
        syn::Pat::Ident(i) => {
            out.push(i.ident.to_string());
            Ok(())
        }
        syn::Pat::Path(p) => {
            out.push(p.path.segments.last().unwrap().ident.to_string());
            Ok(())
        }
        other => Err(format!("unsupported operator pattern `{}`", norm(other))),
    }
}

/// the constructor names of a pattern like `(IntVar(b, s), Name(name)) | (Name(name), IntVar(b, s))`:
/// one pair per alternative, sorted — so neither the order of the alternatives
/// nor the names of the bound variables matter
fn ctor_pairs(p: &syn::Pat) -> Vec<(String, String)> {
    fn head(p: &syn::Pat) -> String {
        match p {
            syn::Pat::TupleStruct(t) => t.path.segments.last().map(|s| s.ident.to_string()).unwrap_or_default(),
            syn::Pat::Path(t) => t.path.segments.last().map(|s| s.ident.to_string()).unwrap_or_default(),
            syn::Pat::Ident(i) => match &i.subpat {
                Some((_, sub)) => head(sub),
                None => {
                    // a bare identifier: a constructor such as `Never`, or a binder
                    let n = i.ident.to_string();
                    if n.chars().next().map(|c| c.is_uppercase()).unwrap_or(false) { n } else { "_".into() }
                }
            },
            syn::Pat::Reference(r) => head(&r.pat),
            _ => "_".into(),
        }
    }
    let mut out = Vec::new();
    let alts: Vec<&syn::Pat> = match p {
        syn::Pat::Or(o) => o.cases.iter().collect(),
        other => vec![other],
    };
    for a in alts {
        if let syn::Pat::Tuple(t) = a {
            if t.elems.len() == 2 {
                out.push((head(&t.elems[0]), head(&t.elems[1])));
            }
        }
    }
    out.sort();
    out
}

/// the text between `start` and the matching close of the brace that `start` ends with
fn braced_after<'a>(s: &'a str, start: &str) -> Option<&'a str> {
    let i = s.find(start)? + start.len();
    let bytes = s.as_bytes();
    let mut depth = 1;
    let mut j = i;
    while j < bytes.len() {
        match bytes[j] {
            b'{' => depth += 1,
            b'}' => {
                depth -= 1;
                if depth == 0 {
                    return Some(&s[i..j]);
                }
            }
            _ => {}
        }
        j += 1;
    }
    None
}

fn b(x: bool) -> &'static str {
    if x { "true" } else { "false" }
}

fn pred_name(p: &str) -> Result<&'static str, String> {
    Ok(match p {
        "is_int" => ".isInt",
        "is_signed_int" => ".isSignedInt",
        "is_float" => ".isFloat",
        other => return Err(format!("unknown TypeDefinition predicate `{other}` in unify_inner")),
    })
}

/// `type_def.<pred>()` right after `prefix`
fn pred_after(s: &str, prefix: &str) -> Option<String> {
    let i = s.find(prefix)? + prefix.len();
    let rest = &s[i..];
    let j = rest.find("()")?;
    let name = &rest[..j];
    if name.chars().all(|c| c.is_ascii_alphanumeric() || c == '_') { Some(name.to_string()) } else { None }
}

/// What one iteration of `ScopeGraph::resolve_name` consults, in source order:
/// 0 = the scope's declarations (`declarations.get`), 1 = the `recurse` gate,
/// 2 = the scope's imports (`.imports.get`), 3 = the parent scope. Calls of other
/// methods of `ScopeGraph` on `self` are followed (a helper that looks a name up
/// in one scope is part of the iteration).
struct Consults<'f> {
    file: &'f syn::File,
    depth: usize,
    out: Vec<u8>,
}
impl<'ast> syn::visit::Visit<'ast> for Consults<'_> {
    fn visit_expr_method_call(&mut self, m: &'ast syn::ExprMethodCall) {
        self.visit_expr(&m.receiver);
        let recv = norm(&m.receiver);
        let name = m.method.to_string();
        if name == "get" && recv.ends_with("declarations") {
            self.out.push(0);
        } else if name == "get" && recv.ends_with(".imports") {
            self.out.push(2);
        } else if name == "parent" && recv == "self" {
            self.out.push(3);
        } else if recv == "self" && self.depth < 3 && name != "resolve_name" {
            if let Ok(f) = find::func(self.file, &name, Some("ScopeGraph")) {
                let mut inner = Consults { file: self.file, depth: self.depth + 1, out: vec![] };
                inner.visit_block(&f.block);
                self.out.extend(inner.out);
            }
        }
        for a in &m.args {
            self.visit_expr(a);
        }
    }
    fn visit_expr_unary(&mut self, u: &'ast syn::ExprUnary) {
        if matches!(u.op, syn::UnOp::Not(_)) && norm(&u.expr) == "recurse" {
            self.out.push(1);
        }
        syn::visit::visit_expr_unary(self, u);
    }
}

/// the values given to the variable `recurse`, in source order
struct RecurseValues(Vec<String>);
impl<'ast> syn::visit::Visit<'ast> for RecurseValues {
    fn visit_local(&mut self, l: &'ast syn::Local) {
        if norm(&l.pat).trim_start_matches("mut") == "recurse" {
            if let Some(init) = &l.init {
                self.0.push(norm(&init.expr));
            }
        }
        syn::visit::visit_local(self, l);
    }
    fn visit_expr_assign(&mut self, a: &'ast syn::ExprAssign) {
        if norm(&a.left) == "recurse" {
            self.0.push(norm(&a.right));
        }
        syn::visit::visit_expr_assign(self, a);
    }
}

/// A canonical form of a function body, so that behaviour-preserving spellings extract to the
/// same text / the same call skeleton:
///  * an immutable `let x = <init>;` is inlined at its uses (`x.clone()` counts as a use) when
///    `<init>` is a VALUE expression (paths, literals, fields, constructor applications,
///    comparisons and logic, `&`, `.len()` / `.is_empty()` / `.clone()`), or when `x` is used
///    exactly once, in the statement that follows, and `<init>` is straight-line code without a
///    call on `self`, `?`, macro, closure or block;
///  * `!` is pushed inwards over `&&`, `||`, `!`, `==`, `!=` (De Morgan);
///  * the operands of `==` / `!=` are ordered by their text.
/// Nothing here is executed: two functions with the same canonical form differ at most in the
/// order in which side-effect-free subexpressions are evaluated.
pub mod canon {
    use quote::ToTokens;
    use syn::visit::Visit;
    use syn::visit_mut::VisitMut;
    use syn::{BinOp, Block, Expr, Pat, Stmt, UnOp};

    fn txt(t: &impl ToTokens) -> String {
        t.to_token_stream().to_string().replace([' ', '\n'], "")
    }

    fn simple_let(s: &Stmt) -> Option<(syn::Ident, Expr)> {
        let Stmt::Local(l) = s else { return None };
        if !l.attrs.is_empty() {
            return None;
        }
        let init = l.init.as_ref()?;
        if init.diverge.is_some() {
            return None;
        }
        let Pat::Ident(pi) = &l.pat else { return None };
        if pi.by_ref.is_some() || pi.mutability.is_some() || pi.subpat.is_some() {
            return None;
        }
        Some((pi.ident.clone(), (*init.expr).clone()))
    }

    /// variables of the function that may change after they were bound: assigned, borrowed
    /// mutably, declared `mut`, or the receiver of a method that is not a known observer
    const OBSERVERS: &[&str] = &[
        "len", "is_empty", "iter", "clone", "get", "contains", "first", "last", "as_slice", "to_vec", "zip", "as_ref", "to_string", "as_str",
    ];
    #[derive(Default)]
    struct Mutated(Vec<String>);
    impl Mutated {
        fn root(e: &Expr) -> Option<String> {
            match e {
                Expr::Path(p) => p.path.get_ident().map(|i| i.to_string()),
                Expr::Field(f) => Self::root(&f.base),
                Expr::Index(i) => Self::root(&i.expr),
                Expr::Paren(p) => Self::root(&p.expr),
                Expr::Unary(u) => Self::root(&u.expr),
                Expr::Reference(r) => Self::root(&r.expr),
                Expr::MethodCall(m) => Self::root(&m.receiver),
                _ => None,
            }
        }
        fn add(&mut self, e: &Expr) {
            if let Some(r) = Self::root(e) {
                if !self.0.contains(&r) {
                    self.0.push(r);
                }
            }
        }
    }
    impl<'ast> Visit<'ast> for Mutated {
        fn visit_expr(&mut self, e: &'ast Expr) {
            match e {
                Expr::Assign(a) => self.add(&a.left),
                Expr::Binary(b)
                    if matches!(
                        b.op,
                        BinOp::AddAssign(_) | BinOp::SubAssign(_) | BinOp::MulAssign(_) | BinOp::DivAssign(_) | BinOp::RemAssign(_)
                            | BinOp::BitOrAssign(_) | BinOp::BitAndAssign(_) | BinOp::BitXorAssign(_) | BinOp::ShlAssign(_) | BinOp::ShrAssign(_)
                    ) =>
                {
                    self.add(&b.left)
                }
                Expr::Reference(r) if r.mutability.is_some() => self.add(&r.expr),
                Expr::MethodCall(m) if !OBSERVERS.contains(&m.method.to_string().as_str()) => self.add(&m.receiver),
                _ => {}
            }
            syn::visit::visit_expr(self, e);
        }
        fn visit_pat_ident(&mut self, p: &'ast syn::PatIdent) {
            if p.mutability.is_some() || p.by_ref.is_some() {
                let n = p.ident.to_string();
                if !self.0.contains(&n) {
                    self.0.push(n);
                }
            }
            syn::visit::visit_pat_ident(self, p);
        }
    }

    struct Shape<'a> {
        mutated: &'a [String],
        /// no control flow, `?`, closure, macro or block inside
        straight: bool,
        /// a value that is the same wherever it is evaluated in the function
        value: bool,
        mentions_self: bool,
    }
    impl<'ast> Visit<'ast> for Shape<'_> {
        fn visit_expr(&mut self, e: &'ast Expr) {
            match e {
                Expr::Try(_) | Expr::Return(_) | Expr::Break(_) | Expr::Continue(_) | Expr::Closure(_) | Expr::Macro(_)
                | Expr::Block(_) | Expr::If(_) | Expr::Match(_) | Expr::While(_) | Expr::Loop(_) | Expr::ForLoop(_)
                | Expr::Unsafe(_) | Expr::Await(_) | Expr::Assign(_) | Expr::Let(_) | Expr::Async(_) | Expr::Yield(_) => {
                    self.straight = false;
                    self.value = false;
                }
                Expr::Path(p) => {
                    if p.path.is_ident("self") {
                        self.mentions_self = true;
                        self.value = false;
                    }
                    if let Some(i) = p.path.get_ident() {
                        if self.mutated.contains(&i.to_string()) {
                            self.value = false;
                        }
                    }
                }
                Expr::MethodCall(m) => {
                    // observers of a variable that never changes
                    let plain = matches!(&*m.receiver, Expr::Path(p) if p.path.get_ident().is_some());
                    if !(plain && ["len", "is_empty", "clone"].contains(&m.method.to_string().as_str()) && m.args.is_empty()) {
                        self.value = false;
                    }
                }
                Expr::Call(c) => {
                    // constructor applications only: `Type::IntVar(a, s)`, `Some(x)`
                    let f = txt(&c.func);
                    let last = f.rsplit("::").next().unwrap_or("");
                    if !last.chars().next().is_some_and(|ch| ch.is_ascii_uppercase()) {
                        self.value = false;
                    }
                }
                Expr::Field(_) | Expr::Index(_) | Expr::Range(_) | Expr::Struct(_) | Expr::Array(_) | Expr::Repeat(_) => self.value = false,
                Expr::Unary(u) if matches!(u.op, UnOp::Deref(_)) => self.value = false,
                _ => {}
            }
            syn::visit::visit_expr(self, e);
        }
    }
    fn shape<'a>(e: &Expr, mutated: &'a [String]) -> Shape<'a> {
        let mut s = Shape { mutated, straight: true, value: true, mentions_self: false };
        s.visit_expr(e);
        s
    }

    /// uses of a variable in the statements that follow its `let`
    struct Uses<'a> {
        name: &'a syn::Ident,
        count: usize,
        /// the name is bound again, or a macro mentions it (its tokens are not expressions)
        opaque: bool,
    }
    impl<'ast> Visit<'ast> for Uses<'_> {
        fn visit_expr_path(&mut self, p: &'ast syn::ExprPath) {
            if p.path.is_ident(self.name) {
                self.count += 1;
            }
        }
        fn visit_pat_ident(&mut self, p: &'ast syn::PatIdent) {
            if p.ident == *self.name {
                self.opaque = true;
            }
        }
        fn visit_macro(&mut self, m: &'ast syn::Macro) {
            let n = self.name.to_string();
            if m.tokens.to_string().split(|c: char| !(c.is_alphanumeric() || c == '_')).any(|w| w == n) {
                self.opaque = true;
            }
        }
        fn visit_field_value(&mut self, f: &'ast syn::FieldValue) {
            // `S { x }` (shorthand) mentions the variable without an expression of its own in the printed text
            if f.colon_token.is_none() {
                if let syn::Member::Named(m) = &f.member {
                    if m == self.name {
                        self.opaque = true;
                    }
                }
            }
            syn::visit::visit_field_value(self, f);
        }
    }

    fn needs_paren(e: &Expr) -> bool {
        matches!(e, Expr::Binary(_) | Expr::Unary(_) | Expr::Cast(_) | Expr::Reference(_))
    }

    struct Subst<'a> {
        name: &'a syn::Ident,
        init: &'a Expr,
    }
    impl Subst<'_> {
        fn is_var(&self, e: &Expr) -> bool {
            matches!(e, Expr::Path(p) if p.path.is_ident(self.name))
        }
        fn value(&self) -> Expr {
            if needs_paren(self.init) {
                Expr::Paren(syn::ExprParen { attrs: vec![], paren_token: Default::default(), expr: Box::new(self.init.clone()) })
            } else {
                self.init.clone()
            }
        }
    }
    impl VisitMut for Subst<'_> {
        fn visit_expr_mut(&mut self, e: &mut Expr) {
            if let Expr::MethodCall(m) = e {
                if m.method == "clone" && m.args.is_empty() && self.is_var(&m.receiver) {
                    *e = self.value();
                    return;
                }
            }
            if self.is_var(e) {
                *e = self.value();
                return;
            }
            syn::visit_mut::visit_expr_mut(self, e);
        }
    }

    fn peel(e: &Expr) -> &Expr {
        match e {
            Expr::Paren(p) => peel(&p.expr),
            Expr::Group(g) => peel(&g.expr),
            e => e,
        }
    }

    fn paren(e: Expr) -> Expr {
        if needs_paren(&e) {
            Expr::Paren(syn::ExprParen { attrs: vec![], paren_token: Default::default(), expr: Box::new(e) })
        } else {
            e
        }
    }

    /// `!e` with the negation pushed inwards
    fn negate(e: &Expr) -> Expr {
        match peel(e) {
            Expr::Unary(u) if matches!(u.op, UnOp::Not(_)) => peel(&u.expr).clone(),
            Expr::Binary(b) => {
                let mk = |op: BinOp, l: Expr, r: Expr| Expr::Binary(syn::ExprBinary { attrs: vec![], left: Box::new(l), op, right: Box::new(r) });
                match b.op {
                    BinOp::And(_) => mk(BinOp::Or(Default::default()), negate(&b.left), negate(&b.right)),
                    BinOp::Or(_) => mk(BinOp::And(Default::default()), paren_and(negate(&b.left)), paren_and(negate(&b.right))),
                    BinOp::Eq(_) => mk(BinOp::Ne(Default::default()), (*b.left).clone(), (*b.right).clone()),
                    BinOp::Ne(_) => mk(BinOp::Eq(Default::default()), (*b.left).clone(), (*b.right).clone()),
                    _ => not(e),
                }
            }
            _ => not(e),
        }
    }
    /// an operand of `&&` that is an `||` needs its parentheses
    fn paren_and(e: Expr) -> Expr {
        if matches!(&e, Expr::Binary(b) if matches!(b.op, BinOp::Or(_))) { paren(e) } else { e }
    }
    fn not(e: &Expr) -> Expr {
        Expr::Unary(syn::ExprUnary { attrs: vec![], op: UnOp::Not(Default::default()), expr: Box::new(paren(peel(e).clone())) })
    }

    pub struct Logic;
    impl VisitMut for Logic {
        fn visit_expr_mut(&mut self, e: &mut Expr) {
            syn::visit_mut::visit_expr_mut(self, e);
            match e {
                Expr::Unary(u) if matches!(u.op, UnOp::Not(_)) => {
                    let inner = peel(&u.expr);
                    let push = match inner {
                        Expr::Unary(v) => matches!(v.op, UnOp::Not(_)),
                        Expr::Binary(b) => matches!(b.op, BinOp::And(_) | BinOp::Or(_) | BinOp::Eq(_) | BinOp::Ne(_)),
                        _ => false,
                    };
                    if push {
                        *e = negate(inner);
                    }
                }
                Expr::Binary(b) if matches!(b.op, BinOp::Eq(_) | BinOp::Ne(_)) => {
                    if txt(&b.left) > txt(&b.right) {
                        std::mem::swap(&mut b.left, &mut b.right);
                    }
                }
                _ => {}
            }
        }
    }

    /// parentheses that only group a whole condition / argument / initialiser
    struct Parens;
    fn strip(e: &mut Expr) {
        while let Expr::Paren(p) = e {
            *e = (*p.expr).clone();
        }
    }
    impl VisitMut for Parens {
        fn visit_expr_if_mut(&mut self, i: &mut syn::ExprIf) {
            strip(&mut i.cond);
            syn::visit_mut::visit_expr_if_mut(self, i);
        }
        fn visit_expr_while_mut(&mut self, i: &mut syn::ExprWhile) {
            strip(&mut i.cond);
            syn::visit_mut::visit_expr_while_mut(self, i);
        }
        fn visit_expr_match_mut(&mut self, i: &mut syn::ExprMatch) {
            strip(&mut i.expr);
            syn::visit_mut::visit_expr_match_mut(self, i);
        }
        fn visit_expr_call_mut(&mut self, c: &mut syn::ExprCall) {
            for a in c.args.iter_mut() {
                strip(a);
            }
            syn::visit_mut::visit_expr_call_mut(self, c);
        }
        fn visit_expr_method_call_mut(&mut self, c: &mut syn::ExprMethodCall) {
            for a in c.args.iter_mut() {
                strip(a);
            }
            syn::visit_mut::visit_expr_method_call_mut(self, c);
        }
        fn visit_local_init_mut(&mut self, i: &mut syn::LocalInit) {
            strip(&mut i.expr);
            syn::visit_mut::visit_local_init_mut(self, i);
        }
        fn visit_expr_assign_mut(&mut self, a: &mut syn::ExprAssign) {
            strip(&mut a.right);
            syn::visit_mut::visit_expr_assign_mut(self, a);
        }
        fn visit_expr_return_mut(&mut self, r: &mut syn::ExprReturn) {
            if let Some(x) = &mut r.expr {
                strip(x);
            }
            syn::visit_mut::visit_expr_return_mut(self, r);
        }
        fn visit_stmt_mut(&mut self, s: &mut Stmt) {
            if let Stmt::Expr(e, _) = s {
                strip(e);
            }
            syn::visit_mut::visit_stmt_mut(self, s);
        }
        fn visit_expr_paren_mut(&mut self, p: &mut syn::ExprParen) {
            strip(&mut p.expr);
            syn::visit_mut::visit_expr_paren_mut(self, p);
        }
    }

    struct Inline {
        mutated: Vec<String>,
    }
    impl VisitMut for Inline {
        fn visit_block_mut(&mut self, b: &mut Block) {
            syn::visit_mut::visit_block_mut(self, b);
            let mut i = 0;
            while i < b.stmts.len() {
                let Some((name, init)) = simple_let(&b.stmts[i]) else {
                    i += 1;
                    continue;
                };
                let sh = shape(&init, &self.mutated);
                let mut u = Uses { name: &name, count: 0, opaque: false };
                for s in &b.stmts[i + 1..] {
                    u.visit_stmt(s);
                }
                let next_only = {
                    let mut n = Uses { name: &name, count: 0, opaque: false };
                    if let Some(s) = b.stmts.get(i + 1) {
                        n.visit_stmt(s);
                    }
                    n.count == 1 && u.count == 1
                };
                let ok = !u.opaque && u.count > 0 && sh.straight && (sh.value || (next_only && !sh.mentions_self));
                if !ok {
                    i += 1;
                    continue;
                }
                let mut sub = Subst { name: &name, init: &init };
                for s in b.stmts[i + 1..].iter_mut() {
                    sub.visit_stmt_mut(s);
                }
                b.stmts.remove(i);
            }
        }
    }

    pub fn block(b: &Block) -> Block {
        let mut b = b.clone();
        let mut m = Mutated::default();
        m.visit_block(&b);
        Inline { mutated: m.0 }.visit_block_mut(&mut b);
        Logic.visit_block_mut(&mut b);
        Parens.visit_block_mut(&mut b);
        b
    }

    pub fn expr(e: &Expr) -> Expr {
        let mut e = e.clone();
        let mut m = Mutated::default();
        m.visit_expr(&e);
        Inline { mutated: m.0 }.visit_expr_mut(&mut e);
        Logic.visit_expr_mut(&mut e);
        Parens.visit_expr_mut(&mut e);
        e
    }

    /// the binders of an arm (pattern and body: `let`s, nested patterns) renamed `__l0`, `__l1`, … in
    /// order of appearance, lower-case identifiers only (a capitalised identifier pattern is a constant)
    pub fn alpha_arm(arm: &syn::Arm) -> String {
        struct Binders(Vec<String>);
        impl<'ast> Visit<'ast> for Binders {
            fn visit_pat_ident(&mut self, p: &'ast syn::PatIdent) {
                let n = p.ident.to_string();
                if n.chars().next().is_some_and(|c| c.is_ascii_lowercase() || c == '_') && !self.0.contains(&n) {
                    self.0.push(n);
                }
                syn::visit::visit_pat_ident(self, p);
            }
        }
        struct Rename<'a>(&'a [String]);
        impl Rename<'_> {
            fn of(&self, i: &syn::Ident) -> Option<syn::Ident> {
                self.0.iter().position(|n| i == n).map(|k| syn::Ident::new(&format!("__l{k}"), i.span()))
            }
        }
        impl VisitMut for Rename<'_> {
            fn visit_pat_ident_mut(&mut self, p: &mut syn::PatIdent) {
                if let Some(n) = self.of(&p.ident) {
                    p.ident = n;
                }
                syn::visit_mut::visit_pat_ident_mut(self, p);
            }
            fn visit_expr_path_mut(&mut self, p: &mut syn::ExprPath) {
                if p.qself.is_none() && p.path.segments.len() == 1 && p.path.leading_colon.is_none() {
                    if let Some(n) = self.of(&p.path.segments[0].ident) {
                        p.path.segments[0].ident = n;
                    }
                }
            }
        }
        let mut arm = arm.clone();
        *arm.body = expr(&arm.body);
        let mut b = Binders(vec![]);
        b.visit_arm(&arm);
        Rename(&b.0).visit_arm_mut(&mut arm);
        txt(&arm)
    }

    pub fn text(b: &Block) -> String {
        txt(&block(b))
    }
}

fn c07facts(repo: &Path) -> Result<String, String> {
    let expr_rs = find::parse(repo, "src/typechecker/expr.rs")?;
    let mod_rs = find::parse(repo, "src/typechecker/mod.rs")?;
    let scope_rs = find::parse(repo, "src/typechecker/scope.rs")?;
    let mut out = String::new();
    out.push_str("/- GENERATED by /verif/extract from src/typechecker/expr.rs, mod.rs, scope.rs — do not edit. -/\nimport RotoV.Model.Typing\nnamespace RotoV.Gen.C07Facts\nopen RotoV.Typing\n\n");
    out.push_str("/-- which predicate must hold of the (resolved) left operand -/\ninductive Guard | none | numeric | int\n  deriving DecidableEq, Repr\n\n");
    out.push_str("/-- one arm of the final `match op` of `TypeChecker::binop` -/\nstructure OpArm where\n  ops : List BinOp\n  /-- the expression's type is unified with `bool` (otherwise with the operands' type) -/\n  resultBool : Bool\n  /-- both operands are checked against `bool` (otherwise: left against a fresh variable, right against the left's type) -/\n  operandsBool : Bool\n  guard : Guard\n  deriving Repr\n\n");

    // ---- binop
    let binop = find::func(&expr_rs, "binop", Some("TypeChecker"))?;
    let ms = find::matches_on(&binop.block, "op");
    if ms.len() != 1 {
        return Err(format!("expected one `match op` in binop, found {}", ms.len()));
    }
    let mut arms = Vec::new();
    for arm in &ms[0].arms {
        if arm.guard.is_some() {
            return Err("guarded arm in binop's `match op`".into());
        }
        let mut names = Vec::new();
        pat_idents(&arm.pat, &mut names)?;
        let ops: Vec<&str> = names.iter().map(|n| lean_op(n)).collect::<Result<_, _>>()?;
        let body = norm(&arm.body);
        // what the expression's type is unified with: `bool`, or a local variable
        // holding the operands' type (whatever it is called)
        let result_bool = body.contains("self.unify(&ctx.expected_type,&Type::bool(),span,None)?");
        let result_operand = body.match_indices("self.unify(&ctx.expected_type,&").any(|(i, m)| {
            let rest = &body[i + m.len()..];
            let name: String = rest.chars().take_while(|c| c.is_ascii_alphanumeric() || *c == '_').collect();
            !name.is_empty() && rest[name.len()..].starts_with(",span,None)?")
        });
        if result_bool == result_operand {
            return Err(format!("arm {names:?} of binop: cannot tell what the expression's type is unified with"));
        }
        let operands_bool = body.contains("letctx=ctx.with_type(Type::bool());");
        let numeric = body.contains("ifself.type_info.is_numeric_type(&");
        let int = body.contains("ifself.type_info.is_int_type(&");
        if numeric && int {
            return Err(format!("arm {names:?} of binop tests both is_numeric_type and is_int_type"));
        }
        if (numeric || int) && !(body.contains("}else{Err(self.error_expected_numeric_value(") || body.contains("}else{Err(self.error_expected_int_value(")) {
            return Err(format!("arm {names:?} of binop: the guard's else branch is not an error"));
        }
        // both operands must be checked
        if body.matches("self.expr(scope,&").count() < 1 {
            return Err(format!("arm {names:?} of binop does not check its operands"));
        }
        let guard = if numeric { ".numeric" } else if int { ".int" } else { ".none" };
        arms.push(format!("  ⟨[{}], {}, {}, {guard}⟩", ops.join(", "), b(result_bool), b(operands_bool)));
    }
    out.push_str("/-- the arms of `match op` in source order -/\ndef binopArms : List OpArm := [\n");
    out.push_str(&arms.join(",\n"));
    out.push_str("\n]\n\n");
    // special cases tried before the match
    let whole = norm(&binop.block);
    let div = braced_after(&whole, "ifletDiv=op{").ok_or("binop: no `if let Div = op` block")?;
    let div_special = div.contains("ifType::ip_addr()==resolved{")
        && div.contains("letctx_right=ctx.with_type(Type::u8());")
        && div.contains("self.unify(&ctx.expected_type,&Type::prefix(),span,None)?");
    let add = braced_after(&whole, "ifletAdd=op{").ok_or("binop: no `if let Add = op` block")?;
    let add_string = add.contains("ifType::string()==resolved{") && add.contains("self.unify(&ctx.expected_type,&Type::string(),span,None)?");
    let add_list = add.contains("ifn.name==list_name{") && add.contains("ident:\"List\".into()") && add.contains("self.unify(&ctx.expected_type,&var,span,None)?");
    out.push_str(&format!("/-- `IpAddr / u8` builds a `Prefix` (tried before the general arms) -/\ndef divIpPrefix : Bool := {}\n", b(div_special)));
    out.push_str(&format!("/-- `String + String` appends -/\ndef addString : Bool := {}\n", b(add_string)));
    out.push_str(&format!("/-- `List[T] + List[T]` concatenates -/\ndef addList : Bool := {}\n\n", b(add_list)));

    // ---- Negate / Not / Assign / CompoundAssign arms of `TypeChecker::expr`
    let expr_fn = find::func(&expr_rs, "expr", Some("TypeChecker"))?;
    let em = find::matches_on(&expr_fn.block, "&expr.node");
    if em.len() != 1 {
        return Err(format!("expected one `match &expr.node` in expr, found {}", em.len()));
    }
    let neg = norm(&find::arm_for(&em[0], "Negate")?.body);
    let negate_rejects_unsigned = neg.contains("IntKind::Unsigned") && neg.contains("ifis_unsigned{returnErr(");
    let negate_requires_numeric = neg.contains("ifself.type_info.is_numeric_type(&operand_ty){") && neg.contains("}else{Err(self.error_expected_numeric_value(");
    let negate_marks_signed = neg.contains("ifletType::IntVar(i,MustBeSigned::No)=&operand_ty{") && neg.contains("Type::IntVar(*i,MustBeSigned::Yes)");
    let not = norm(&find::arm_for(&em[0], "Not")?.body);
    let not_bool = not.contains("self.unify(&ctx.expected_type,&Type::bool(),id,None)?") && not.contains("self.expr(scope,&ctx.with_type(Type::bool()),e)");
    let local_test = "ifpath_value.kind!=ValueKind::Local{returnErr(";
    let assign = norm(&find::arm_for(&em[0], "Assign")?.body);
    let cassign = norm(&find::arm_for(&em[0], "CompoundAssign")?.body);
    out.push_str(&format!("def negateRejectsUnsigned : Bool := {}\ndef negateRequiresNumeric : Bool := {}\ndef negateMarksSigned : Bool := {}\ndef notOperandBool : Bool := {}\n", b(negate_rejects_unsigned), b(negate_requires_numeric), b(negate_marks_signed), b(not_bool)));
    out.push_str(&format!("/-- `Assign` rejects a path whose root is not a local variable -/\ndef assignRequiresLocal : Bool := {}\ndef compoundAssignRequiresLocal : Bool := {}\n\n", b(assign.contains(local_test)), b(cassign.contains(local_test))));

    // ---- unify_inner
    let unify = find::func(&mod_rs, "unify_inner", Some("TypeChecker"))?;
    let um = find::matches_on(&unify.block, "(a,b)");
    if um.len() != 1 {
        return Err(format!("expected one `match (a, b)` in unify_inner, found {}", um.len()));
    }
    let mut int_arm = None;
    let mut float_arm = None;
    let mut never_arms = 0;
    let mut pats = Vec::new();
    for arm in &um[0].arms {
        let p = norm(&arm.pat);
        let pairs = ctor_pairs(&arm.pat);
        let is = |x: &str, y: &str| pairs == vec![(x.to_string(), y.to_string()), (y.to_string(), x.to_string())];
        if is("IntVar", "Name") {
            int_arm = Some(norm(&arm.body));
        }
        if is("FloatVar", "Name") {
            float_arm = Some(norm(&arm.body));
        }
        if pairs.iter().any(|(a, b)| (a == "Never") != (b == "Never")) && arm.guard.is_none() {
            never_arms += 1;
        }
        pats.push(p);
    }
    // the never type: is there an arm that lets `Never` unify with anything inside
    // `unify_inner` (i.e. also in nested positions, in both directions)?
    let never_arm = never_arms > 0;
    let int_arm = int_arm.ok_or("unify_inner: IntVar × Name arm not found")?;
    let float_arm = float_arm.ok_or("unify_inner: FloatVar × Name arm not found")?;
    let args_test = "if!name.arguments.is_empty(){returnNone;}";
    let (yes, no) = if let Some(y) = pred_after(&int_arm, "letcorrect=ifs==MustBeSigned::Yes{type_def.") {
        let n = pred_after(&int_arm, "}else{type_def.").ok_or("unify_inner: IntVar arm: no else predicate")?;
        (y, n)
    } else if let Some(p) = pred_after(&int_arm, "letcorrect=type_def.") {
        (p.clone(), p)
    } else {
        return Err("unify_inner: IntVar × Name arm: cannot find the predicate that decides `correct`".into());
    };
    if !int_arm.contains("if!correct{returnNone;}") {
        return Err("unify_inner: IntVar × Name arm does not reject when `correct` is false".into());
    }
    let fpred = pred_after(&float_arm, "if!type_def.").ok_or("unify_inner: FloatVar × Name arm: no predicate")?;
    out.push_str("/-- predicates of `TypeDefinition` the unification arms ask -/\ninductive Pred | isInt | isSignedInt | isFloat\n  deriving DecidableEq, Repr\n\n");
    out.push_str(&format!("/-- `IntVar(_, MustBeSigned::Yes)` × `Name`: the named type must satisfy … -/\ndef intVarYesPred : Pred := {}\n/-- `IntVar(_, MustBeSigned::No)` × `Name` -/\ndef intVarNoPred : Pred := {}\ndef intVarRejectsArgs : Bool := {}\n", pred_name(&yes)?, pred_name(&no)?, b(int_arm.contains(args_test))));
    out.push_str(&format!("def floatVarPred : Pred := {}\ndef floatVarRejectsArgs : Bool := {}\n", pred_name(&fpred)?, b(float_arm.contains(args_test))));
    let uints = find::func(&mod_rs, "unify_intvars", Some("TypeChecker"))?;
    let ui = canon::text(&uints.block);
    if std::env::var("C07_EXTRACT_DEBUG").is_ok() {
        eprintln!("unify_intvars: {ui}");
    }
    let yes_priority = ui.contains("ifMustBeSigned::Yes==a_signed&&MustBeSigned::No==b_signed{self.type_info.unionfind.set(b,Type::IntVar(a,a_signed));Type::IntVar(a,a_signed)}else{self.type_info.unionfind.set(a,Type::IntVar(b,b_signed));Type::IntVar(b,b_signed)}");
    out.push_str(&format!("/-- `unify_intvars`: `Yes` has priority over `No` (b ↦ a exactly when a is Yes and b is No, else a ↦ b) -/\ndef intVarsYesPriority : Bool := {}\n", b(yes_priority)));
    out.push_str(&format!("/-- number of arms of `match (a, b)` -/\ndef unifyArmCount : Nat := {}\n", pats.len()));
    let unify_fn = find::func(&mod_rs, "unify", Some("TypeChecker"))?;
    let ub = norm(&unify_fn.block);
    let found_never = ub.starts_with("{ifletType::Never=self.resolve_type(b){returnOk(self.resolve_type(a));}");
    out.push_str(&format!("/-- `unify_inner` has the arm `(Never, x) | (x, Never) => x` (never unifies with anything, both ways, also nested) -/\ndef unifyInnerNeverArm : Bool := {}\n/-- `unify(expected, found)` accepts a found `!` for any expected type before calling `unify_inner` -/\ndef unifyFoundNeverFitsAll : Bool := {}\n\n", b(never_arm), b(found_never)));

    // ---- match_expr
    let mexpr = find::func(&expr_rs, "match_expr", Some("TypeChecker"))?;
    let mb = norm(&mexpr.block);
    let after_default = mb.contains("ifdefault_arm{returnErr(self.error_unreachable_expression(body));}");
    let exhaustive = mb.contains("if!default_arm&&used_variants.len()<variants.len(){");
    let guarded_not_used = mb.contains("ifletSome(guard)=guard{letctx=ctx.with_type(Type::bool());self.expr(arm_scope,&ctx,guard)?;}elseif!variant_already_used{used_variants.push(variant.node);}");
    let wild_default = mb.contains("ifletSome(guard)=guard{letctx=ctx.with_type(Type::bool());self.expr(arm_scope,&ctx,guard)?;}else{default_arm=true;}");
    let duplicate_is_error = !mb.contains("ifvariant_already_used{println!(");
    out.push_str(&format!("def matchRejectsAfterDefault : Bool := {}\ndef matchCountsUsedVariants : Bool := {}\ndef matchGuardedArmNotUsed : Bool := {}\ndef matchUnguardedWildIsDefault : Bool := {}\n/-- a repeated variant is an error (on this tree: only a printed warning) -/\ndef matchDuplicateVariantIsError : Bool := {}\n\n", b(after_default), b(exhaustive), b(guarded_not_used), b(wild_default), b(duplicate_is_error)));

    // ---- insert_declaration and its callers
    let ins = find::func(&scope_rs, "insert_declaration", Some("ScopeGraph"))?;
    // (the arms are looked at one by one, binders alpha-renamed: their order and the names of the locals do not matter)
    let ins_arms: Vec<String> = find::matches_on(&ins.block, "self.declarations.entry(name)").iter().flat_map(|m| m.arms.iter().map(canon::alpha_arm).collect::<Vec<_>>()).collect();
    let occupied = ins_arms.iter().any(|a| a == "Entry::Occupied(__l0)=>{let__l1=__l0.into_mut();ifupdate_if(&__l1.kind){__l1.kind=kind;Ok(__l1)}else{Err(__l1.id)}}");
    let vacant = ins_arms.iter().any(|a| a.starts_with("Entry::Vacant(__l0)=>{"));
    out.push_str(&format!("/-- `insert_declaration`: an occupied entry is replaced only if `update_if(old)`, else `Err` -/\ndef insertOccupiedAsksUpdateIf : Bool := {}\ndef insertVacantInserts : Bool := {}\n", b(occupied), b(vacant)));
    let never = |name: &str| -> Result<bool, String> {
        let f = find::func(&scope_rs, name, Some("ScopeGraph"))?;
        Ok(norm(&f.block).contains("|_|false"))
    };
    out.push_str(&format!("/-- `insert_var` / `insert_module` never replace an existing declaration -/\ndef insertVarNeverUpdates : Bool := {}\ndef insertModuleNeverUpdates : Bool := {}\n", b(never("insert_var")?), b(never("insert_module")?)));
    let stub_only = |name: &str, needle: &str| -> Result<bool, String> {
        let f = find::func(&scope_rs, name, Some("ScopeGraph"))?;
        Ok(norm(&f.block).contains(needle))
    };
    out.push_str(&format!(
        "/-- `insert_const` / `insert_function` / `insert_method` replace only their own forward stub -/\ndef insertConstUpdatesStubOnly : Bool := {}\ndef insertFunctionUpdatesStubOnly : Bool := {}\ndef insertMethodUpdatesStubOnly : Bool := {}\n",
        b(stub_only("insert_const", "matches!(kind,DeclarationKind::Value(ValueKind::Constant,None))")?),
        b(stub_only("insert_function", "matches!(kind,DeclarationKind::Function(None))")?),
        b(stub_only("insert_method", "matches!(kind,DeclarationKind::Method(None))")?),
    ));
    // ---- resolve_name / resolve_module_part_of_path: which names a path segment can reach
    {
        use syn::visit::Visit;
        let f = find::func(&scope_rs, "resolve_name", Some("ScopeGraph"))?;
        let mut c = Consults { file: &scope_rs, depth: 0, out: vec![] };
        c.visit_block(&f.block);
        let mut steps = c.out;
        // `if recurse && let Some(x) = …imports.get(..)`: the gate written positively guards the imports
        if !steps.contains(&1) && norm(&f.block).contains("recurse&&") {
            if let Some(pos) = steps.iter().position(|x| *x == 2) {
                steps.insert(pos, 1);
            }
        }
        for (code, what) in [(0u8, "declarations"), (1, "the `recurse` gate"), (2, "imports"), (3, "parent scope")] {
            if !steps.contains(&code) {
                return Err(format!("resolve_name: {what} not consulted ({steps:?})"));
            }
        }
        let f = find::func(&expr_rs, "resolve_module_part_of_path", None)?;
        let mut r = RecurseValues(vec![]);
        r.visit_block(&f.block);
        let mut vals = Vec::new();
        for v in &r.0 {
            match v.as_str() {
                "true" | "false" => vals.push(v.clone()),
                other => return Err(format!("resolve_module_part_of_path: `recurse` is given `{other}`")),
            }
        }
        out.push_str(&format!(
            "\n/-- `ScopeGraph::resolve_name` (helpers on `self` followed): what one iteration of its loop consults, in source order — 0 the scope's declarations, 1 the exit `if !recurse`, 2 the scope's imports (followed by 0: the import's target), 3 the parent scope -/\ndef resolveNameSteps : List Nat := [{}]\n/-- `resolve_module_part_of_path`: the values given to `recurse`, in source order (initially; after a leading `super`; after every segment) -/\ndef pathRecurseValues : List Bool := [{}]\n",
            steps.iter().map(|x| x.to_string()).collect::<Vec<_>>().join(", "),
            vals.join(", ")
        ));
    }
    // ---- rules special-cased for a built-in type: is the built-in identified by its RESOLVED name
    // (global scope + identifier), so that a script's own type of the same spelling is not taken for it?
    {
        let q = norm(&find::arm_for(&em[0], "QuestionMark")?.body);
        let global_option = "ResolvedName{scope:ScopeRef::GLOBAL,ident:\"Option\".into()";
        // (structure from the alpha-renamed call skeleton: a renamed or inlined local does not change it;
        // the spelling of the identifier from the token text, the skeleton writes every string literal STR)
        let qe = arms::events_of_expr_arm(&expr_rs, "QuestionMark")?;
        let try_needs_return = arms::has_seq(&qe, &["letelse(Some($)=ctx.function_return_type)", "else", "return", "error_simple"]);
        let try_needs_name = arms::has_seq(&qe, &["letelse(Type::Name($)=self.type_info.resolve($))", "ti.resolve($)", "else", "return", "error_simple"]);
        let try_ident = q.contains("\"Option\"");
        let try_scope = q.contains(global_option)
            && (arms::has_seq(&qe, &["if(ResolvedName{scope:ScopeRef::GLOBAL,ident:STR.into()}!=$.name)", "return", "error_simple"])
                || arms::has_seq(&qe, &["if($.name!=ResolvedName{scope:ScopeRef::GLOBAL,ident:STR.into()})", "return", "error_simple"]));
        let global_list = "letlist_name=ResolvedName{scope:ScopeRef::GLOBAL,ident:\"List\".into(),};";
        let concat_ident = add.contains("\"List\"");
        let concat_scope = add.contains("ifletType::Name(n)=resolved{") && add.contains(global_list) && add.contains("ifn.name==list_name{");
        let string_by_type = add.contains("ifType::string()==resolved{");
        out.push_str(&format!(
            "\n/-- `?`: the enclosing item must have a return type, it must be a type name, its identifier is compared with \"Option\", and the comparison is on the whole resolved name (scope GLOBAL) -/\ndef tryNeedsReturnType : Bool := {}\ndef tryNeedsTypeName : Bool := {}\ndef tryTestsIdent : Bool := {}\ndef tryTestsGlobalScope : Bool := {}\n/-- `+` on lists: the left operand's type name is compared with \"List\" / with the resolved name in the GLOBAL scope -/\ndef concatTestsIdent : Bool := {}\ndef concatTestsGlobalScope : Bool := {}\n/-- `+` on strings: the left operand's type is compared with the built-in `Type::string()` -/\ndef appendTestsBuiltinString : Bool := {}\n",
            b(try_needs_return), b(try_needs_name), b(try_ident), b(try_scope), b(concat_ident), b(concat_scope), b(string_by_type)
        ));
        // ---- the deferred `to_string` obligation of an f-string part
        let fs = norm(&find::arm_for(&em[0], "FString")?.body);
        let pushes_unary = fs.contains("self.obligations.push(Obligation::ResolveMethod{id:part.id,receiver:ty.clone(),ident:\"to_string\".into(),parameter_types:vec![ty.clone()],return_type:Type::string(),},)")
            || fs.contains("self.obligations.push(Obligation::ResolveMethod{id:part.id,receiver:ty.clone(),ident:\"to_string\".into(),parameter_types:vec![ty.clone()],return_type:Type::string(),})");
        let ro = norm(&find::func(&mod_rs, "resolve_obligations", Some("TypeChecker"))?.block);
        if std::env::var("C07_EXTRACT_DEBUG").is_ok() {
            eprintln!("QuestionMark: {q}\nFString: {fs}\nresolve_obligations: {ro}");
        }
        let re = arms::events_of_fn(&mod_rs, "resolve_obligations")?;
        let _ = &ro;
        let arity = re.iter().any(|e| e == "$&=$.len()==$.parameter_types.len()" || e == "$&=$.parameter_types.len()==$.len()");
        let params = arms::has_seq(&re, &["for(($,$)<-$.parameter_types.iter().zip($))", "&=", "unify($,$,$)"]);
        let ret = arms::has_seq(&re, &["&=", "unify($.return_type,$,$)"]);
        let rejects = arms::has_seq(&re, &["if(!$)", "return", "error_simple"]);
        let missing = arms::has_seq(&re, &["letelse(Some($)=self.get_method($,$))", "get_method($,$)", "else", "return", "error_no_method_on_type"]);
        out.push_str(&format!(
            "\n/-- an f-string part pushes the obligation `to_string : fn(receiver) -> String` -/\ndef fstringAsksUnaryToString : Bool := {}\n/-- `resolve_obligations`: a missing method is an error; the found signature is compared with the required one by number of parameters, pairwise unification of the parameters, unification of the return types; a signature that is not `correct` is an error -/\ndef oblMissingMethodIsError : Bool := {}\ndef oblChecksArity : Bool := {}\ndef oblUnifiesParams : Bool := {}\ndef oblUnifiesReturn : Bool := {}\ndef oblRejectsIncorrect : Bool := {}\n",
            b(pushes_unary), b(missing), b(arity), b(params), b(ret), b(rejects)
        ));
    }
    out.push_str("\nend RotoV.Gen.C07Facts\n");
    Ok(out)
}

/// `C07Arms.lean`: a *call skeleton* of the type checker's expression code.
///
/// For every arm of `match &expr.node` (`TypeChecker::expr`), `match &stmt.node`
/// (`stmt`), `match &lit.node` (`literal`) and for a list of whole functions the
/// body is walked in source order and a list of short strings ("events") is
/// written: the calls on `self`, the selected calls on `self.type_info…`, the
/// control flow around them and the definitions of the locals they use. Local
/// variables are alpha-renamed to `$k`, so renaming a local does not change the
/// skeleton, while adding / removing / reordering a call, or changing the type
/// an expression is checked against, does. `Model/TcInferPinned.lean` holds the
/// copy the Lean model was written from; `Props/C07.lean` proves the two equal.
///
/// Events (texts are the token stream without whitespace, with `&`, `mut`,
/// `.clone()`, `.to_string()` removed, string literals replaced by `STR`,
/// `x.with_type(T)` written `with_type(T)`, variables ending in `scope` written `S`):
///   `name(args)`         call `self.name(..)`; spans / ids, a trailing `None` and the leading
///                        scope of expr/block/stmt/binop/check_arguments/record_fields/imports
///                        are dropped; `error_*` calls: only the name
///   `ti.name(args)`      is_numeric_type, is_int_type, resolve, resolve_type_name, set, wrap on
///                        `self.type_info…` (every other call on it is bookkeeping and ignored)
///   `obligation(m)`      `self.obligations.push(Obligation::…{ ident: "m".into(), .. })`
///   `PAT=EVENT`          `let PAT = <one of the calls above / Ok(..)>`, also `x = <…>;`
///   `PAT=TEXT`           `let PAT = <other expression without nested blocks>` (then its events)
///   `let(PAT)`           `let PAT = <if / match / block>` (then its events; a bare block is closed by `end`)
///   `TEXT`               a statement `TEXT;` that neither calls `self` nor is bookkeeping on
///                        `self.type_info` / `self.obligations` (`x=true`, `v.push(y)`, `self.n+=1`, `continue`)
///   `letelse(PAT=E)` … `else` … `end`
///   `if(COND)` … [`else` …] `end`,  `match(E)` `arm(PAT)` [`guard(G)`] … `end`,
///   `for(PAT<-E)` … `end`,  `while(COND)` … `end`,  `loop` … `end`
///   `Ok(X)`, `return`, `|=` / `&=` (before a right-hand side that calls `self`)
///   `value(TEXT)`        the value of a block / arm that is not itself one of the events above
mod arms {
    use crate::find;
    use proc_macro2::{Delimiter, Ident, Spacing, Span, TokenStream, TokenTree};
    use quote::ToTokens;
    use std::collections::HashSet;
    use std::path::Path;
    use syn::visit::Visit;
    use syn::visit_mut::VisitMut;
    use syn::{Expr, Pat, Stmt};

    /// methods of `self.type_info…` that are part of the skeleton
    const TI_METHODS: &[&str] = &["is_numeric_type", "is_int_type", "resolve", "resolve_type_name", "set", "wrap"];
    /// methods of `self` whose first argument is the scope
    const SCOPE_FIRST: &[&str] = &["expr", "block", "stmt", "binop", "check_arguments", "record_fields", "imports"];

    // ------------------------------------------------------------------ cfg

    fn is_hook_cfg(attrs: &[syn::Attribute]) -> bool {
        attrs.iter().any(|a| {
            a.path().is_ident("cfg")
                && match &a.meta {
                    syn::Meta::List(l) => l.tokens.to_string().replace(' ', "") == "feature=\"verif-hooks\"",
                    _ => false,
                }
        })
    }

    fn expr_attrs(e: &Expr) -> &[syn::Attribute] {
        macro_rules! go {
            ($($v:ident),*) => { match e { $(Expr::$v(x) => &x.attrs[..],)* _ => &[] } };
        }
        go!(
            Array, Assign, Async, Await, Binary, Block, Break, Call, Cast, Closure, Const, Continue, Field, ForLoop,
            Group, If, Index, Infer, Let, Lit, Loop, Macro, Match, MethodCall, Paren, Path, Range, Reference, Repeat,
            Return, Struct, Try, TryBlock, Tuple, Unary, Unsafe, While, Yield
        )
    }

    fn item_attrs(i: &syn::Item) -> &[syn::Attribute] {
        macro_rules! go {
            ($($v:ident),*) => { match i { $(syn::Item::$v(x) => &x.attrs[..],)* _ => &[] } };
        }
        go!(Const, Enum, ExternCrate, Fn, ForeignMod, Impl, Macro, Mod, Static, Struct, Trait, TraitAlias, Type, Union, Use)
    }

    fn stmt_is_hook(s: &Stmt) -> bool {
        match s {
            Stmt::Local(l) => is_hook_cfg(&l.attrs),
            Stmt::Macro(m) => is_hook_cfg(&m.attrs),
            Stmt::Expr(e, _) => is_hook_cfg(expr_attrs(e)),
            Stmt::Item(i) => is_hook_cfg(item_attrs(i)),
        }
    }

    // ----------------------------------------------------------------- text

    fn is_punct(t: Option<&TokenTree>, c: char) -> bool {
        matches!(t, Some(TokenTree::Punct(p)) if p.as_char() == c)
    }
    fn is_ident(t: Option<&TokenTree>, names: &[&str]) -> bool {
        matches!(t, Some(TokenTree::Ident(i)) if names.iter().any(|n| i == n))
    }
    fn is_paren(t: Option<&TokenTree>, must_be_empty: bool) -> bool {
        matches!(t, Some(TokenTree::Group(g)) if g.delimiter() == Delimiter::Parenthesis && (!must_be_empty || g.stream().is_empty()))
    }

    /// `__v12__` ↦ `$12`, `__S__` ↦ `S` (the placeholders the renamer leaves behind)
    fn show_ident(s: &str) -> String {
        if s == "__S__" {
            return "S".into();
        }
        if let Some(k) = s.strip_prefix("__v").and_then(|r| r.strip_suffix("__")) {
            if !k.is_empty() && k.chars().all(|c| c.is_ascii_digit()) {
                return format!("${k}");
            }
        }
        s.to_string()
    }

    fn render(ts: TokenStream, out: &mut String) {
        let mut toks: Vec<TokenTree> = ts.into_iter().collect();
        // a trailing comma (`f(a, b,)`, `S { x: 1, }`) is layout, not content
        if is_punct(toks.last(), ',') {
            toks.pop();
        }
        let mut i = 0;
        while i < toks.len() {
            match &toks[i] {
                TokenTree::Ident(id) => {
                    let s = id.to_string();
                    if s == "mut" {
                        i += 1;
                        continue;
                    }
                    // `ctx.with_type(T)` (receiver: one identifier) is written `with_type(T)`
                    let after_dot = i > 0 && is_punct(toks.get(i - 1), '.');
                    if !after_dot
                        && is_punct(toks.get(i + 1), '.')
                        && is_ident(toks.get(i + 2), &["with_type"])
                        && is_paren(toks.get(i + 3), false)
                    {
                        i += 2;
                        continue;
                    }
                    out.push_str(&show_ident(&s));
                }
                TokenTree::Punct(p) => {
                    let c = p.as_char();
                    if c == '&' {
                        // keep `&&` and `&=`, drop the reference operator
                        if p.spacing() == Spacing::Joint && (is_punct(toks.get(i + 1), '&') || is_punct(toks.get(i + 1), '=')) {
                            out.push('&');
                            if let Some(TokenTree::Punct(q)) = toks.get(i + 1) {
                                out.push(q.as_char());
                            }
                            i += 2;
                            continue;
                        }
                    } else if c == '.' && is_ident(toks.get(i + 1), &["clone", "to_string"]) && is_paren(toks.get(i + 2), true) {
                        i += 3;
                        continue;
                    } else {
                        out.push(c);
                    }
                }
                TokenTree::Literal(l) => {
                    let s = l.to_string();
                    let is_str = s.starts_with('"')
                        || s.starts_with("r\"")
                        || s.starts_with("r#")
                        || s.starts_with("b\"")
                        || s.starts_with("br")
                        || s.starts_with("c\"");
                    if is_str {
                        out.push_str("STR");
                    } else {
                        out.push_str(&s);
                    }
                }
                TokenTree::Group(g) => {
                    let (o, c) = match g.delimiter() {
                        Delimiter::Parenthesis => ("(", ")"),
                        Delimiter::Brace => ("{", "}"),
                        Delimiter::Bracket => ("[", "]"),
                        Delimiter::None => ("", ""),
                    };
                    out.push_str(o);
                    render(g.stream(), out);
                    out.push_str(c);
                }
            }
            i += 1;
        }
    }

    /// the normalised text of a piece of syntax
    fn text(t: impl ToTokens) -> String {
        let mut s = String::new();
        render(t.to_token_stream(), &mut s);
        s
    }

    /// a pattern without its type ascription (`x: T` ↦ `x`)
    fn pat_text(p: &Pat) -> String {
        match p {
            Pat::Type(t) => pat_text(&t.pat),
            other => text(other),
        }
    }

    // ------------------------------------------------------------- renaming

    /// Scoped alpha-renaming of the variables bound inside a body: the k-th
    /// binding occurrence (in source order) is renamed to the placeholder
    /// `__vk__`, its uses follow Rust's scoping. Variables whose name ends in
    /// `scope` (bound inside or not) become `__S__`. Shorthand fields
    /// (`Foo { x }`) are expanded to `Foo { x: x }` first, so the field name
    /// survives. Statements, arms and fields under `#[cfg(feature = "verif-hooks")]` are removed.
    struct Renamer {
        env: Vec<(String, usize)>,
        next: usize,
        /// the names (and numbers) bound by the first alternative of the or-pattern being bound
        or_reuse: Vec<(String, usize)>,
        /// locals defined as `let x = <…>.id`
        id_locals: HashSet<usize>,
    }

    impl Renamer {
        fn new() -> Self {
            Renamer { env: vec![], next: 0, or_reuse: vec![], id_locals: HashSet::new() }
        }

        fn lookup(&self, n: &str) -> Option<usize> {
            self.env.iter().rev().find(|(m, _)| m == n).map(|(_, k)| *k)
        }

        fn placeholder(name: &str, k: usize, span: Span) -> Ident {
            if name.ends_with("scope") {
                Ident::new("__S__", span)
            } else {
                Ident::new(&format!("__v{k}__"), span)
            }
        }

        fn bind_pat(&mut self, p: &mut Pat) {
            match p {
                Pat::Ident(pi) => {
                    let name = pi.ident.to_string();
                    let ctor = pi.subpat.is_none()
                        && pi.by_ref.is_none()
                        && pi.mutability.is_none()
                        && name.chars().next().map_or(false, |c| c.is_uppercase());
                    if !ctor {
                        let k = match self.or_reuse.iter().find(|(m, _)| *m == name) {
                            Some((_, k)) => *k,
                            None => {
                                let k = self.next;
                                self.next += 1;
                                self.env.push((name.clone(), k));
                                k
                            }
                        };
                        pi.ident = Self::placeholder(&name, k, pi.ident.span());
                        pi.mutability = None;
                    }
                    if let Some((_, sub)) = &mut pi.subpat {
                        self.bind_pat(sub);
                    }
                }
                Pat::Or(o) => {
                    let start = self.env.len();
                    let saved = std::mem::take(&mut self.or_reuse);
                    let mut first = true;
                    for c in o.cases.iter_mut() {
                        if first {
                            self.or_reuse = saved.clone();
                            self.bind_pat(c);
                            let mut r = saved.clone();
                            r.extend(self.env[start..].iter().cloned());
                            self.or_reuse = r;
                            first = false;
                        } else {
                            self.bind_pat(c);
                        }
                    }
                    self.or_reuse = saved;
                }
                Pat::Paren(x) => self.bind_pat(&mut x.pat),
                Pat::Reference(x) => self.bind_pat(&mut x.pat),
                Pat::Type(x) => self.bind_pat(&mut x.pat),
                Pat::Slice(x) => x.elems.iter_mut().for_each(|e| self.bind_pat(e)),
                Pat::Tuple(x) => x.elems.iter_mut().for_each(|e| self.bind_pat(e)),
                Pat::TupleStruct(x) => x.elems.iter_mut().for_each(|e| self.bind_pat(e)),
                Pat::Struct(x) => {
                    for f in x.fields.iter_mut() {
                        if f.colon_token.is_none() {
                            f.colon_token = Some(Default::default());
                        }
                        self.bind_pat(&mut f.pat);
                    }
                }
                _ => {}
            }
        }

        /// inside a macro only tokens are available: rename the identifiers that
        /// are neither fields / methods (after `.`) nor path segments nor macro names
        fn rename_tokens(&self, ts: TokenStream) -> TokenStream {
            let toks: Vec<TokenTree> = ts.into_iter().collect();
            let mut out = Vec::with_capacity(toks.len());
            for (i, t) in toks.iter().enumerate() {
                match t {
                    TokenTree::Ident(id) => {
                        let prev = if i > 0 { toks.get(i - 1) } else { None };
                        let prev2 = if i > 1 { toks.get(i - 2) } else { None };
                        let next = toks.get(i + 1);
                        let after_dot = is_punct(prev, '.') && !is_punct(prev2, '.');
                        let in_path = (is_punct(prev, ':') && is_punct(prev2, ':')) || (is_punct(next, ':') && is_punct(toks.get(i + 2), ':'));
                        let name = id.to_string();
                        if after_dot || in_path || is_punct(next, '!') {
                            out.push(t.clone());
                        } else if let Some(k) = self.lookup(&name) {
                            out.push(TokenTree::Ident(Self::placeholder(&name, k, id.span())));
                        } else if name.ends_with("scope") {
                            out.push(TokenTree::Ident(Ident::new("__S__", id.span())));
                        } else {
                            out.push(t.clone());
                        }
                    }
                    TokenTree::Group(g) => {
                        let mut ng = proc_macro2::Group::new(g.delimiter(), self.rename_tokens(g.stream()));
                        ng.set_span(g.span());
                        out.push(TokenTree::Group(ng));
                    }
                    other => out.push(other.clone()),
                }
            }
            out.into_iter().collect()
        }
    }

    impl VisitMut for Renamer {
        fn visit_block_mut(&mut self, b: &mut syn::Block) {
            b.stmts.retain(|s| !stmt_is_hook(s));
            let n = self.env.len();
            for s in b.stmts.iter_mut() {
                self.visit_stmt_mut(s);
            }
            self.env.truncate(n);
        }

        fn visit_local_mut(&mut self, l: &mut syn::Local) {
            let mut is_id = false;
            if let Some(init) = &mut l.init {
                self.visit_expr_mut(&mut init.expr);
                if let Some((_, d)) = &mut init.diverge {
                    self.visit_expr_mut(d);
                }
                is_id = text(&init.expr).ends_with(".id");
            }
            let k = self.next;
            let plain = matches!(&l.pat, Pat::Ident(_));
            self.bind_pat(&mut l.pat);
            if is_id && plain && self.next == k + 1 {
                self.id_locals.insert(k);
            }
        }

        fn visit_item_mut(&mut self, _: &mut syn::Item) {}

        fn visit_macro_mut(&mut self, m: &mut syn::Macro) {
            m.tokens = self.rename_tokens(std::mem::take(&mut m.tokens));
        }

        fn visit_expr_mut(&mut self, e: &mut Expr) {
            match e {
                Expr::Path(p)
                    if p.qself.is_none()
                        && p.path.leading_colon.is_none()
                        && p.path.segments.len() == 1
                        && p.path.segments[0].arguments.is_none() =>
                {
                    let id = &mut p.path.segments[0].ident;
                    let name = id.to_string();
                    if let Some(k) = self.lookup(&name) {
                        *id = Self::placeholder(&name, k, id.span());
                    } else if name.ends_with("scope") {
                        *id = Ident::new("__S__", id.span());
                    }
                }
                Expr::Closure(c) => {
                    let n = self.env.len();
                    for p in c.inputs.iter_mut() {
                        self.bind_pat(p);
                    }
                    self.visit_expr_mut(&mut c.body);
                    self.env.truncate(n);
                }
                Expr::If(i) => {
                    let n = self.env.len();
                    self.visit_expr_mut(&mut i.cond);
                    self.visit_block_mut(&mut i.then_branch);
                    self.env.truncate(n);
                    if let Some((_, els)) = &mut i.else_branch {
                        self.visit_expr_mut(els);
                    }
                }
                Expr::While(w) => {
                    let n = self.env.len();
                    self.visit_expr_mut(&mut w.cond);
                    self.visit_block_mut(&mut w.body);
                    self.env.truncate(n);
                }
                Expr::Let(l) => {
                    self.visit_expr_mut(&mut l.expr);
                    self.bind_pat(&mut l.pat);
                }
                Expr::Match(m) => {
                    self.visit_expr_mut(&mut m.expr);
                    m.arms.retain(|a| !is_hook_cfg(&a.attrs));
                    for arm in m.arms.iter_mut() {
                        let n = self.env.len();
                        self.bind_pat(&mut arm.pat);
                        if let Some((_, g)) = &mut arm.guard {
                            self.visit_expr_mut(g);
                        }
                        self.visit_expr_mut(&mut arm.body);
                        self.env.truncate(n);
                    }
                }
                Expr::ForLoop(f) => {
                    self.visit_expr_mut(&mut f.expr);
                    let n = self.env.len();
                    self.bind_pat(&mut f.pat);
                    self.visit_block_mut(&mut f.body);
                    self.env.truncate(n);
                }
                Expr::Struct(s) => {
                    if s.fields.iter().any(|f| is_hook_cfg(&f.attrs)) {
                        let kept: Vec<syn::FieldValue> = s.fields.iter().filter(|f| !is_hook_cfg(&f.attrs)).cloned().collect();
                        s.fields = kept.into_iter().collect();
                    }
                    for f in s.fields.iter_mut() {
                        if f.colon_token.is_none() {
                            f.colon_token = Some(Default::default());
                        }
                        self.visit_expr_mut(&mut f.expr);
                    }
                    if let Some(r) = &mut s.rest {
                        self.visit_expr_mut(r);
                    }
                }
                _ => syn::visit_mut::visit_expr_mut(self, e),
            }
        }
    }

    // --------------------------------------------------------------- events

    fn peel(e: &Expr) -> &Expr {
        match e {
            Expr::Try(t) => peel(&t.expr),
            Expr::Reference(r) => peel(&r.expr),
            Expr::Paren(p) => peel(&p.expr),
            Expr::Group(g) => peel(&g.expr),
            other => other,
        }
    }

    fn is_self(e: &Expr) -> bool {
        matches!(e, Expr::Path(p) if p.path.is_ident("self"))
    }

    fn is_plain_ident(e: &Expr) -> bool {
        matches!(peel(e), Expr::Path(p) if p.qself.is_none() && p.path.get_ident().is_some())
    }

    fn on_type_info(receiver: &Expr) -> bool {
        let r = text(receiver);
        r == "self.type_info" || r.starts_with("self.type_info.")
    }

    fn call_named<'a>(e: &'a Expr, name: &str) -> Option<&'a syn::ExprCall> {
        match e {
            Expr::Call(c) if matches!(&*c.func, Expr::Path(p) if p.path.is_ident(name)) => Some(c),
            _ => None,
        }
    }

    /// does the expression contain `if` / `match` / a block / a loop?
    fn is_simple(e: &Expr) -> bool {
        struct F(bool);
        impl<'ast> Visit<'ast> for F {
            fn visit_expr(&mut self, e: &'ast Expr) {
                match e {
                    Expr::If(_) | Expr::Match(_) | Expr::Block(_) | Expr::ForLoop(_) | Expr::While(_) | Expr::Loop(_)
                    | Expr::Unsafe(_) | Expr::Async(_) | Expr::TryBlock(_) | Expr::Const(_) => self.0 = true,
                    _ => syn::visit::visit_expr(self, e),
                }
            }
        }
        let mut f = F(false);
        f.visit_expr(e);
        !f.0
    }

    fn calls_self(e: &Expr) -> bool {
        struct F(bool);
        impl<'ast> Visit<'ast> for F {
            fn visit_expr_method_call(&mut self, m: &'ast syn::ExprMethodCall) {
                if is_self(&m.receiver) {
                    self.0 = true;
                }
                syn::visit::visit_expr_method_call(self, m);
            }
        }
        let mut f = F(false);
        f.visit_expr(e);
        f.0
    }

    struct Walker<'a> {
        ev: Vec<String>,
        id_locals: &'a HashSet<usize>,
        /// the `match` on this (normalised) scrutinee is not descended into
        elide: Option<&'a str>,
    }

    impl Walker<'_> {
        fn is_id_text(&self, t: &str) -> bool {
            if t == "id" || t == "span" || t == "MetaId(0)" || t.ends_with(".id") {
                return true;
            }
            match t.strip_prefix('$').and_then(|k| k.parse::<usize>().ok()) {
                Some(k) => self.id_locals.contains(&k),
                None => false,
            }
        }

        fn call_event(&self, mc: &syn::ExprMethodCall, ti: bool) -> String {
            let name = mc.method.to_string();
            if !ti && name.starts_with("error_") {
                return name;
            }
            let mut args: Vec<&Expr> = mc.args.iter().collect();
            if !ti && SCOPE_FIRST.contains(&name.as_str()) && args.first().map_or(false, |a| is_plain_ident(a)) {
                args.remove(0);
            }
            let mut texts: Vec<String> = args.into_iter().map(text).collect();
            if texts.last().map(|s| s.as_str()) == Some("None") {
                texts.pop();
            }
            texts.retain(|t| !self.is_id_text(t));
            format!("{}{}({})", if ti { "ti." } else { "" }, name, texts.join(","))
        }

        fn obligation_event(mc: &syn::ExprMethodCall) -> String {
            let mut name = "?".to_string();
            if let Some(Expr::Struct(s)) = mc.args.first().map(peel) {
                for f in &s.fields {
                    if matches!(&f.member, syn::Member::Named(n) if n == "ident") {
                        for t in f.expr.to_token_stream() {
                            if let TokenTree::Literal(l) = t {
                                if let Ok(syn::Lit::Str(s)) = syn::parse_str::<syn::Lit>(&l.to_string()) {
                                    name = s.value();
                                    break;
                                }
                            }
                        }
                    }
                }
            }
            format!("obligation({name})")
        }

        /// if `e` (modulo `?`, `&`, parentheses) is itself an event, emit it with `prefix` and walk its arguments
        fn event_expr(&mut self, e: &Expr, prefix: &str) -> bool {
            match peel(e) {
                Expr::MethodCall(mc) if is_self(&mc.receiver) => {
                    let ev = self.call_event(mc, false);
                    self.ev.push(format!("{prefix}{ev}"));
                    for a in &mc.args {
                        self.visit_expr(a);
                    }
                    true
                }
                Expr::MethodCall(mc) if on_type_info(&mc.receiver) && TI_METHODS.iter().any(|m| mc.method == m) => {
                    let ev = self.call_event(mc, true);
                    self.ev.push(format!("{prefix}{ev}"));
                    for a in &mc.args {
                        self.visit_expr(a);
                    }
                    true
                }
                p => match call_named(p, "Ok") {
                    Some(c) => {
                        self.ev.push(format!("{prefix}Ok({})", text(&c.args)));
                        for a in &c.args {
                            self.visit_expr(a);
                        }
                        true
                    }
                    None => false,
                },
            }
        }

        /// an expression statement `e;`: one that neither calls `self` nor is bookkeeping on
        /// `self.type_info` / `self.obligations` is written out (`x = true`, `v.push(y)`, `continue` …)
        fn statement(&mut self, e: &Expr) {
            let t = text(e);
            let skip = matches!(peel(e), Expr::Return(_) | Expr::Macro(_))
                || calls_self(e)
                || t.starts_with("self.type_info.")
                || t.starts_with("self.obligations.");
            if !skip && is_simple(e) {
                self.ev.push(t);
            }
            self.visit_expr(e);
        }

        /// an expression in value position: the tail of a block, the body of an arm
        fn value(&mut self, e: &Expr) {
            let p = peel(e);
            let quiet = match p {
                Expr::If(_) | Expr::Match(_) | Expr::Block(_) | Expr::ForLoop(_) | Expr::While(_) | Expr::Loop(_)
                | Expr::Unsafe(_) | Expr::Return(_) => true,
                Expr::MethodCall(mc) => {
                    is_self(&mc.receiver)
                        || (on_type_info(&mc.receiver) && TI_METHODS.iter().any(|m| mc.method == m))
                        || (text(&mc.receiver) == "self.obligations" && mc.method == "push")
                }
                other => call_named(other, "Ok").is_some() || call_named(other, "Err").is_some(),
            };
            if !quiet && is_simple(e) {
                self.ev.push(format!("value({})", text(e)));
            }
            self.visit_expr(e);
        }
    }

    impl<'ast> Visit<'ast> for Walker<'_> {
        fn visit_item(&mut self, _: &'ast syn::Item) {}

        fn visit_block(&mut self, b: &'ast syn::Block) {
            let last = b.stmts.len().wrapping_sub(1);
            for (i, s) in b.stmts.iter().enumerate() {
                match s {
                    Stmt::Expr(e, None) if i == last => self.value(e),
                    other => self.visit_stmt(other),
                }
            }
        }

        fn visit_local(&mut self, l: &'ast syn::Local) {
            let Some(init) = &l.init else { return };
            let pat = pat_text(&l.pat);
            if let Some((_, d)) = &init.diverge {
                self.ev.push(format!("letelse({pat}={})", text(&init.expr)));
                self.visit_expr(&init.expr);
                self.ev.push("else".into());
                self.visit_expr(d);
                self.ev.push("end".into());
            } else if self.event_expr(&init.expr, &format!("{pat}=")) {
            } else if is_simple(&init.expr) {
                self.ev.push(format!("{pat}={}", text(&init.expr)));
                self.visit_expr(&init.expr);
            } else {
                self.ev.push(format!("let({pat})"));
                self.visit_expr(&init.expr);
                if matches!(peel(&init.expr), Expr::Block(_)) {
                    self.ev.push("end".into());
                }
            }
        }

        fn visit_stmt(&mut self, s: &'ast Stmt) {
            match s {
                Stmt::Expr(e, Some(_)) => self.statement(e),
                other => syn::visit::visit_stmt(self, other),
            }
        }

        fn visit_expr_assign(&mut self, a: &'ast syn::ExprAssign) {
            if is_plain_ident(&a.left) && self.event_expr(&a.right, &format!("{}=", text(&a.left))) {
                return;
            }
            syn::visit::visit_expr_assign(self, a);
        }

        fn visit_expr_method_call(&mut self, mc: &'ast syn::ExprMethodCall) {
            if is_self(&mc.receiver) {
                let ev = self.call_event(mc, false);
                self.ev.push(ev);
                for a in &mc.args {
                    self.visit_expr(a);
                }
            } else if on_type_info(&mc.receiver) {
                if TI_METHODS.iter().any(|m| mc.method == m) {
                    let ev = self.call_event(mc, true);
                    self.ev.push(ev);
                }
                for a in &mc.args {
                    self.visit_expr(a);
                }
            } else if text(&mc.receiver) == "self.obligations" && mc.method == "push" {
                self.ev.push(Self::obligation_event(mc));
            } else {
                syn::visit::visit_expr_method_call(self, mc);
            }
        }

        fn visit_expr_call(&mut self, c: &'ast syn::ExprCall) {
            if matches!(&*c.func, Expr::Path(p) if p.path.is_ident("Ok")) {
                self.ev.push(format!("Ok({})", text(&c.args)));
            }
            syn::visit::visit_expr_call(self, c);
        }

        fn visit_expr_return(&mut self, r: &'ast syn::ExprReturn) {
            self.ev.push("return".into());
            syn::visit::visit_expr_return(self, r);
        }

        fn visit_expr_binary(&mut self, b: &'ast syn::ExprBinary) {
            let op = match b.op {
                syn::BinOp::BitOrAssign(_) => Some("|="),
                syn::BinOp::BitAndAssign(_) => Some("&="),
                _ => None,
            };
            match op {
                Some(op) => {
                    self.visit_expr(&b.left);
                    if calls_self(&b.right) {
                        self.ev.push(op.into());
                    }
                    self.visit_expr(&b.right);
                }
                None => syn::visit::visit_expr_binary(self, b),
            }
        }

        fn visit_expr_if(&mut self, i: &'ast syn::ExprIf) {
            self.ev.push(format!("if({})", text(&i.cond)));
            self.visit_expr(&i.cond);
            self.visit_block(&i.then_branch);
            if let Some((_, els)) = &i.else_branch {
                self.ev.push("else".into());
                self.visit_expr(els);
            }
            self.ev.push("end".into());
        }

        fn visit_expr_match(&mut self, m: &'ast syn::ExprMatch) {
            let scrut = text(&m.expr);
            self.ev.push(format!("match({scrut})"));
            if self.elide == Some(scrut.as_str()) {
                self.ev.push("...".into());
                self.ev.push("end".into());
                return;
            }
            self.visit_expr(&m.expr);
            for arm in &m.arms {
                self.ev.push(format!("arm({})", text(&arm.pat)));
                if let Some((_, g)) = &arm.guard {
                    self.ev.push(format!("guard({})", text(g)));
                    self.visit_expr(g);
                }
                self.value(&arm.body);
            }
            self.ev.push("end".into());
        }

        fn visit_expr_for_loop(&mut self, f: &'ast syn::ExprForLoop) {
            self.ev.push(format!("for({}<-{})", text(&f.pat), text(&f.expr)));
            self.visit_expr(&f.expr);
            self.visit_block(&f.body);
            self.ev.push("end".into());
        }

        fn visit_expr_while(&mut self, w: &'ast syn::ExprWhile) {
            self.ev.push(format!("while({})", text(&w.cond)));
            self.visit_expr(&w.cond);
            self.visit_block(&w.body);
            self.ev.push("end".into());
        }

        fn visit_expr_loop(&mut self, l: &'ast syn::ExprLoop) {
            self.ev.push("loop".into());
            self.visit_block(&l.body);
            self.ev.push("end".into());
        }
    }

    /// the events of an arm body (its pattern's variables are free, like function parameters)
    fn arm_events(body: &Expr) -> Vec<String> {
        // (canonical form first: harmless spellings — a named subexpression, De Morgan, swapped operands of `==` — give the same skeleton)
        let mut body = super::canon::expr(body);
        let mut r = Renamer::new();
        r.visit_expr_mut(&mut body);
        // (operands of `==` / `!=` ordered once more, now by their alpha-renamed text: the order must not depend on how a local is called)
        super::canon::Logic.visit_expr_mut(&mut body);
        let mut w = Walker { ev: vec![], id_locals: &r.id_locals, elide: None };
        w.value(&body);
        w.ev
    }

    /// the events of a whole function body
    fn fn_events(block: &syn::Block, elide: Option<&str>) -> Vec<String> {
        let mut block = super::canon::block(block);
        let mut r = Renamer::new();
        r.visit_block_mut(&mut block);
        super::canon::Logic.visit_block_mut(&mut block);
        let mut w = Walker { ev: vec![], id_locals: &r.id_locals, elide };
        w.visit_block(&block);
        w.ev
    }

    // ----------------------------------------------------------- the tables

    fn the_match(f: &find::FnBody, fname: &str, scrut: &str) -> Result<syn::ExprMatch, String> {
        let mut ms = find::matches_on(&f.block, scrut);
        if ms.len() != 1 {
            return Err(format!("expected one `match {scrut}` in TypeChecker::{fname}, found {}", ms.len()));
        }
        let mut m = ms.pop().unwrap();
        m.arms.retain(|a| !is_hook_cfg(&a.attrs));
        Ok(m)
    }

    /// `Name`, `Name(x, _, ..)`, `path::Name(..)`: the constructor's name
    fn plain_ctor(p: &Pat, single_segment: bool) -> Option<String> {
        let path_name = |path: &syn::Path| -> Option<String> {
            if single_segment && path.segments.len() != 1 {
                return None;
            }
            let last = path.segments.last()?;
            if !last.arguments.is_none() {
                return None;
            }
            Some(last.ident.to_string())
        };
        match p {
            Pat::Ident(i) if i.subpat.is_none() && i.by_ref.is_none() && i.mutability.is_none() => {
                let n = i.ident.to_string();
                if n.chars().next().map_or(false, |c| c.is_uppercase()) { Some(n) } else { None }
            }
            Pat::Path(pp) if pp.qself.is_none() => path_name(&pp.path),
            Pat::TupleStruct(t) if t.qself.is_none() => {
                let ok = t.elems.iter().all(|e| match e {
                    Pat::Wild(_) | Pat::Rest(_) => true,
                    Pat::Ident(i) => i.subpat.is_none() && i.ident.to_string().chars().next().map_or(false, |c| !c.is_uppercase()),
                    _ => false,
                });
                if ok { path_name(&t.path) } else { None }
            }
            _ => None,
        }
    }

    fn ctor_arms(m: &syn::ExprMatch, what: &str, single_segment: bool) -> Result<Vec<(String, Vec<String>)>, String> {
        let mut rows: Vec<(String, Vec<String>)> = Vec::new();
        for arm in &m.arms {
            if arm.guard.is_some() {
                return Err(format!("{what}: arm `{}` has a guard", text(&arm.pat)));
            }
            let name = plain_ctor(&arm.pat, single_segment)
                .ok_or_else(|| format!("{what}: arm pattern `{}` is not a plain constructor pattern", text(&arm.pat)))?;
            if rows.iter().any(|(n, _)| *n == name) {
                return Err(format!("{what}: two arms for constructor `{name}`"));
            }
            rows.push((name, arm_events(&arm.body)));
        }
        if rows.is_empty() {
            return Err(format!("{what}: no arms"));
        }
        Ok(rows)
    }

    fn lean_str(s: &str) -> String {
        let mut o = String::with_capacity(s.len() + 2);
        o.push('"');
        for c in s.chars() {
            match c {
                '"' => o.push_str("\\\""),
                '\\' => o.push_str("\\\\"),
                '\n' => o.push_str("\\n"),
                '\t' => o.push_str("\\t"),
                '\r' => o.push_str("\\r"),
                c => o.push(c),
            }
        }
        o.push('"');
        o
    }

    fn lean_table(doc: &str, name: &str, rows: &[(String, Vec<String>)]) -> String {
        let mut o = format!("/-- {doc} -/\ndef {name} : List (String × List String) := [\n");
        for (i, (k, evs)) in rows.iter().enumerate() {
            let sep = if i + 1 == rows.len() { "" } else { "," };
            if evs.is_empty() {
                o.push_str(&format!("  ({}, []){sep}\n", lean_str(k)));
                continue;
            }
            o.push_str(&format!("  ({}, [\n", lean_str(k)));
            for (j, e) in evs.iter().enumerate() {
                let s = if j + 1 == evs.len() { "" } else { "," };
                o.push_str(&format!("    {}{s}\n", lean_str(e)));
            }
            o.push_str(&format!("  ]){sep}\n"));
        }
        o.push_str("]\n\n");
        o
    }

    /// events of one function / of one arm of `TypeChecker::expr`, with every local written `$` (for feature
    /// detection in `c07facts` that survives a renamed or inlined local)
    pub fn anon(events: &[String]) -> Vec<String> {
        events
            .iter()
            .map(|e| {
                let mut o = String::new();
                let mut it = e.chars().peekable();
                while let Some(c) = it.next() {
                    o.push(c);
                    if c == '$' {
                        while it.peek().is_some_and(|d| d.is_ascii_digit()) {
                            it.next();
                        }
                    }
                }
                o
            })
            .collect()
    }
    pub fn events_of_fn(file: &syn::File, name: &str) -> Result<Vec<String>, String> {
        Ok(anon(&fn_events(&find::func(file, name, Some("TypeChecker"))?.block, None)))
    }
    pub fn events_of_expr_arm(expr_rs: &syn::File, ctor: &str) -> Result<Vec<String>, String> {
        let expr_fn = find::func(expr_rs, "expr", Some("TypeChecker"))?;
        let arms = ctor_arms(&the_match(&expr_fn, "expr", "&expr.node")?, "exprArms", true)?;
        arms.into_iter().find(|(k, _)| k == ctor).map(|(_, e)| anon(&e)).ok_or_else(|| format!("expr: no arm `{ctor}`"))
    }
    /// do the events contain this run of consecutive events?
    pub fn has_seq(evs: &[String], ps: &[&str]) -> bool {
        !ps.is_empty() && evs.windows(ps.len()).any(|w| w.iter().zip(ps).all(|(a, b)| a == b))
    }

    pub fn c07arms(repo: &Path) -> Result<String, String> {
        let expr_rs = find::parse(repo, "src/typechecker/expr.rs")?;
        let function_rs = find::parse(repo, "src/typechecker/function.rs")?;
        let mod_rs = find::parse(repo, "src/typechecker/mod.rs")?;
        let tc = Some("TypeChecker");

        let expr_fn = find::func(&expr_rs, "expr", tc)?;
        let stmt_fn = find::func(&expr_rs, "stmt", tc)?;
        let literal_fn = find::func(&expr_rs, "literal", tc)?;

        let expr_arms = ctor_arms(&the_match(&expr_fn, "expr", "&expr.node")?, "exprArms", true)?;
        let stmt_arms = ctor_arms(&the_match(&stmt_fn, "stmt", "&stmt.node")?, "stmtArms", false)?;
        let lit_match = the_match(&literal_fn, "literal", "&lit.node")?;
        let mut literal_arms: Vec<(String, Vec<String>)> = Vec::new();
        for arm in &lit_match.arms {
            if arm.guard.is_some() {
                return Err(format!("literalArms: arm `{}` has a guard", text(&arm.pat)));
            }
            // the pattern is the key: written as in the source (its variables are not renamed)
            let key = arm.pat.to_token_stream().to_string().replace([' ', '\n'], "").replace('&', "");
            if literal_arms.iter().any(|(k, _)| *k == key) {
                return Err(format!("literalArms: two arms `{key}`"));
            }
            literal_arms.push((key, arm_events(&arm.body)));
        }
        if literal_arms.is_empty() {
            return Err("literalArms: no arms".into());
        }

        let mut fns: Vec<(String, Vec<String>)> = Vec::new();
        for name in ["block", "match_expr", "binop", "check_arguments", "record_fields", "path_function_call", "method_call", "access_field"] {
            fns.push((name.to_string(), fn_events(&find::func(&expr_rs, name, tc)?.block, None)));
        }
        for name in ["function", "constant", "filter_map", "test"] {
            fns.push((name.to_string(), fn_events(&find::func(&function_rs, name, tc)?.block, None)));
        }
        fns.push(("unify".to_string(), fn_events(&find::func(&mod_rs, "unify", tc)?.block, None)));
        // the deferred `to_string` obligations of f-string parts (Model/TcInfer.lean `resolveObligations`)
        fns.push(("resolve_obligations".to_string(), fn_events(&find::func(&mod_rs, "resolve_obligations", tc)?.block, None)));
        // what `expr`, `stmt` and `literal` do around the `match` whose arms are listed above
        fns.push(("expr".to_string(), fn_events(&expr_fn.block, Some("expr.node"))));
        fns.push(("stmt".to_string(), fn_events(&stmt_fn.block, Some("stmt.node"))));
        fns.push(("literal".to_string(), fn_events(&literal_fn.block, Some("lit.node"))));

        let mut out = String::new();
        out.push_str("/- GENERATED by /verif/extract (target c07arms) from src/typechecker/expr.rs, function.rs, mod.rs — do not edit.\n");
        out.push_str("   Call skeleton of the type checker's expression code; the event vocabulary is described in\n");
        out.push_str("   extract/src/targets/c07.rs (`mod arms`). Locals are alpha-renamed to `$k`. -/\n");
        out.push_str("namespace RotoV.Gen.C07Arms\n\n");
        out.push_str(&lean_table(
            "per arm of `match &expr.node` in `TypeChecker::expr`: constructor name, events in source order",
            "exprArms",
            &expr_arms,
        ));
        out.push_str(&lean_table("per arm of `match &stmt.node` in `TypeChecker::stmt`", "stmtArms", &stmt_arms));
        out.push_str(&lean_table(
            "per arm of `match &lit.node` in `TypeChecker::literal` (pattern text normalised, e.g. \"Integer(_,Some(ty))\")",
            "literalArms",
            &literal_arms,
        ));
        out.push_str(&lean_table(
            "whole-function skeletons: block, match_expr, binop, check_arguments, record_fields, path_function_call, method_call, access_field (expr.rs); function, constant, filter_map, test (function.rs); unify (mod.rs, only the fn `unify`, not unify_inner), resolve_obligations (mod.rs); and expr, stmt, literal (expr.rs) with the `match` whose arms are listed above elided (`...`)",
            "fnSkeletons",
            &fns,
        ));
        out.push_str("end RotoV.Gen.C07Arms\n");
        Ok(out)
    }

    /// `C07Cycle.lean`: the same kind of skeleton for src/typechecker/value_cycle.rs — the two
    /// loops of `find_compilation_order` and Tarjan's algorithm (`tarjan`, `strongly_connect`,
    /// `State::update_lowlink`, the fields of `VertexState` and `State`). `Model/Tarjan.lean` was
    /// written from it; `Model/TcValueCyclePinned.lean` holds the copy.
    pub fn c07cycle(repo: &Path) -> Result<String, String> {
        let file = find::parse(repo, "src/typechecker/value_cycle.rs")?;
        let mut fns: Vec<(String, Vec<String>)> = Vec::new();
        fns.push((
            "find_compilation_order".to_string(),
            fn_events(&find::func(&file, "find_compilation_order", Some("TypeChecker"))?.block, None),
        ));
        fns.push(("tarjan".to_string(), fn_events(&find::func(&file, "tarjan", None)?.block, None)));
        fns.push(("strongly_connect".to_string(), fn_events(&find::func(&file, "strongly_connect", None)?.block, None)));
        fns.push(("update_lowlink".to_string(), fn_events(&find::func(&file, "update_lowlink", Some("State"))?.block, None)));
        // the state the algorithm keeps: field names and types of the two structs
        for sname in ["VertexState", "State"] {
            let mut found = None;
            for item in &file.items {
                if let syn::Item::Struct(st) = item {
                    if st.ident == sname && !is_hook_cfg(&st.attrs) {
                        found = Some(st);
                    }
                }
            }
            let st = found.ok_or_else(|| format!("struct {sname} not found in value_cycle.rs"))?;
            let fields: Vec<String> = st
                .fields
                .iter()
                .filter(|f| !is_hook_cfg(&f.attrs))
                .map(|f| {
                    format!(
                        "{}:{}",
                        f.ident.as_ref().map(|i| i.to_string()).unwrap_or_default(),
                        f.ty.to_token_stream().to_string().replace([' ', '\n'], "")
                    )
                })
                .collect();
            fns.push((format!("struct {sname}"), fields));
        }
        let mut out = String::new();
        out.push_str("/- GENERATED by /verif/extract (target c07cycle) from src/typechecker/value_cycle.rs — do not edit.\n");
        out.push_str("   Skeleton of find_compilation_order and of Tarjan's algorithm (event vocabulary: extract/src/targets/c07.rs, `mod arms`). -/\n");
        out.push_str("namespace RotoV.Gen.C07Cycle\n\n");
        out.push_str(&lean_table(
            "find_compilation_order (TypeChecker), tarjan, strongly_connect, State::update_lowlink: statements and control flow in source order, locals alpha-renamed; and the fields of VertexState / State",
            "cycleSkeletons",
            &fns,
        ));
        out.push_str("end RotoV.Gen.C07Cycle\n");
        Ok(out)
    }
}
