//! Translator targets owned by property C02.
//!
//! `layout` → `Generated/LayoutGen.lean`: the layout arithmetic of
//! `src/runtime/layout.rs`, transliterated function by function:
//! the two structs (field order), the `assert!`s of `Layout::new`,
//! `Layout::{new, is_zero_sized, size, align, union}` and
//! `LayoutBuilder::{new, add, finish}`.
//!
//! `layoutloops` → `Generated/LayoutLoops.lean`: the constants the five
//! independently written enum loops start from — the `Layout::of::<uN>()` tag
//! each of `Pool::layout_of`, `Lowerer::location`,
//! `generate_{clone,drop,eq}_body_enum` adds first — and `layout_of`'s layout
//! of `()`. The model's loops use their own constant; the theorems need them
//! equal, so changing one of them in the source breaks the proofs.
//!
//! `usize` is rendered as `Nat` (no wrap-around: layouts of real types are far
//! below 2^64; stated as an assumption of C02). A `&mut self` method returns
//! the pair `(self', result)`. Std methods get their meaning once, in
//! `RotoV/Model/LayoutStd.lean`. Anything outside this tiny subset is an
//! extraction failure, never a default.
#[allow(unused_imports)]
use super::{Gen, Target};
use crate::find;
use quote::ToTokens;
use std::path::Path;

pub const TARGETS: &[Target] = &[
    ("layout", "LayoutGen", layout as Gen),
    ("layoutloops", "LayoutLoops", layoutloops as Gen),
];

type R = Result<String, String>;

fn norm<T: ToTokens>(t: &T) -> String {
    t.to_token_stream().to_string().replace(' ', "")
}

fn expr(e: &syn::Expr) -> R {
    use syn::Expr as E;
    Ok(match e {
        E::Paren(p) => expr(&p.expr)?,
        E::Reference(r) => expr(&r.expr)?,
        E::Lit(l) => match &l.lit {
            syn::Lit::Int(i) => i.base10_digits().to_string(),
            other => return Err(format!("unsupported literal {}", norm(other))),
        },
        E::Path(p) => {
            let s = norm(&p.path);
            if s.contains("::") {
                return Err(format!("unsupported path {s}"));
            }
            s
        }
        E::Field(f) => {
            let base = expr(&f.base)?;
            let m = match &f.member {
                syn::Member::Named(i) => i.to_string(),
                syn::Member::Unnamed(_) => return Err("tuple field".into()),
            };
            format!("{base}.{m}")
        }
        E::Binary(b) => {
            let l = expr(&b.left)?;
            let r = expr(&b.right)?;
            match &b.op {
                syn::BinOp::Add(_) => format!("({l} + {r})"),
                syn::BinOp::Gt(_) => format!("(decide ({l} > {r}))"),
                syn::BinOp::Eq(_) => format!("(decide ({l} = {r}))"),
                other => return Err(format!("unsupported operator {}", norm(other))),
            }
        }
        E::MethodCall(m) => {
            let r = expr(&m.receiver)?;
            let args: Result<Vec<String>, String> = m.args.iter().map(expr).collect();
            let args = args?;
            let name = m.method.to_string();
            match (name.as_str(), args.len()) {
                ("max", 1) => format!("(Nat.max {r} {})", args[0]),
                ("next_multiple_of", 1) => format!("(nextMultipleOf {r} {})", args[0]),
                ("is_multiple_of", 1) => format!("(isMultipleOf {r} {})", args[0]),
                ("is_power_of_two", 0) => format!("(isPowerOfTwo {r})"),
                ("size", 0) => format!("(Layout.get_size {r})"),
                ("align", 0) => format!("(Layout.get_align {r})"),
                _ => return Err(format!("unsupported method .{name}/{}", args.len())),
            }
        }
        E::Call(c) => {
            let f = norm(&c.func);
            let args: Result<Vec<String>, String> = c.args.iter().map(expr).collect();
            let args = args?;
            match f.as_str() {
                "Layout::new" | "Self::new" => format!("(Layout.new {})", args.join(" ")),
                _ => return Err(format!("unsupported call {f}")),
            }
        }
        E::Struct(s) => {
            let p = norm(&s.path);
            if p != "Self" && p != "Layout" && p != "LayoutBuilder" {
                return Err(format!("unsupported struct literal {p}"));
            }
            if s.rest.is_some() {
                return Err("struct update syntax".into());
            }
            let mut fs = vec![];
            for f in &s.fields {
                let n = match &f.member {
                    syn::Member::Named(i) => i.to_string(),
                    _ => return Err("tuple struct literal".into()),
                };
                fs.push(format!("{n} := {}", expr(&f.expr)?));
            }
            format!("{{ {} }}", fs.join(", "))
        }
        other => return Err(format!("unsupported expression `{}`", norm(other))),
    })
}

/// (lean body, asserts) of a function body in the subset.
fn body(block: &syn::Block, mut_self: bool) -> Result<(String, Vec<String>), String> {
    let mut lines = vec![];
    let mut asserts = vec![];
    let mut result: Option<String> = None;
    for (i, st) in block.stmts.iter().enumerate() {
        let last = i + 1 == block.stmts.len();
        if result.is_some() {
            return Err("statement after the result expression".into());
        }
        match st {
            syn::Stmt::Local(l) => {
                let name = match &l.pat {
                    syn::Pat::Ident(p) if p.subpat.is_none() && p.by_ref.is_none() => {
                        p.ident.to_string()
                    }
                    other => return Err(format!("unsupported let pattern {}", norm(other))),
                };
                let init = l.init.as_ref().ok_or("let without initialiser")?;
                if init.diverge.is_some() {
                    return Err("let-else".into());
                }
                lines.push(format!("  let {name} := {}", expr(&init.expr)?));
            }
            syn::Stmt::Macro(m) => {
                let name = norm(&m.mac.path);
                if name != "assert" {
                    return Err(format!("unsupported macro {name}!"));
                }
                let e: syn::Expr = m
                    .mac
                    .parse_body()
                    .map_err(|e| format!("assert! body: {e}"))?;
                asserts.push(expr(&e)?);
            }
            syn::Stmt::Expr(e, semi) => {
                if let syn::Expr::Assign(a) = e {
                    // self.f = e;
                    let syn::Expr::Field(f) = &*a.left else {
                        return Err(format!("unsupported assignment target {}", norm(&a.left)));
                    };
                    if norm(&f.base) != "self" || !mut_self {
                        return Err("assignment to something other than a field of &mut self".into());
                    }
                    let m = norm(&f.member);
                    lines.push(format!(
                        "  let self := {{ self with {m} := {} }}",
                        expr(&a.right)?
                    ));
                } else if semi.is_none() && last {
                    result = Some(expr(e)?);
                } else {
                    return Err(format!("unsupported statement `{}`", norm(e)));
                }
            }
            syn::Stmt::Item(_) => return Err("nested item".into()),
        }
    }
    let res = result.ok_or("function without a result expression")?;
    let res = if mut_self { format!("(self, {res})") } else { res };
    lines.push(format!("  {res}"));
    Ok((lines.join("\n"), asserts))
}

fn struct_fields(file: &syn::File, name: &str) -> Result<Vec<(String, String)>, String> {
    for it in &file.items {
        if let syn::Item::Struct(s) = it {
            if s.ident == name {
                let mut out = vec![];
                for f in &s.fields {
                    let n = f.ident.as_ref().ok_or("tuple struct")?.to_string();
                    let t = norm(&f.ty);
                    if t != "usize" {
                        return Err(format!("field {name}.{n} has type {t}, expected usize"));
                    }
                    out.push((n, "Nat".to_string()));
                }
                return Ok(out);
            }
        }
    }
    Err(format!("struct {name} not found"))
}

/// binder text and whether the receiver is `&mut self`
fn params(sig: &syn::Signature, self_ty: &str) -> Result<(String, bool), String> {
    let mut out = vec![];
    let mut mut_self = false;
    for a in &sig.inputs {
        match a {
            syn::FnArg::Receiver(r) => {
                mut_self = r.mutability.is_some() && r.reference.is_some();
                out.push(format!("(self : {self_ty})"));
            }
            syn::FnArg::Typed(t) => {
                let n = norm(&t.pat);
                let ty = norm(&t.ty).replace('&', "");
                let lty = match ty.as_str() {
                    "usize" => "Nat",
                    "Self" => self_ty,
                    "Layout" => "Layout",
                    other => return Err(format!("unsupported parameter type {other}")),
                };
                out.push(format!("({n} : {lty})"));
            }
        }
    }
    Ok((out.join(" "), mut_self))
}

fn ret_ty(sig: &syn::Signature, self_ty: &str, mut_self: bool) -> R {
    let t = match &sig.output {
        syn::ReturnType::Default => return Err("no return type".into()),
        syn::ReturnType::Type(_, t) => norm(t),
    };
    let l = match t.as_str() {
        "usize" => "Nat",
        "bool" => "Bool",
        "Self" => self_ty,
        "Layout" => "Layout",
        other => return Err(format!("unsupported return type {other}")),
    };
    Ok(if mut_self {
        format!("{self_ty} × {l}")
    } else {
        l.to_string()
    })
}

fn layout(repo: &Path) -> R {
    let rel = "src/runtime/layout.rs";
    let file = find::parse(repo, rel)?;
    let mut s = format!(
        "/- GENERATED by /verif/extract from {rel} — do not edit. -/\nimport RotoV.Model.LayoutStd\nset_option linter.unusedVariables false\nnamespace RotoV.Gen.LayoutGen\nopen RotoV.LayoutStd\n\n"
    );
    for st in ["Layout", "LayoutBuilder"] {
        let fs = struct_fields(&file, st)?;
        s += &format!("structure {st} where\n");
        for (n, t) in &fs {
            s += &format!("  {n} : {t}\n");
        }
        s += "  deriving DecidableEq, Repr, Inhabited\n\n";
    }
    // accessor methods first (used by the others), then the arithmetic
    let fns: &[(&str, &str, &str)] = &[
        ("Layout", "new", "new"),
        ("Layout", "size", "get_size"),
        ("Layout", "align", "get_align"),
        ("Layout", "is_zero_sized", "is_zero_sized"),
        ("Layout", "union", "union"),
        ("LayoutBuilder", "new", "new"),
        ("LayoutBuilder", "add", "add"),
        ("LayoutBuilder", "finish", "finish"),
    ];
    for (ty, name, lean) in fns {
        let f = find::func(&file, name, Some(ty))?;
        let (binders, mut_self) = params(&f.sig, ty)?;
        let rt = ret_ty(&f.sig, ty, mut_self)?;
        let (b, asserts) = body(&f.block, mut_self).map_err(|e| format!("{ty}::{name}: {e}"))?;
        if !asserts.is_empty() {
            s += &format!(
                "/-- the `assert!`s of `{ty}::{name}`, in source order -/\ndef {ty}.{lean}_asserts {binders} : List Bool :=\n  [{}]\n\n",
                asserts.join(", ")
            );
        } else if *ty == "Layout" && *name == "new" {
            return Err("Layout::new has no assert! any more".into());
        }
        let sp = if binders.is_empty() { "" } else { " " };
        s += &format!("def {ty}.{lean}{sp}{binders} : {rt} :=\n{b}\n\n");
    }
    s += "end RotoV.Gen.LayoutGen\n";
    Ok(s)
}

struct TagFinder {
    found: Vec<String>,
}
impl<'ast> syn::visit::Visit<'ast> for TagFinder {
    fn visit_expr_call(&mut self, c: &'ast syn::ExprCall) {
        let f = norm(&c.func);
        if let Some(t) = f.strip_prefix("Layout::of::<").and_then(|r| r.strip_suffix('>')) {
            if c.args.is_empty() {
                self.found.push(t.to_string());
            }
        }
        syn::visit::visit_expr_call(self, c);
    }
}

fn int_bytes(t: &str) -> Option<usize> {
    Some(match t {
        "u8" | "i8" => 1,
        "u16" | "i16" => 2,
        "u32" | "i32" => 4,
        "u64" | "i64" => 8,
        _ => return None,
    })
}

fn layoutloops(repo: &Path) -> R {
    use syn::visit::Visit;
    let fns: &[(&str, &str, Option<&str>, &str)] = &[
        ("src/mir/ty.rs", "layout_of", Some("Pool"), "tag_layout_of"),
        ("src/lir/lower.rs", "location", Some("Lowerer"), "tag_location"),
        ("src/lir/lower/clones.rs", "generate_clone_body_enum", Some("Lowerer"), "tag_clone"),
        ("src/lir/lower/drops.rs", "generate_drop_body_enum", Some("Lowerer"), "tag_drop"),
        ("src/lir/lower/eq.rs", "generate_eq_body_enum", Some("Lowerer"), "tag_eq"),
    ];
    let mut s = String::from(
        "/- GENERATED by /verif/extract from src/mir/ty.rs, src/lir/lower.rs, src/lir/lower/{clones,drops,eq}.rs — do not edit. -/\nimport RotoV.Generated.LayoutGen\nnamespace RotoV.Gen.LayoutLoops\nopen RotoV.Gen.LayoutGen\n\n",
    );
    for (rel, name, imp, lean) in fns {
        let file = find::parse(repo, rel)?;
        let f = find::func(&file, name, *imp)?;
        let mut tf = TagFinder { found: vec![] };
        tf.visit_block(&f.block);
        let ints: Vec<&String> = tf.found.iter().filter(|t| int_bytes(t).is_some()).collect();
        if ints.len() != 1 {
            return Err(format!(
                "{rel}::{name}: expected exactly one `Layout::of::<integer>()` (the enum tag), found {:?}",
                tf.found
            ));
        }
        let b = int_bytes(ints[0]).unwrap();
        s += &format!(
            "/-- `Layout::of::<{}>()` in `{name}` ({rel}) -/\ndef {lean} : Layout := Layout.new {b} {b}\n\n",
            ints[0]
        );
    }
    // `Ty::Unit => Layout::new(0, 1)` in layout_of
    let file = find::parse(repo, "src/mir/ty.rs")?;
    let f = find::func(&file, "layout_of", Some("Pool"))?;
    let ms = find::matches_on(&f.block, "self.get(ty)");
    if ms.len() != 1 {
        return Err(format!("layout_of: expected one `match self.get(ty)`, found {}", ms.len()));
    }
    let arm = find::arm_for(&ms[0], "Unit")?;
    let body = expr(&arm.body).map_err(|e| format!("layout_of Ty::Unit arm: {e}"))?;
    s += &format!("/-- `Ty::Unit => …` in `layout_of` -/\ndef unit_layout : Layout := {body}\n\n");
    s += "end RotoV.Gen.LayoutLoops\n";
    Ok(s)
}
